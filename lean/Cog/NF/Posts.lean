/-
  C06: pass-level post-conditions under the decidable hypothesis `FlatUnions` ("no union occurs
  below a branch of a union, nor in a map index type"), i.e. exactly the inputs on which the
  `OnDisjunction` hooks — which never recurse into branches — see every union:
    post_DisjunctionWithNullToOptional : FlatUnions S → run S = ok S' → NoNullPairUnion S'
    post_DisjunctionToType             : FlatUnions S → run S = ok S' → NoUnion S'
  and, without that hypothesis, what SanitizeEnumMemberNames establishes on named enums.
-/
import Cog.NF.GoEnumNames
namespace Cog.NF
open Cog.IR Cog.Passes
open Cog.OMap (rget rset)

/-- no union below a union branch, none in a map index type -/
def qFlat : Q := { disjOk := fun bs => noUnionList bs, idxOk := fun i => noUnionTy i }
def FlatUnions := schemasAll (fun o => satTop qFlat o.ty) (sat qFlat)
theorem FlatUnions_iff (S : Schemas) : FlatUnions S = true ↔ AllTop qFlat S := by
  simp [FlatUnions, schemasAll_eq_AllObj, AllTop]

mutual
theorem sat_qNnp : ∀ t : Ty, sat qNnp t = nnpTy t
  | .scalar .. | .ref .. | .cref .. | .slot .. | .bad .. | .enum .. => by simp [sat, nnpTy, qNnp]
  | .array e _ => by simp [sat, nnpTy, sat_qNnp e]
  | .map i v _ => by simp [sat, nnpTy, sat_qNnp i, sat_qNnp v]; simp [qNnp]
  | .struct fs _ _ _ => by simp [sat, nnpTy, satFields_qNnp fs]; simp [qNnp]
  | .disj bs _ _ => by simp [sat, nnpTy, satList_qNnp bs]; simp [qNnp]
  | .inter bs _ => by simp [sat, nnpTy, satList_qNnp bs]; simp [qNnp]
theorem satList_qNnp : ∀ ts : List Ty, satList qNnp ts = nnpList ts
  | [] => by simp [satList, nnpList]
  | t :: ts => by simp [satList, nnpList, sat_qNnp t, satList_qNnp ts]
theorem satFields_qNnp : ∀ fs : List Field, satFields qNnp fs = nnpFields fs
  | [] => by simp [satFields, nnpFields]
  | f :: fs => by simp [satFields, nnpFields, sat_qNnp f.ty, satFields_qNnp fs]; simp [qNnp]
end

theorem satTop_qNnp (t : Ty) : satTop qNnp t = nnpTy t := by
  cases t <;> simp [satTop, sat_qNnp, satFields_qNnp, nnpTy] <;> simp [qNnp]
theorem satTop_qNoUnion (t : Ty) : satTop qNoUnion t = noUnionTy t := by
  cases t <;> simp [satTop, sat_qNoUnion, satFields_qNoUnion, noUnionTy] <;> simp [qNoUnion]

theorem NoNullPairUnion_iff (S : Schemas) : NoNullPairUnion S = true ↔ AllTop qNnp S := by
  simp [NoNullPairUnion, schemasAll_eq_AllObj, AllTop, satTop_qNnp, sat_qNnp]
theorem NoUnion_iff (S : Schemas) : NoUnion S = true ↔ AllTop qNoUnion S := by
  simp [NoUnion, schemasAll_eq_AllObj, AllTop, satTop_qNoUnion, sat_qNoUnion]

/- a type without unions has no `T | null` pair -/
mutual
theorem nnp_of_noUnion : ∀ t : Ty, noUnionTy t = true → sat qNnp t = true
  | .scalar .., _ | .ref .., _ | .cref .., _ | .slot .., _ | .bad .., _ | .enum .., _ => by simp [sat, qNnp]
  | .array e _, h => by simp only [noUnionTy] at h; simp [sat, nnp_of_noUnion e h]
  | .map i v _, h => by
    simp only [noUnionTy, Bool.and_eq_true] at h
    simp [sat, nnp_of_noUnion i h.1, nnp_of_noUnion v h.2]; simp [qNnp]
  | .struct fs _ _ _, h => by simp only [noUnionTy] at h; simp [sat, nnpFields_of_noUnion fs h]; simp [qNnp]
  | .disj .., h => by simp [noUnionTy] at h
  | .inter bs _, h => by simp only [noUnionTy] at h; simp [sat, nnpList_of_noUnion bs h]
theorem nnpList_of_noUnion : ∀ ts : List Ty, noUnionList ts = true → satList qNnp ts = true
  | [], _ => by simp [satList]
  | t :: ts, h => by
    simp only [noUnionList, Bool.and_eq_true] at h
    simp [satList, nnp_of_noUnion t h.1, nnpList_of_noUnion ts h.2]
theorem nnpFields_of_noUnion : ∀ fs : List Field, noUnionFields fs = true → satFields qNnp fs = true
  | [], _ => by simp [satFields]
  | f :: fs, h => by
    simp only [noUnionFields, Bool.and_eq_true] at h
    simp [satFields, nnp_of_noUnion f.ty h.1, nnpFields_of_noUnion fs h.2]; simp [qNnp]
end

theorem noUnionList_mem : ∀ {ts : List Ty} {t : Ty}, noUnionList ts = true → t ∈ ts → noUnionTy t = true
  | [], _, _, h => by simp at h
  | x :: xs, t, hs, h => by
    simp only [noUnionList, Bool.and_eq_true] at hs
    simp at h
    rcases h with h | h
    · subst h; exact hs.1
    · exact noUnionList_mem hs.2 h

theorem noUnionTy_setMeta (m : Meta) (t : Ty) : noUnionTy (t.setMeta m) = noUnionTy t := by
  cases t <;> simp [Ty.setMeta, noUnionTy]

/-! ### DisjunctionWithNullToOptional on flat inputs

Since /repo fix 30da046 the pass returns `null | null` unchanged (it used to panic), so that union —
a two-branch union with a null branch — survives; `FlatUnionsN` also excludes it. -/

/-- a two-branch union made of null branches only -/
def allNullPair (bs : List Ty) : Bool := isNullPair bs && (nonNullTypes bs).isEmpty

def qFlatN : Q := { disjOk := fun bs => noUnionList bs && !allNullPair bs, idxOk := fun i => noUnionTy i }
def FlatUnionsN := schemasAll (fun o => satTop qFlatN o.ty) (sat qFlatN)
theorem FlatUnionsN_iff (S : Schemas) : FlatUnionsN S = true ↔ AllTop qFlatN S := by
  simp [FlatUnionsN, schemasAll_eq_AllObj, AllTop]


mutual
theorem flat_nullToOptional : ∀ (t r : Ty), sat qFlatN t = true →
    dvTy DisjunctionWithNullToOptional.hook t = .ok r → sat qNnp r = true
  | .scalar .., r, _, hr => by simp [dvTy] at hr; subst hr; simp [sat]
  | .ref .., r, _, hr => by simp [dvTy] at hr; subst hr; simp [sat]
  | .cref .., r, _, hr => by simp [dvTy] at hr; subst hr; simp [sat]
  | .enum .., r, _, hr => by simp [dvTy] at hr; subst hr; simp [sat, qNnp]
  | .slot .., r, _, hr => by simp [dvTy] at hr; subst hr; simp [sat]
  | .bad .., r, _, hr => by simp [dvTy] at hr; subst hr; simp [sat]
  | .array e m, r, h, hr => by
    simp only [dvTy] at hr
    cases he : dvTy DisjunctionWithNullToOptional.hook e with
    | ok e' => rw [he] at hr; simp at hr; subst hr; simp only [sat] at h ⊢; exact flat_nullToOptional e e' h he
    | err x => rw [he] at hr; cases hr
    | panic x => rw [he] at hr; cases hr
  | .map i v m, r, h, hr => by
    simp only [dvTy] at hr
    cases hv : dvTy DisjunctionWithNullToOptional.hook v with
    | ok v' =>
      rw [hv] at hr; simp at hr; subst hr
      simp only [sat, Bool.and_eq_true] at h ⊢
      exact ⟨⟨rfl, nnp_of_noUnion i h.1.1⟩, flat_nullToOptional v v' h.2 hv⟩
    | err x => rw [hv] at hr; cases hr
    | panic x => rw [hv] at hr; cases hr
  | .struct fs g gi m, r, h, hr => by
    simp only [dvTy] at hr
    cases hf : dvFields DisjunctionWithNullToOptional.hook fs with
    | ok fs' =>
      rw [hf] at hr; simp at hr; subst hr
      simp only [sat, Bool.and_eq_true] at h ⊢
      exact ⟨rfl, flat_nullToOptionalFields fs fs' h.2 hf⟩
    | err x => rw [hf] at hr; cases hr
    | panic x => rw [hf] at hr; cases hr
  | .disj bs i m, r, h, hr => by
    simp only [dvTy] at hr
    simp only [sat, Bool.and_eq_true] at h
    have hd : (noUnionList bs && !allNullPair bs) = true := h.1
    simp only [Bool.and_eq_true, Bool.not_eq_true'] at hd
    have hnu : noUnionList bs = true := hd.1
    simp only [DisjunctionWithNullToOptional.hook] at hr
    split at hr
    · rename_i hc
      simp at hr; subst hr
      simp only [sat, Bool.and_eq_true]
      refine ⟨?_, nnpList_of_noUnion bs hnu⟩
      simp only [qNnp, isNullPair]
      simp only [Bool.or_eq_true, bne_iff_ne, ne_eq, Bool.not_eq_true'] at hc
      rcases hc with hc | hc
      · simp [hc]
      · simp [hc]
    · split at hr
      · rename_i hcond _ hnn
        -- `null | null` is excluded by the hypothesis
        have hp : isNullPair bs = true := by
          simp only [Bool.or_eq_true, bne_iff_ne, ne_eq, Bool.not_eq_true', not_or, Decidable.not_not, Bool.not_eq_false] at hcond
          simp [isNullPair, hcond.1, hcond.2]
        have : allNullPair bs = true := by simp [allNullPair, hp, hnn]
        rw [this] at hd; cases hd.2
      · rename_i t rest hnn
        simp at hr; subst hr
        rw [setNullable, sat_setMeta]
        exact nnp_of_noUnion t (noUnionList_mem hnu (mem_nonNullTypes (by rw [hnn]; simp)))
  | .inter bs m, r, h, hr => by
    simp only [dvTy] at hr
    cases hb : dvList DisjunctionWithNullToOptional.hook bs with
    | ok bs' =>
      rw [hb] at hr; simp at hr; subst hr
      simp only [sat, Bool.or_eq_true] at h ⊢
      rcases h with h | h
      · simp [qFlatN] at h
      · exact Or.inr (flat_nullToOptionalList bs bs' h hb)
    | err x => rw [hb] at hr; cases hr
    | panic x => rw [hb] at hr; cases hr
theorem flat_nullToOptionalList : ∀ (ts rs : List Ty), satList qFlatN ts = true →
    dvList DisjunctionWithNullToOptional.hook ts = .ok rs → satList qNnp rs = true
  | [], rs, _, hr => by simp [dvList] at hr; subst hr; simp [satList]
  | t :: ts, rs, h, hr => by
    simp only [dvList] at hr
    simp only [satList, Bool.and_eq_true] at h
    cases ht : dvTy DisjunctionWithNullToOptional.hook t with
    | ok t' =>
      rw [ht] at hr; simp only at hr
      cases hts : dvList DisjunctionWithNullToOptional.hook ts with
      | ok ts' =>
        rw [hts] at hr; simp at hr; subst hr
        simp [satList, flat_nullToOptional t t' h.1 ht, flat_nullToOptionalList ts ts' h.2 hts]
      | err x => rw [hts] at hr; cases hr
      | panic x => rw [hts] at hr; cases hr
    | err x => rw [ht] at hr; cases hr
    | panic x => rw [ht] at hr; cases hr
theorem flat_nullToOptionalFields : ∀ (fs rs : List Field), satFields qFlatN fs = true →
    dvFields DisjunctionWithNullToOptional.hook fs = .ok rs → satFields qNnp rs = true
  | [], rs, _, hr => by simp [dvFields] at hr; subst hr; simp [satFields]
  | f :: fs, rs, h, hr => by
    simp only [dvFields] at hr
    simp only [satFields, Bool.and_eq_true] at h
    cases ht : dvTy DisjunctionWithNullToOptional.hook f.ty with
    | ok t' =>
      rw [ht] at hr; simp only at hr
      cases hfs : dvFields DisjunctionWithNullToOptional.hook fs with
      | ok fs' =>
        rw [hfs] at hr; simp at hr; subst hr
        simp only [satFields, Bool.and_eq_true]
        exact ⟨⟨rfl, flat_nullToOptional f.ty t' h.1.2 ht⟩, flat_nullToOptionalFields fs fs' h.2 hfs⟩
      | err x => rw [hfs] at hr; cases hr
      | panic x => rw [hfs] at hr; cases hr
    | err x => rw [ht] at hr; cases hr
    | panic x => rw [ht] at hr; cases hr
end

theorem flat_nullToOptional_top (t r : Ty) (h : satTop qFlatN t = true)
    (hr : dvTy DisjunctionWithNullToOptional.hook t = .ok r) : satTop qNnp r = true := by
  cases t with
  | struct fs g gi m =>
    simp only [dvTy] at hr
    cases hf : dvFields DisjunctionWithNullToOptional.hook fs with
    | ok fs' =>
      rw [hf] at hr; simp at hr; subst hr
      simp only [satTop] at h ⊢
      exact flat_nullToOptionalFields fs fs' h hf
    | err x => rw [hf] at hr; cases hr
    | panic x => rw [hf] at hr; cases hr
  | enum vs m => simp [dvTy] at hr; subst hr; simp [satTop, qNnp]
  | scalar k v c m => exact satTop_of_sat _ _ (flat_nullToOptional _ r (by simpa [satTop] using h) hr)
  | ref p n m => exact satTop_of_sat _ _ (flat_nullToOptional _ r (by simpa [satTop] using h) hr)
  | cref p n v m => exact satTop_of_sat _ _ (flat_nullToOptional _ r (by simpa [satTop] using h) hr)
  | array e m => exact satTop_of_sat _ _ (flat_nullToOptional _ r (by simpa [satTop] using h) hr)
  | map i v m => exact satTop_of_sat _ _ (flat_nullToOptional _ r (by simpa [satTop] using h) hr)
  | disj bs i m => exact satTop_of_sat _ _ (flat_nullToOptional _ r (by simpa [satTop] using h) hr)
  | inter bs m => exact satTop_of_sat _ _ (flat_nullToOptional _ r (by simpa [satTop] using h) hr)
  | slot v m => exact satTop_of_sat _ _ (flat_nullToOptional _ r (by simpa [satTop] using h) hr)
  | bad k m => exact satTop_of_sat _ _ (flat_nullToOptional _ r (by simpa [satTop] using h) hr)

/-- `post_DisjunctionWithNullToOptional` -/
theorem post_DisjunctionWithNullToOptional (S S' : Schemas) (hf : FlatUnionsN S = true)
    (h : DisjunctionWithNullToOptional.run S = .ok S') : NoNullPairUnion S' = true := by
  rw [NoNullPairUnion_iff]
  refine visitPure_establishes qFlatN qNnp (fun _ _ => dvTy DisjunctionWithNullToOptional.hook) ?_ S S'
    ((FlatUnionsN_iff S).1 hf) h
  intro cur s _ _ _
  exact ⟨flat_nullToOptional, flat_nullToOptional_top⟩

/-! ### DisjunctionToType on flat inputs -/

def RegNU (n : NewObjs) : Prop := ∀ ko ∈ n, noUnionTy ko.2.ty = true

theorem branchFields_noUnion : ∀ bs : List Ty, noUnionList bs = true →
    noUnionFields (DisjunctionToType.branchFields bs) = true
  | [], _ => by simp [DisjunctionToType.branchFields, noUnionFields]
  | b :: bs, h => by
    simp only [noUnionList, Bool.and_eq_true] at h
    simp only [DisjunctionToType.branchFields]
    split
    · exact branchFields_noUnion bs h.2
    · simp only [noUnionFields, Bool.and_eq_true]
      exact ⟨by rw [setNullable, noUnionTy_setMeta]; exact h.1, branchFields_noUnion bs h.2⟩

theorem flat_toType_hook (cur : Schemas) (s : Schema) (bs : List Ty) (i : DisjInfo) (m : Meta) (n : NewObjs)
    (r : Ty) (n' : NewObjs) (hnu : noUnionList bs = true) (hn : RegNU n)
    (h : DisjunctionToType.hook cur s bs i m n = .ok (r, n')) : noUnionTy r = true ∧ RegNU n' := by
  obtain ⟨hr, hn'⟩ := toType_hook_cases cur s bs i m n r n' h
  refine ⟨?_, ?_⟩
  · rcases hr with ⟨k, mm, rfl⟩ | ⟨p, nm, mm, rfl⟩ <;> simp [noUnionTy]
  · rcases hn' with rfl | ⟨nm, g, gi, mm, rfl⟩
    · exact hn
    · intro ko hko
      rcases mem_rset hko with h1 | h1
      · subst h1; simpa [newObject, noUnionTy] using branchFields_noUnion bs hnu
      · exact hn ko h1

mutual
theorem flat_toType (cur : Schemas) (s : Schema) : ∀ (t : Ty) (n : NewObjs) (r : Ty) (n' : NewObjs),
    sat qFlat t = true → RegNU n → dvStTy (DisjunctionToType.hook cur s) t n = .ok (r, n') →
    noUnionTy r = true ∧ RegNU n'
  | .scalar .., n, r, n', _, hn, hr => by simp [dvStTy] at hr; obtain ⟨rfl, rfl⟩ := hr; exact ⟨by simp [noUnionTy], hn⟩
  | .ref .., n, r, n', _, hn, hr => by simp [dvStTy] at hr; obtain ⟨rfl, rfl⟩ := hr; exact ⟨by simp [noUnionTy], hn⟩
  | .cref .., n, r, n', _, hn, hr => by simp [dvStTy] at hr; obtain ⟨rfl, rfl⟩ := hr; exact ⟨by simp [noUnionTy], hn⟩
  | .enum .., n, r, n', _, hn, hr => by simp [dvStTy] at hr; obtain ⟨rfl, rfl⟩ := hr; exact ⟨by simp [noUnionTy], hn⟩
  | .slot .., n, r, n', _, hn, hr => by simp [dvStTy] at hr; obtain ⟨rfl, rfl⟩ := hr; exact ⟨by simp [noUnionTy], hn⟩
  | .bad .., n, r, n', _, hn, hr => by simp [dvStTy] at hr; obtain ⟨rfl, rfl⟩ := hr; exact ⟨by simp [noUnionTy], hn⟩
  | .array e m, n, r, n', h, hn, hr => by
    simp only [dvStTy] at hr
    cases he : dvStTy (DisjunctionToType.hook cur s) e n with
    | ok en =>
      obtain ⟨e', n1⟩ := en
      rw [he] at hr; simp at hr; obtain ⟨rfl, rfl⟩ := hr
      simp only [sat] at h
      simpa [noUnionTy] using flat_toType cur s e n e' n1 h hn he
    | err x => rw [he] at hr; cases hr
    | panic x => rw [he] at hr; cases hr
  | .map i v m, n, r, n', h, hn, hr => by
    simp only [dvStTy] at hr
    cases hv : dvStTy (DisjunctionToType.hook cur s) v n with
    | ok vn =>
      obtain ⟨v', n1⟩ := vn
      rw [hv] at hr; simp at hr; obtain ⟨rfl, rfl⟩ := hr
      simp only [sat, Bool.and_eq_true] at h
      have := flat_toType cur s v n v' n1 h.2 hn hv
      have hi : noUnionTy i = true := h.1.1
      exact ⟨by simp [noUnionTy, hi, this.1], this.2⟩
    | err x => rw [hv] at hr; cases hr
    | panic x => rw [hv] at hr; cases hr
  | .struct fs g gi m, n, r, n', h, hn, hr => by
    simp only [dvStTy] at hr
    cases hf : dvStFields (DisjunctionToType.hook cur s) fs n with
    | ok fn =>
      obtain ⟨fs', n1⟩ := fn
      rw [hf] at hr; simp at hr; obtain ⟨rfl, rfl⟩ := hr
      simp only [sat, Bool.and_eq_true] at h
      simpa [noUnionTy] using flat_toTypeFields cur s fs n fs' n1 h.2 hn hf
    | err x => rw [hf] at hr; cases hr
    | panic x => rw [hf] at hr; cases hr
  | .disj bs i m, n, r, n', h, hn, hr => by
    simp only [dvStTy] at hr
    simp only [sat, Bool.and_eq_true] at h
    exact flat_toType_hook cur s bs i m n r n' h.1 hn hr
  | .inter bs m, n, r, n', h, hn, hr => by
    simp only [dvStTy] at hr
    cases hb : dvStList (DisjunctionToType.hook cur s) bs n with
    | ok bn =>
      obtain ⟨bs', n1⟩ := bn
      rw [hb] at hr; simp at hr; obtain ⟨rfl, rfl⟩ := hr
      simp only [sat, Bool.or_eq_true] at h
      have hbs : satList qFlat bs = true := by
        rcases h with h | h
        · simp [qFlat] at h
        · exact h
      simpa [noUnionTy] using flat_toTypeList cur s bs n bs' n1 hbs hn hb
    | err x => rw [hb] at hr; cases hr
    | panic x => rw [hb] at hr; cases hr
theorem flat_toTypeList (cur : Schemas) (s : Schema) : ∀ (ts : List Ty) (n : NewObjs) (rs : List Ty) (n' : NewObjs),
    satList qFlat ts = true → RegNU n → dvStList (DisjunctionToType.hook cur s) ts n = .ok (rs, n') →
    noUnionList rs = true ∧ RegNU n'
  | [], n, rs, n', _, hn, hr => by simp [dvStList] at hr; obtain ⟨rfl, rfl⟩ := hr; exact ⟨by simp [noUnionList], hn⟩
  | t :: ts, n, rs, n', h, hn, hr => by
    simp only [dvStList] at hr
    simp only [satList, Bool.and_eq_true] at h
    cases ht : dvStTy (DisjunctionToType.hook cur s) t n with
    | ok tn =>
      obtain ⟨t', n1⟩ := tn
      rw [ht] at hr; simp only at hr
      have h1 := flat_toType cur s t n t' n1 h.1 hn ht
      cases hts : dvStList (DisjunctionToType.hook cur s) ts n1 with
      | ok tsn =>
        obtain ⟨ts', n2⟩ := tsn
        rw [hts] at hr; simp at hr; obtain ⟨rfl, rfl⟩ := hr
        have h2 := flat_toTypeList cur s ts n1 ts' n2 h.2 h1.2 hts
        exact ⟨by simp [noUnionList, h1.1, h2.1], h2.2⟩
      | err x => rw [hts] at hr; cases hr
      | panic x => rw [hts] at hr; cases hr
    | err x => rw [ht] at hr; cases hr
    | panic x => rw [ht] at hr; cases hr
theorem flat_toTypeFields (cur : Schemas) (s : Schema) : ∀ (fs : List Field) (n : NewObjs) (rs : List Field) (n' : NewObjs),
    satFields qFlat fs = true → RegNU n → dvStFields (DisjunctionToType.hook cur s) fs n = .ok (rs, n') →
    noUnionFields rs = true ∧ RegNU n'
  | [], n, rs, n', _, hn, hr => by simp [dvStFields] at hr; obtain ⟨rfl, rfl⟩ := hr; exact ⟨by simp [noUnionFields], hn⟩
  | f :: fs, n, rs, n', h, hn, hr => by
    simp only [dvStFields] at hr
    simp only [satFields, Bool.and_eq_true] at h
    cases ht : dvStTy (DisjunctionToType.hook cur s) f.ty n with
    | ok tn =>
      obtain ⟨t', n1⟩ := tn
      rw [ht] at hr; simp only at hr
      have h1 := flat_toType cur s f.ty n t' n1 h.1.2 hn ht
      cases hfs : dvStFields (DisjunctionToType.hook cur s) fs n1 with
      | ok fsn =>
        obtain ⟨fs', n2⟩ := fsn
        rw [hfs] at hr; simp at hr; obtain ⟨rfl, rfl⟩ := hr
        have h2 := flat_toTypeFields cur s fs n1 fs' n2 h.2 h1.2 hfs
        exact ⟨by simp [noUnionFields, h1.1, h2.1], h2.2⟩
      | err x => rw [hfs] at hr; cases hr
      | panic x => rw [hfs] at hr; cases hr
    | err x => rw [ht] at hr; cases hr
    | panic x => rw [ht] at hr; cases hr
end

theorem flat_toType_top (cur : Schemas) (s : Schema) (t : Ty) (n : NewObjs) (r : Ty) (n' : NewObjs)
    (h : satTop qFlat t = true) (hn : RegNU n) (hr : dvStTy (DisjunctionToType.hook cur s) t n = .ok (r, n')) :
    noUnionTy r = true ∧ RegNU n' := by
  cases t with
  | struct fs g gi m =>
    simp only [dvStTy] at hr
    cases hf : dvStFields (DisjunctionToType.hook cur s) fs n with
    | ok fn =>
      obtain ⟨fs', n1⟩ := fn
      rw [hf] at hr; simp at hr; obtain ⟨rfl, rfl⟩ := hr
      simpa [noUnionTy] using flat_toTypeFields cur s fs n fs' n1 (by simpa [satTop] using h) hn hf
    | err x => rw [hf] at hr; cases hr
    | panic x => rw [hf] at hr; cases hr
  | enum vs m => simp [dvStTy] at hr; obtain ⟨rfl, rfl⟩ := hr; exact ⟨by simp [noUnionTy], hn⟩
  | scalar k v c m => exact flat_toType cur s _ n r n' (by simpa [satTop] using h) hn hr
  | ref p nm m => exact flat_toType cur s _ n r n' (by simpa [satTop] using h) hn hr
  | cref p nm v m => exact flat_toType cur s _ n r n' (by simpa [satTop] using h) hn hr
  | array e m => exact flat_toType cur s _ n r n' (by simpa [satTop] using h) hn hr
  | map i v m => exact flat_toType cur s _ n r n' (by simpa [satTop] using h) hn hr
  | disj bs i m => exact flat_toType cur s _ n r n' (by simpa [satTop] using h) hn hr
  | inter bs m => exact flat_toType cur s _ n r n' (by simpa [satTop] using h) hn hr
  | slot v m => exact flat_toType cur s _ n r n' (by simpa [satTop] using h) hn hr
  | bad k m => exact flat_toType cur s _ n r n' (by simpa [satTop] using h) hn hr

/-! two-predicate stateful frame -/

theorem visitObjectsSt_est (Pin Pout : Obj → Prop) (R : NewObjs → Prop) (v : Ty → NewObjs → Outcome (Ty × NewObjs))
    (hv : ∀ o n t n', Pin o → R n → v o.ty n = .ok (t, n') → Pout { o with ty := t } ∧ R n') :
    ∀ (os acc : Objects) (n : NewObjs) (out : Objects) (n' : NewObjs),
      (∀ ko ∈ os, Pin ko.2) → (∀ ko ∈ acc, Pout ko.2) → R n →
      visitObjectsSt v os acc n = .ok (out, n') → (∀ ko ∈ out, Pout ko.2) ∧ R n'
  | [], acc, n, out, n', _, hacc, hn, h => by
    simp [visitObjectsSt] at h; obtain ⟨rfl, rfl⟩ := h; exact ⟨hacc, hn⟩
  | (k, o) :: rest, acc, n, out, n', hos, hacc, hn, h => by
    simp only [visitObjectsSt] at h
    cases hvo : v o.ty n with
    | ok rn =>
      obtain ⟨r, n1⟩ := rn
      rw [hvo] at h
      simp only at h
      have h1 := hv o n r n1 (hos (k, o) (by simp)) hn hvo
      refine visitObjectsSt_est Pin Pout R v hv rest _ n1 out n' (fun ko hko => hos ko (List.mem_cons_of_mem _ hko)) ?_ h1.2 h
      intro ko hko
      rcases mem_rset hko with h2 | h2
      · subst h2; exact h1.1
      · exact hacc ko h2
    | err e => rw [hvo] at h; cases h
    | panic e => rw [hvo] at h; cases h

theorem visitSt_establishes (Pin Pout : Obj → Prop) (Ein Eout : Ty → Prop) (R : NewObjs → Prop)
    (v : Schemas → Schema → Ty → NewObjs → Outcome (Ty × NewObjs))
    (hR0 : R []) (hRP : ∀ n, R n → ∀ ko ∈ n, Pout ko.2)
    (hv : ∀ cur s o n t n', Pin o → R n → v cur s o.ty n = .ok (t, n') → Pout { o with ty := t } ∧ R n')
    (hve : ∀ cur s t n r n', Ein t → R n → v cur s t n = .ok (r, n') → Eout r ∧ R n')
    (S S' : Schemas) (hS : ∀ s ∈ S, Ein s.entryPointType ∧ ∀ ko ∈ s.objects, Pin ko.2)
    (h : visitSchemas (fun cur s => visitSchemaSt (v cur s) s) S = .ok S') :
    ∀ s' ∈ S', Eout s'.entryPointType ∧ ∀ ko ∈ s'.objects, Pout ko.2 := by
  intro s' hs'
  obtain ⟨cur, s, hs, hf, _⟩ := visitSchemas_spec h s' hs'
  simp only [visitSchemaSt] at hf
  cases he : v cur s s.entryPointType [] with
  | ok en =>
    obtain ⟨ept, n0⟩ := en
    rw [he] at hf
    simp only at hf
    have hn0 := hve cur s _ _ _ _ (hS s hs).1 hR0 he
    cases ho : visitObjectsSt (v cur s) s.objects [] n0 with
    | ok on =>
      obtain ⟨objs, n1⟩ := on
      rw [ho] at hf
      simp at hf
      subst hf
      have h1 := visitObjectsSt_est Pin Pout R (v cur s) (hv cur s) s.objects [] n0 objs n1 (hS s hs).2
        (by intro ko hk; simp at hk) hn0.2 ho
      refine ⟨hn0.1, ?_⟩
      intro x hx
      simp only [flushNew] at hx
      rcases addObjects_mem hx with h2 | h2
      · exact h1.1 x h2
      · simp only [List.mem_map] at h2
        obtain ⟨ko', hko', he'⟩ := h2
        rw [← he']; exact hRP n1 h1.2 ko' hko'
    | err e => rw [ho] at hf; cases hf
    | panic e => rw [ho] at hf; cases hf
  | err e => rw [he] at hf; cases hf
  | panic e => rw [he] at hf; cases hf

/-- `post_DisjunctionToType`: on an input whose unions are all at positions the visitor walks and
    have union-free branches, no union is left — neither in the visited objects nor in the objects
    the pass registers -/
theorem post_DisjunctionToType (S S' : Schemas) (hf : FlatUnions S = true)
    (h : DisjunctionToType.run S = .ok S') : NoUnion S' = true := by
  have hS := (FlatUnions_iff S).1 hf
  rw [NoUnion]
  rw [schemasAll_iff]
  refine visitSt_establishes (fun o => satTop qFlat o.ty = true) (fun o => noUnionTy o.ty = true)
    (fun t => sat qFlat t = true) (fun t => noUnionTy t = true) RegNU
    (fun cur s => dvStTy (DisjunctionToType.hook cur s)) (by intro ko h; simp at h)
    (fun n hn ko hko => hn ko hko) ?_ ?_ S S' hS h
  · intro cur s o n t n' ho hn ht
    exact flat_toType_top cur s o.ty n t n' ho hn ht
  · intro cur s t n r n' ht hn hr
    exact flat_toType cur s t n r n' ht hn hr

end Cog.NF
