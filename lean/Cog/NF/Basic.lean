/-
  C06 helper lemmas: relations between the normal-form predicates, lifting object-wise facts to
  schemas, chain composition.
-/
import Cog.NF.WF
import Cog.Passes.Chain
namespace Cog.NF
open Cog.IR Cog.Passes

/-! ### a type without enum nodes satisfies every enum-name rule -/
mutual
theorem enumNames_of_noEnum (p : String → Bool) : ∀ t : Ty, noEnumTy t = true → enumNamesTy p t = true
  | .scalar .. => by simp [enumNamesTy]
  | .ref .. => by simp [enumNamesTy]
  | .cref .. => by simp [enumNamesTy]
  | .array e _ => by
    intro h; simp [noEnumTy] at h; simp [enumNamesTy, enumNames_of_noEnum p e h]
  | .map i v _ => by
    intro h; simp [noEnumTy] at h
    simp [enumNamesTy, enumNames_of_noEnum p i h.1, enumNames_of_noEnum p v h.2]
  | .struct fs _ _ _ => by
    intro h; simp [noEnumTy] at h; simp [enumNamesTy, enumNamesFields_of_noEnum p fs h]
  | .enum .. => by simp [noEnumTy]
  | .disj bs _ _ => by
    intro h; simp [noEnumTy] at h; simp [enumNamesTy, enumNamesList_of_noEnum p bs h]
  | .inter bs _ => by
    intro h; simp [noEnumTy] at h; simp [enumNamesTy, enumNamesList_of_noEnum p bs h]
  | .slot .. => by simp [enumNamesTy]
  | .bad .. => by simp [enumNamesTy]
theorem enumNamesList_of_noEnum (p : String → Bool) : ∀ ts : List Ty, noEnumList ts = true → enumNamesList p ts = true
  | [] => by simp [enumNamesList]
  | t :: ts => by
    intro h; simp [noEnumList] at h
    simp [enumNamesList, enumNames_of_noEnum p t h.1, enumNamesList_of_noEnum p ts h.2]
theorem enumNamesFields_of_noEnum (p : String → Bool) : ∀ fs : List Field, noEnumFields fs = true → enumNamesFields p fs = true
  | [] => by simp [enumNamesFields]
  | f :: fs => by
    intro h; simp [noEnumFields] at h
    simp [enumNamesFields, enumNames_of_noEnum p f.ty h.1, enumNamesFields_of_noEnum p fs h.2]
end

/-! ### schema-level predicates as statements about every object -/

theorem allObjects_iff (p : Obj → Bool) : ∀ os : Objects, allObjects p os = true ↔ ∀ ko ∈ os, p ko.2 = true
  | [] => by simp [allObjects]
  | (k, o) :: rest => by simp [allObjects, allObjects_iff p rest]

theorem schemasAll_iff (top : Obj → Bool) (inner : Ty → Bool) : ∀ ss : Schemas,
    schemasAll top inner ss = true ↔ ∀ s ∈ ss, inner s.entryPointType = true ∧ ∀ ko ∈ s.objects, top ko.2 = true
  | [] => by simp [schemasAll]
  | s :: ss => by simp [schemasAll, schemaAll, schemasAll_iff top inner ss, allObjects_iff]

/-! ### chains -/

/-- pass `p` keeps `P` -/
def Keeps (P : Schemas → Prop) (p : PassId) : Prop := ∀ S S', P S → p.run S = .ok S' → P S'
/-- pass `p` establishes `Q` from `H` -/
def Establishes (H Q : Schemas → Prop) (p : PassId) : Prop := ∀ S S', H S → p.run S = .ok S' → Q S'

theorem runChain_keeps {P : Schemas → Prop} : ∀ (ps : List PassId), (∀ p ∈ ps, Keeps P p) →
    ∀ S S', P S → runChain ps S = .ok S' → P S'
  | [], _, S, S', hP, h => by simp [runChain] at h; exact h ▸ hP
  | p :: ps, hk, S, S', hP, h => by
    simp only [runChain] at h
    cases hr : p.run S with
    | ok S1 =>
      rw [hr] at h
      exact runChain_keeps ps (fun q hq => hk q (List.mem_cons_of_mem _ hq)) S1 S'
        (hk p (List.mem_cons_self ..) S S1 hP hr) h
    | err e => rw [hr] at h; cases h
    | panic e => rw [hr] at h; cases h

theorem runChain_append (ps qs : List PassId) (S S' : Schemas) :
    runChain (ps ++ qs) S = .ok S' ↔ ∃ S1, runChain ps S = .ok S1 ∧ runChain qs S1 = .ok S' := by
  induction ps generalizing S with
  | nil => simp [runChain]
  | cons p ps ih =>
    simp only [List.cons_append, runChain]
    cases hr : p.run S with
    | ok S1 => simp [ih]
    | err e => simp
    | panic e => simp

/-- the composition scheme of C06: `pre` keeps `H`, `p` establishes `Q` from `H`, `post` keeps `Q` -/
theorem runChain_establishes {H Q : Schemas → Prop} (pre : List PassId) (p : PassId) (post : List PassId)
    (hpre : ∀ q ∈ pre, Keeps H q) (hp : Establishes H Q p) (hpost : ∀ q ∈ post, Keeps Q q)
    (S S' : Schemas) (hH : H S) (h : runChain (pre ++ p :: post) S = .ok S') : Q S' := by
  obtain ⟨S1, h1, h2⟩ := (runChain_append pre (p :: post) S S').1 h
  have hH1 := runChain_keeps pre hpre S S1 hH h1
  simp only [runChain] at h2
  cases hr : p.run S1 with
  | ok S2 =>
    rw [hr] at h2
    exact runChain_keeps post hpost S2 S' (hp S1 S2 hH1 hr) h2
  | err e => rw [hr] at h2; cases h2
  | panic e => rw [hr] at h2; cases h2

end Cog.NF
