/-
  C06: the passes that register new objects through the visitor (`RegisterNewObject`):
  DisjunctionOfAnonymousStructsToExplicit and DisjunctionToType.  The registry is threaded through
  the traversal in visiting order; its objects are appended to the schema after the visited objects
  and are NOT visited.  `RegOk q n`: every registered object is `q`-good.
-/
import Cog.NF.EnumPasses
namespace Cog.NF
open Cog.IR Cog.Passes
open Cog.OMap (rget rset)

def RegOk (q : Q) (n : NewObjs) : Prop := ∀ ko ∈ n, satTop q ko.2.ty = true

theorem RegOk.register {q : Q} {n : NewObjs} {o : Obj} (h : RegOk q n) (ho : satTop q o.ty = true) :
    RegOk q (registerNew o n) := by
  intro ko hko
  rcases mem_rset hko with h1 | h1
  · subst h1; exact ho
  · exact h ko h1

theorem RegOk.nil (q : Q) : RegOk q [] := by intro ko h; simp at h

/-! ### the stateful frame -/

theorem visitObjectsSt_keeps (q : Q) (v : Ty → NewObjs → Outcome (Ty × NewObjs))
    (hv : ∀ t n r n', satTop q t = true → RegOk q n → v t n = .ok (r, n') → satTop q r = true ∧ RegOk q n') :
    ∀ (os acc : Objects) (n : NewObjs) (out : Objects) (n' : NewObjs),
      (∀ ko ∈ os, satTop q ko.2.ty = true) → (∀ ko ∈ acc, satTop q ko.2.ty = true) → RegOk q n →
      visitObjectsSt v os acc n = .ok (out, n') → (∀ ko ∈ out, satTop q ko.2.ty = true) ∧ RegOk q n'
  | [], acc, n, out, n', _, hacc, hn, h => by
    simp [visitObjectsSt] at h; obtain ⟨rfl, rfl⟩ := h; exact ⟨hacc, hn⟩
  | (k, o) :: rest, acc, n, out, n', hos, hacc, hn, h => by
    simp only [visitObjectsSt] at h
    cases hvo : v o.ty n with
    | ok rn =>
      obtain ⟨r, n1⟩ := rn
      rw [hvo] at h
      simp only at h
      have h1 := hv o.ty n r n1 (hos (k, o) (by simp)) hn hvo
      refine visitObjectsSt_keeps q v hv rest _ n1 out n' (fun ko hko => hos ko (List.mem_cons_of_mem _ hko)) ?_ h1.2 h
      intro ko hko
      rcases mem_rset hko with h2 | h2
      · subst h2; exact h1.1
      · exact hacc ko h2
    | err e => rw [hvo] at h; cases h
    | panic e => rw [hvo] at h; cases h

theorem visitSchemaSt_keeps (q : Q) (v : Ty → NewObjs → Outcome (Ty × NewObjs))
    (hv : ∀ t n r n', satTop q t = true → RegOk q n → v t n = .ok (r, n') → satTop q r = true ∧ RegOk q n')
    (hve : ∀ t n r n', sat q t = true → RegOk q n → v t n = .ok (r, n') → sat q r = true ∧ RegOk q n')
    (s s' : Schema) (hs : SchemaTop q s) (h : visitSchemaSt v s = .ok s') : SchemaTop q s' := by
  simp only [visitSchemaSt] at h
  cases he : v s.entryPointType [] with
  | ok en =>
    obtain ⟨ept, n0⟩ := en
    rw [he] at h
    simp only at h
    have h0 := hve _ _ _ _ hs.1 (RegOk.nil q) he
    cases ho : visitObjectsSt v s.objects [] n0 with
    | ok on =>
      obtain ⟨objs, n1⟩ := on
      rw [ho] at h
      simp at h
      subst h
      have h1 := visitObjectsSt_keeps q v hv s.objects [] n0 objs n1 hs.2 (by intro ko hk; simp at hk) h0.2 ho
      refine ⟨h0.1, ?_⟩
      intro ko hko
      simp only [flushNew] at hko
      rcases addObjects_mem hko with h2 | h2
      · exact h1.1 ko h2
      · simp only [List.mem_map] at h2
        obtain ⟨ko', hko', he'⟩ := h2
        rw [← he']; exact h1.2 ko' hko'
    | err e => rw [ho] at h; cases h
    | panic e => rw [ho] at h; cases h
  | err e => rw [he] at h; cases h
  | panic e => rw [he] at h; cases h

theorem visitSchemasSt_keeps (q : Q) (v : Schemas → Schema → Ty → NewObjs → Outcome (Ty × NewObjs))
    (hv : ∀ cur s, s ∈ cur → (∀ x ∈ cur, SchemaTop q x) →
      (∀ t n r n', satTop q t = true → RegOk q n → v cur s t n = .ok (r, n') → satTop q r = true ∧ RegOk q n') ∧
      (∀ t n r n', sat q t = true → RegOk q n → v cur s t n = .ok (r, n') → sat q r = true ∧ RegOk q n'))
    (S S' : Schemas) (hS : AllTop q S)
    (h : visitSchemas (fun cur s => visitSchemaSt (v cur s) s) S = .ok S') : AllTop q S' := by
  rw [AllTop_iff] at hS ⊢
  refine visitSchemasFrom_inv (P := SchemaTop q) ?_ S [] S' (by simp) hS h
  intro cur s s' hmem hcur hf
  obtain ⟨h1, h2⟩ := hv cur s hmem hcur
  exact visitSchemaSt_keeps q (v cur s) h1 h2 s s' (hcur s hmem) hf

/-! ### the generic traversal with a stateful hook -/

structure HookOkSt (q : Q) (hook : DisjHookSt) : Prop where
  /-- a test that ignores what is below an intersection cannot be kept: the hook lifts unions (and
      whatever sits in their branches) out of the intersection into registered objects -/
  noStop : q.interStop = false
  nested : ∀ bs i m n r n', sat q (.disj bs i m) = true → RegOk q n → hook bs i m n = .ok (r, n') →
    sat q r = true ∧ FieldCompat q (.disj bs i m) r ∧ RegOk q n'
  top : ∀ bs i m n r n', sat q (.disj bs i m) = true → RegOk q n → hook bs i m n = .ok (r, n') → satTop q r = true

mutual
theorem dvStTy_sat (q : Q) (hook : DisjHookSt) (hk : HookOkSt q hook) :
    ∀ (t : Ty) (n : NewObjs) (r : Ty) (n' : NewObjs), sat q t = true → RegOk q n → dvStTy hook t n = .ok (r, n') →
      sat q r = true ∧ FieldCompat q t r ∧ RegOk q n'
  | .scalar .., n, r, n', h, hn, hr => by simp [dvStTy] at hr; obtain ⟨rfl, rfl⟩ := hr; exact ⟨h, FieldCompat.rfl' _ _, hn⟩
  | .ref .., n, r, n', h, hn, hr => by simp [dvStTy] at hr; obtain ⟨rfl, rfl⟩ := hr; exact ⟨h, FieldCompat.rfl' _ _, hn⟩
  | .cref .., n, r, n', h, hn, hr => by simp [dvStTy] at hr; obtain ⟨rfl, rfl⟩ := hr; exact ⟨h, FieldCompat.rfl' _ _, hn⟩
  | .enum .., n, r, n', h, hn, hr => by simp [dvStTy] at hr; obtain ⟨rfl, rfl⟩ := hr; exact ⟨h, FieldCompat.rfl' _ _, hn⟩
  | .slot .., n, r, n', h, hn, hr => by simp [dvStTy] at hr; obtain ⟨rfl, rfl⟩ := hr; exact ⟨h, FieldCompat.rfl' _ _, hn⟩
  | .bad .., n, r, n', h, hn, hr => by simp [dvStTy] at hr; obtain ⟨rfl, rfl⟩ := hr; exact ⟨h, FieldCompat.rfl' _ _, hn⟩
  | .array e m, n, r, n', h, hn, hr => by
    simp only [dvStTy] at hr
    cases he : dvStTy hook e n with
    | ok en =>
      obtain ⟨e', n1⟩ := en
      rw [he] at hr; simp at hr; obtain ⟨rfl, rfl⟩ := hr
      simp only [sat] at h
      have := dvStTy_sat q hook hk e n e' n1 h hn he
      exact ⟨by simp [sat, this.1], FieldCompat.of_meta_eq q rfl, this.2.2⟩
    | err x => rw [he] at hr; cases hr
    | panic x => rw [he] at hr; cases hr
  | .map i v m, n, r, n', h, hn, hr => by
    simp only [dvStTy] at hr
    cases hv : dvStTy hook v n with
    | ok vn =>
      obtain ⟨v', n1⟩ := vn
      rw [hv] at hr; simp at hr; obtain ⟨rfl, rfl⟩ := hr
      simp only [sat, Bool.and_eq_true] at h
      have := dvStTy_sat q hook hk v n v' n1 h.2 hn hv
      exact ⟨by simp [sat, h.1.1, h.1.2, this.1], FieldCompat.of_meta_eq q rfl, this.2.2⟩
    | err x => rw [hv] at hr; cases hr
    | panic x => rw [hv] at hr; cases hr
  | .struct fs g gi m, n, r, n', h, hn, hr => by
    simp only [dvStTy] at hr
    cases hf : dvStFields hook fs n with
    | ok fn =>
      obtain ⟨fs', n1⟩ := fn
      rw [hf] at hr; simp at hr; obtain ⟨rfl, rfl⟩ := hr
      simp only [sat, Bool.and_eq_true] at h
      have := dvStFields_sat q hook hk fs n fs' n1 h.2 hn hf
      exact ⟨by simp [sat, h.1, this.1], FieldCompat.of_meta_eq q rfl, this.2⟩
    | err x => rw [hf] at hr; cases hr
    | panic x => rw [hf] at hr; cases hr
  | .disj bs i m, n, r, n', h, hn, hr => by
    simp only [dvStTy] at hr
    exact hk.nested bs i m n r n' h hn hr
  | .inter bs m, n, r, n', h, hn, hr => by
    simp only [dvStTy] at hr
    cases hb : dvStList hook bs n with
    | ok bn =>
      obtain ⟨bs', n1⟩ := bn
      rw [hb] at hr; simp at hr; obtain ⟨rfl, rfl⟩ := hr
      simp only [sat, Bool.or_eq_true] at h
      have hbs : satList q bs = true := by
        rcases h with h | h
        · rw [hk.noStop] at h; cases h
        · exact h
      have := dvStList_sat q hook hk bs n bs' n1 hbs hn hb
      exact ⟨by simp [sat, this.1], FieldCompat.of_meta_eq q rfl, this.2⟩
    | err x => rw [hb] at hr; cases hr
    | panic x => rw [hb] at hr; cases hr
theorem dvStList_sat (q : Q) (hook : DisjHookSt) (hk : HookOkSt q hook) :
    ∀ (ts : List Ty) (n : NewObjs) (rs : List Ty) (n' : NewObjs), satList q ts = true → RegOk q n →
      dvStList hook ts n = .ok (rs, n') → satList q rs = true ∧ RegOk q n'
  | [], n, rs, n', _, hn, hr => by simp [dvStList] at hr; obtain ⟨rfl, rfl⟩ := hr; exact ⟨by simp [satList], hn⟩
  | t :: ts, n, rs, n', h, hn, hr => by
    simp only [dvStList] at hr
    simp only [satList, Bool.and_eq_true] at h
    cases ht : dvStTy hook t n with
    | ok tn =>
      obtain ⟨t', n1⟩ := tn
      rw [ht] at hr; simp only at hr
      have h1 := dvStTy_sat q hook hk t n t' n1 h.1 hn ht
      cases hts : dvStList hook ts n1 with
      | ok tsn =>
        obtain ⟨ts', n2⟩ := tsn
        rw [hts] at hr; simp at hr; obtain ⟨rfl, rfl⟩ := hr
        have h2 := dvStList_sat q hook hk ts n1 ts' n2 h.2 h1.2.2 hts
        exact ⟨by simp [satList, h1.1, h2.1], h2.2⟩
      | err x => rw [hts] at hr; cases hr
      | panic x => rw [hts] at hr; cases hr
    | err x => rw [ht] at hr; cases hr
    | panic x => rw [ht] at hr; cases hr
theorem dvStFields_sat (q : Q) (hook : DisjHookSt) (hk : HookOkSt q hook) :
    ∀ (fs : List Field) (n : NewObjs) (rs : List Field) (n' : NewObjs), satFields q fs = true → RegOk q n →
      dvStFields hook fs n = .ok (rs, n') → satFields q rs = true ∧ RegOk q n'
  | [], n, rs, n', _, hn, hr => by simp [dvStFields] at hr; obtain ⟨rfl, rfl⟩ := hr; exact ⟨by simp [satFields], hn⟩
  | f :: fs, n, rs, n', h, hn, hr => by
    simp only [dvStFields] at hr
    simp only [satFields, Bool.and_eq_true] at h
    cases ht : dvStTy hook f.ty n with
    | ok tn =>
      obtain ⟨t', n1⟩ := tn
      rw [ht] at hr; simp only at hr
      have h1 := dvStTy_sat q hook hk f.ty n t' n1 h.1.2 hn ht
      cases hfs : dvStFields hook fs n1 with
      | ok fsn =>
        obtain ⟨fs', n2⟩ := fsn
        rw [hfs] at hr; simp at hr; obtain ⟨rfl, rfl⟩ := hr
        have h2 := dvStFields_sat q hook hk fs n1 fs' n2 h.2 h1.2.2 hfs
        exact ⟨by simp [satFields, h1.1, h1.2.1 f.required h.1.1, h2.1], h2.2⟩
      | err x => rw [hfs] at hr; cases hr
      | panic x => rw [hfs] at hr; cases hr
    | err x => rw [ht] at hr; cases hr
    | panic x => rw [ht] at hr; cases hr
end

theorem dvStTy_satTop (q : Q) (hook : DisjHookSt) (hk : HookOkSt q hook) (t : Ty) (n : NewObjs) (r : Ty) (n' : NewObjs)
    (h : satTop q t = true) (hn : RegOk q n) (hr : dvStTy hook t n = .ok (r, n')) : satTop q r = true ∧ RegOk q n' := by
  cases t with
  | struct fs g gi m =>
    simp only [dvStTy] at hr
    cases hf : dvStFields hook fs n with
    | ok fn =>
      obtain ⟨fs', n1⟩ := fn
      rw [hf] at hr; simp at hr; obtain ⟨rfl, rfl⟩ := hr
      simp only [satTop] at h ⊢
      exact dvStFields_sat q hook hk fs n fs' n1 h hn hf
    | err x => rw [hf] at hr; cases hr
    | panic x => rw [hf] at hr; cases hr
  | enum vs m => simp [dvStTy] at hr; obtain ⟨rfl, rfl⟩ := hr; exact ⟨h, hn⟩
  | disj bs i m =>
    simp only [dvStTy] at hr
    have hs : sat q (.disj bs i m) = true := by simpa [satTop] using h
    exact ⟨hk.top bs i m n r n' hs hn hr, (hk.nested bs i m n r n' hs hn hr).2.2⟩
  | scalar k v c m => have := dvStTy_sat q hook hk _ n r n' (by simpa [satTop] using h) hn hr; exact ⟨satTop_of_sat q r this.1, this.2.2⟩
  | ref p nm m => have := dvStTy_sat q hook hk _ n r n' (by simpa [satTop] using h) hn hr; exact ⟨satTop_of_sat q r this.1, this.2.2⟩
  | cref p nm v m => have := dvStTy_sat q hook hk _ n r n' (by simpa [satTop] using h) hn hr; exact ⟨satTop_of_sat q r this.1, this.2.2⟩
  | array e m => have := dvStTy_sat q hook hk _ n r n' (by simpa [satTop] using h) hn hr; exact ⟨satTop_of_sat q r this.1, this.2.2⟩
  | map i v m => have := dvStTy_sat q hook hk _ n r n' (by simpa [satTop] using h) hn hr; exact ⟨satTop_of_sat q r this.1, this.2.2⟩
  | inter bs m => have := dvStTy_sat q hook hk _ n r n' (by simpa [satTop] using h) hn hr; exact ⟨satTop_of_sat q r this.1, this.2.2⟩
  | slot v m => have := dvStTy_sat q hook hk _ n r n' (by simpa [satTop] using h) hn hr; exact ⟨satTop_of_sat q r this.1, this.2.2⟩
  | bad k m => have := dvStTy_sat q hook hk _ n r n' (by simpa [satTop] using h) hn hr; exact ⟨satTop_of_sat q r this.1, this.2.2⟩

/-! ### DisjunctionToType -/

/-- tests that do not look at fields (`required` / `nullable`) -/
def Q.FieldFree (q : Q) : Prop := ∀ req n, q.fieldOk req n = true

theorem branchFields_sat (q : Q) (hf : q.FieldFree) : ∀ bs : List Ty, satList q bs = true →
    satFields q (DisjunctionToType.branchFields bs) = true
  | [], _ => by simp [DisjunctionToType.branchFields, satFields]
  | b :: bs, h => by
    simp only [satList, Bool.and_eq_true] at h
    simp only [DisjunctionToType.branchFields]
    split
    · exact branchFields_sat q hf bs h.2
    · simp only [satFields, Bool.and_eq_true]
      exact ⟨⟨hf _ _, by rw [setNullable, sat_setMeta]; exact h.1⟩, branchFields_sat q hf bs h.2⟩

theorem toType_hook_cases (cur : Schemas) (s : Schema) (bs : List Ty) (i : DisjInfo) (m : Meta) (n : NewObjs)
    (r : Ty) (n' : NewObjs) (h : DisjunctionToType.hook cur s bs i m n = .ok (r, n')) :
    ((∃ k mm, r = .scalar k .nil [] mm) ∨ (∃ p nm mm, r = .ref p nm mm)) ∧
    (n' = n ∨ ∃ nm g gi mm, n' = registerNew (newObject s.pkg nm (.struct (DisjunctionToType.branchFields bs) g gi mm)) n) := by
  simp only [DisjunctionToType.hook] at h
  split at h
  · cases h
  · cases h
  · simp at h; obtain ⟨rfl, rfl⟩ := h
    exact ⟨Or.inl ⟨_, _, rfl⟩, Or.inl rfl⟩
  · split at h
    · simp at h; obtain ⟨rfl, rfl⟩ := h
      exact ⟨Or.inr ⟨_, _, _, rfl⟩, Or.inl rfl⟩
    · split at h
      · cases h
      · split at h
        · cases h
        · simp at h; obtain ⟨rfl, rfl⟩ := h
          exact ⟨Or.inr ⟨_, _, _, rfl⟩, Or.inr ⟨_, _, _, _, rfl⟩⟩

theorem hookOkSt_toType (q : Q) (hf : q.FieldFree) (hstop : q.interStop = false) (cur : Schemas) (s : Schema) :
    HookOkSt q (DisjunctionToType.hook cur s) where
  noStop := hstop
  nested := by
    intro bs i m n r n' hs hn hr
    obtain ⟨hr1, hn1⟩ := toType_hook_cases cur s bs i m n r n' hr
    simp only [sat, Bool.and_eq_true] at hs
    refine ⟨?_, fun req _ => hf _ _, ?_⟩
    · rcases hr1 with ⟨k, mm, rfl⟩ | ⟨p, nm, mm, rfl⟩ <;> simp [sat]
    · rcases hn1 with rfl | ⟨nm, g, gi, mm, rfl⟩
      · exact hn
      · exact hn.register (by simpa [newObject, satTop] using branchFields_sat q hf bs hs.2)
  top := by
    intro bs i m n r n' hs hn hr
    obtain ⟨hr1, _⟩ := toType_hook_cases cur s bs i m n r n' hr
    rcases hr1 with ⟨k, mm, rfl⟩ | ⟨p, nm, mm, rfl⟩ <;> simp [satTop, sat]

/-- `keeps_DisjunctionToType`, for every test that looks neither at fields nor stops at intersections -/
theorem keeps_DisjunctionToType (q : Q) (hf : q.FieldFree) (hstop : q.interStop = false) (S S' : Schemas)
    (hS : AllTop q S) (h : DisjunctionToType.run S = .ok S') : AllTop q S' := by
  refine visitSchemasSt_keeps q (fun cur s => dvStTy (DisjunctionToType.hook cur s)) ?_ S S' hS h
  intro cur s _ _
  have hk := hookOkSt_toType q hf hstop cur s
  refine ⟨?_, ?_⟩
  · intro t n r n' ht hn hr; exact dvStTy_satTop q _ hk t n r n' ht hn hr
  · intro t n r n' ht hn hr
    have := dvStTy_sat q _ hk t n r n' ht hn hr
    exact ⟨this.1, this.2.2⟩

/-! ### DisjunctionOfAnonymousStructsToExplicit -/
section toExplicit
open Cog.Passes.DisjunctionOfAnonymousStructsToExplicit

mutual
theorem toExplicit_vTy (q : Q) (hd : q.DisjConst) (hstop : q.interStop = false) (pkg : String) :
    ∀ (t : Ty) (n : NewObjs), sat q t = true → RegOk q n →
      sat q (vTy pkg t n).1 = true ∧ (vTy pkg t n).1.getMeta = t.getMeta ∧ RegOk q (vTy pkg t n).2
  | .scalar .., n, h, hn => by simp [vTy]; exact ⟨h, hn⟩
  | .ref .., n, h, hn => by simp [vTy]; exact ⟨h, hn⟩
  | .cref .., n, h, hn => by simp [vTy]; exact ⟨h, hn⟩
  | .enum .., n, h, hn => by simp [vTy]; exact ⟨h, hn⟩
  | .slot .., n, h, hn => by simp [vTy]; exact ⟨h, hn⟩
  | .bad .., n, h, hn => by simp [vTy]; exact ⟨h, hn⟩
  | .array e m, n, h, hn => by
    simp only [sat] at h
    have := toExplicit_vTy q hd hstop pkg e n h hn
    simp only [vTy, sat, Ty.getMeta, true_and]
    exact ⟨this.1, this.2.2⟩
  | .map i v m, n, h, hn => by
    simp only [sat, Bool.and_eq_true] at h
    have := toExplicit_vTy q hd hstop pkg v n h.2 hn
    simp only [vTy, sat, Ty.getMeta, true_and, Bool.and_eq_true]
    exact ⟨⟨⟨h.1.1, h.1.2⟩, this.1⟩, this.2.2⟩
  | .struct fs g gi m, n, h, hn => by
    simp only [sat, Bool.and_eq_true] at h
    have := toExplicit_vFields q hd hstop pkg fs n h.2 hn
    simp only [vTy, sat, Ty.getMeta, true_and, Bool.and_eq_true]
    exact ⟨⟨h.1, this.1⟩, this.2⟩
  | .disj bs info m, n, h, hn => by
    simp only [sat, Bool.and_eq_true] at h
    simp only [vTy]
    split
    · simp only [sat, Ty.getMeta, true_and, Bool.and_eq_true]; exact ⟨⟨h.1, h.2⟩, hn⟩
    · have := toExplicit_hookBranches q hd hstop pkg bs 0 n h.2 hn
      simp only [sat, Ty.getMeta, true_and, Bool.and_eq_true]
      exact ⟨⟨by rw [hd _ bs]; exact h.1, this.1⟩, this.2⟩
  | .inter bs m, n, h, hn => by
    simp only [sat, Bool.or_eq_true] at h
    have hbs : satList q bs = true := by
      rcases h with h | h
      · rw [hstop] at h; cases h
      · exact h
    have := toExplicit_vList q hd hstop pkg bs n hbs hn
    simp only [vTy, sat, Ty.getMeta, true_and, Bool.or_eq_true]
    exact ⟨Or.inr this.1, this.2⟩
theorem toExplicit_vList (q : Q) (hd : q.DisjConst) (hstop : q.interStop = false) (pkg : String) :
    ∀ (ts : List Ty) (n : NewObjs), satList q ts = true → RegOk q n →
      satList q (vList pkg ts n).1 = true ∧ RegOk q (vList pkg ts n).2
  | [], n, _, hn => by simp [vList, satList]; exact hn
  | t :: ts, n, h, hn => by
    simp only [satList, Bool.and_eq_true] at h
    have h1 := toExplicit_vTy q hd hstop pkg t n h.1 hn
    have h2 := toExplicit_vList q hd hstop pkg ts _ h.2 h1.2.2
    simp only [vList, satList, Bool.and_eq_true]
    exact ⟨⟨h1.1, h2.1⟩, h2.2⟩
theorem toExplicit_vFields (q : Q) (hd : q.DisjConst) (hstop : q.interStop = false) (pkg : String) :
    ∀ (fs : List Field) (n : NewObjs), satFields q fs = true → RegOk q n →
      satFields q (vFields pkg fs n).1 = true ∧ RegOk q (vFields pkg fs n).2
  | [], n, _, hn => by simp [vFields, satFields]; exact hn
  | f :: fs, n, h, hn => by
    simp only [satFields, Bool.and_eq_true] at h
    have h1 := toExplicit_vTy q hd hstop pkg f.ty n h.1.2 hn
    have h2 := toExplicit_vFields q hd hstop pkg fs _ h.2 h1.2.2
    simp only [vFields, satFields, Bool.and_eq_true]
    exact ⟨⟨⟨by rw [h1.2.1]; exact h.1.1, h1.1⟩, h2.1⟩, h2.2⟩
theorem toExplicit_hookBranches (q : Q) (hd : q.DisjConst) (hstop : q.interStop = false) (pkg : String) :
    ∀ (bs : List Ty) (i : Nat) (n : NewObjs), satList q bs = true → RegOk q n →
      satList q (hookBranches pkg bs i n).1 = true ∧ RegOk q (hookBranches pkg bs i n).2
  | [], _, n, _, hn => by simp [hookBranches, satList]; exact hn
  | b :: bs, i, n, h, hn => by
    simp only [satList, Bool.and_eq_true] at h
    cases b with
    | struct fs g gi m =>
      have hb := h.1
      simp only [sat, Bool.and_eq_true] at hb
      have h1 := toExplicit_vFields q hd hstop pkg fs n hb.2 hn
      have hreg : RegOk q (registerNew (newObject pkg (generateBranchName fs i) (.struct (vFields pkg fs n).1 g gi m)) (vFields pkg fs n).2) :=
        h1.2.register (by simpa [newObject, satTop] using h1.1)
      have h2 := toExplicit_hookBranches q hd hstop pkg bs (i + 1) _ h.2 hreg
      simp only [hookBranches, satList, Bool.and_eq_true]
      exact ⟨⟨by simp [sat], h2.1⟩, h2.2⟩
    | scalar k v c m => have h2 := toExplicit_hookBranches q hd hstop pkg bs (i + 1) n h.2 hn; simp only [hookBranches, satList, Bool.and_eq_true]; exact ⟨⟨h.1, h2.1⟩, h2.2⟩
    | ref p nm m => have h2 := toExplicit_hookBranches q hd hstop pkg bs (i + 1) n h.2 hn; simp only [hookBranches, satList, Bool.and_eq_true]; exact ⟨⟨h.1, h2.1⟩, h2.2⟩
    | cref p nm v m => have h2 := toExplicit_hookBranches q hd hstop pkg bs (i + 1) n h.2 hn; simp only [hookBranches, satList, Bool.and_eq_true]; exact ⟨⟨h.1, h2.1⟩, h2.2⟩
    | array e m => have h2 := toExplicit_hookBranches q hd hstop pkg bs (i + 1) n h.2 hn; simp only [hookBranches, satList, Bool.and_eq_true]; exact ⟨⟨h.1, h2.1⟩, h2.2⟩
    | map ix v m => have h2 := toExplicit_hookBranches q hd hstop pkg bs (i + 1) n h.2 hn; simp only [hookBranches, satList, Bool.and_eq_true]; exact ⟨⟨h.1, h2.1⟩, h2.2⟩
    | enum vs m => have h2 := toExplicit_hookBranches q hd hstop pkg bs (i + 1) n h.2 hn; simp only [hookBranches, satList, Bool.and_eq_true]; exact ⟨⟨h.1, h2.1⟩, h2.2⟩
    | disj bs2 i2 m => have h2 := toExplicit_hookBranches q hd hstop pkg bs (i + 1) n h.2 hn; simp only [hookBranches, satList, Bool.and_eq_true]; exact ⟨⟨h.1, h2.1⟩, h2.2⟩
    | inter bs2 m => have h2 := toExplicit_hookBranches q hd hstop pkg bs (i + 1) n h.2 hn; simp only [hookBranches, satList, Bool.and_eq_true]; exact ⟨⟨h.1, h2.1⟩, h2.2⟩
    | slot v m => have h2 := toExplicit_hookBranches q hd hstop pkg bs (i + 1) n h.2 hn; simp only [hookBranches, satList, Bool.and_eq_true]; exact ⟨⟨h.1, h2.1⟩, h2.2⟩
    | bad k m => have h2 := toExplicit_hookBranches q hd hstop pkg bs (i + 1) n h.2 hn; simp only [hookBranches, satList, Bool.and_eq_true]; exact ⟨⟨h.1, h2.1⟩, h2.2⟩
end

theorem toExplicit_vTy_top (q : Q) (hd : q.DisjConst) (hstop : q.interStop = false) (pkg : String) (t : Ty) (n : NewObjs)
    (h : satTop q t = true) (hn : RegOk q n) : satTop q (vTy pkg t n).1 = true ∧ RegOk q (vTy pkg t n).2 := by
  cases t with
  | struct fs g gi m =>
    have := toExplicit_vFields q hd hstop pkg fs n (by simpa [satTop] using h) hn
    simpa [vTy, satTop] using this
  | enum vs m => simp only [vTy]; exact ⟨h, hn⟩
  | scalar k v c m => have := toExplicit_vTy q hd hstop pkg _ n (by simpa [satTop] using h) hn; exact ⟨satTop_of_sat q _ this.1, this.2.2⟩
  | ref p nm m => have := toExplicit_vTy q hd hstop pkg _ n (by simpa [satTop] using h) hn; exact ⟨satTop_of_sat q _ this.1, this.2.2⟩
  | cref p nm v m => have := toExplicit_vTy q hd hstop pkg _ n (by simpa [satTop] using h) hn; exact ⟨satTop_of_sat q _ this.1, this.2.2⟩
  | array e m => have := toExplicit_vTy q hd hstop pkg _ n (by simpa [satTop] using h) hn; exact ⟨satTop_of_sat q _ this.1, this.2.2⟩
  | map i v m => have := toExplicit_vTy q hd hstop pkg _ n (by simpa [satTop] using h) hn; exact ⟨satTop_of_sat q _ this.1, this.2.2⟩
  | disj bs i m => have := toExplicit_vTy q hd hstop pkg _ n (by simpa [satTop] using h) hn; exact ⟨satTop_of_sat q _ this.1, this.2.2⟩
  | inter bs m => have := toExplicit_vTy q hd hstop pkg _ n (by simpa [satTop] using h) hn; exact ⟨satTop_of_sat q _ this.1, this.2.2⟩
  | slot v m => have := toExplicit_vTy q hd hstop pkg _ n (by simpa [satTop] using h) hn; exact ⟨satTop_of_sat q _ this.1, this.2.2⟩
  | bad k m => have := toExplicit_vTy q hd hstop pkg _ n (by simpa [satTop] using h) hn; exact ⟨satTop_of_sat q _ this.1, this.2.2⟩

theorem keeps_DisjunctionOfAnonymousStructsToExplicit (q : Q) (hd : q.DisjConst) (hstop : q.interStop = false)
    (S S' : Schemas) (hS : AllTop q S) (h : DisjunctionOfAnonymousStructsToExplicit.run S = .ok S') : AllTop q S' := by
  refine visitSchemasSt_keeps q (fun _ s t n => .ok (vTy s.pkg t n)) ?_ S S' hS h
  intro cur s _ _
  refine ⟨?_, ?_⟩
  · intro t n r n' ht hn hr
    simp at hr
    have := toExplicit_vTy_top q hd hstop s.pkg t n ht hn
    rw [hr] at this; exact this
  · intro t n r n' ht hn hr
    simp at hr
    have := toExplicit_vTy q hd hstop s.pkg t n ht hn
    rw [hr] at this; exact ⟨this.1, this.2.2⟩

end toExplicit

end Cog.NF
