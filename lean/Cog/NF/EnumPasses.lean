/-
  C06: AnonymousEnumToExplicitType (post: EnumsNamed, for every input), PrefixEnumValues and
  SanitizeEnumMemberNames (keep every test that does not look at member names).
-/
import Cog.NF.Assemble
namespace Cog.NF
open Cog.IR Cog.Passes

/-! ### AnonymousEnumToExplicitType -/
section anonEnum
open Cog.Passes.AnonymousEnumToExplicitType

mutual
theorem anonEnum_processType (cur pkg objName : String) : ∀ (sug : String) (t : Ty) (acc : List Obj), AccOk qNoEnum acc →
    sat qNoEnum (processType cur pkg objName sug t acc).1 = true ∧ AccOk qNoEnum (processType cur pkg objName sug t acc).2
  | _, .scalar .., acc, h => by simp [processType, sat]; exact h
  | _, .ref .., acc, h => by simp [processType, sat]; exact h
  | _, .cref .., acc, h => by simp [processType, sat]; exact h
  | _, .slot .., acc, h => by simp [processType, sat]; exact h
  | _, .bad .., acc, h => by simp [processType, sat]; exact h
  | sug, .enum vs m, acc, h => by
    simp only [processType, sat, true_and]
    exact h.append (by simp [newObject, satTop, qNoEnum])
  | sug, .array e m, acc, h => by
    have := anonEnum_processType cur pkg objName sug e acc h
    simp [processType, sat, this.1]; exact this.2
  | sug, .map i v m, acc, h => by
    have h1 := anonEnum_processType cur pkg objName sug i acc h
    have h2 := anonEnum_processType cur pkg objName sug v _ h1.2
    simp only [processType, sat, Bool.and_eq_true]
    exact ⟨⟨⟨rfl, h1.1⟩, h2.1⟩, h2.2⟩
  | sug, .struct fs g gi m, acc, h => by
    have := anonEnum_processFields cur pkg objName fs acc h
    simp only [processType, sat, Bool.and_eq_true]
    exact ⟨⟨rfl, this.1⟩, this.2⟩
  | sug, .disj bs info m, acc, h => by
    have := anonEnum_processList cur pkg objName sug bs acc h
    simp only [processType, sat, Bool.and_eq_true]
    exact ⟨⟨rfl, this.1⟩, this.2⟩
  | sug, .inter bs m, acc, h => by
    have := anonEnum_processList cur pkg objName sug bs acc h
    simp only [processType, sat, Bool.or_eq_true]
    exact ⟨Or.inr this.1, this.2⟩
theorem anonEnum_processList (cur pkg objName : String) : ∀ (sug : String) (ts : List Ty) (acc : List Obj), AccOk qNoEnum acc →
    satList qNoEnum (processList cur pkg objName sug ts acc).1 = true ∧ AccOk qNoEnum (processList cur pkg objName sug ts acc).2
  | _, [], acc, h => by simp [processList, satList]; exact h
  | sug, t :: ts, acc, h => by
    have h1 := anonEnum_processType cur pkg objName sug t acc h
    have h2 := anonEnum_processList cur pkg objName sug ts _ h1.2
    simp only [processList, satList, Bool.and_eq_true]
    exact ⟨⟨h1.1, h2.1⟩, h2.2⟩
theorem anonEnum_processFields (cur pkg objName : String) : ∀ (fs : List Field) (acc : List Obj), AccOk qNoEnum acc →
    satFields qNoEnum (processFields cur pkg objName fs acc).1 = true ∧ AccOk qNoEnum (processFields cur pkg objName fs acc).2
  | [], acc, h => by simp [processFields, satFields]; exact h
  | f :: fs, acc, h => by
    have h1 := anonEnum_processType cur pkg objName (ucc objName ++ ucc f.name) f.ty acc h
    have h2 := anonEnum_processFields cur pkg objName fs _ h1.2
    simp only [processFields, satFields, Bool.and_eq_true]
    exact ⟨⟨⟨rfl, h1.1⟩, h2.1⟩, h2.2⟩
end

theorem anonEnum_processObject (cur : String) (o : Obj) (acc : List Obj) (h : AccOk qNoEnum acc) :
    satTop qNoEnum (processObject cur o acc).1.ty = true ∧ AccOk qNoEnum (processObject cur o acc).2 := by
  unfold processObject
  split
  · rename_i he
    refine ⟨?_, h⟩
    cases ht : o.ty <;> simp_all [Ty.isEnum, satTop, qNoEnum]
  · have := anonEnum_processType cur o.selfPkg o.name (ucc o.name ++ "Enum") o.ty acc h
    exact ⟨satTop_of_sat _ _ this.1, this.2⟩

theorem anonEnum_processObjects (cur : String) : ∀ (os : Objects) (acc : List Obj), AccOk qNoEnum acc →
    (∀ ko ∈ (processObjects cur os acc).1, satTop qNoEnum ko.2.ty = true) ∧ AccOk qNoEnum (processObjects cur os acc).2
  | [], acc, h => by simp [processObjects]; exact h
  | (k, o) :: rest, acc, h => by
    have h1 := anonEnum_processObject cur o acc h
    have h2 := anonEnum_processObjects cur rest _ h1.2
    simp only [processObjects]
    refine ⟨?_, h2.2⟩
    intro ko hko
    simp at hko
    rcases hko with hko | hko
    · subst hko; exact h1.1
    · exact h2.1 ko hko

/-- `post_AnonymousEnumToExplicitType`: every enum is the type of an object afterwards, whatever the
    input (the pass walks every position, map index included; the entry point type must be a leaf) -/
theorem post_AnonymousEnumToExplicitType (S S' : Schemas) (he : ∀ s ∈ S, eptOk s.entryPointType = true)
    (h : AnonymousEnumToExplicitType.run S = .ok S') : AllTop qNoEnum S' := by
  simp [AnonymousEnumToExplicitType.run] at h
  subst h
  intro s' hs'
  simp only [List.mem_map] at hs'
  obtain ⟨s, hs, rfl⟩ := hs'
  have hp := anonEnum_processObjects s.pkg s.objects [] (by intro o ho; simp at ho)
  refine ⟨sat_of_eptOk _ _ (he s hs), ?_⟩
  intro ko hko
  simp only [processSchema] at hko
  rcases addObjects_mem hko with h1 | h1
  · exact hp.1 ko h1
  · exact hp.2 ko.2 h1

end anonEnum

/-! ### PrefixEnumValues -/

theorem prefixEnum_processObjects (q : Q) (hc : q.EnumConst) : ∀ (os os' : Objects),
    (∀ ko ∈ os, satTop q ko.2.ty = true) → PrefixEnumValues.processObjects os = .ok os' →
    ∀ ko ∈ os', satTop q ko.2.ty = true
  | [], os', _, h => by simp [PrefixEnumValues.processObjects] at h; subst h; simp
  | (k, o) :: rest, os', hos, h => by
    simp only [PrefixEnumValues.processObjects] at h
    cases ho : PrefixEnumValues.processObject o with
    | ok o' =>
      rw [ho] at h; simp only at h
      cases hr : PrefixEnumValues.processObjects rest with
      | ok rest' =>
        rw [hr] at h; simp at h; subst h
        intro ko hko
        simp at hko
        rcases hko with hko | hko
        · subst hko
          have h0 : satTop q o.ty = true := hos (k, o) (by simp)
          simp only [PrefixEnumValues.processObject] at ho
          split at ho
          · rename_i vs m hty
            cases hv : PrefixEnumValues.processValues o.name vs with
            | ok vs' =>
              rw [hv] at ho; simp at ho; subst ho
              rw [hty] at h0
              simp only [satTop] at h0 ⊢
              rw [hc _ vs]; exact h0
            | err e => rw [hv] at ho; cases ho
            | panic e => rw [hv] at ho; cases ho
          · simp at ho; subst ho; exact h0
        · exact prefixEnum_processObjects q hc rest rest' (fun ko hko => hos ko (List.mem_cons_of_mem _ hko)) hr ko hko
      | err e => rw [hr] at h; cases h
      | panic e => rw [hr] at h; cases h
    | err e => rw [ho] at h; cases h
    | panic e => rw [ho] at h; cases h

theorem mapM_mem {α β} {f : α → Outcome β} : ∀ {as : List α} {bs : List β}, Outcome.mapM f as = .ok bs →
    ∀ b ∈ bs, ∃ a ∈ as, f a = .ok b
  | [], bs, h, b, hb => by simp [Outcome.mapM] at h; subst h; simp at hb
  | a :: as, bs, h, b, hb => by
    simp only [Outcome.mapM] at h
    cases ha : f a with
    | ok b0 =>
      rw [ha] at h; simp only [Outcome.bind_ok] at h
      cases hr : Outcome.mapM f as with
      | ok bs0 =>
        rw [hr] at h; simp at h; subst h
        simp at hb
        rcases hb with hb | hb
        · subst hb; exact ⟨a, by simp, ha⟩
        · obtain ⟨a', ha', hf⟩ := mapM_mem hr b hb
          exact ⟨a', List.mem_cons_of_mem _ ha', hf⟩
      | err e => rw [hr] at h; simp at h
      | panic e => rw [hr] at h; simp at h
    | err e => rw [ha] at h; simp at h
    | panic e => rw [ha] at h; simp at h

theorem keeps_PrefixEnumValues (q : Q) (hc : q.EnumConst) (S S' : Schemas) (hS : AllTop q S)
    (h : PrefixEnumValues.run S = .ok S') : AllTop q S' := by
  intro s' hs'
  obtain ⟨s, hs, hf⟩ := mapM_mem h s' hs'
  simp only [PrefixEnumValues.processSchema] at hf
  cases ho : PrefixEnumValues.processObjects s.objects with
  | ok os =>
    rw [ho] at hf; simp at hf; subst hf
    exact ⟨(hS s hs).1, prefixEnum_processObjects q hc s.objects os (hS s hs).2 ho⟩
  | err e => rw [ho] at hf; cases hf
  | panic e => rw [ho] at hf; cases hf

/-! ### SanitizeEnumMemberNames -/
section sanitize
open Cog.Passes.SanitizeEnumMemberNames

mutual
theorem sanitize_vTy (q : Q) (hc : q.EnumConst) (hd : q.DisjConst) : ∀ (t r : Ty), sat q t = true → vTy t = .ok r →
    sat q r = true ∧ r.getMeta = t.getMeta
  | .scalar .., r, h, hr => by simp [vTy] at hr; subst hr; exact ⟨h, rfl⟩
  | .ref .., r, h, hr => by simp [vTy] at hr; subst hr; exact ⟨h, rfl⟩
  | .cref .., r, h, hr => by simp [vTy] at hr; subst hr; exact ⟨h, rfl⟩
  | .slot .., r, h, hr => by simp [vTy] at hr; subst hr; exact ⟨h, rfl⟩
  | .bad .., r, h, hr => by simp [vTy] at hr; subst hr; exact ⟨h, rfl⟩
  | .enum vs m, r, h, hr => by
    simp only [vTy] at hr
    cases hv : sanitizeMembers vs with
    | ok vs' =>
      rw [hv] at hr; simp at hr; subst hr
      simp only [sat, Bool.and_eq_true] at h ⊢
      exact ⟨⟨h.1, by rw [hc _ vs]; exact h.2⟩, rfl⟩
    | err x => rw [hv] at hr; cases hr
    | panic x => rw [hv] at hr; cases hr
  | .array e m, r, h, hr => by
    simp only [vTy] at hr
    cases he : vTy e with
    | ok e' =>
      rw [he] at hr; simp at hr; subst hr
      simp only [sat] at h
      exact ⟨by simp [sat, (sanitize_vTy q hc hd e e' h he).1], rfl⟩
    | err x => rw [he] at hr; cases hr
    | panic x => rw [he] at hr; cases hr
  | .map i v m, r, h, hr => by
    simp only [vTy] at hr
    cases hv : vTy v with
    | ok v' =>
      rw [hv] at hr; simp at hr; subst hr
      simp only [sat, Bool.and_eq_true] at h
      exact ⟨by simp [sat, h.1.1, h.1.2, (sanitize_vTy q hc hd v v' h.2 hv).1], rfl⟩
    | err x => rw [hv] at hr; cases hr
    | panic x => rw [hv] at hr; cases hr
  | .struct fs g gi m, r, h, hr => by
    simp only [vTy] at hr
    cases hf : vFields fs with
    | ok fs' =>
      rw [hf] at hr; simp at hr; subst hr
      simp only [sat, Bool.and_eq_true] at h
      exact ⟨by simp [sat, h.1, sanitize_vFields q hc hd fs fs' h.2 hf], rfl⟩
    | err x => rw [hf] at hr; cases hr
    | panic x => rw [hf] at hr; cases hr
  | .disj bs i m, r, h, hr => by
    simp only [vTy] at hr
    cases hb : vList bs with
    | ok bs' =>
      rw [hb] at hr; simp at hr; subst hr
      simp only [sat, Bool.and_eq_true] at h
      exact ⟨by simp [sat, hd bs' bs, h.1, sanitize_vList q hc hd bs bs' h.2 hb], rfl⟩
    | err x => rw [hb] at hr; cases hr
    | panic x => rw [hb] at hr; cases hr
  | .inter bs m, r, h, hr => by
    simp only [vTy] at hr
    cases hb : vList bs with
    | ok bs' =>
      rw [hb] at hr; simp at hr; subst hr
      refine ⟨?_, rfl⟩
      simp only [sat, Bool.or_eq_true] at h ⊢
      rcases h with h | h
      · exact Or.inl h
      · exact Or.inr (sanitize_vList q hc hd bs bs' h hb)
    | err x => rw [hb] at hr; cases hr
    | panic x => rw [hb] at hr; cases hr
theorem sanitize_vList (q : Q) (hc : q.EnumConst) (hd : q.DisjConst) : ∀ (ts rs : List Ty), satList q ts = true →
    vList ts = .ok rs → satList q rs = true
  | [], rs, _, hr => by simp [vList] at hr; subst hr; simp [satList]
  | t :: ts, rs, h, hr => by
    simp only [vList] at hr
    simp only [satList, Bool.and_eq_true] at h
    cases ht : vTy t with
    | ok t' =>
      rw [ht] at hr; simp only at hr
      cases hts : vList ts with
      | ok ts' =>
        rw [hts] at hr; simp at hr; subst hr
        simp [satList, (sanitize_vTy q hc hd t t' h.1 ht).1, sanitize_vList q hc hd ts ts' h.2 hts]
      | err x => rw [hts] at hr; cases hr
      | panic x => rw [hts] at hr; cases hr
    | err x => rw [ht] at hr; cases hr
    | panic x => rw [ht] at hr; cases hr
theorem sanitize_vFields (q : Q) (hc : q.EnumConst) (hd : q.DisjConst) : ∀ (fs rs : List Field), satFields q fs = true →
    vFields fs = .ok rs → satFields q rs = true
  | [], rs, _, hr => by simp [vFields] at hr; subst hr; simp [satFields]
  | f :: fs, rs, h, hr => by
    simp only [vFields] at hr
    simp only [satFields, Bool.and_eq_true] at h
    cases ht : vTy f.ty with
    | ok t' =>
      rw [ht] at hr; simp only at hr
      cases hfs : vFields fs with
      | ok fs' =>
        rw [hfs] at hr; simp at hr; subst hr
        have := sanitize_vTy q hc hd f.ty t' h.1.2 ht
        simp [satFields, this.1, this.2, h.1.1, sanitize_vFields q hc hd fs fs' h.2 hfs]
      | err x => rw [hfs] at hr; cases hr
      | panic x => rw [hfs] at hr; cases hr
    | err x => rw [ht] at hr; cases hr
    | panic x => rw [ht] at hr; cases hr
end

theorem sanitize_vTy_top (q : Q) (hc : q.EnumConst) (hd : q.DisjConst) (t r : Ty) (h : satTop q t = true)
    (hr : vTy t = .ok r) : satTop q r = true := by
  cases t with
  | struct fs g gi m =>
    simp only [vTy] at hr
    cases hf : vFields fs with
    | ok fs' =>
      rw [hf] at hr; simp at hr; subst hr
      simp only [satTop] at h ⊢
      exact sanitize_vFields q hc hd fs fs' h hf
    | err x => rw [hf] at hr; cases hr
    | panic x => rw [hf] at hr; cases hr
  | enum vs m =>
    simp only [vTy] at hr
    cases hv : sanitizeMembers vs with
    | ok vs' =>
      rw [hv] at hr; simp at hr; subst hr
      simp only [satTop] at h ⊢
      rw [hc _ vs]; exact h
    | err x => rw [hv] at hr; cases hr
    | panic x => rw [hv] at hr; cases hr
  | scalar k v c m => exact satTop_of_sat q r (sanitize_vTy q hc hd _ r (by simpa [satTop] using h) hr).1
  | ref p n m => exact satTop_of_sat q r (sanitize_vTy q hc hd _ r (by simpa [satTop] using h) hr).1
  | cref p n v m => exact satTop_of_sat q r (sanitize_vTy q hc hd _ r (by simpa [satTop] using h) hr).1
  | array e m => exact satTop_of_sat q r (sanitize_vTy q hc hd _ r (by simpa [satTop] using h) hr).1
  | map i v m => exact satTop_of_sat q r (sanitize_vTy q hc hd _ r (by simpa [satTop] using h) hr).1
  | disj bs i m => exact satTop_of_sat q r (sanitize_vTy q hc hd _ r (by simpa [satTop] using h) hr).1
  | inter bs m => exact satTop_of_sat q r (sanitize_vTy q hc hd _ r (by simpa [satTop] using h) hr).1
  | slot v m => exact satTop_of_sat q r (sanitize_vTy q hc hd _ r (by simpa [satTop] using h) hr).1
  | bad k m => exact satTop_of_sat q r (sanitize_vTy q hc hd _ r (by simpa [satTop] using h) hr).1

theorem keeps_SanitizeEnumMemberNames (q : Q) (hc : q.EnumConst) (hd : q.DisjConst) (S S' : Schemas) (hS : AllTop q S)
    (h : SanitizeEnumMemberNames.run S = .ok S') : AllTop q S' := by
  refine visitPure_establishes q q (fun _ _ t => vTy t) ?_ S S' hS h
  intro cur s _ _ _
  exact ⟨fun t r ht hr => (sanitize_vTy q hc hd t r ht hr).1, fun t r ht hr => sanitize_vTy_top q hc hd t r ht hr⟩

end sanitize

end Cog.NF
