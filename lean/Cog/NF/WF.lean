/-
  C06: well-formedness of input IRs (`wfIR`, decidable) and the decidable side conditions of the
  `_partial` theorems.
-/
import Cog.NF.Preds
namespace Cog.NF
open Cog.IR Cog.Passes

/-! ### wfIR: no nil kind pointers below objects; entry point type absent or a reference;
    every object is stored under its own name -/
mutual
def noBadTy : Ty → Bool
  | .array e _ => noBadTy e
  | .map i v _ => noBadTy i && noBadTy v
  | .struct fs g _ _ => noBadFields fs && noBadList g
  | .disj bs _ _ => noBadList bs
  | .inter bs _ => noBadList bs
  | .bad .. => false
  | _ => true
def noBadList : List Ty → Bool
  | [] => true
  | t :: ts => noBadTy t && noBadList ts
def noBadFields : List Field → Bool
  | [] => true
  | f :: fs => noBadTy f.ty && noBadFields fs
end

def eptOk : Ty → Bool
  | .ref .. => true
  | .bad "" _ => true
  | _ => false

def objectsWf : Objects → Bool
  | [] => true
  | (k, o) :: rest => k == o.name && noBadTy o.ty && objectsWf rest

def wfIR : Schemas → Bool
  | [] => true
  | s :: ss => eptOk s.entryPointType && objectsWf s.objects && wfIR ss

/-! ### side conditions -/

/-- every all-digit enum member name fits `strconv.Atoi` -/
def numericNamesInRange (n : String) : Bool := notNumeric n || atoiOk n

def NumericNamesInRange := schemasAll (fun o => enumNamesTy numericNamesInRange o.ty) (enumNamesTy numericNamesInRange)

end Cog.NF
