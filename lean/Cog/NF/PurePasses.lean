/-
  C06: lemmas for the passes that are total functions on types:
  NotRequiredFieldAsNullableType (post: NonRequiredNullable; keeps every `Mono` test),
  RenameNumericEnumValues (keeps every test that does not look at member names),
  and the generic "visitor with a pure function" frame.
-/
import Cog.NF.Hooks
namespace Cog.NF
open Cog.IR Cog.Passes

def Q.EnumConst (q : Q) : Prop := ∀ vs vs', q.enumOk vs = q.enumOk vs'

/-- `eptOk` types are leaves: they pass every test -/
theorem sat_of_eptOk (q : Q) (t : Ty) (h : eptOk t = true) : sat q t = true := by
  cases t <;> simp_all [eptOk, sat]

theorem wfIR_ept : ∀ {S : Schemas}, wfIR S = true → ∀ s ∈ S, eptOk s.entryPointType = true
  | [], _, s, hs => by simp at hs
  | s0 :: rest, h, s, hs => by
    simp only [wfIR, Bool.and_eq_true] at h
    simp at hs
    rcases hs with hs | hs
    · subst hs; exact h.1.1
    · exact wfIR_ept h.2 s hs

/-! ### a visitor applying one function `v` to every object type and entry point type -/

theorem visitPure_establishes (q1 q2 : Q) (v : Schemas → Schema → Ty → Outcome Ty)
    (hv : ∀ cur s, s ∈ cur → (∀ x ∈ cur, SchemaTop q1 x ∨ SchemaTop q2 x) → SchemaTop q1 s →
      (∀ t r, sat q1 t = true → v cur s t = .ok r → sat q2 r = true) ∧
      (∀ t r, satTop q1 t = true → v cur s t = .ok r → satTop q2 r = true))
    (S S' : Schemas) (hS : AllTop q1 S)
    (h : visitSchemas (fun cur s => visitSchemaPure (v cur s) s) S = .ok S') : AllTop q2 S' := by
  -- invariant: schemas already visited are q2-good, the others q1-good
  have key : ∀ (rest done out : Schemas), (∀ x ∈ done, SchemaTop q2 x) → (∀ x ∈ rest, SchemaTop q1 x) →
      visitSchemasFrom (fun cur s => visitSchemaPure (v cur s) s) done rest = .ok out → ∀ x ∈ out, SchemaTop q2 x := by
    intro rest
    induction rest with
    | nil => intro done out hd _ h; simp [visitSchemasFrom] at h; subst h; exact hd
    | cons s rest ih =>
      intro done out hd hr h
      simp only [visitSchemasFrom] at h
      cases hf : visitSchemaPure (v (done ++ s :: rest) s) s with
      | ok s1 =>
        rw [hf] at h
        have hcur : ∀ x ∈ done ++ s :: rest, SchemaTop q1 x ∨ SchemaTop q2 x := by
          intro x hx
          simp at hx
          rcases hx with hx | hx | hx
          · exact Or.inr (hd x hx)
          · exact Or.inl (hr x (by simp [hx]))
          · exact Or.inl (hr x (by simp [hx]))
        have hs : SchemaTop q1 s := hr s (by simp)
        obtain ⟨h1, h2⟩ := hv (done ++ s :: rest) s (by simp) hcur hs
        obtain ⟨he, _, hobjs⟩ := visitSchemaPure_spec hf
        have hs1 : SchemaTop q2 s1 := by
          refine ⟨h1 _ _ hs.1 he, ?_⟩
          intro x hx
          obtain ⟨ko, hko, t, ht, hxe⟩ := hobjs x hx
          rw [hxe]
          exact h2 ko.2.ty t (hs.2 ko hko) ht
        refine ih (done ++ [s1]) out ?_ (fun x hx => hr x (List.mem_cons_of_mem _ hx)) h
        intro x hx
        simp at hx
        rcases hx with hx | hx
        · exact hd x hx
        · subst hx; exact hs1
      | err e => rw [hf] at h; cases h
      | panic e => rw [hf] at h; cases h
  exact key S [] S' (by simp) hS h

/-! ### NotRequiredFieldAsNullableType -/

open NotRequiredFieldAsNullableType in
mutual
theorem notRequired_vTy (q : Q) (hm : q.Mono) (hd : q.DisjConst) : ∀ t : Ty, sat q t = true →
    sat q (vTy t) = true ∧ (vTy t).getMeta = t.getMeta
  | .scalar .., h => by simp [vTy]; exact h
  | .ref .., h => by simp [vTy]; exact h
  | .cref .., h => by simp [vTy]; exact h
  | .enum .., h => by simp [vTy]; exact h
  | .slot .., h => by simp [vTy]; exact h
  | .bad .., h => by simp [vTy]; exact h
  | .array e m, h => by
    simp only [sat] at h
    simp [vTy, sat, Ty.getMeta, (notRequired_vTy q hm hd e h).1]
  | .map i v m, h => by
    simp only [sat, Bool.and_eq_true] at h
    simp [vTy, sat, Ty.getMeta, h.1.1, h.1.2, (notRequired_vTy q hm hd v h.2).1]
  | .struct fs g gi m, h => by
    simp only [sat, Bool.and_eq_true] at h
    simp [vTy, sat, Ty.getMeta, h.1, notRequired_vFields q hm hd fs h.2]
  | .disj bs i m, h => by
    simp only [sat, Bool.and_eq_true] at h
    simp [vTy, sat, Ty.getMeta, hd (vList bs) bs, h.1, notRequired_vList q hm hd bs h.2]
  | .inter bs m, h => by
    simp only [sat, Bool.or_eq_true] at h
    simp only [vTy, sat, Ty.getMeta, Bool.or_eq_true, and_true]
    rcases h with h | h
    · exact Or.inl h
    · exact Or.inr (notRequired_vList q hm hd bs h)
theorem notRequired_vList (q : Q) (hm : q.Mono) (hd : q.DisjConst) : ∀ ts : List Ty, satList q ts = true → satList q (vList ts) = true
  | [], _ => by simp [vList, satList]
  | t :: ts, h => by
    simp only [satList, Bool.and_eq_true] at h
    simp [vList, satList, (notRequired_vTy q hm hd t h.1).1, notRequired_vList q hm hd ts h.2]
theorem notRequired_vFields (q : Q) (hm : q.Mono) (hd : q.DisjConst) : ∀ fs : List Field, satFields q fs = true → satFields q (vFields fs) = true
  | [], _ => by simp [vFields, satFields]
  | f :: fs, h => by
    simp only [satFields, Bool.and_eq_true] at h
    have ht := notRequired_vTy q hm hd f.ty h.1.2
    simp only [vFields, satFields, Bool.and_eq_true]
    refine ⟨?_, notRequired_vFields q hm hd fs h.2⟩
    simp only [fixField]
    split
    · simp only [setNullable, sat_setMeta, getMeta_setMeta]
      exact ⟨hm _ _ h.1.1, ht.1⟩
    · exact ⟨by rw [ht.2]; exact h.1.1, ht.1⟩
end

theorem notRequired_vTy_top (q : Q) (hm : q.Mono) (hd : q.DisjConst) (t : Ty) (h : satTop q t = true) :
    satTop q (NotRequiredFieldAsNullableType.vTy t) = true := by
  cases t with
  | struct fs g gi m => simpa [NotRequiredFieldAsNullableType.vTy, satTop] using notRequired_vFields q hm hd fs (by simpa [satTop] using h)
  | enum vs m => simpa [NotRequiredFieldAsNullableType.vTy] using h
  | scalar k v c m => exact satTop_of_sat q _ (notRequired_vTy q hm hd _ (by simpa [satTop] using h)).1
  | ref p n m => exact satTop_of_sat q _ (notRequired_vTy q hm hd _ (by simpa [satTop] using h)).1
  | cref p n v m => exact satTop_of_sat q _ (notRequired_vTy q hm hd _ (by simpa [satTop] using h)).1
  | array e m => exact satTop_of_sat q _ (notRequired_vTy q hm hd _ (by simpa [satTop] using h)).1
  | map i v m => exact satTop_of_sat q _ (notRequired_vTy q hm hd _ (by simpa [satTop] using h)).1
  | disj bs i m => exact satTop_of_sat q _ (notRequired_vTy q hm hd _ (by simpa [satTop] using h)).1
  | inter bs m => exact satTop_of_sat q _ (notRequired_vTy q hm hd _ (by simpa [satTop] using h)).1
  | slot v m => exact satTop_of_sat q _ (notRequired_vTy q hm hd _ (by simpa [satTop] using h)).1
  | bad k m => exact satTop_of_sat q _ (notRequired_vTy q hm hd _ (by simpa [satTop] using h)).1

/-- `keeps_NotRequiredFieldAsNullableType` for every `Mono` test -/
theorem keeps_NotRequiredFieldAsNullableType (q : Q) (hm : q.Mono) (hd : q.DisjConst) (S S' : Schemas) (hS : AllTop q S)
    (h : NotRequiredFieldAsNullableType.run S = .ok S') : AllTop q S' := by
  refine visitPure_establishes q q (fun _ _ t => .ok (NotRequiredFieldAsNullableType.vTy t)) ?_ S S' hS h
  intro cur s _ _ _
  refine ⟨?_, ?_⟩
  · intro t r ht hr; simp at hr; subst hr; exact (notRequired_vTy q hm hd t ht).1
  · intro t r ht hr; simp at hr; subst hr; exact notRequired_vTy_top q hm hd t ht

/-- a leaf index type passes the NonRequiredNullable test -/
theorem sat_qNrn_of_leafIdx (i : Ty) (h : leafIdx i = true) : sat qNrn i = true := by
  cases i <;> simp_all [leafIdx, sat]

open NotRequiredFieldAsNullableType in
mutual
/-- what the pass ESTABLISHES: below every position the visitor walks, non-required fields are
    nullable; the map index types, which it does not walk, are leaves by hypothesis -/
theorem notRequired_establishes : ∀ t : Ty, sat qIdx t = true → sat qNrn (vTy t) = true
  | .scalar .., _ => by simp [vTy, sat]
  | .ref .., _ => by simp [vTy, sat]
  | .cref .., _ => by simp [vTy, sat]
  | .enum .., _ => by simp [vTy, sat, qNrn]
  | .slot .., _ => by simp [vTy, sat]
  | .bad .., _ => by simp [vTy, sat]
  | .array e m, h => by
    simp only [sat] at h
    simp [vTy, sat, notRequired_establishes e h]
  | .map i v m, h => by
    simp only [sat, Bool.and_eq_true] at h
    have hi : leafIdx i = true := h.1.1
    simp only [vTy, sat, Bool.and_eq_true]
    exact ⟨⟨rfl, sat_qNrn_of_leafIdx i hi⟩, notRequired_establishes v h.2⟩
  | .struct fs g gi m, h => by
    simp only [sat, Bool.and_eq_true] at h
    simp only [vTy, sat, Bool.and_eq_true]
    exact ⟨rfl, notRequired_establishesFields fs h.2⟩
  | .disj bs i m, h => by
    simp only [sat, Bool.and_eq_true] at h
    simp only [vTy, sat, Bool.and_eq_true]
    exact ⟨rfl, notRequired_establishesList bs h.2⟩
  | .inter bs m, h => by
    simp only [sat, Bool.or_eq_true] at h
    simp only [vTy, sat, Bool.or_eq_true]
    rcases h with h | h
    · simp [qIdx] at h
    · exact Or.inr (notRequired_establishesList bs h)
theorem notRequired_establishesList : ∀ ts : List Ty, satList qIdx ts = true → satList qNrn (vList ts) = true
  | [], _ => by simp [vList, satList]
  | t :: ts, h => by
    simp only [satList, Bool.and_eq_true] at h
    simp [vList, satList, notRequired_establishes t h.1, notRequired_establishesList ts h.2]
theorem notRequired_establishesFields : ∀ fs : List Field, satFields qIdx fs = true → satFields qNrn (vFields fs) = true
  | [], _ => by simp [vFields, satFields]
  | f :: fs, h => by
    simp only [satFields, Bool.and_eq_true] at h
    have ht := notRequired_establishes f.ty h.1.2
    simp only [vFields, satFields, Bool.and_eq_true]
    refine ⟨?_, notRequired_establishesFields fs h.2⟩
    simp only [fixField]
    split
    · simp only [setNullable, sat_setMeta, getMeta_setMeta]
      exact ⟨by simp [qNrn], ht⟩
    · rename_i hc
      refine ⟨?_, ht⟩
      simp only [qNrn]
      simp only [Bool.and_eq_true, Bool.not_eq_true', not_and, Bool.not_eq_false] at hc
      cases hreq : f.required
      · simp [hc hreq]
      · simp
end

theorem notRequired_establishes_top (t : Ty) (h : satTop qIdx t = true) :
    satTop qNrn (NotRequiredFieldAsNullableType.vTy t) = true := by
  cases t with
  | struct fs g gi m => simpa [NotRequiredFieldAsNullableType.vTy, satTop] using notRequired_establishesFields fs (by simpa [satTop] using h)
  | enum vs m => simp [NotRequiredFieldAsNullableType.vTy, satTop, qNrn]
  | scalar k v c m => exact satTop_of_sat _ _ (notRequired_establishes _ (by simpa [satTop] using h))
  | ref p n m => exact satTop_of_sat _ _ (notRequired_establishes _ (by simpa [satTop] using h))
  | cref p n v m => exact satTop_of_sat _ _ (notRequired_establishes _ (by simpa [satTop] using h))
  | array e m => exact satTop_of_sat _ _ (notRequired_establishes _ (by simpa [satTop] using h))
  | map i v m => exact satTop_of_sat _ _ (notRequired_establishes _ (by simpa [satTop] using h))
  | disj bs i m => exact satTop_of_sat _ _ (notRequired_establishes _ (by simpa [satTop] using h))
  | inter bs m => exact satTop_of_sat _ _ (notRequired_establishes _ (by simpa [satTop] using h))
  | slot v m => exact satTop_of_sat _ _ (notRequired_establishes _ (by simpa [satTop] using h))
  | bad k m => exact satTop_of_sat _ _ (notRequired_establishes _ (by simpa [satTop] using h))

/-- `post_NotRequiredFieldAsNullableType` -/
theorem post_NotRequiredFieldAsNullableType (S S' : Schemas) (hS : AllTop qIdx S)
    (h : NotRequiredFieldAsNullableType.run S = .ok S') : AllTop qNrn S' := by
  refine visitPure_establishes qIdx qNrn (fun _ _ t => .ok (NotRequiredFieldAsNullableType.vTy t)) ?_ S S' hS h
  intro cur s _ _ _
  refine ⟨?_, ?_⟩
  · intro t r ht hr; simp at hr; subst hr; exact notRequired_establishes t ht
  · intro t r ht hr; simp at hr; subst hr; exact notRequired_establishes_top t ht

/-! ### RenameNumericEnumValues: only member names of enum objects change -/

theorem keeps_RenameNumericEnumValues (q : Q) (hc : q.EnumConst) (S S' : Schemas) (hS : AllTop q S)
    (h : RenameNumericEnumValues.run S = .ok S') : AllTop q S' := by
  simp [RenameNumericEnumValues.run] at h
  subst h
  intro s' hs'
  simp only [List.mem_map] at hs'
  obtain ⟨s, hs, rfl⟩ := hs'
  refine ⟨(hS s hs).1, ?_⟩
  intro ko hko
  simp only [RenameNumericEnumValues.processSchema, mapObjects, List.mem_map] at hko
  obtain ⟨ko0, hko0, rfl⟩ := hko
  have h0 : satTop q ko0.2.ty = true := (hS s hs).2 ko0 hko0
  simp only [RenameNumericEnumValues.processObject]
  split
  · rename_i vs m hty
    rw [hty] at h0
    simp only [satTop] at h0 ⊢
    rw [hc _ vs]; exact h0
  · exact h0

end Cog.NF
