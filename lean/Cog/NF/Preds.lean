/-
  C06: the decidable normal-form predicates on the post-chain IR (core Lean only, evaluated by the
  driver request `nf <lang> <schemas>` and, independently, by the Go oracle harness/c06_oracle.go).

  Positions: every predicate looks at EVERY type position of the IR as shown by `cog inspect`:
  object types, the schema's entry point type, array elements, map INDEX and value types, struct
  field types, disjunction and intersection branches.  The `DisjunctionType` kept as a hint on a
  struct generated from a disjunction (`gen`) is audit data of that struct, not a type position.
-/
import Cog.Passes.Common
namespace Cog.NF
open Cog.IR Cog.Passes

/-! ### NoUnion: no disjunction anywhere -/
mutual
def noUnionTy : Ty → Bool
  | .array e _ => noUnionTy e
  | .map i v _ => noUnionTy i && noUnionTy v
  | .struct fs _ _ _ => noUnionFields fs
  | .disj .. => false
  | .inter bs _ => noUnionList bs
  | _ => true
def noUnionList : List Ty → Bool
  | [] => true
  | t :: ts => noUnionTy t && noUnionList ts
def noUnionFields : List Field → Bool
  | [] => true
  | f :: fs => noUnionTy f.ty && noUnionFields fs
end

/-! ### EnumsNamed: an enum only as the type of an object -/
mutual
def noEnumTy : Ty → Bool
  | .array e _ => noEnumTy e
  | .map i v _ => noEnumTy i && noEnumTy v
  | .struct fs _ _ _ => noEnumFields fs
  | .disj bs _ _ => noEnumList bs
  | .inter bs _ => noEnumList bs
  | .enum .. => false
  | _ => true
def noEnumList : List Ty → Bool
  | [] => true
  | t :: ts => noEnumTy t && noEnumList ts
def noEnumFields : List Field → Bool
  | [] => true
  | f :: fs => noEnumTy f.ty && noEnumFields fs
end

def enumsNamedTop : Ty → Bool
  | .enum .. => true
  | t => noEnumTy t

/-! ### StructsNamedOutsideAllOf: a struct only as the type of an object, or below an intersection -/
mutual
def noStructTy : Ty → Bool
  | .array e _ => noStructTy e
  | .map i v _ => noStructTy i && noStructTy v
  | .struct .. => false
  | .disj bs _ _ => noStructList bs
  | .inter .. => true
  | _ => true
def noStructList : List Ty → Bool
  | [] => true
  | t :: ts => noStructTy t && noStructList ts
end

def noStructFields : List Field → Bool
  | [] => true
  | f :: fs => noStructTy f.ty && noStructFields fs

def structsNamedTop : Ty → Bool
  | .struct fs _ _ _ => noStructFields fs
  | t => noStructTy t

/-! ### NonRequiredNullable: every field is required or nullable -/
mutual
def nrnTy : Ty → Bool
  | .array e _ => nrnTy e
  | .map i v _ => nrnTy i && nrnTy v
  | .struct fs _ _ _ => nrnFields fs
  | .disj bs _ _ => nrnList bs
  | .inter bs _ => nrnList bs
  | _ => true
def nrnList : List Ty → Bool
  | [] => true
  | t :: ts => nrnTy t && nrnList ts
def nrnFields : List Field → Bool
  | [] => true
  | f :: fs => (f.required || f.ty.getMeta.nullable) && nrnTy f.ty && nrnFields fs
end

/-! ### NoNullPairUnion: no two-branch disjunction with a `null` branch -/
def isNullPair (bs : List Ty) : Bool := bs.length == 2 && hasNullType bs

mutual
def nnpTy : Ty → Bool
  | .array e _ => nnpTy e
  | .map i v _ => nnpTy i && nnpTy v
  | .struct fs _ _ _ => nnpFields fs
  | .disj bs _ _ => !isNullPair bs && nnpList bs
  | .inter bs _ => nnpList bs
  | _ => true
def nnpList : List Ty → Bool
  | [] => true
  | t :: ts => nnpTy t && nnpList ts
def nnpFields : List Field → Bool
  | [] => true
  | f :: fs => nnpTy f.ty && nnpFields fs
end

/-! ### enum member names -/
def allMembers (p : String → Bool) : List EnumVal → Bool
  | [] => true
  | v :: vs => p v.name && allMembers p vs

mutual
/-- every enum node below (and including) `t` has member names satisfying `p` -/
def enumNamesTy (p : String → Bool) : Ty → Bool
  | .array e _ => enumNamesTy p e
  | .map i v _ => enumNamesTy p i && enumNamesTy p v
  | .struct fs _ _ _ => enumNamesFields p fs
  | .disj bs _ _ => enumNamesList p bs
  | .inter bs _ => enumNamesList p bs
  | .enum vs _ => allMembers p vs
  | _ => true
def enumNamesList (p : String → Bool) : List Ty → Bool
  | [] => true
  | t :: ts => enumNamesTy p t && enumNamesList p ts
def enumNamesFields (p : String → Bool) : List Field → Bool
  | [] => true
  | f :: fs => enumNamesTy p f.ty && enumNamesFields p fs
end

/-- TypeScript / Python: never purely numeric -/
def notNumeric (n : String) : Bool := !(!n.toList.isEmpty && n.toList.all Char.isDigit)
/-- PHP: non-empty and not starting with a sign -/
def sanitised (n : String) : Bool :=
  match n.toList with
  | [] => false
  | c :: _ => c != '-' && c != '+'
/-- Go: the members of enum OBJECT `obj` carry the object's name as prefix -/
def prefixed (objName : String) (n : String) : Bool := (ucc objName).toList.isPrefixOf n.toList

def goEnumNamesObj (o : Obj) : Bool :=
  match o.ty with
  | .enum vs _ => allMembers (prefixed o.name) vs
  | _ => true

/-! ### lifting to schemas -/
def allObjects (p : Obj → Bool) : Objects → Bool
  | [] => true
  | (_, o) :: rest => p o && allObjects p rest

/-- `top` judges an object's type, `inner` the entry point type -/
def schemaAll (top : Obj → Bool) (inner : Ty → Bool) (s : Schema) : Bool :=
  inner s.entryPointType && allObjects top s.objects

def schemasAll (top : Obj → Bool) (inner : Ty → Bool) : Schemas → Bool
  | [] => true
  | s :: ss => schemaAll top inner s && schemasAll top inner ss

def NoUnion := schemasAll (fun o => noUnionTy o.ty) noUnionTy
def EnumsNamed := schemasAll (fun o => enumsNamedTop o.ty) noEnumTy
def StructsNamedOutsideAllOf := schemasAll (fun o => structsNamedTop o.ty) noStructTy
def NonRequiredNullable := schemasAll (fun o => nrnTy o.ty) nrnTy
def NoNullPairUnion := schemasAll (fun o => nnpTy o.ty) nnpTy
def EnumNames_go := schemasAll goEnumNamesObj (fun _ => true)
def EnumNames_php := schemasAll (fun o => enumNamesTy sanitised o.ty) (enumNamesTy sanitised)
def EnumNames_num := schemasAll (fun o => enumNamesTy notNumeric o.ty) (enumNamesTy notNumeric)

/-- the conjuncts of the normal form of each language, by name -/
def conjuncts : String → Option (List (String × (Schemas → Bool)))
  | "go" => some [("NoUnion", NoUnion), ("EnumsNamed", EnumsNamed), ("StructsNamedOutsideAllOf", StructsNamedOutsideAllOf),
      ("NonRequiredNullable", NonRequiredNullable), ("NoNullPairUnion", NoNullPairUnion), ("EnumNames", EnumNames_go)]
  | "java" => some [("NoUnion", NoUnion), ("EnumsNamed", EnumsNamed), ("StructsNamedOutsideAllOf", StructsNamedOutsideAllOf),
      ("NonRequiredNullable", NonRequiredNullable), ("NoNullPairUnion", NoNullPairUnion)]
  | "php" => some [("EnumsNamed", EnumsNamed), ("StructsNamedOutsideAllOf", StructsNamedOutsideAllOf),
      ("NonRequiredNullable", NonRequiredNullable), ("NoNullPairUnion", NoNullPairUnion), ("EnumNames", EnumNames_php)]
  | "python" => some [("StructsNamedOutsideAllOf", StructsNamedOutsideAllOf), ("NonRequiredNullable", NonRequiredNullable),
      ("NoNullPairUnion", NoNullPairUnion), ("EnumNames", EnumNames_num)]
  | "typescript" => some [("EnumNames", EnumNames_num)]
  | _ => none

def NF_go (s : Schemas) : Bool :=
  NoUnion s && EnumsNamed s && StructsNamedOutsideAllOf s && NonRequiredNullable s && NoNullPairUnion s && EnumNames_go s
def NF_java (s : Schemas) : Bool :=
  NoUnion s && EnumsNamed s && StructsNamedOutsideAllOf s && NonRequiredNullable s && NoNullPairUnion s
def NF_php (s : Schemas) : Bool :=
  EnumsNamed s && StructsNamedOutsideAllOf s && NonRequiredNullable s && NoNullPairUnion s && EnumNames_php s
def NF_python (s : Schemas) : Bool :=
  StructsNamedOutsideAllOf s && NonRequiredNullable s && NoNullPairUnion s && EnumNames_num s
def NF_typescript (s : Schemas) : Bool := EnumNames_num s

def failing (lang : String) (s : Schemas) : Option (List String) :=
  (conjuncts lang).map fun cs => (cs.filter fun (_, p) => !p s).map (·.1)

end Cog.NF
