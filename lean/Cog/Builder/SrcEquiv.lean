/-
  The bodies of `BuilderGenerator.FromAST`, `structObjectToBuilder`, `fieldIsRefToConcrete` and
  `structFieldToOption` of internal/ast/builder.go, as TRANSLATED by /verif/extract/xfromast into the
  generated module `Cog.Gen.FromASTSrc` (regenerated from /repo on every run), compute exactly the
  hand-written model functions of `FromAST.lean` — for ALL schema sets / schemas / objects / fields
  and every fuel, panics and divergence included (`Outcome` is compared as a whole: `.ok v`,
  `.err "diverge"`, `.panic site`).

  The generated bodies are closed terms, so `exec` unfolds on them (`src_simp`).  Loops: the field
  loop of `structObjectToBuilder` (`loop_fields` + `step_fields`: one iteration = the model's
  `fieldStep`, accumulated by `addOut`), the `Iterate` callback (`loop_objects` + `step_objects` =
  `objectBuilder`) and the range over the schemas (`loop_schemas` + `step_schemas` = `objectsBuilders`)
  of `FromAST`.  Sub-statements of a generated body are addressed by position (`firstOf`, `restOf`,
  `rangeBody`, …; the `hshape` equations are `rfl` on the generated term).

  When builder.go changes, `Cog.Gen.FromASTSrc` changes and these proofs are re-checked by the
  kernel; if a body no longer means the model function the build breaks (checks/c16.py then searches
  for a concrete failing input with the correspondence streams).
-/
import Cog.Gen.FromASTSrc
set_option linter.unusedSimpArgs false
set_option linter.unusedVariables false
namespace Cog.Builder.Src
open Cog Cog.IR Cog.Builder Cog.Gen.FromASTSrc

theorem src_fieldIsRefToConcrete (fuel : Nat) (ss : Schemas) (f : Field) :
    call fuel fieldIsRefToConcreteBody fieldIsRefToConcreteParams [.schemas ss, .fld f] =
      liftB (fieldIsRefToConcrete ss fuel f) := by
  cases h1 : kindIs f.ty "ref" <;> cases h2 : resolveO ss fuel f.ty <;>
    simp [call, fieldIsRefToConcreteBody, fieldIsRefToConcreteParams, exec, eval, evalCond, init, bind, upd,
    evalField, method0, method1, Cog.Builder.fieldIsRefToConcrete, liftB, h1, h2]
  rename_i r
  cases h3 : isConcreteScalar r <;> simp [liftB]

def optOut : Outcome Opt → Outcome V
  | .ok o => .ok (.opt o)
  | .err e => .err e
  | .panic s => .panic s

theorem src_structFieldToOption (fuel : Nat) (f : Field) :
    call fuel structFieldToOptionBody structFieldToOptionParams [.fld f] = optOut (structFieldToOption f) := by
  cases h1 : fieldAssignment f <;> cases h2 : isNil f.ty.getMeta.dflt <;>
  simp [call, structFieldToOptionBody, structFieldToOptionParams, exec, eval, evalCond, init, bind, upd,
    evalField, method0, method1, func1, evalZero, evalEmpty, evalAppend, setField, setPath, zeroOpt, zeroArg,
    Cog.Builder.structFieldToOption, optOut, h1, h2]
/-- unfold the interpreter on a closed program term -/
macro "src_simp" "[" ts:Lean.Parser.Tactic.simpLemma,* "]" : tactic =>
  `(tactic| simp [exec, eval, evalCond, upd, evalField, method0, method1, method2, method3, func1, func2,
      evalAppend, evalEmpty, evalZero, setField, setPath, liftB, $ts,*])

/-- what one `FieldOut` of the model does to the builder under construction -/
def addOut (b : Builder) : FieldOut → Builder
  | .const a => { b with constructor := { b.constructor with assignments := b.constructor.assignments ++ [a] } }
  | .skip => b
  | .opt o => { b with options := b.options ++ [o] }

def addOuts (b : Builder) : List FieldOut → Builder
  | [] => b
  | o :: r => addOuts (addOut b o) r

theorem addOuts_eq (outs : List FieldOut) : ∀ b : Builder, addOuts b outs =
    { b with constructor := { b.constructor with assignments := b.constructor.assignments ++ outConsts outs },
             options := b.options ++ outOpts outs } := by
  induction outs with
  | nil => intro b; simp [addOuts, outConsts, outOpts]
  | cons o r ih =>
    intro b
    cases o <;> simp [addOuts, addOut, outConsts, outOpts, ih, List.append_assoc]

/-- the locals of `structObjectToBuilder` the loop relies on: the builder, `schemas`, the receiver -/
def Inv (ss : Schemas) (env : Env) (b : Builder) : Prop :=
  env "x0" = some (.builder b) ∧ env "p0" = some (.schemas ss) ∧ env "r" = some .gen

/-- one iteration: the interpreter's result against the model's `FieldOut` -/
def StepRel (ss : Schemas) (b : Builder) : Outcome (Ctl × Env) → Outcome FieldOut → Prop
  | .ok (c, env'), .ok out => (c = .normal ∨ c = .cont) ∧ Inv ss env' (addOut b out)
  | .err e, .err e' => e = e'
  | .panic s, .panic s' => s = s'
  | _, _ => False

def LoopRel (ss : Schemas) (b : Builder) : Outcome (Ctl × Env) → Outcome (List FieldOut) → Prop
  | .ok (c, env'), .ok outs => c = .normal ∧ Inv ss env' (addOuts b outs)
  | .err e, .err e' => e = e'
  | .panic s, .panic s' => s = s'
  | _, _ => False

def consOut (out : FieldOut) : Outcome (List FieldOut) → Outcome (List FieldOut)
  | .ok os => .ok (out :: os)
  | .err e => .err e
  | .panic s => .panic s

theorem LoopRel_cons (ss : Schemas) (b : Builder) (out : FieldOut) (q : Outcome (Ctl × Env))
    (m : Outcome (List FieldOut)) (h : LoopRel ss (addOut b out) q m) :
    LoopRel ss b q (consOut out m) := by
  cases m <;> cases q <;> simp only [LoopRel] at h <;> try (simp [LoopRel, consOut, h]; done)
  rename_i outs r
  obtain ⟨c, env'⟩ := r
  simpa [LoopRel, consOut, addOuts] using h

theorem loop_fields (ss : Schemas) (fuel : Nat) (bodyf : Env → Outcome (Ctl × Env))
    (hstep : ∀ env b f, Inv ss env b → StepRel ss b (bodyf (upd env "x2" (.fld f))) (fieldStep ss fuel f)) :
    ∀ fs env b, Inv ss env b →
      LoopRel ss b (loop bodyf (fun s a => upd s "x2" (.fld a)) false fs env) (fieldSteps ss fuel fs) := by
  intro fs
  induction fs with
  | nil => intro env b h; simpa [loop, fieldSteps, LoopRel, addOuts] using h
  | cons f fs ih =>
    intro env b h
    have h1 := hstep env b f h
    simp only [loop, fieldSteps]
    cases hm : fieldStep ss fuel f <;> cases hr : bodyf (upd env "x2" (.fld f)) <;>
      simp only [hm, hr, StepRel] at h1 <;> try (simp [LoopRel, h1]; done)
    rename_i out r
    obtain ⟨c, env'⟩ := r
    simp only [StepRel] at h1
    obtain ⟨hc, hi⟩ := h1
    have h2 := ih env' (addOut b out) hi
    rcases hc with hc | hc <;> subst hc <;> simp <;> exact LoopRel_cons ss b out _ _ h2

/-- the body of the `for _, field := range structType.Fields` loop of the translated program -/
def rangeBody : Stmt → Stmt
  | .seq _ (.seq _ (.seq (.forRange _ _ b) _)) => b
  | _ => .skip

def firstOf : Stmt → Stmt
  | .seq a _ => a
  | _ => .skip

def restOf : Stmt → Stmt
  | .seq _ r => r
  | _ => .skip

/-- `Inv` + the loop variable -/
def Inv2 (ss : Schemas) (env : Env) (b : Builder) (f : Field) : Prop :=
  env "x0" = some (.builder b) ∧ env "p0" = some (.schemas ss) ∧ env "r" = some .gen ∧ env "x2" = some (.fld f)

/-- third test + the final `builder.Options = append(…)` against the model's `optionOrSkip` -/
theorem tail_fields (ss : Schemas) (fuel : Nat) (b : Builder) (f : Field) (env : Env) (h : Inv2 ss env b f) :
    StepRel ss b (exec fuel (restOf (restOf (rangeBody structObjectToBuilderBody))) env) (optionOrSkip f) := by
  obtain ⟨hx, hp, hr, hf⟩ := h
  simp only [rangeBody, restOf, structObjectToBuilderBody]
  cases h1 : kindIs f.ty "constant_ref" <;> cases h2 : Cog.Builder.structFieldToOption f <;>
    simp [exec, eval, evalCond, upd, evalField, method0, method1, evalAppend, setField, setPath,
      optionOrSkip, StepRel, Inv, addOut, hx, hp, hr, hf, h1, h2]

/-- second test (`Required && !Nullable && fieldIsRefToConcrete`) against the model's `fieldStepRest` -/
theorem rest_fields (ss : Schemas) (fuel : Nat) (b : Builder) (f : Field) (T : Stmt)
    (hT : ∀ env, Inv2 ss env b f → StepRel ss b (exec fuel T env) (optionOrSkip f))
    (env : Env) (h : Inv2 ss env b f) :
    StepRel ss b (exec fuel (.seq (firstOf (restOf (rangeBody structObjectToBuilderBody))) T) env)
      (fieldStepRest ss fuel f) := by
  have hT' := hT env h
  obtain ⟨hx, hp, hr, hf⟩ := h
  simp only [rangeBody, restOf, firstOf, structObjectToBuilderBody]
  cases hreq : f.required <;> cases hnull : f.ty.getMeta.nullable <;>
    cases hfr : Cog.Builder.fieldIsRefToConcrete ss fuel f <;>
    simp [exec, eval, evalCond, upd, evalField, method0, method1, method2, func1, func2, evalAppend, setField, setPath,
      fieldStepRest, liftB, hx, hp, hr, hf, hreq, hnull, hfr, hT'] <;> try (simp [StepRel]; done)
  rename_i r
  cases r <;> simp [hT']
  cases hres : resolveO ss fuel f.ty with
  | err e => src_simp [constantOf, StepRel, hx, hp, hr, hf, hres]
  | panic st => src_simp [constantOf, StepRel, hx, hp, hr, hf, hres]
  | ok t =>
    cases has : asScalar t with
    | err e => src_simp [constantOf, StepRel, hx, hp, hr, hf, hres, has]
    | panic st => src_simp [constantOf, StepRel, hx, hp, hr, hf, hres, has]
    | ok kvc =>
      obtain ⟨k, v, cs⟩ := kvc
      src_simp [constantOf, StepRel, Inv, addOut, hx, hp, hr, hf, hres, has]

/-- first test (concrete scalar) against the model's `fieldStep` -/
theorem first_fields (ss : Schemas) (fuel : Nat) (b : Builder) (f : Field) (T : Stmt)
    (hT : ∀ env, Inv2 ss env b f → StepRel ss b (exec fuel T env) (fieldStepRest ss fuel f))
    (env : Env) (h : Inv2 ss env b f) :
    StepRel ss b (exec fuel (.seq (firstOf (rangeBody structObjectToBuilderBody)) T) env)
      (fieldStep ss fuel f) := by
  have hT' := hT env h
  obtain ⟨hx, hp, hr, hf⟩ := h
  simp only [rangeBody, restOf, firstOf, structObjectToBuilderBody]
  cases h1 : kindIs f.ty "scalar" <;> cases h2 : asScalar f.ty <;>
    simp [exec, eval, evalCond, upd, evalField, method0, method1, method2, func1, func2, evalAppend, setField, setPath,
      fieldStep, isConcreteScalar, hx, hp, hr, hf, h1, h2, hT'] <;> try (simp [StepRel]; done)
  rename_i kvc
  obtain ⟨k, v, cs⟩ := kvc
  cases hv : isNil v with
  | true => src_simp [fieldStep, isConcreteScalar, hx, hp, hr, hf, h1, h2, hv, hT']
  | false => src_simp [fieldStep, isConcreteScalar, StepRel, Inv, addOut, hx, hp, hr, hf, h1, h2, hv]

/-- one iteration of the translated loop body computes the model's `fieldStep` -/
theorem step_fields (ss : Schemas) (fuel : Nat) (env : Env) (b : Builder) (f : Field) (h : Inv ss env b) :
    StepRel ss b (exec fuel (rangeBody structObjectToBuilderBody) (upd env "x2" (.fld f))) (fieldStep ss fuel f) := by
  have hshape : rangeBody structObjectToBuilderBody =
      .seq (firstOf (rangeBody structObjectToBuilderBody))
        (.seq (firstOf (restOf (rangeBody structObjectToBuilderBody)))
          (restOf (restOf (rangeBody structObjectToBuilderBody)))) := rfl
  rw [hshape]
  obtain ⟨hx, hp, hr⟩ := h
  exact first_fields ss fuel b f _
    (fun env' h' => rest_fields ss fuel b f _ (fun env'' h'' => tail_fields ss fuel b f env'' h'') env' h')
    _ ⟨by simp [upd, hx], by simp [upd, hp], by simp [upd, hr], by simp [upd]⟩

def rangeExpr : Stmt → Expr
  | .seq _ (.seq _ (.seq (.forRange _ e _) _)) => e
  | _ => .nil

def builderOut : Outcome Builder → Outcome V
  | .ok b => .ok (.builder b)
  | .err e => .err e
  | .panic s => .panic s

theorem exec_seq (fuel : Nat) (a b : Stmt) (env : Env) :
    exec fuel (.seq a b) env = (match exec fuel a env with
      | .ok (.normal, env') => exec fuel b env'
      | r => r) := by
  simp only [exec]
  cases exec fuel a env with
  | ok r => obtain ⟨c, e⟩ := r; cases c <;> rfl
  | err e => rfl
  | panic st => rfl

theorem exec_forRange_flds (fuel : Nat) (x : String) (e : Expr) (body : Stmt) (env : Env) (l : List Field)
    (h : eval fuel e env = .ok (.flds l)) :
    exec fuel (.forRange x e body) env =
      loop (fun s => exec fuel body s) (fun s a => upd s x (.fld a)) false l env := by
  simp [exec, h]

theorem src_structObjectToBuilder (fuel : Nat) (ss : Schemas) (s : Schema) (o : Obj) :
    call fuel structObjectToBuilderBody structObjectToBuilderParams [.schemas ss, .schema s, .obj o] =
      builderOut (structObjectToBuilder ss fuel s o) := by
  have hshape : structObjectToBuilderBody =
      .seq (firstOf structObjectToBuilderBody)
        (.seq (firstOf (restOf structObjectToBuilderBody))
          (.seq (.forRange "x2" (rangeExpr structObjectToBuilderBody) (rangeBody structObjectToBuilderBody))
            (restOf (restOf (restOf structObjectToBuilderBody))))) := rfl
  generalize henv0 : init structObjectToBuilderParams [.schemas ss, .schema s, .obj o] = env0
  have e_r : env0 "r" = some .gen := by subst henv0; simp [init, bind, upd, structObjectToBuilderParams]
  have e_p0 : env0 "p0" = some (.schemas ss) := by subst henv0; simp [init, bind, upd, structObjectToBuilderParams]
  have e_p1 : env0 "p1" = some (.schema s) := by subst henv0; simp [init, bind, upd, structObjectToBuilderParams]
  have e_p2 : env0 "p2" = some (.obj o) := by subst henv0; simp [init, bind, upd, structObjectToBuilderParams]
  let b0 : Builder := { for_ := o, pkg := s.pkg, name := o.name }
  have hA : exec fuel (firstOf structObjectToBuilderBody) env0 = .ok (.normal, upd env0 "x0" (.builder b0)) := by
    src_simp [firstOf, structObjectToBuilderBody, zeroBuilder, e_p1, e_p2, b0]
  unfold call
  rw [henv0, hshape, exec_seq, hA]
  simp only []
  rw [exec_seq]
  cases hres : resolveO ss fuel o.ty with
  | err e =>
    have hB : exec fuel (firstOf (restOf structObjectToBuilderBody)) (upd env0 "x0" (.builder b0)) = .err e := by
      src_simp [firstOf, restOf, structObjectToBuilderBody, e_p0, e_p2, hres]
    simp [hB, structObjectToBuilder, hres, builderOut]
  | panic st =>
    have hB : exec fuel (firstOf (restOf structObjectToBuilderBody)) (upd env0 "x0" (.builder b0)) = .panic st := by
      src_simp [firstOf, restOf, structObjectToBuilderBody, e_p0, e_p2, hres]
    simp [hB, structObjectToBuilder, hres, builderOut]
  | ok t =>
    cases hfs : asStructFields t with
    | err e =>
      have hB : exec fuel (firstOf (restOf structObjectToBuilderBody)) (upd env0 "x0" (.builder b0)) = .err e := by
        src_simp [firstOf, restOf, structObjectToBuilderBody, e_p0, e_p2, hres, hfs]
      simp [hB, structObjectToBuilder, hres, hfs, builderOut]
    | panic st =>
      have hB : exec fuel (firstOf (restOf structObjectToBuilderBody)) (upd env0 "x0" (.builder b0)) = .panic st := by
        src_simp [firstOf, restOf, structObjectToBuilderBody, e_p0, e_p2, hres, hfs]
      simp [hB, structObjectToBuilder, hres, hfs, builderOut]
    | ok fs =>
      have hB : exec fuel (firstOf (restOf structObjectToBuilderBody)) (upd env0 "x0" (.builder b0)) =
          .ok (.normal, upd (upd env0 "x0" (.builder b0)) "x1" (.structT fs)) := by
        src_simp [firstOf, restOf, structObjectToBuilderBody, e_p0, e_p2, hres, hfs]
      rw [hB]
      simp only []
      rw [exec_seq, exec_forRange_flds fuel "x2" _ _ _ fs (by src_simp [rangeExpr, structObjectToBuilderBody])]
      have hinv : Inv ss (upd (upd env0 "x0" (.builder b0)) "x1" (.structT fs)) b0 :=
        ⟨by simp [upd], by simp [upd, e_p0], by simp [upd, e_r]⟩
      have hl := loop_fields ss fuel (fun s => exec fuel (rangeBody structObjectToBuilderBody) s)
        (fun env b f h => step_fields ss fuel env b f h) fs _ b0 hinv
      cases hq : loop (fun s => exec fuel (rangeBody structObjectToBuilderBody) s) (fun s a => upd s "x2" (.fld a)) false fs
          (upd (upd env0 "x0" (.builder b0)) "x1" (.structT fs)) <;>
        cases hm : fieldSteps ss fuel fs <;> simp only [hq, hm, LoopRel] at hl <;>
        try (simp [structObjectToBuilder, hres, hfs, hm, builderOut, hl]; done)
      rename_i q outs
      obtain ⟨c, env'⟩ := q
      simp only [LoopRel] at hl
      obtain ⟨hc, hx, _, _⟩ := hl
      subst hc
      src_simp [restOf, structObjectToBuilderBody, structObjectToBuilder, hres, hfs, hm, builderOut, hx, addOuts_eq, b0]

/-! ### `FromAST` -/

/-- interpreter result against a model result: same failure, or (control `okc`, state related by `P`) -/
def ORel {β : Type} (P : Env → β → Prop) (okc : Ctl → Prop) : Outcome (Ctl × Env) → Outcome β → Prop
  | .ok (c, env'), .ok x => okc c ∧ P env' x
  | .err e, .err e' => e = e'
  | .panic s, .panic s' => s = s'
  | _, _ => False

/-- the locals of `FromAST` inside the callback: `builders`, `schemas`, the receiver, `schema` -/
def InvF (ss : Schemas) (s : Schema) (env : Env) (acc : List Builder) : Prop :=
  env "x0" = some (.builders acc) ∧ env "p0" = some (.schemas ss) ∧ env "r" = some .gen ∧ env "x1" = some (.schema s)

def InvO (ss : Schemas) (env : Env) (acc : List Builder) : Prop :=
  env "x0" = some (.builders acc) ∧ env "p0" = some (.schemas ss) ∧ env "r" = some .gen

def outerBody : Stmt → Stmt
  | .seq _ (.seq (.forRange _ _ b) _) => b
  | _ => .skip

def iterBody : Stmt → Stmt
  | .iterate _ _ _ b => b
  | _ => .skip

def iterExpr : Stmt → Expr
  | .iterate e _ _ _ => e
  | _ => .nil

def consOpt (ob : Option Builder) : Outcome (List Builder) → Outcome (List Builder)
  | .ok bs => .ok (match ob with | some b => b :: bs | none => bs)
  | .err e => .err e
  | .panic s => .panic s

def appOut (bs : List Builder) : Outcome (List Builder) → Outcome (List Builder)
  | .ok bs' => .ok (bs ++ bs')
  | .err e => .err e
  | .panic s => .panic s

theorem ORel_consOpt (ss : Schemas) (s : Schema) (acc : List Builder) (ob : Option Builder)
    (q : Outcome (Ctl × Env)) (m : Outcome (List Builder))
    (h : ORel (fun env' bs => InvF ss s env' ((acc ++ ob.toList) ++ bs)) (· = .normal) q m) :
    ORel (fun env' bs => InvF ss s env' (acc ++ bs)) (· = .normal) q (consOpt ob m) := by
  cases m <;> cases q <;> simp only [ORel] at h <;> try (simp [ORel, consOpt, h]; done)
  rename_i bs r
  obtain ⟨c, env'⟩ := r
  cases ob <;> simpa [ORel, consOpt, List.append_assoc] using h

theorem ORel_appOut (ss : Schemas) (acc bs : List Builder)
    (q : Outcome (Ctl × Env)) (m : Outcome (List Builder))
    (h : ORel (fun env' bs' => InvO ss env' ((acc ++ bs) ++ bs')) (· = .normal) q m) :
    ORel (fun env' bs' => InvO ss env' (acc ++ bs')) (· = .normal) q (appOut bs m) := by
  cases m <;> cases q <;> simp only [ORel] at h <;> try (simp [ORel, appOut, h]; done)
  rename_i bs' r
  obtain ⟨c, env'⟩ := r
  simpa [ORel, appOut, List.append_assoc] using h

/-- one call of the `Iterate` callback computes the model's `objectBuilder` -/
theorem step_objects (ss : Schemas) (fuel : Nat) (s : Schema) (env : Env) (acc : List Builder) (o : Obj)
    (h : InvF ss s env acc) :
    ORel (fun env' ob => InvF ss s env' (acc ++ ob.toList)) (fun c => c = .normal ∨ c = .ret none)
      (exec fuel (iterBody (outerBody fromASTBody)) (upd env "x2" (.obj o))) (objectBuilder ss fuel s o) := by
  obtain ⟨hx, hp, hr, hs⟩ := h
  simp only [iterBody, outerBody, fromASTBody]
  cases hres : resolveO ss fuel o.ty with
  | err e => src_simp [objectBuilder, ORel, hx, hp, hr, hs, hres]
  | panic st => src_simp [objectBuilder, ORel, hx, hp, hr, hs, hres]
  | ok t =>
    cases hk : kindIs t "struct" <;> cases hb : Cog.Builder.structObjectToBuilder ss fuel s o <;>
      src_simp [objectBuilder, ORel, InvF, hx, hp, hr, hs, hres, hk, hb]

theorem loop_objects (ss : Schemas) (fuel : Nat) (s : Schema) (bodyf : Env → Outcome (Ctl × Env))
    (hstep : ∀ env acc o, InvF ss s env acc →
      ORel (fun env' ob => InvF ss s env' (acc ++ ob.toList)) (fun c => c = .normal ∨ c = .ret none)
        (bodyf (upd env "x2" (.obj o))) (objectBuilder ss fuel s o)) :
    ∀ (objs : List (String × Obj)) env acc, InvF ss s env acc →
      ORel (fun env' bs => InvF ss s env' (acc ++ bs)) (· = .normal)
        (loop bodyf (fun s (a : String × Obj) => upd s "x2" (.obj a.2)) true objs env) (objectsBuilders ss fuel s objs) := by
  intro objs
  induction objs with
  | nil => intro env acc h; simpa [loop, objectsBuilders, ORel] using h
  | cons ko objs ih =>
    intro env acc h
    obtain ⟨k, o⟩ := ko
    have h1 := hstep env acc o h
    simp only [loop, objectsBuilders]
    cases hm : objectBuilder ss fuel s o <;> cases hr : bodyf (upd env "x2" (.obj o)) <;>
      simp only [hm, hr, ORel] at h1 <;> try (simp [ORel, h1]; done)
    rename_i ob r
    obtain ⟨c, env'⟩ := r
    simp only [ORel] at h1
    obtain ⟨hc, hi⟩ := h1
    have h2 := ih env' (acc ++ ob.toList) hi
    rcases hc with hc | hc <;> subst hc <;> simp <;> exact ORel_consOpt ss s acc ob _ _ h2

theorem exec_iterate_objs (fuel : Nat) (k v : String) (e : Expr) (body : Stmt) (env : Env) (l : List (String × Obj))
    (h : eval fuel e env = .ok (.objs l)) :
    exec fuel (.iterate e k v body) env =
      loop (fun s => exec fuel body s) (fun s (a : String × Obj) => upd s v (.obj a.2)) true l env := by
  simp [exec, h]

theorem exec_forRange_schemas (fuel : Nat) (x : String) (e : Expr) (body : Stmt) (env : Env) (l : Schemas)
    (h : eval fuel e env = .ok (.schemas l)) :
    exec fuel (.forRange x e body) env =
      loop (fun s => exec fuel body s) (fun s a => upd s x (.schema a)) false l env := by
  simp [exec, h]

/-- one iteration of `for _, schema := range schemas` computes the model's `objectsBuilders` of that schema -/
theorem step_schemas (ss : Schemas) (fuel : Nat) (env : Env) (acc : List Builder) (s : Schema)
    (h : InvO ss env acc) :
    ORel (fun env' bs => InvO ss env' (acc ++ bs)) (· = .normal)
      (exec fuel (outerBody fromASTBody) (upd env "x1" (.schema s))) (objectsBuilders ss fuel s s.objects) := by
  obtain ⟨hx, hp, hr⟩ := h
  have hshape : outerBody fromASTBody =
      .iterate (iterExpr (outerBody fromASTBody)) "_" "x2" (iterBody (outerBody fromASTBody)) := rfl
  rw [hshape, exec_iterate_objs fuel "_" "x2" _ _ _ s.objects (by src_simp [iterExpr, outerBody, fromASTBody])]
  have hinv : InvF ss s (upd env "x1" (.schema s)) acc :=
    ⟨by simp [upd, hx], by simp [upd, hp], by simp [upd, hr], by simp [upd]⟩
  have hl := loop_objects ss fuel s (fun e => exec fuel (iterBody (outerBody fromASTBody)) e)
    (fun env acc o h => step_objects ss fuel s env acc o h) s.objects _ acc hinv
  cases hq : loop (fun e => exec fuel (iterBody (outerBody fromASTBody)) e)
      (fun s (a : String × Obj) => upd s "x2" (.obj a.2)) true s.objects (upd env "x1" (.schema s)) <;>
    cases hm : objectsBuilders ss fuel s s.objects <;> simp only [hq, hm, ORel] at hl <;>
    try (simp [ORel, hl]; done)
  rename_i q bs
  obtain ⟨c, env'⟩ := q
  simp only [ORel] at hl
  obtain ⟨hc, h1, h2, h3, _⟩ := hl
  exact ⟨hc, h1, h2, h3⟩

theorem loop_schemas (ss : Schemas) (fuel : Nat) (bodyf : Env → Outcome (Ctl × Env))
    (hstep : ∀ env acc s, InvO ss env acc →
      ORel (fun env' bs => InvO ss env' (acc ++ bs)) (· = .normal)
        (bodyf (upd env "x1" (.schema s))) (objectsBuilders ss fuel s s.objects)) :
    ∀ (schs : List Schema) env acc, InvO ss env acc →
      ORel (fun env' bs => InvO ss env' (acc ++ bs)) (· = .normal)
        (loop bodyf (fun s a => upd s "x1" (.schema a)) false schs env) (schemasBuilders ss fuel schs) := by
  intro schs
  induction schs with
  | nil => intro env acc h; simpa [loop, schemasBuilders, ORel] using h
  | cons s schs ih =>
    intro env acc h
    have h1 := hstep env acc s h
    simp only [loop, schemasBuilders]
    cases hm : objectsBuilders ss fuel s s.objects <;> cases hr : bodyf (upd env "x1" (.schema s)) <;>
      simp only [hm, hr, ORel] at h1 <;> try (simp [ORel, h1]; done)
    rename_i bs r
    obtain ⟨c, env'⟩ := r
    simp only [ORel] at h1
    obtain ⟨hc, hi⟩ := h1
    have h2 := ih env' (acc ++ bs) hi
    subst hc
    simp
    exact ORel_appOut ss acc bs _ _ h2

def buildersOut : Outcome Builders → Outcome V
  | .ok bs => .ok (.builders bs)
  | .err e => .err e
  | .panic s => .panic s

theorem src_schemasBuilders (fuel : Nat) (ss : Schemas) :
    call fuel fromASTBody fromASTParams [.schemas ss] = buildersOut (schemasBuilders ss fuel ss) := by
  have hshape : fromASTBody =
      .seq (firstOf fromASTBody)
        (.seq (.forRange "x1" (.var "p0") (outerBody fromASTBody)) (restOf (restOf fromASTBody))) := rfl
  generalize henv0 : init fromASTParams [.schemas ss] = env0
  have e_r : env0 "r" = some .gen := by subst henv0; simp [init, bind, upd, fromASTParams]
  have e_p0 : env0 "p0" = some (.schemas ss) := by subst henv0; simp [init, bind, upd, fromASTParams]
  have hA : exec fuel (firstOf fromASTBody) env0 = .ok (.normal, upd env0 "x0" (.builders [])) := by
    src_simp [firstOf, fromASTBody]
  unfold call
  rw [henv0, hshape, exec_seq, hA]
  simp only []
  rw [exec_seq, exec_forRange_schemas fuel "x1" _ _ _ ss (by src_simp [e_p0])]
  have hinv : InvO ss (upd env0 "x0" (.builders [])) [] := ⟨by simp [upd], by simp [upd, e_p0], by simp [upd, e_r]⟩
  have hl := loop_schemas ss fuel (fun e => exec fuel (outerBody fromASTBody) e)
    (fun env acc s h => step_schemas ss fuel env acc s h) ss _ [] hinv
  cases hq : loop (fun e => exec fuel (outerBody fromASTBody) e) (fun s a => upd s "x1" (.schema a)) false ss
      (upd env0 "x0" (.builders [])) <;>
    cases hm : schemasBuilders ss fuel ss <;> simp only [hq, hm, ORel] at hl <;>
    try (simp [buildersOut, hl]; done)
  rename_i q bs
  obtain ⟨c, env'⟩ := q
  simp only [ORel] at hl
  obtain ⟨hc, hx, _, _⟩ := hl
  subst hc
  src_simp [restOf, fromASTBody, buildersOut, hx]

/-- `BuilderGenerator.FromAST`: the translated body computes the model's `fromAST` -/
theorem src_fromAST (ss : Schemas) :
    call (fuelFor ss) fromASTBody fromASTParams [.schemas ss] = buildersOut (fromAST ss) :=
  src_schemasBuilders (fuelFor ss) ss

end Cog.Builder.Src
