/-
  Pointer identity in the builder IR.

  Go shares `*Argument` pointees (and the backing array of `Option.Args`) between places whenever
  a struct is copied by value (`newOpt := opt`, `append(assignments, opt.Assignments[0])`, a rule
  closure applied to several builders), and three option actions write through them.  The model keeps
  values plus identities:

    * id `0`  = "allocated during the current step, not shared yet";
    * `number` gives every id-0 cell / args array a fresh identity after each step
      (`ArgumentAssignment` takes the address of its own parameter copy, `DeepCopy` allocates);
    * a `Write` is applied to *every* place carrying the identity (`applyWrites`), which is what a
      store through a shared pointer does.
-/
import Cog.Builder.Types
namespace Cog.Builder
open Cog.IR

inductive Write where
  /-- `cell.Name = n` (when `name` is some) and `cell.Type = t` (when `ty` is some) through `*Argument` -/
  | cellSet (id : Nat) (name : Option String) (ty : Option Ty)
  /-- `option.Args[idx].Name = name` on the backing array `argsId` -/
  | argsSetName (argsId : Nat) (idx : Nat) (name : String)

/-! ### mapping over the `*Argument` cells of a value (nested inductive: explicit list helper) -/

mutual
def AValue.mapCells (f : ArgCell → ArgCell) : AValue → AValue
  | .none => .none
  | .arg c => .arg (f c)
  | .const v => .const v
  | .env t vs => .env t (mapCellsEnv f vs)
def mapCellsEnv (f : ArgCell → ArgCell) : List EnvField → List EnvField
  | [] => []
  | e :: es => { e with value := AValue.mapCells f e.value } :: mapCellsEnv f es
end

def Assignment.mapCells (f : ArgCell → ArgCell) (a : Assignment) : Assignment :=
  { a with value := a.value.mapCells f }

def Opt.mapCells (f : ArgCell → ArgCell) (o : Opt) : Opt :=
  { o with assignments := o.assignments.map (Assignment.mapCells f) }

def Builder.mapCells (f : ArgCell → ArgCell) (b : Builder) : Builder :=
  { b with
    constructor := { b.constructor with assignments := b.constructor.assignments.map (Assignment.mapCells f) },
    options := b.options.map (Opt.mapCells f) }

/-! ### writes -/

def setNth {α : Type} (f : α → α) : Nat → List α → List α
  | _, [] => []
  | 0, a :: as => f a :: as
  | n + 1, a :: as => a :: setNth f n as

def Write.onCell (w : Write) (c : ArgCell) : ArgCell :=
  match w with
  | .cellSet id name ty =>
    if c.id = id then
      { c with arg := { name := name.getD c.arg.name, ty := ty.getD c.arg.ty } }
    else c
  | .argsSetName .. => c

def Write.onOpt (w : Write) (o : Opt) : Opt :=
  match w with
  | .cellSet .. => o.mapCells w.onCell
  | .argsSetName aid idx name =>
    if o.argsId = aid then { o with args := setNth (fun a => { a with name := name }) idx o.args } else o

def Write.onBuilder (w : Write) (b : Builder) : Builder :=
  match w with
  | .cellSet .. => b.mapCells w.onCell
  | .argsSetName .. => { b with options := b.options.map w.onOpt }

def applyWritesOpts (ws : List Write) (os : List Opt) : List Opt :=
  ws.foldl (fun os w => os.map w.onOpt) os

def applyWrites (ws : List Write) (bs : Builders) : Builders :=
  ws.foldl (fun bs w => bs.map w.onBuilder) bs

/-! ### fresh identities -/

mutual
def AValue.number : AValue → Nat → AValue × Nat
  | .none, n => (.none, n)
  | .arg c, n => if c.id = 0 then (.arg { c with id := n }, n + 1) else (.arg c, n)
  | .const v, n => (.const v, n)
  | .env t vs, n => let r := numberEnv vs n; (.env t r.1, r.2)
def numberEnv : List EnvField → Nat → List EnvField × Nat
  | [], n => ([], n)
  | e :: es, n =>
    let r := AValue.number e.value n
    let rs := numberEnv es r.2
    ({ e with value := r.1 } :: rs.1, rs.2)
end

def numberAssignments : List Assignment → Nat → List Assignment × Nat
  | [], n => ([], n)
  | a :: as, n =>
    let r := a.value.number n
    let rs := numberAssignments as r.2
    ({ a with value := r.1 } :: rs.1, rs.2)

def Opt.number (o : Opt) (n : Nat) : Opt × Nat :=
  let (aid, n) := if o.argsId = 0 then (n, n + 1) else (o.argsId, n)
  let r := numberAssignments o.assignments n
  ({ o with argsId := aid, assignments := r.1 }, r.2)

def numberOpts : List Opt → Nat → List Opt × Nat
  | [], n => ([], n)
  | o :: os, n =>
    let r := o.number n
    let rs := numberOpts os r.2
    (r.1 :: rs.1, rs.2)

def Builder.number (b : Builder) (n : Nat) : Builder × Nat :=
  let c := numberAssignments b.constructor.assignments n
  let o := numberOpts b.options c.2
  ({ b with constructor := { b.constructor with assignments := c.1 }, options := o.1 }, o.2)

def numberBuilders : Builders → Nat → Builders × Nat
  | [], n => ([], n)
  | b :: bs, n =>
    let r := b.number n
    let rs := numberBuilders bs r.2
    (r.1 :: rs.1, rs.2)

/-! ### `DeepCopy` -/

def zeroCell (c : ArgCell) : ArgCell := { c with id := 0 }

/-- `Assignment.DeepCopy`: same content, new pointees -/
def Assignment.deepCopy (a : Assignment) : Assignment := a.mapCells zeroCell

/-- `Option.DeepCopy`: new slices and pointees, every member copied (since /repo 71b1811 `Default`
    too; `deepCopyValue` of 1572d8b is the identity on values) -/
def Opt.deepCopy (o : Opt) : Opt :=
  { name := o.name, comments := o.comments, args := o.args, argsId := 0,
    assignments := o.assignments.map Assignment.deepCopy, dflt := o.dflt }

/-- `Builder.DeepCopy` (after /repo ea8a40d: `For` and `Factories` are copied too): every member is
    copied; every option goes through `Option.DeepCopy` -/
def Builder.deepCopy (b : Builder) : Builder :=
  { for_ := b.for_, pkg := b.pkg, name := b.name, properties := b.properties,
    constructor := { args := b.constructor.args, assignments := b.constructor.assignments.map Assignment.deepCopy },
    options := b.options.map Opt.deepCopy, factories := b.factories }

/-! `DeepCopy` as it was before /repo 71b1811 — **`Default` was not copied** — kept so that the former
    defect (a duplicated option / builder lost its defaults) stays a checked statement -/

def Opt.deepCopyPreFix (o : Opt) : Opt := { o.deepCopy with dflt := none }

def Builder.deepCopyPreFix (b : Builder) : Builder :=
  { b.deepCopy with options := b.options.map Opt.deepCopyPreFix }

end Cog.Builder
