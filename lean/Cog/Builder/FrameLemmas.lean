/-
  Frame of the option rules that store nothing through shared pointers (every action except
  `rename_arguments`, `array_to_append`, `map_to_index`): what the rewriter's two nested loops do to
  the builder slice.
-/
import Cog.Builder.WTLemmas
namespace Cog.Builder
open Cog.IR

/-- the actions that never write through a `*Argument` / `Args` array -/
def ORule.storesNothing : ORule → Bool
  | .renameArguments .. | .arrayToAppend _ | .mapToIndex _ => false
  | _ => true

theorem unfoldBooleanAction_noWrites (t f : String) (o : Opt) (out : ActOut) (h : unfoldBooleanAction t f o = .ok out) :
    out.writes = [] := by
  unfold unfoldBooleanAction at h
  cases hasg : o.assignments with
  | nil => simp [hasg] at h
  | cons a0 rest =>
    simp only [hasg] at h
    cases hl : a0.path.getLast? with
    | none => simp [hl] at h
    | some last =>
      simp only [hl] at h
      by_cases hk : (!kindIs last.ty "scalar") = true
      · simp [hk, unchanged] at h; subst h; rfl
      · simp only [hk] at h
        cases hty : last.ty with
        | scalar k v cs m =>
          simp only [hty] at h
          by_cases hb : (k != "bool") = true
          · simp [hb, unchanged] at h; subst h; rfl
          · simp only [hb] at h
            cases hd : o.dflt with
            | none => simp [hd] at h; subst h; rfl
            | some vs =>
              cases vs with
              | nil => simp [hd] at h
              | cons v vs' =>
                simp only [hd] at h
                cases v <;> (try (rename_i bv; cases bv)) <;> (simp at h; subst h; rfl)
        | _ => simp [hty] at h

theorem sfArgsBuild_noWrites (explicit : Option (List String)) (o : Opt) (oldArgsRest : List Argument)
    (asg0 : Assignment) (oldAsgRest : List Assignment) (fs : List Field) (out : ActOut)
    (h : sfArgsBuild explicit o oldArgsRest asg0 oldAsgRest fs = .ok out) : out.writes = [] := by
  unfold sfArgsBuild at h
  cases hl : asg0.path.getLast? with
  | none => simp [hl] at h
  | some last =>
    simp only [hl] at h
    cases hloop : sfArgsLoop explicit asg0.path asg0.method (kindIs last.ty "array") (sfDefaults o) fs {} with
    | err e => simp [hloop] at h
    | panic s => simp [hloop] at h
    | ok acc =>
      simp only [hloop] at h
      cases hasm : sfArgsAssemble asg0 last (kindIs last.ty "array") acc with
      | err e => simp [hasm] at h
      | panic s => simp [hasm] at h
      | ok asgs => simp [hasm] at h; subst h; rfl

theorem structFieldsAsArgumentsAction_noWrites (fields : Option (List String)) (ss : Schemas) (o : Opt) (out : ActOut)
    (h : structFieldsAsArgumentsAction fields ss o = .ok out) : out.writes = [] := by
  unfold structFieldsAsArgumentsAction at h
  cases hargs : o.args with
  | nil => simp [hargs, unchanged] at h; subst h; rfl
  | cons arg0 oldArgsRest =>
    simp only [hargs] at h
    cases hfa : firstArgStruct ss arg0.ty with
    | err e => simp [hfa] at h
    | panic s => simp [hfa] at h
    | ok t =>
      simp only [hfa] at h
      by_cases hk : (!kindIs t "struct") = true
      · simp [hk, unchanged] at h; subst h; rfl
      · simp only [hk] at h
        cases hasg : o.assignments with
        | nil => simp [hasg] at h
        | cons a0 rest =>
          simp only [hasg] at h
          cases hfs : asStructFields t with
          | err e => simp [hfs] at h
          | panic s => simp [hfs] at h
          | ok fs =>
            simp only [hfs] at h
            exact sfArgsBuild_noWrites fields o oldArgsRest a0 rest fs out h

theorem structFieldsAsOptionsAction_noWrites (fields : Option (List String)) (ss : Schemas) (o : Opt) (out : ActOut)
    (h : structFieldsAsOptionsAction fields ss o = .ok out) : out.writes = [] := by
  unfold structFieldsAsOptionsAction at h
  cases hargs : o.args with
  | nil => simp [hargs, unchanged] at h; subst h; rfl
  | cons arg0 oldArgsRest =>
    simp only [hargs] at h
    cases hfa : firstArgStruct ss arg0.ty with
    | err e => simp [hfa] at h
    | panic s => simp [hfa] at h
    | ok t =>
      simp only [hfa] at h
      by_cases hk : (!kindIs t "struct") = true
      · simp [hk, unchanged] at h; subst h; rfl
      · simp only [hk] at h
        cases hfs : asStructFields t with
        | err e => simp [hfs] at h
        | panic s => simp [hfs] at h
        | ok fs =>
          simp only [hfs] at h
          cases hasg : o.assignments with
          | nil => simp [hasg] at h
          | cons a0 rest =>
            simp only [hasg] at h
            cases hl : sfOptsLoop fields a0.path fs with
            | err e => simp [hl] at h
            | panic s => simp [hl] at h
            | ok os => simp [hl] at h; subst h; rfl

theorem disjunctionOnTarget_noWrites (ss : Schemas) (o : Opt) (idx : Nat) (target : Argument) (out : ActOut)
    (h : disjunctionOnTarget ss o idx target = .ok out) : out.writes = [] := by
  unfold disjunctionOnTarget at h
  by_cases hd : kindIs target.ty "disjunction" = true
  · simp only [hd, if_true] at h
    cases hty : target.ty with
    | disj branches info m =>
      simp only [hty] at h
      cases hb : disjunctionBranchOptions o idx target branches with
      | ok os => simp [hb] at h; subst h; rfl
      | err e => simp [hb] at h
      | panic s => simp [hb] at h
    | _ => simp [hty] at h
  · simp only [hd] at h
    by_cases hr : kindIs target.ty "ref" = true
    · simp only [hr, if_true] at h
      cases hres : resolveO ss (fuelFor ss) target.ty with
      | err e => simp [hres] at h
      | panic s => simp [hres] at h
      | ok r =>
        simp only [hres] at h
        by_cases hg : (!isStructGenFromDisj r) = true
        · simp [hg, unchanged] at h; subst h; rfl
        · simp only [hg] at h
          cases r with
          | struct fs g gi m => simp at h; subst h; rfl
          | _ => simp at h
    · simp [hr, unchanged] at h; subst h; rfl

theorem disjunctionAsOptionsAction_noWrites (idx : Int) (ss : Schemas) (o : Opt) (out : ActOut)
    (h : disjunctionAsOptionsAction idx ss o = .ok out) : out.writes = [] := by
  unfold disjunctionAsOptionsAction at h
  by_cases he : o.args.isEmpty = true
  · simp [he, unchanged] at h; subst h; rfl
  · simp only [he] at h
    by_cases hneg : idx < 0
    · simp [hneg, unchanged] at h; subst h; rfl
    · simp only [hneg] at h
      cases ht : o.args[idx.toNat]? with
      | none => simp [ht, unchanged] at h; subst h; rfl
      | some target =>
        simp only [ht] at h
        exact disjunctionOnTarget_noWrites ss o idx.toNat target out (by simpa using h)

theorem addAssignmentAction_noWrites (va : VAssignment) (ss : Schemas) (b : Builder) (o : Opt) (out : ActOut)
    (h : addAssignmentAction va ss b o = .ok out) : out.writes = [] := by
  unfold addAssignmentAction at h
  cases ha : va.asIR ss [b] b with
  | ok a => simp [ha] at h; subst h; rfl
  | err e => simp [ha, unchanged] at h; subst h; rfl
  | panic s => simp [ha] at h

theorem applyAction_noWrites (ss : Schemas) (b : Builder) (o : Opt) (rule : ORule) (out : ActOut)
    (hs : rule.storesNothing = true) (h : applyAction ss b o rule = .ok out) : out.writes = [] := by
  cases rule with
  | «omit» sel => simp [applyAction] at h; subst h; rfl
  | rename sel as_ => simp [applyAction] at h; subst h; rfl
  | addComments sel cs => simp [applyAction] at h; subst h; rfl
  | duplicate sel as_ => simp [applyAction] at h; subst h; rfl
  | unfoldBoolean sel t f => exact unfoldBooleanAction_noWrites t f o out h
  | structFieldsAsArguments sel fields => exact structFieldsAsArgumentsAction_noWrites fields ss o out h
  | structFieldsAsOptions sel fields => exact structFieldsAsOptionsAction_noWrites fields ss o out h
  | disjunctionAsOptions sel idx => exact disjunctionAsOptionsAction_noWrites idx ss o out h
  | addAssignment sel va => exact addAssignmentAction_noWrites va ss b o out h
  | empty => simp [applyAction] at h
  | renameArguments => simp [ORule.storesNothing] at hs
  | arrayToAppend => simp [ORule.storesNothing] at hs
  | mapToIndex => simp [ORule.storesNothing] at hs

/-! ### what the option loop does to one builder's options -/

/-- `Expands todo r`: `r` is `todo` with every selected option replaced by what the action returned
    for it (up to fresh pointer identities) and every other option kept as it is, in order -/
inductive Expands (ss : Schemas) (sel : OSelC) (rule : ORule) (b : Builder) : List Opt → List Opt → Prop
  | nil : Expands ss sel rule b [] []
  | keep (o : Opt) (todo r : List Opt) : sel.matches b o = false → Expands ss sel rule b todo r →
      Expands ss sel rule b (o :: todo) (o :: r)
  | repl (o : Opt) (todo r : List Opt) (out : ActOut) (outs : List Opt) : sel.matches b o = true →
      applyAction ss b o rule = .ok out → outs.map Opt.content = out.opts.map Opt.content →
      Expands ss sel rule b todo r → Expands ss sel rule b (o :: todo) (outs ++ r)

/-- the unselected options survive unchanged, in their relative order -/
theorem Expands.unselected_sublist {ss : Schemas} {sel : OSelC} {rule : ORule} {b : Builder} :
    ∀ {todo r : List Opt}, Expands ss sel rule b todo r → (todo.filter fun o => !sel.matches b o).Sublist r
  | _, _, .nil => by simp
  | _, _, .keep o todo r hs he => by
    simp only [List.filter, hs, Bool.not_false]
    exact List.Sublist.cons_cons o he.unselected_sublist
  | _, _, .repl o todo r out outs hs _ _ he => by
    simp only [List.filter, hs, Bool.not_true]
    exact List.Sublist.trans he.unselected_sublist (List.sublist_append_right outs r)

theorem optionLoop_frame (ss : Schemas) (sel : OSelC) (rule : ORule) (b : Builder) (hs : rule.storesNothing = true) :
    ∀ (todo done : List Opt) (all : Builders) (n : Nat) (done' : List Opt) (all' : Builders) (n' : Nat),
      optionLoop ss sel rule b todo [] done all n = .ok (done', all', n') →
      all' = all ∧ ∃ r, done' = done ++ r ∧ Expands ss sel rule b todo r
  | [], done, all, n, done', all', n', h => by
    simp [optionLoop] at h
    obtain ⟨h1, h2, _⟩ := h
    subst h1 h2
    exact ⟨rfl, [], by simp, .nil⟩
  | o :: todo, done, all, n, done', all', n', h => by
    simp only [optionLoop, applyWritesOpts_nil, List.headD_cons] at h
    by_cases hsel : sel.matches b o = true
    · simp only [hsel, Bool.not_true, Bool.false_eq_true, if_false] at h
      cases ha : applyAction ss b o rule with
      | err e => simp [ha] at h
      | panic s => simp [ha] at h
      | ok out =>
        simp only [ha] at h
        have hw := applyAction_noWrites ss b o rule out hs ha
        rw [hw] at h
        simp only [List.append_nil, applyWritesOpts_nil, applyWrites_nil] at h
        obtain ⟨h1, r, h2, h3⟩ := optionLoop_frame ss sel rule b hs todo _ all _ done' all' n' h
        exact ⟨h1, (numberOpts out.opts n).1 ++ r, by rw [h2, List.append_assoc],
          .repl o todo r out _ hsel ha (numberOpts_content out.opts n) h3⟩
    · have hsel' : sel.matches b o = false := by simpa using hsel
      simp only [hsel', Bool.not_false, if_true] at h
      obtain ⟨h1, r, h2, h3⟩ := optionLoop_frame ss sel rule b hs todo _ all n done' all' n' h
      exact ⟨h1, o :: r, by rw [h2]; simp, .keep o todo r hsel' h3⟩

/-! ### … and to the builder slice -/

theorem setNth_length {α : Type} (f : α → α) : ∀ (i : Nat) (l : List α), (setNth f i l).length = l.length
  | 0, [] => rfl
  | _ + 1, [] => rfl
  | 0, _ :: _ => rfl
  | i + 1, a :: as => by simp [setNth, setNth_length f i as]

theorem setNth_getElem?_eq {α : Type} (f : α → α) : ∀ (i : Nat) (l : List α), (setNth f i l)[i]? = l[i]?.map f
  | _, [] => by simp [setNth]
  | 0, _ :: _ => by simp [setNth]
  | i + 1, a :: as => by simp [setNth, setNth_getElem?_eq f i as]

theorem setNth_getElem?_ne {α : Type} (f : α → α) : ∀ (i j : Nat) (l : List α), i ≠ j → (setNth f i l)[j]? = l[j]?
  | _, _, [], _ => by simp [setNth]
  | 0, 0, _ :: _, h => absurd rfl h
  | 0, j + 1, _ :: _, _ => by simp [setNth]
  | i + 1, 0, _ :: _, _ => by simp [setNth]
  | i + 1, j + 1, a :: as, h => by simp [setNth, setNth_getElem?_ne f i j as (by omega)]

/-- what an option rule does to one builder: only its options change, by `Expands` -/
def OptStep (ss : Schemas) (sel : OSelC) (rule : ORule) (b b' : Builder) : Prop :=
  ∃ r, b' = { b with options := r } ∧ Expands ss sel rule b b.options r

theorem builderLoop_frame (ss : Schemas) (sel : OSelC) (rule : ORule) (hs : rule.storesNothing = true) :
    ∀ (k i : Nat) (all : Builders) (n : Nat) (all' : Builders) (n' : Nat),
      builderLoop ss sel rule k i all n = .ok (all', n') →
      all'.length = all.length ∧
      (∀ j, (j < i ∨ i + k ≤ j) → all'[j]? = all[j]?) ∧
      (∀ j b, i ≤ j → j < i + k → all[j]? = some b → ∃ b', all'[j]? = some b' ∧ OptStep ss sel rule b b')
  | 0, i, all, n, all', n', h => by
    simp [builderLoop] at h
    obtain ⟨h1, _⟩ := h
    subst h1
    exact ⟨rfl, fun _ _ => rfl, fun j b h1 h2 _ => by omega⟩
  | k + 1, i, all, n, all', n', h => by
    simp only [builderLoop] at h
    cases hb : all[i]? with
    | none =>
      simp [hb] at h
      obtain ⟨h1, _⟩ := h
      subst h1
      refine ⟨rfl, fun _ _ => rfl, ?_⟩
      intro j b h1 h2 hj
      have hlen : all.length ≤ i := by
        simpa using hb
      have : j < all.length := by
        have := List.getElem?_eq_some_iff.1 hj
        exact this.1
      omega
    | some b =>
      simp only [hb] at h
      cases hl : optionLoop ss sel rule b b.options [] [] all n with
      | err e => simp [hl] at h
      | panic s => simp [hl] at h
      | ok res =>
        obtain ⟨done, all1, n1⟩ := res
        simp only [hl] at h
        obtain ⟨hall, r, hr, hexp⟩ := optionLoop_frame ss sel rule b hs b.options [] all n done all1 n1 hl
        subst hall
        simp only [List.nil_append] at hr
        subst hr
        obtain ⟨ih1, ih2, ih3⟩ := builderLoop_frame ss sel rule hs k (i + 1) _ n1 all' n' h
        simp only [setOptions] at ih1 ih2 ih3
        refine ⟨by rw [ih1, setNth_length], ?_, ?_⟩
        · intro j hj
          rw [ih2 j (by omega), setNth_getElem?_ne _ i j _ (by omega)]
        · intro j bj h1 h2 hbj
          by_cases hij : j = i
          · subst hij
            rw [hb] at hbj
            injection hbj with hbj
            subst hbj
            refine ⟨{ b with options := done }, ?_, done, rfl, hexp⟩
            rw [ih2 j (by omega), setNth_getElem?_eq, hb]
            rfl
          · have hbj' : (setNth (fun b => { b with options := done }) i all1)[j]? = some bj := by
              rw [setNth_getElem?_ne _ i j _ (fun e => hij e.symm)]; exact hbj
            exact ih3 j bj (by omega) (by omega) hbj'

theorem All2_of_getElem? {α β : Type} {R : α → β → Prop} : ∀ (l : List α) (l' : List β), l'.length = l.length →
    (∀ (j : Nat) (a : α), l[j]? = some a → ∃ a', l'[j]? = some a' ∧ R a a') → All2 R l l'
  | [], [], _, _ => by simp [All2]
  | a :: as, [], h, _ => by simp at h
  | [], _ :: _, h, _ => by simp at h
  | a :: as, a' :: as', h, hp => by
    obtain ⟨x, hx, hr⟩ := hp 0 a (by simp)
    simp at hx
    subst hx
    refine ⟨hr, All2_of_getElem? as as' (by simpa using h) ?_⟩
    intro j b hb
    obtain ⟨y, hy, hry⟩ := hp (j + 1) b (by simpa using hb)
    exact ⟨y, by simpa using hy, hry⟩

/-- frame of an option rule that stores nothing: the builders are the same, in the same order, and
    each differs from what it was only in its options, which are `Expands`-related -/
theorem applyORule_frame (ss : Schemas) (sel : OSelC) (rule : ORule) (hs : rule.storesNothing = true)
    (st st' : St) (h : applyORule ss sel rule st = .ok st') :
    All2 (OptStep ss sel rule) st.builders st'.builders := by
  simp only [applyORule] at h
  cases hb : builderLoop ss sel rule st.builders.length 0 st.builders st.next with
  | err e => simp [hb] at h
  | panic s => simp [hb] at h
  | ok res =>
    obtain ⟨bs, n⟩ := res
    simp [hb] at h; subst h
    obtain ⟨h1, _, h3⟩ := builderLoop_frame ss sel rule hs _ 0 _ _ bs n hb
    refine All2_of_getElem? _ _ h1 ?_
    intro j b hj
    have : j < st.builders.length := (List.getElem?_eq_some_iff.1 hj).1
    exact h3 j b (by omega) (by omega) hj

end Cog.Builder
