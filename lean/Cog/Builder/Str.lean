/-
  ASCII models of the string helpers the veneers use (internal/tools/strings.go, strings.EqualFold,
  strings.Cut, ast.TypeName).  Non-ASCII behaviour of x/text/cases is outside the model (the
  generators stay in ASCII); tied to the Go functions by the `c17-str` correspondence stream.
-/
import Cog.IR.Types
namespace Cog.Builder.Str
open Cog.IR

def lowerChar (c : Char) : Char := if 'A' ≤ c ∧ c ≤ 'Z' then Char.ofNat (c.toNat + 32) else c
def upperChar (c : Char) : Char := if 'a' ≤ c ∧ c ≤ 'z' then Char.ofNat (c.toNat - 32) else c
def isLetter (c : Char) : Bool := ('a' ≤ c ∧ c ≤ 'z') || ('A' ≤ c ∧ c ≤ 'Z')
def isDigit (c : Char) : Bool := '0' ≤ c ∧ c ≤ '9'

/-- `strings.EqualFold` (ASCII) -/
def equalFold (a b : String) : Bool := a.toList.map lowerChar == b.toList.map lowerChar

/-- `tools.StringInListEqualFold` -/
def inListFold (needle : String) (hay : List String) : Bool := hay.any fun h => equalFold h needle

/-- `tools.Singularize`: the first rule (`(?i)s$` → ``) always wins when it applies -/
def singularize (s : String) : String :=
  match s.toList.reverse with
  | c :: rest => if c == 's' || c == 'S' then String.ofList rest.reverse else s
  | [] => s

/-- `nonAlphaNumRegex.ReplaceAllString(s, " ")`: every maximal run outside [a-zA-Z0-9 ] → one space -/
def squash : List Char → Bool → List Char
  | [], _ => []
  | c :: cs, inRun =>
    if isLetter c || isDigit c || c == ' ' then c :: squash cs false
    else if inRun then squash cs true else ' ' :: squash cs true

/-- `cases.Title(language.AmericanEnglish, cases.NoLower)` on [a-zA-Z0-9 ]: the first letter of each
    word is upper-cased; a word starts after a space; leading digits do not end the search -/
def title : List Char → Bool → List Char
  | [], _ => []
  | c :: cs, mid =>
    if c == ' ' then c :: title cs false
    else if mid then c :: title cs true
    else if isLetter c then upperChar c :: title cs true
    else c :: title cs false

def lowerCamelCase (s : String) : String :=
  let t := (title (squash s.toList false) false).filter (· != ' ')
  match t with
  | [] => ""
  | c :: cs => String.ofList (lowerChar c :: cs)

def upperCamelCase (s : String) : String :=
  match (lowerCamelCase s).toList with
  | [] => ""
  | c :: cs => String.ofList (upperChar c :: cs)

/-- `strings.Cut(s, ".")` -/
def cutDot (s : String) : Option (String × String) :=
  let rec go : List Char → List Char → Option (String × String)
    | _, [] => none
    | acc, c :: cs => if c == '.' then some (String.ofList acc.reverse, String.ofList cs) else go (c :: acc) cs
  go [] s.toList

/-- `strings.Split(s, ".")` (structural, so that the kernel can evaluate it on witnesses) -/
def splitDotAux : List Char → List Char → List String
  | [], cur => [String.ofList cur.reverse]
  | c :: cs, cur => if c == '.' then String.ofList cur.reverse :: splitDotAux cs [] else splitDotAux cs (c :: cur)

def splitDot (s : String) : List String := splitDotAux s.toList []

end Cog.Builder.Str
