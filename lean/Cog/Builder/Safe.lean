/-
  `Safe` : decidable well-formedness of a schema set under which `FromAST` neither panics nor
  diverges (hypothesis of `C16_total_partial`).  It names exactly the partial operations of the code:
  nil kind pointers where `As*()` is called, cyclic alias chains, and scalar constraints without an
  argument (`Args[0]`).  (A *dangling* alias chain is safe since /repo eed3e31: no builder, no panic.)
-/
import Cog.Builder.Spec
namespace Cog.Builder
open Cog.IR

def constraintsSafe (cs : List Constraint) : Bool := cs.all fun c => !c.args.isEmpty

def reqNonNull (f : Field) : Bool := f.required && !f.ty.getMeta.nullable

def fieldSafe (ss : Schemas) (f : Field) : Bool :=
  match f.ty with
  | .scalar _ v cs _ => !isNil v || constraintsSafe cs
  | .bad k _ => k != "scalar" && !(reqNonNull f && k == "ref")
  | .ref .. =>
    !reqNonNull f ||
      (match resolveO ss (fuelFor ss) f.ty with
       | .ok (.bad k _) => k != "scalar"
       | .ok _ => true
       | _ => false)
  | _ => true

def objSafe (ss : Schemas) (o : Obj) : Bool :=
  match resolveO ss (fuelFor ss) o.ty with
  | .ok (.struct fs _ _ _) => fs.all (fieldSafe ss)
  | .ok r => !kindIs r "struct"
  | _ => false

def Safe (ss : Schemas) : Bool := (allObjects ss).all fun so => objSafe ss so.2

theorem withTypeConstraints_ok (arg : Argument) : ∀ cs : List Constraint, constraintsSafe cs = true →
    ∃ acs, withTypeConstraints arg cs = .ok acs
  | [], _ => ⟨[], rfl⟩
  | c :: cs, h => by
    have h' : (!c.args.isEmpty) = true ∧ constraintsSafe cs = true := by
      simpa [constraintsSafe] using h
    obtain ⟨acs, ha⟩ := withTypeConstraints_ok arg cs h'.2
    cases hargs : c.args with
    | nil => simp [hargs] at h'
    | cons a r => simp [withTypeConstraints, hargs, ha]

/-- the option branch succeeds when the constraints (if the type is a scalar) are safe -/
theorem structFieldToOption_ok (f : Field)
    (hc : ∃ cs, fieldConstraints f.ty = .ok cs ∧ constraintsSafe cs = true) :
    ∃ o, structFieldToOption f = .ok o := by
  obtain ⟨cs, h1, h2⟩ := hc
  obtain ⟨acs, h3⟩ := withTypeConstraints_ok { name := f.name, ty := f.ty } cs h2
  simp [structFieldToOption, fieldAssignment, h1, h3]

theorem optionOrSkip_ok (f : Field)
    (hc : ∃ cs, fieldConstraints f.ty = .ok cs ∧ constraintsSafe cs = true) :
    ∃ out, optionOrSkip f = .ok out := by
  by_cases hk : kindIs f.ty "constant_ref" = true
  · exact ⟨.skip, by simp [optionOrSkip, hk]⟩
  · obtain ⟨o, ho⟩ := structFieldToOption_ok f hc
    exact ⟨.opt o, by simp [optionOrSkip, hk, ho]⟩

theorem fieldConstraints_nonscalar {t : Ty} (h : kindIs t "scalar" = false) :
    fieldConstraints t = .ok [] := by simp [fieldConstraints, h]

theorem isConcreteScalar_nonscalar {t : Ty} (h : kindIs t "scalar" = false) :
    isConcreteScalar t = .ok false := by simp [isConcreteScalar, h]

theorem fieldIsRefToConcrete_nonref (ss : Schemas) (n : Nat) {f : Field} (h : kindIs f.ty "ref" = false) :
    fieldIsRefToConcrete ss n f = .ok false := by simp [fieldIsRefToConcrete, h]

/-- a field whose type is not a scalar and not (required, non-null, reference) always succeeds -/
theorem fieldStep_ok_plain (ss : Schemas) (f : Field) (hs : kindIs f.ty "scalar" = false)
    (hr : reqNonNull f = false ∨ kindIs f.ty "ref" = false) :
    ∃ out, fieldStep ss (fuelFor ss) f = .ok out := by
  obtain ⟨out, ho⟩ := optionOrSkip_ok f ⟨[], fieldConstraints_nonscalar hs, rfl⟩
  refine ⟨out, ?_⟩
  simp only [fieldStep, isConcreteScalar_nonscalar hs, fieldStepRest]
  rcases hr with hr | hr
  · have : (f.required && !f.ty.getMeta.nullable) = false := hr
    simp [this, ho]
  · by_cases hq : (f.required && !f.ty.getMeta.nullable) = true
    · simp [hq, fieldIsRefToConcrete_nonref ss _ hr, ho]
    · have : (f.required && !f.ty.getMeta.nullable) = false := by simpa using hq
      simp [this, ho]

theorem fieldStep_ok (ss : Schemas) (f : Field) (h : fieldSafe ss f = true) :
    ∃ out, fieldStep ss (fuelFor ss) f = .ok out := by
  cases hty : f.ty with
  | scalar k v cs m =>
    simp only [fieldSafe, hty] at h
    by_cases hv : isNil v = true
    · have hcs : constraintsSafe cs = true := by simpa [hv] using h
      obtain ⟨out, ho⟩ := optionOrSkip_ok f ⟨cs, by simp [hty, fieldConstraints, kindIs, Ty.kind, asScalar], hcs⟩
      refine ⟨out, ?_⟩
      have hk : kindIs f.ty "ref" = false := by simp [hty, kindIs, Ty.kind]
      have hic : isConcreteScalar f.ty = .ok false := by simp [hty, isConcreteScalar, kindIs, Ty.kind, asScalar, hv]
      simp only [fieldStep, hic, fieldStepRest]
      by_cases hq : (f.required && !f.ty.getMeta.nullable) = true
      · simp [hq, fieldIsRefToConcrete_nonref ss _ hk, ho]
      · have : (f.required && !f.ty.getMeta.nullable) = false := by simpa using hq
        simp [this, ho]
    · have hv' : isNil v = false := by simpa using hv
      simp [fieldStep, hty, isConcreteScalar, kindIs, Ty.kind, asScalar, hv']
  | bad k m =>
    simp only [fieldSafe, hty] at h
    have h' : k ≠ "scalar" ∧ (reqNonNull f = false ∨ k ≠ "ref") := by
      simpa using h
    apply fieldStep_ok_plain ss f (by simp [hty, kindIs, Ty.kind, h'.1])
    rcases h'.2 with h2 | h2
    · exact .inl h2
    · exact .inr (by simp [hty, kindIs, Ty.kind, h2])
  | ref p n m =>
    have hs : kindIs f.ty "scalar" = false := by simp [hty, kindIs, Ty.kind]
    by_cases hq : reqNonNull f = true
    · simp only [fieldSafe, hty] at h
      have hq' : (f.required && !f.ty.getMeta.nullable) = true := hq
      have hkr : kindIs f.ty "ref" = true := by simp [hty, kindIs, Ty.kind]
      rw [← hty] at h
      simp only [hq, Bool.not_true, Bool.false_or] at h
      cases hres : resolveO ss (fuelFor ss) f.ty with
      | err e => simp [hres] at h
      | panic st => simp [hres] at h
      | ok r =>
        simp only [hres] at h
        have hic : ∃ b, isConcreteScalar r = .ok b := by
          cases r with
          | scalar k v cs m' => simp [isConcreteScalar, kindIs, Ty.kind, asScalar]
          | bad k m' =>
            have : k ≠ "scalar" := by simpa using h
            exact ⟨false, by simp [isConcreteScalar, kindIs, Ty.kind, this]⟩
          | _ => exact ⟨false, by simp [isConcreteScalar, kindIs, Ty.kind]⟩
        obtain ⟨b, hb⟩ := hic
        cases b with
        | true =>
          obtain ⟨k, v, cs, m', hr, hv⟩ : ∃ k v cs m', r = .scalar k v cs m' ∧ isNil v = false := by
            cases r with
            | scalar k v cs m' =>
              exact ⟨k, v, cs, m', rfl, by simpa [isConcreteScalar, kindIs, Ty.kind, asScalar] using hb⟩
            | bad k m' =>
              by_cases hk : k = "scalar" <;> simp [isConcreteScalar, kindIs, Ty.kind, asScalar, hk] at hb
            | _ => simp [isConcreteScalar, kindIs, Ty.kind] at hb
          subst hr
          simp [fieldStep, isConcreteScalar_nonscalar hs, fieldStepRest, hq', fieldIsRefToConcrete,
            hkr, hres, hb, constantOf, asScalar]
        | false =>
          obtain ⟨out, ho⟩ := optionOrSkip_ok f ⟨[], fieldConstraints_nonscalar hs, rfl⟩
          exact ⟨out, by simp [fieldStep, isConcreteScalar_nonscalar hs, fieldStepRest, hq', fieldIsRefToConcrete,
            hkr, hres, hb, ho]⟩
    · exact fieldStep_ok_plain ss f hs (.inl (by simpa using hq))
  | cref => exact fieldStep_ok_plain ss f (by simp [hty, kindIs, Ty.kind]) (.inr (by simp [hty, kindIs, Ty.kind]))
  | array => exact fieldStep_ok_plain ss f (by simp [hty, kindIs, Ty.kind]) (.inr (by simp [hty, kindIs, Ty.kind]))
  | map => exact fieldStep_ok_plain ss f (by simp [hty, kindIs, Ty.kind]) (.inr (by simp [hty, kindIs, Ty.kind]))
  | struct => exact fieldStep_ok_plain ss f (by simp [hty, kindIs, Ty.kind]) (.inr (by simp [hty, kindIs, Ty.kind]))
  | enum => exact fieldStep_ok_plain ss f (by simp [hty, kindIs, Ty.kind]) (.inr (by simp [hty, kindIs, Ty.kind]))
  | disj => exact fieldStep_ok_plain ss f (by simp [hty, kindIs, Ty.kind]) (.inr (by simp [hty, kindIs, Ty.kind]))
  | inter => exact fieldStep_ok_plain ss f (by simp [hty, kindIs, Ty.kind]) (.inr (by simp [hty, kindIs, Ty.kind]))
  | slot => exact fieldStep_ok_plain ss f (by simp [hty, kindIs, Ty.kind]) (.inr (by simp [hty, kindIs, Ty.kind]))

theorem fieldSteps_ok (ss : Schemas) : ∀ fs : List Field, fs.all (fieldSafe ss) = true →
    ∃ outs, fieldSteps ss (fuelFor ss) fs = .ok outs
  | [], _ => ⟨[], rfl⟩
  | f :: fs, h => by
    have h' : fieldSafe ss f = true ∧ fs.all (fieldSafe ss) = true := by simpa using h
    obtain ⟨o, ho⟩ := fieldStep_ok ss f h'.1
    obtain ⟨os, hos⟩ := fieldSteps_ok ss fs h'.2
    exact ⟨o :: os, by simp [fieldSteps, ho, hos]⟩

theorem objectBuilder_ok (ss : Schemas) (s : Schema) (o : Obj) (h : objSafe ss o = true) :
    ∃ ob, objectBuilder ss (fuelFor ss) s o = .ok ob := by
  simp only [objSafe] at h
  cases hr : resolveO ss (fuelFor ss) o.ty with
  | err e => simp [hr] at h
  | panic st => simp [hr] at h
  | ok r =>
    simp only [hr] at h
    cases r with
    | struct fs g gi m =>
      obtain ⟨outs, ho⟩ := fieldSteps_ok ss fs h
      simp [objectBuilder, hr, kindIs, Ty.kind, structObjectToBuilder, asStructFields, ho]
    | _ =>
      refine ⟨none, ?_⟩
      simp only [objectBuilder, hr]
      simp at h
      simp [h]

theorem objectsBuilders_ok (ss : Schemas) (s : Schema) : ∀ l : List (String × Obj),
    (l.all fun ko => objSafe ss ko.2) = true → ∃ bs, objectsBuilders ss (fuelFor ss) s l = .ok bs
  | [], _ => ⟨[], rfl⟩
  | (k, o) :: rest, h => by
    have h' : objSafe ss o = true ∧ (rest.all fun ko => objSafe ss ko.2) = true := by simpa using h
    obtain ⟨ob, hob⟩ := objectBuilder_ok ss s o h'.1
    obtain ⟨bs, hbs⟩ := objectsBuilders_ok ss s rest h'.2
    simp [objectsBuilders, hob, hbs]

theorem schemasBuilders_ok (ss : Schemas) : ∀ l : List Schema,
    ((allObjects l).all fun so => objSafe ss so.2) = true → ∃ bs, schemasBuilders ss (fuelFor ss) l = .ok bs
  | [], _ => ⟨[], rfl⟩
  | s :: rest, h => by
    have h' : (s.objects.all fun ko => objSafe ss ko.2) = true ∧
        ((allObjects rest).all fun so => objSafe ss so.2) = true := by
      simpa [allObjects, List.all_append, List.all_map, Function.comp_def] using h
    obtain ⟨b1, h1⟩ := objectsBuilders_ok ss s s.objects h'.1
    obtain ⟨b2, h2⟩ := schemasBuilders_ok ss rest h'.2
    simp [schemasBuilders, h1, h2]

theorem fromAST_ok_of_safe (ss : Schemas) (h : Safe ss = true) : ∃ bs, fromAST ss = .ok bs :=
  schemasBuilders_ok ss ss h

end Cog.Builder
