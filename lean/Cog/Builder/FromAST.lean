/-
  Model of `BuilderGenerator.FromAST` (internal/ast/builder.go), transcribed literally, including
  the Go partial operations it performs:

  * `As*()` on a `Type` whose kind pointer is nil               → `.panic`
  * (before /repo eed3e31: `resolved.IsAnyOf(KindStruct, KindRef)` followed by `AsStruct()` — an
    object whose reference chain ends in a *dangling* reference passed the test and dereferenced a
    nil `*StructType`; kept as `fromASTPreFix`. Now `if !resolvedType.IsStruct() { return }`: such an
    object simply gets no builder.)
  * `WithTypeConstraints` indexes `constraint.Args[0]`           → `.panic` on an empty `Args`
  * `Schemas.ResolveToType` recurses through references without a visited set: an alias cycle is
    a Go stack overflow (fatal, not recoverable)                → `.err "diverge"` (fuel exhausted)

  Pointer identities (`ArgCell.id`, `Opt.argsId`) are all `0` here; `Cog.Builder.Alias.relabel`
  makes them pairwise distinct, which is the aliasing state of the real `FromAST` output (every
  `ArgumentAssignment` call takes the address of its own parameter copy).
-/
import Cog.Builder.Types
import Cog.IR.Basic
namespace Cog.Builder
open Cog.IR

/-- `Type.Kind == k` (on `Ty.bad k` the kind is `k` although the kind pointer is nil) -/
def kindIs (t : Ty) (k : String) : Bool := t.kind == k

/-- `Schemas.ResolveToType`, with the nil dereference of `AsRef()` and divergence made explicit. -/
def resolveO (ss : Schemas) : Nat → Ty → Outcome Ty
  | 0, _ => .err "diverge"
  | fuel + 1, t =>
    match t with
    | .ref pkg name _ =>
      match Schemas.locateObject ss pkg name with
      | some o => resolveO ss fuel o.ty
      | none => .ok t
    | .bad "ref" _ => .panic "AsRef"
    | _ => .ok t

/-- enough fuel for every acyclic alias chain -/
def fuelFor (ss : Schemas) : Nat := Schemas.objectCount ss + 1

def asScalar : Ty → Outcome (String × Val × List Constraint)
  | .scalar k v cs _ => .ok (k, v, cs)
  | _ => .panic "AsScalar"

def asStructFields : Ty → Outcome (List Field)
  | .struct fs _ _ _ => .ok fs
  | _ => .panic "AsStruct"

/-- `t.IsConcreteScalar()` = `t.IsScalar() && t.AsScalar().IsConcrete()` -/
def isConcreteScalar (t : Ty) : Outcome Bool :=
  if kindIs t "scalar" then
    match asScalar t with
    | .ok (_, v, _) => .ok (!isNil v)
    | .err e => .err e
    | .panic s => .panic s
  else .ok false

def pathFromStructField (f : Field) : Path := [{ identifier := f.name, ty := f.ty }]

/-- `ConstantAssignment(path, value)`: a nil `value` leaves all three members of the
    `AssignmentValue` nil. -/
def constantAssignment (p : Path) (v : Val) (method : String := "direct") : Assignment :=
  { path := p, value := if isNil v then .none else .const v, method := method }

/-- `WithTypeConstraints(constraints)` applied to an assignment whose value is `arg` -/
def withTypeConstraints (arg : Argument) : List Constraint → Outcome (List AConstraint)
  | [] => .ok []
  | c :: cs =>
    match c.args with
    | [] => .panic "WithTypeConstraints: Args[0]"
    | a :: _ =>
      match withTypeConstraints arg cs with
      | .ok rest => .ok ({ argument := arg, op := c.op, parameter := a } :: rest)
      | .err e => .err e
      | .panic s => .panic s

/-- the `constraints` local of `FieldAssignment` -/
def fieldConstraints (t : Ty) : Outcome (List Constraint) :=
  if kindIs t "scalar" then
    match asScalar t with
    | .ok (_, _, cs) => .ok cs
    | .err e => .err e
    | .panic s => .panic s
  else .ok []

/-- `FieldAssignment(field)` (no extra options) -/
def fieldAssignment (f : Field) : Outcome Assignment :=
  match fieldConstraints f.ty with
  | .ok cs =>
    match withTypeConstraints { name := f.name, ty := f.ty } cs with
    | .ok acs => .ok { path := pathFromStructField f,
                       value := .arg { id := 0, arg := { name := f.name, ty := f.ty } },
                       method := "direct", constraints := acs }
    | .err e => .err e
    | .panic s => .panic s
  | .err e => .err e
  | .panic s => .panic s

/-- `structFieldToOption` -/
def structFieldToOption (f : Field) : Outcome Opt :=
  match fieldAssignment f with
  | .ok a => .ok { name := f.name, comments := f.comments,
                   args := [{ name := f.name, ty := f.ty }],
                   assignments := [a],
                   dflt := if isNil f.ty.getMeta.dflt then none else some [f.ty.getMeta.dflt] }
  | .err e => .err e
  | .panic s => .panic s

/-- `fieldIsRefToConcrete` -/
def fieldIsRefToConcrete (ss : Schemas) (fuel : Nat) (f : Field) : Outcome Bool :=
  if kindIs f.ty "ref" then
    match resolveO ss fuel f.ty with
    | .ok r => isConcreteScalar r
    | .err e => .err e
    | .panic s => .panic s
  else .ok false

/-- what one iteration of the field loop of `structObjectToBuilder` contributes -/
inductive FieldOut where
  | const (a : Assignment)     -- appended to Constructor.Assignments
  | skip                       -- constant reference: the type's own constructor sets it
  | opt (o : Opt)              -- appended to Options
  deriving Inhabited

def constantOf (ss : Schemas) (fuel : Nat) (f : Field) : Outcome FieldOut :=
  match resolveO ss fuel f.ty with
  | .ok r =>
    match asScalar r with
    | .ok (_, v, _) => .ok (.const (constantAssignment (pathFromStructField f) v))
    | .err e => .err e
    | .panic s => .panic s
  | .err e => .err e
  | .panic s => .panic s

def optionOrSkip (f : Field) : Outcome FieldOut :=
  if kindIs f.ty "constant_ref" then .ok .skip
  else
    match structFieldToOption f with
    | .ok o => .ok (.opt o)
    | .err e => .err e
    | .panic s => .panic s

/-- the second and later tests of the loop body -/
def fieldStepRest (ss : Schemas) (fuel : Nat) (f : Field) : Outcome FieldOut :=
  if f.required && !f.ty.getMeta.nullable then
    match fieldIsRefToConcrete ss fuel f with
    | .ok true => constantOf ss fuel f
    | .ok false => optionOrSkip f
    | .err e => .err e
    | .panic s => .panic s
  else optionOrSkip f

/-- one iteration of `for _, field := range structType.Fields` -/
def fieldStep (ss : Schemas) (fuel : Nat) (f : Field) : Outcome FieldOut :=
  match isConcreteScalar f.ty with
  | .ok true =>
    match asScalar f.ty with
    | .ok (_, v, _) => .ok (.const (constantAssignment (pathFromStructField f) v))
    | .err e => .err e
    | .panic s => .panic s
  | .ok false => fieldStepRest ss fuel f
  | .err e => .err e
  | .panic s => .panic s

def fieldSteps (ss : Schemas) (fuel : Nat) : List Field → Outcome (List FieldOut)
  | [] => .ok []
  | f :: fs =>
    match fieldStep ss fuel f with
    | .ok o =>
      match fieldSteps ss fuel fs with
      | .ok os => .ok (o :: os)
      | .err e => .err e
      | .panic s => .panic s
    | .err e => .err e
    | .panic s => .panic s

def outConsts : List FieldOut → List Assignment
  | [] => []
  | .const a :: r => a :: outConsts r
  | _ :: r => outConsts r

def outOpts : List FieldOut → List Opt
  | [] => []
  | .opt o :: r => o :: outOpts r
  | _ :: r => outOpts r

/-- `structObjectToBuilder` -/
def structObjectToBuilder (ss : Schemas) (fuel : Nat) (s : Schema) (o : Obj) : Outcome Builder :=
  match resolveO ss fuel o.ty with
  | .ok r =>
    match asStructFields r with
    | .ok fs =>
      match fieldSteps ss fuel fs with
      | .ok outs => .ok { for_ := o, pkg := s.pkg, name := o.name,
                          constructor := { assignments := outConsts outs },
                          options := outOpts outs }
      | .err e => .err e
      | .panic st => .panic st
    | .err e => .err e
    | .panic st => .panic st
  | .err e => .err e
  | .panic st => .panic st

/-- the callback passed to `schema.Objects.Iterate`; `acceptRef` = the test as it was before /repo
    eed3e31 (`IsAnyOf(KindStruct, KindRef)`), `false` = the current `IsStruct()` -/
def objectBuilderWith (acceptRef : Bool) (ss : Schemas) (fuel : Nat) (s : Schema) (o : Obj) : Outcome (Option Builder) :=
  match resolveO ss fuel o.ty with
  | .ok r =>
    if kindIs r "struct" || (acceptRef && kindIs r "ref") then
      match structObjectToBuilder ss fuel s o with
      | .ok b => .ok (some b)
      | .err e => .err e
      | .panic st => .panic st
    else .ok none
  | .err e => .err e
  | .panic st => .panic st

/-- the callback passed to `schema.Objects.Iterate` -/
def objectBuilder (ss : Schemas) (fuel : Nat) (s : Schema) (o : Obj) : Outcome (Option Builder) :=
  match resolveO ss fuel o.ty with
  | .ok r =>
    if kindIs r "struct" then
      match structObjectToBuilder ss fuel s o with
      | .ok b => .ok (some b)
      | .err e => .err e
      | .panic st => .panic st
    else .ok none
  | .err e => .err e
  | .panic st => .panic st

def objectsBuilders (ss : Schemas) (fuel : Nat) (s : Schema) : List (String × Obj) → Outcome (List Builder)
  | [] => .ok []
  | (_, o) :: rest =>
    match objectBuilder ss fuel s o with
    | .ok ob =>
      match objectsBuilders ss fuel s rest with
      | .ok bs => .ok (match ob with | some b => b :: bs | none => bs)
      | .err e => .err e
      | .panic st => .panic st
    | .err e => .err e
    | .panic st => .panic st

def schemasBuilders (ss : Schemas) (fuel : Nat) : List Schema → Outcome (List Builder)
  | [] => .ok []
  | s :: rest =>
    match objectsBuilders ss fuel s s.objects with
    | .ok bs =>
      match schemasBuilders ss fuel rest with
      | .ok bs' => .ok (bs ++ bs')
      | .err e => .err e
      | .panic st => .panic st
    | .err e => .err e
    | .panic st => .panic st

/-- `BuilderGenerator.FromAST` -/
def fromAST (ss : Schemas) : Outcome Builders := schemasBuilders ss (fuelFor ss) ss

/-! the derivation as it was before /repo eed3e31 (kept so that the former defect stays a checked statement) -/

def objectsBuildersPreFix (ss : Schemas) (fuel : Nat) (s : Schema) : List (String × Obj) → Outcome (List Builder)
  | [] => .ok []
  | (_, o) :: rest =>
    match objectBuilderWith true ss fuel s o with
    | .ok ob =>
      match objectsBuildersPreFix ss fuel s rest with
      | .ok bs => .ok (match ob with | some b => b :: bs | none => bs)
      | .err e => .err e
      | .panic st => .panic st
    | .err e => .err e
    | .panic st => .panic st

def schemasBuildersPreFix (ss : Schemas) (fuel : Nat) : List Schema → Outcome (List Builder)
  | [] => .ok []
  | s :: rest =>
    match objectsBuildersPreFix ss fuel s s.objects with
    | .ok bs =>
      match schemasBuildersPreFix ss fuel rest with
      | .ok bs' => .ok (bs ++ bs')
      | .err e => .err e
      | .panic st => .panic st
    | .err e => .err e
    | .panic st => .panic st

def fromASTPreFix (ss : Schemas) : Outcome Builders := schemasBuildersPreFix ss (fuelFor ss) ss

end Cog.Builder
