/-
  Lemmas about the veneer model (`Cog.Builder.Veneers`) used by the C17 theorems: specifications of
  the rule loops (what is kept, what is replaced), and of `DeepCopy` up to pointer identities.
-/
import Cog.Builder.Veneers
import Cog.Builder.Spec
namespace Cog.Builder
open Cog.IR

/-! ### evaluating concrete witnesses -/

def isOk {α : Type} : Outcome α → Bool
  | .ok _ => true
  | _ => false

def getOk {α : Type} [Inhabited α] : Outcome α → α
  | .ok a => a
  | _ => default

theorem eq_ok_getOk {α : Type} [Inhabited α] (o : Outcome α) (h : isOk o = true) : o = .ok (getOk o) := by
  cases o <;> simp_all [isOk, getOk]

/-! ### the loops of the builder rules -/

/-- `Omit`-style filtering: on success the result is exactly the builders for which the predicate
    answered `true`, in order, and the predicate answered on every builder. -/
theorem filterO_spec (p : Builder → Outcome Bool) : ∀ (bs r : Builders), filterO p bs = .ok r →
    r = bs.filter (fun b => match p b with | .ok true => true | _ => false) ∧ ∀ b ∈ bs, ∃ v, p b = .ok v
  | [], r, h => by simp [filterO] at h; subst h; simp
  | b :: rest, r, h => by
    simp only [filterO] at h
    cases hp : p b with
    | err e => simp [hp] at h
    | panic s => simp [hp] at h
    | ok keep =>
      simp only [hp] at h
      cases hr : filterO p rest with
      | err e => simp [hr] at h
      | panic s => simp [hr] at h
      | ok r' =>
        simp [hr] at h
        obtain ⟨ih1, ih2⟩ := filterO_spec p rest r' hr
        refine ⟨?_, ?_⟩
        · subst h
          cases keep <;> simp [List.filter, hp, ih1]
        · intro x hx
          rcases List.mem_cons.1 hx with rfl | hx
          · exact ⟨keep, hp⟩
          · exact ih2 x hx

/-- in-place rule loops: pointwise, a selected builder is replaced by `g b`, an unselected one is
    kept as it is; same length, same order -/
def StepRel (sel : Builder → Outcome Bool) (g : Builder → Outcome Builder) (b b' : Builder) : Prop :=
  (sel b = .ok true ∧ g b = .ok b') ∨ (sel b = .ok false ∧ b' = b)

theorem StepRel.frame {sel : Builder → Outcome Bool} {g : Builder → Outcome Builder} {b b' : Builder}
    (h : StepRel sel g b b') (hs : sel b = .ok false) : b' = b := by
  rcases h with ⟨h1, _⟩ | ⟨_, h2⟩
  · rw [hs] at h1; simp at h1
  · exact h2

/-- the selector of the rules that rewrite the selected builders in place -/
def BRule.inPlaceSel : BRule → Option BSel
  | .rename s _ | .properties s _ | .initialize s _ | .promote s _ | .addOption s _ | .addFactory s _ => some s
  | _ => none

theorem mapSelected_spec (sel : Builder → Outcome Bool) (g : Builder → Outcome Builder) :
    ∀ (bs r : Builders), mapSelected sel g bs = .ok r → All2 (StepRel sel g) bs r
  | [], r, h => by simp [mapSelected] at h; subst h; simp [All2]
  | b :: rest, r, h => by
    simp only [mapSelected] at h
    cases hs : sel b with
    | err e => simp [hs] at h
    | panic s => simp [hs] at h
    | ok s =>
      simp only [hs] at h
      cases s with
      | true =>
        simp only [if_true] at h
        cases hg : g b with
        | err e => simp [hg] at h
        | panic s => simp [hg] at h
        | ok nb =>
          simp only [hg] at h
          cases hr : mapSelected sel g rest with
          | err e => simp [hr] at h
          | panic s => simp [hr] at h
          | ok r' =>
            simp [hr] at h; subst h
            exact ⟨.inl ⟨hs, hg⟩, mapSelected_spec sel g rest r' hr⟩
      | false =>
        simp only [Bool.false_eq_true, if_false] at h
        cases hr : mapSelected sel g rest with
        | err e => simp [hr] at h
        | panic s => simp [hr] at h
        | ok r' =>
          simp [hr] at h; subst h
          exact ⟨.inr ⟨hs, rfl⟩, mapSelected_spec sel g rest r' hr⟩

theorem notO_ok_true {x : Outcome Bool} : (match notO x with | .ok true => true | _ => false) = true ↔ x = .ok false := by
  cases x with
  | ok b => cases b <;> simp [notO]
  | err e => simp [notO]
  | panic s => simp [notO]


/-! ### content up to pointer identities -/

/-- an option with every pointer identity erased: what VIR prints, what `cog inspect` shows -/
def Opt.content (o : Opt) : Opt := { o.mapCells zeroCell with argsId := 0 }

def Builder.content (b : Builder) : Builder :=
  { b with
    constructor := { b.constructor with assignments := b.constructor.assignments.map (Assignment.mapCells zeroCell) },
    options := b.options.map Opt.content }

mutual
theorem mapCells_zero_idem : ∀ v : AValue, (v.mapCells zeroCell).mapCells zeroCell = v.mapCells zeroCell
  | .none => by simp [AValue.mapCells]
  | .arg c => by simp [AValue.mapCells, zeroCell]
  | .const _ => by simp [AValue.mapCells]
  | .env t vs => by simp [AValue.mapCells, mapCellsEnv_zero_idem vs]
theorem mapCellsEnv_zero_idem : ∀ vs : List EnvField,
    mapCellsEnv zeroCell (mapCellsEnv zeroCell vs) = mapCellsEnv zeroCell vs
  | [] => by simp [mapCellsEnv]
  | e :: es => by simp [mapCellsEnv, mapCells_zero_idem e.value, mapCellsEnv_zero_idem es]
end

theorem Assignment.mapCells_zero_idem (a : Assignment) :
    (a.mapCells zeroCell).mapCells zeroCell = a.mapCells zeroCell := by
  simp [Assignment.mapCells, Cog.Builder.mapCells_zero_idem]

/-- `Option.DeepCopy` is the identity on content — except that `Default` is gone -/
theorem Opt.deepCopy_content (o : Opt) : (Opt.deepCopy o).content = { o.content with dflt := none } := by
  simp [Opt.deepCopy, Opt.content, Opt.mapCells, Assignment.deepCopy, List.map_map, Function.comp_def,
    Assignment.mapCells_zero_idem]

/-- hence an identical copy exactly when there was no default -/
theorem Opt.deepCopy_content_of_no_default (o : Opt) (h : o.dflt = none) : (Opt.deepCopy o).content = o.content := by
  rw [Opt.deepCopy_content]
  simp [Opt.content, Opt.mapCells, h]

theorem Opt.content_idem (o : Opt) : o.content.content = o.content := by
  simp [Opt.content, Opt.mapCells, List.map_map, Function.comp_def, Assignment.mapCells_zero_idem]

/-- `Builder.DeepCopy`: every member is copied; the options lose their defaults -/
theorem Builder.deepCopy_content (b : Builder) :
    (Builder.deepCopy b).content =
      { b.content with options := b.options.map fun o => { o.content with dflt := none } } := by
  simp [Builder.deepCopy, Builder.content, List.map_map, Function.comp_def, Opt.deepCopy_content,
    Assignment.deepCopy, Assignment.mapCells_zero_idem]

theorem Builder.deepCopy_content_of_no_defaults (b : Builder) (h : ∀ o ∈ b.options, o.dflt = none) :
    (Builder.deepCopy b).content = b.content := by
  rw [Builder.deepCopy_content]
  simp only [Builder.content]
  congr 1
  apply List.map_congr_left
  intro o ho
  simp [Opt.content, Opt.mapCells, h o ho]

end Cog.Builder
