/-
  Lemmas about the veneer model (`Cog.Builder.Veneers`) used by the C17 theorems: specifications of
  the rule loops (what is kept, what is replaced), and of `DeepCopy` up to pointer identities.
-/
import Cog.Builder.Veneers
import Cog.Builder.Spec
namespace Cog.Builder
open Cog.IR

/-! ### evaluating concrete witnesses -/

def isOk {α : Type} : Outcome α → Bool
  | .ok _ => true
  | _ => false

def getOk {α : Type} [Inhabited α] : Outcome α → α
  | .ok a => a
  | _ => default

theorem eq_ok_getOk {α : Type} [Inhabited α] (o : Outcome α) (h : isOk o = true) : o = .ok (getOk o) := by
  cases o <;> simp_all [isOk, getOk]

/-! ### the loops of the builder rules -/

/-- `Omit`-style filtering: on success the result is exactly the builders for which the predicate
    answered `true`, in order, and the predicate answered on every builder. -/
theorem filterO_spec (p : Builder → Outcome Bool) : ∀ (bs r : Builders), filterO p bs = .ok r →
    r = bs.filter (fun b => match p b with | .ok true => true | _ => false) ∧ ∀ b ∈ bs, ∃ v, p b = .ok v
  | [], r, h => by simp [filterO] at h; subst h; simp
  | b :: rest, r, h => by
    simp only [filterO] at h
    cases hp : p b with
    | err e => simp [hp] at h
    | panic s => simp [hp] at h
    | ok keep =>
      simp only [hp] at h
      cases hr : filterO p rest with
      | err e => simp [hr] at h
      | panic s => simp [hr] at h
      | ok r' =>
        simp [hr] at h
        obtain ⟨ih1, ih2⟩ := filterO_spec p rest r' hr
        refine ⟨?_, ?_⟩
        · subst h
          cases keep <;> simp [List.filter, hp, ih1]
        · intro x hx
          rcases List.mem_cons.1 hx with rfl | hx
          · exact ⟨keep, hp⟩
          · exact ih2 x hx

/-- in-place rule loops: pointwise, a selected builder is replaced by `g b`, an unselected one is
    kept as it is; same length, same order -/
def StepRel (sel : Builder → Outcome Bool) (g : Builder → Outcome Builder) (b b' : Builder) : Prop :=
  (sel b = .ok true ∧ g b = .ok b') ∨ (sel b = .ok false ∧ b' = b)

theorem StepRel.frame {sel : Builder → Outcome Bool} {g : Builder → Outcome Builder} {b b' : Builder}
    (h : StepRel sel g b b') (hs : sel b = .ok false) : b' = b := by
  rcases h with ⟨h1, _⟩ | ⟨_, h2⟩
  · rw [hs] at h1; simp at h1
  · exact h2

/-- the selector of the rules that rewrite the selected builders in place -/
def BRule.inPlaceSel : BRule → Option BSel
  | .rename s _ | .properties s _ | .initialize s _ | .promote s _ | .addOption s _ | .addFactory s _ => some s
  | _ => none

theorem mapSelected_spec (sel : Builder → Outcome Bool) (g : Builder → Outcome Builder) :
    ∀ (bs r : Builders), mapSelected sel g bs = .ok r → All2 (StepRel sel g) bs r
  | [], r, h => by simp [mapSelected] at h; subst h; simp [All2]
  | b :: rest, r, h => by
    simp only [mapSelected] at h
    cases hs : sel b with
    | err e => simp [hs] at h
    | panic s => simp [hs] at h
    | ok s =>
      simp only [hs] at h
      cases s with
      | true =>
        simp only [if_true] at h
        cases hg : g b with
        | err e => simp [hg] at h
        | panic s => simp [hg] at h
        | ok nb =>
          simp only [hg] at h
          cases hr : mapSelected sel g rest with
          | err e => simp [hr] at h
          | panic s => simp [hr] at h
          | ok r' =>
            simp [hr] at h; subst h
            exact ⟨.inl ⟨hs, hg⟩, mapSelected_spec sel g rest r' hr⟩
      | false =>
        simp only [Bool.false_eq_true, if_false] at h
        cases hr : mapSelected sel g rest with
        | err e => simp [hr] at h
        | panic s => simp [hr] at h
        | ok r' =>
          simp [hr] at h; subst h
          exact ⟨.inr ⟨hs, rfl⟩, mapSelected_spec sel g rest r' hr⟩

theorem notO_ok_true {x : Outcome Bool} : (match notO x with | .ok true => true | _ => false) = true ↔ x = .ok false := by
  cases x with
  | ok b => cases b <;> simp [notO]
  | err e => simp [notO]
  | panic s => simp [notO]


/-! ### content up to pointer identities -/

/-- an option with every pointer identity erased: what VIR prints, what `cog inspect` shows -/
def Opt.content (o : Opt) : Opt := { o.mapCells zeroCell with argsId := 0 }

def Builder.content (b : Builder) : Builder :=
  { b with
    constructor := { b.constructor with assignments := b.constructor.assignments.map (Assignment.mapCells zeroCell) },
    options := b.options.map Opt.content }

mutual
theorem mapCells_zero_idem : ∀ v : AValue, (v.mapCells zeroCell).mapCells zeroCell = v.mapCells zeroCell
  | .none => by simp [AValue.mapCells]
  | .arg c => by simp [AValue.mapCells, zeroCell]
  | .const _ => by simp [AValue.mapCells]
  | .env t vs => by simp [AValue.mapCells, mapCellsEnv_zero_idem vs]
theorem mapCellsEnv_zero_idem : ∀ vs : List EnvField,
    mapCellsEnv zeroCell (mapCellsEnv zeroCell vs) = mapCellsEnv zeroCell vs
  | [] => by simp [mapCellsEnv]
  | e :: es => by simp [mapCellsEnv, mapCells_zero_idem e.value, mapCellsEnv_zero_idem es]
end

theorem Assignment.mapCells_zero_idem (a : Assignment) :
    (a.mapCells zeroCell).mapCells zeroCell = a.mapCells zeroCell := by
  simp [Assignment.mapCells, Cog.Builder.mapCells_zero_idem]

/-- `Option.DeepCopy` is the identity on content -/
theorem Opt.deepCopy_content (o : Opt) : (Opt.deepCopy o).content = o.content := by
  simp [Opt.deepCopy, Opt.content, Opt.mapCells, Assignment.deepCopy, List.map_map, Function.comp_def,
    Assignment.mapCells_zero_idem]

theorem Opt.content_idem (o : Opt) : o.content.content = o.content := by
  simp [Opt.content, Opt.mapCells, List.map_map, Function.comp_def, Assignment.mapCells_zero_idem]

/-- `Builder.DeepCopy` is the identity on content -/
theorem Builder.deepCopy_content (b : Builder) : (Builder.deepCopy b).content = b.content := by
  simp [Builder.deepCopy, Builder.content, List.map_map, Function.comp_def, Opt.deepCopy_content,
    Assignment.deepCopy, Assignment.mapCells_zero_idem]

/-- before /repo 71b1811: identity on content except that `Default` was gone -/
theorem Opt.deepCopyPreFix_content (o : Opt) : (Opt.deepCopyPreFix o).content = { o.content with dflt := none } := by
  have := Opt.deepCopy_content o
  simp only [Opt.deepCopyPreFix, Opt.content, Opt.mapCells] at this ⊢
  simp only [Opt.mk.injEq] at this
  simp [this.2.2.2.2.1, this.2.2.1, this.1, this.2.1]


/-! ### "same target" bookkeeping for the struct / disjunction actions -/

/-- `q` extends `p` -/
def Path.hasPrefix (p q : Path) : Prop := ∃ r, q = p ++ r

theorem fieldAssignment_path {f : Field} {a : Assignment} (h : fieldAssignment f = .ok a) :
    a.path = pathFromStructField f := by
  simp only [fieldAssignment] at h
  cases hc : fieldConstraints f.ty with
  | err e => simp [hc] at h
  | panic s => simp [hc] at h
  | ok cs =>
    simp only [hc] at h
    cases hw : withTypeConstraints { name := f.name, ty := f.ty } cs with
    | err e => simp [hw] at h
    | panic s => simp [hw] at h
    | ok acs => simp [hw] at h; subst h; rfl

theorem sfOptsLoop_spec (explicit : Option (List String)) (prefix_ : Path) : ∀ (fs : List Field) (os : List Opt),
    sfOptsLoop explicit prefix_ fs = .ok os →
    ∀ o ∈ os, ∃ a f, f ∈ fs ∧ o.name = f.name ∧ o.assignments = [a] ∧ a.path = prefix_ ++ pathFromStructField f
  | [], os, h => by simp [sfOptsLoop] at h; subst h; simp
  | f :: rest, os, h => by
    simp only [sfOptsLoop] at h
    split at h
    · intro o ho
      obtain ⟨a, g, hg, h1, h2, h3⟩ := sfOptsLoop_spec explicit prefix_ rest os h o ho
      exact ⟨a, g, by simp [hg], h1, h2, h3⟩
    · cases hfa : fieldAssignment f with
      | err e => simp [hfa] at h
      | panic s => simp [hfa] at h
      | ok a =>
        simp only [hfa] at h
        cases hr : sfOptsLoop explicit prefix_ rest with
        | err e => simp [hr] at h
        | panic s => simp [hr] at h
        | ok os' =>
          simp [hr] at h; subst h
          intro o ho
          rcases List.mem_cons.1 ho with rfl | ho
          · exact ⟨_, f, by simp, rfl, rfl, by simp [fieldAssignment_path hfa]⟩
          · obtain ⟨a', g, hg, h1, h2, h3⟩ := sfOptsLoop_spec explicit prefix_ rest os' hr o ho
            exact ⟨a', g, by simp [hg], h1, h2, h3⟩

theorem sfArgsAssignment_path {prefix_ : Path} {method : String} {f' : Field} {newArg : Argument} {isConst : Bool}
    {cs : List Constraint} {a : Assignment} (h : sfArgsAssignment prefix_ method f' newArg isConst cs = .ok a) :
    a.path = prefix_ ++ pathFromStructField f' := by
  unfold sfArgsAssignment at h
  split at h
  · split at h
    · simp at h; subst h; rfl
    · simp at h
    · simp at h
  · split at h
    · simp at h; subst h; rfl
    · simp at h
    · simp at h

theorem sfArgsStepTy_paths {prefix_ : Path} {method : String} {intoList : Bool} {f : Field} {ty : Ty}
    {cs : List Constraint} {dflt : Option (List Val)} {acc acc' : SFAcc}
    (h : sfArgsStepTy prefix_ method intoList f ty cs dflt acc = .ok acc')
    (hacc : ∀ a ∈ acc.assignments, Path.hasPrefix prefix_ a.path) :
    ∀ a ∈ acc'.assignments, Path.hasPrefix prefix_ a.path := by
  unfold sfArgsStepTy at h
  cases hic : isConcreteScalar ty with
  | err e => simp [hic] at h
  | panic s => simp [hic] at h
  | ok isConst =>
    simp only [hic] at h
    by_cases hil : (!intoList) = true
    · simp only [hil, if_true] at h
      cases hsa : sfArgsAssignment prefix_ method { f with ty := ty } { name := f.name, ty := ty } isConst cs with
      | err e => simp [hsa] at h
      | panic s => simp [hsa] at h
      | ok a =>
        simp [hsa] at h; subst h
        intro x hx
        simp only [List.mem_append, List.mem_singleton] at hx
        rcases hx with hx | rfl
        · exact hacc x hx
        · exact ⟨_, sfArgsAssignment_path hsa⟩
    · simp only [hil] at h
      cases hev : sfArgsEnvValue { f with ty := ty } { name := f.name, ty := ty } isConst with
      | err e => simp [hev] at h
      | panic s => simp [hev] at h
      | ok ev => simp [hev] at h; subst h; exact hacc

theorem sfArgsStep_paths {explicit : Option (List String)} {prefix_ : Path} {method : String} {intoList : Bool}
    {defaults : List (String × Val)} {f : Field} {acc acc' : SFAcc}
    (h : sfArgsStep explicit prefix_ method intoList defaults f acc = .ok acc')
    (hacc : ∀ a ∈ acc.assignments, Path.hasPrefix prefix_ a.path) :
    ∀ a ∈ acc'.assignments, Path.hasPrefix prefix_ a.path := by
  unfold sfArgsStep at h
  by_cases hex : (!explicitOK explicit f.name) = true
  · simp [hex] at h; subst h; exact hacc
  · simp only [hex] at h
    cases hfc : fieldConstraints f.ty with
    | err e => simp [hfc] at h
    | panic s => simp [hfc] at h
    | ok cs =>
      simp only [hfc] at h
      exact sfArgsStepTy_paths h hacc

theorem sfArgsLoop_paths (explicit : Option (List String)) (prefix_ : Path) (method : String) (intoList : Bool)
    (defaults : List (String × Val)) : ∀ (fs : List Field) (acc acc' : SFAcc),
    sfArgsLoop explicit prefix_ method intoList defaults fs acc = .ok acc' →
    (∀ a ∈ acc.assignments, Path.hasPrefix prefix_ a.path) →
    ∀ a ∈ acc'.assignments, Path.hasPrefix prefix_ a.path
  | [], acc, acc', h, hacc => by simp [sfArgsLoop] at h; subst h; exact hacc
  | f :: rest, acc, acc', h, hacc => by
    simp only [sfArgsLoop] at h
    cases hs : sfArgsStep explicit prefix_ method intoList defaults f acc with
    | err e => simp [hs] at h
    | panic s => simp [hs] at h
    | ok acc1 =>
      simp only [hs] at h
      exact sfArgsLoop_paths explicit prefix_ method intoList defaults rest acc1 acc' h (sfArgsStep_paths hs hacc)

theorem replaceFirstArgAssignment_paths (n : String) (mk : Assignment → Assignment) (hmk : ∀ a, (mk a).path = a.path) :
    ∀ l : List Assignment, (replaceFirstArgAssignment n mk l).map (·.path) = l.map (·.path)
  | [] => rfl
  | a :: rest => by
    unfold replaceFirstArgAssignment
    split
    · split
      · simp [hmk]
      · simp [replaceFirstArgAssignment_paths n mk hmk rest]
    · simp [replaceFirstArgAssignment_paths n mk hmk rest]

theorem deepCopy_paths (o : Opt) : (Opt.deepCopy o).assignments.map (·.path) = o.assignments.map (·.path) := by
  simp [Opt.deepCopy, Assignment.deepCopy, Assignment.mapCells, List.map_map, Function.comp_def]

theorem disjunctionBranchOptions_paths (o : Opt) (idx : Nat) (target : Argument) : ∀ (brs : List Ty) (os : List Opt),
    disjunctionBranchOptions o idx target brs = .ok os →
    ∀ o' ∈ os, o'.assignments.map (·.path) = o.assignments.map (·.path)
  | [], os, h => by simp [disjunctionBranchOptions] at h; subst h; simp
  | br :: rest, os, h => by
    simp only [disjunctionBranchOptions] at h
    cases ht : typeName br with
    | err e => simp [ht] at h
    | panic s => simp [ht] at h
    | ok tn =>
      simp only [ht] at h
      cases hr : disjunctionBranchOptions o idx target rest with
      | err e => simp [hr] at h
      | panic s => simp [hr] at h
      | ok os' =>
        simp [hr] at h; subst h
        intro o' ho'
        rcases List.mem_cons.1 ho' with rfl | ho'
        · simp only
          rw [replaceFirstArgAssignment_paths target.name _ (fun a => by simp [argumentAssignment]), deepCopy_paths]
        · exact disjunctionBranchOptions_paths o idx target rest os' hr o' ho'

theorem disjunctionStructOptions_paths (o : Opt) (idx : Nat) (target : Argument) (fs : List Field) :
    ∀ o' ∈ disjunctionStructOptions o idx target fs, o'.assignments.map (·.path) = o.assignments.map (·.path) := by
  intro o' ho'
  simp only [disjunctionStructOptions, List.mem_map] at ho'
  obtain ⟨f, _, rfl⟩ := ho'
  simp only
  rw [replaceFirstArgAssignment_paths target.name _ (fun a => by simp), deepCopy_paths]


theorem disjunctionOnTarget_paths (ss : Schemas) (o : Opt) (idx : Nat) (target : Argument) (out : ActOut)
    (h : disjunctionOnTarget ss o idx target = .ok out) :
    ∀ o' ∈ out.opts, o'.assignments.map (·.path) = o.assignments.map (·.path) := by
  unfold disjunctionOnTarget at h
  by_cases hd : kindIs target.ty "disjunction" = true
  · simp only [hd, if_true] at h
    cases hty : target.ty with
    | disj branches info m =>
      simp only [hty] at h
      cases hb : disjunctionBranchOptions o idx target branches with
      | ok os => simp [hb] at h; subst h; exact disjunctionBranchOptions_paths o idx target branches os hb
      | err e => simp [hb] at h
      | panic s => simp [hb] at h
    | _ => simp [hty] at h
  · simp only [hd] at h
    by_cases hr : kindIs target.ty "ref" = true
    · simp only [hr, if_true] at h
      cases hres : resolveO ss (fuelFor ss) target.ty with
      | err e => simp [hres] at h
      | panic s => simp [hres] at h
      | ok r =>
        simp only [hres] at h
        by_cases hg : (!isStructGenFromDisj r) = true
        · simp [hg, unchanged] at h; subst h; simp
        · simp only [hg] at h
          cases r with
          | struct fs g gi m => simp at h; subst h; exact disjunctionStructOptions_paths o idx target fs
          | _ => simp at h
    · simp [hr, unchanged] at h; subst h; simp

theorem sfArgsBuild_targets (explicit : Option (List String)) (o : Opt) (oldArgsRest : List Argument)
    (asg0 : Assignment) (oldAsgRest : List Assignment) (fs : List Field) (out : ActOut)
    (h : sfArgsBuild explicit o oldArgsRest asg0 oldAsgRest fs = .ok out) :
    ∃ o', out.opts = [o'] ∧ o'.name = o.name ∧
      ∀ a ∈ o'.assignments, Path.hasPrefix asg0.path a.path ∨ a ∈ oldAsgRest := by
  unfold sfArgsBuild at h
  cases hl : asg0.path.getLast? with
  | none => simp [hl] at h
  | some last =>
    simp only [hl] at h
    cases hloop : sfArgsLoop explicit asg0.path asg0.method (kindIs last.ty "array") (sfDefaults o) fs {} with
    | err e => simp [hloop] at h
    | panic s => simp [hloop] at h
    | ok acc =>
      simp only [hloop] at h
      have hp := sfArgsLoop_paths explicit asg0.path asg0.method _ _ fs {} acc hloop (by simp)
      cases hasm : sfArgsAssemble asg0 last (kindIs last.ty "array") acc with
      | err e => simp [hasm] at h
      | panic s => simp [hasm] at h
      | ok asgs =>
        simp [hasm] at h; subst h
        have hasgs : ∀ a ∈ asgs, Path.hasPrefix asg0.path a.path := by
          unfold sfArgsAssemble at hasm
          by_cases hil : (!kindIs last.ty "array") = true
          · simp [hil] at hasm; subst hasm; exact hp
          · simp only [hil] at hasm
            cases hty : last.ty with
            | array elem m =>
              simp [hty] at hasm; subst hasm
              intro a ha
              simp at ha; subst ha
              exact ⟨[], by simp⟩
            | _ => simp [hty] at hasm
        refine ⟨_, rfl, rfl, ?_⟩
        intro a ha
        cases oldArgsRest with
        | nil => exact .inl (hasgs a (by simpa using ha))
        | cons x xs =>
          have ha' : a ∈ asgs ++ oldAsgRest := by simpa using ha
          rcases List.mem_append.1 ha' with ha' | ha'
          · exact .inl (hasgs a ha')
          · exact .inr ha'


/-! ### fresh identities do not change content -/

mutual
theorem number_mapCells_zero : ∀ (v : AValue) (n : Nat), (v.number n).1.mapCells zeroCell = v.mapCells zeroCell
  | .none, n => by simp [AValue.number]
  | .arg c, n => by
    simp only [AValue.number]
    split <;> simp [AValue.mapCells, zeroCell]
  | .const _, n => by simp [AValue.number]
  | .env t vs, n => by simp [AValue.number, AValue.mapCells, numberEnv_mapCells_zero vs n]
theorem numberEnv_mapCells_zero : ∀ (vs : List EnvField) (n : Nat),
    mapCellsEnv zeroCell (numberEnv vs n).1 = mapCellsEnv zeroCell vs
  | [], n => by simp [numberEnv]
  | e :: es, n => by
    simp [numberEnv, mapCellsEnv, number_mapCells_zero e.value n, numberEnv_mapCells_zero es]
end

theorem numberAssignments_content : ∀ (as : List Assignment) (n : Nat),
    (numberAssignments as n).1.map (Assignment.mapCells zeroCell) = as.map (Assignment.mapCells zeroCell)
  | [], n => by simp [numberAssignments]
  | a :: as, n => by
    simp [numberAssignments, Assignment.mapCells, number_mapCells_zero a.value n, numberAssignments_content as]

theorem Opt.number_content (o : Opt) (n : Nat) : (o.number n).1.content = o.content := by
  simp only [Opt.number, Opt.content, Opt.mapCells]
  split <;> simp [numberAssignments_content]

theorem numberOpts_content : ∀ (os : List Opt) (n : Nat), (numberOpts os n).1.map Opt.content = os.map Opt.content
  | [], n => by simp [numberOpts]
  | o :: os, n => by simp [numberOpts, Opt.number_content o n, numberOpts_content os]

theorem Builder.number_content (b : Builder) (n : Nat) : (b.number n).1.content = b.content := by
  simp [Builder.number, Builder.content, numberAssignments_content, numberOpts_content]

theorem numberBuilders_content : ∀ (bs : Builders) (n : Nat),
    (numberBuilders bs n).1.map Builder.content = bs.map Builder.content
  | [], n => by simp [numberBuilders]
  | b :: bs, n => by simp [numberBuilders, Builder.number_content b n, numberBuilders_content bs]

theorem Builder.content_options_isEmpty (b : Builder) : b.content.options.isEmpty = b.options.isEmpty := by
  simp [Builder.content]

theorem numberBuilders_options_isEmpty : ∀ (bs : Builders) (n : Nat),
    (numberBuilders bs n).1.map (fun b => b.options.isEmpty) = bs.map (fun b => b.options.isEmpty)
  | [], n => by simp [numberBuilders]
  | b :: bs, n => by
    have h1 : (b.number n).1.options.isEmpty = b.options.isEmpty := by
      have := congrArg (fun x : Builder => x.options.isEmpty) (Builder.number_content b n)
      simpa [Builder.content] using this
    simp [numberBuilders, h1, numberBuilders_options_isEmpty bs]


/-! ### `merge_into` and `compose`: which builders are left alone -/

theorem mapToSelectedLoop_frame (sel : Builder → Outcome Bool) (f : Builders → Builder → Outcome Builder) :
    ∀ (todo done r : Builders), mapToSelectedLoop sel f done todo = .ok r →
      ∃ r', r = done ++ r' ∧ All2 (fun b b' => sel b = .ok false → b' = b) todo r'
  | [], done, r, h => by
    simp [mapToSelectedLoop] at h; subst h; exact ⟨[], by simp, by simp [All2]⟩
  | b :: todo, done, r, h => by
    simp only [mapToSelectedLoop] at h
    cases hs : sel b with
    | err e => simp [hs] at h
    | panic s => simp [hs] at h
    | ok v =>
      cases v with
      | false =>
        simp only [hs] at h
        obtain ⟨r', h1, h2⟩ := mapToSelectedLoop_frame sel f todo _ r h
        exact ⟨b :: r', by rw [h1]; simp, ⟨fun _ => rfl, h2⟩⟩
      | true =>
        simp only [hs] at h
        cases hf : f (done ++ b :: todo) b with
        | err e => simp [hf] at h
        | panic s => simp [hf] at h
        | ok nb =>
          simp only [hf] at h
          obtain ⟨r', h1, h2⟩ := mapToSelectedLoop_frame sel f todo _ r h
          exact ⟨nb :: r', by rw [h1]; simp, ⟨fun hc => by rw [hs] at hc; simp at hc, h2⟩⟩

theorem composePartition_keep (pkg : String) (sel : BSel) (ss : Schemas) : ∀ (bs keep : Builders)
    (groups : List (String × Builder)), composePartition pkg sel ss bs = .ok (keep, groups) →
    keep = bs.filter (fun b => match sel.matches pkg ss b with | .ok false => true | _ => false)
  | [], keep, groups, h => by simp [composePartition] at h; simp [h.1]
  | b :: rest, keep, groups, h => by
    simp only [composePartition] at h
    cases hm : sel.matches pkg ss b with
    | err e => simp [hm] at h
    | panic s => simp [hm] at h
    | ok v =>
      simp only [hm] at h
      cases hr : composePartition pkg sel ss rest with
      | err e => simp [hr] at h
      | panic s => simp [hr] at h
      | ok kg =>
        obtain ⟨k, g⟩ := kg
        simp only [hr] at h
        have ih := composePartition_keep pkg sel ss rest k g hr
        cases v with
        | false =>
          simp at h
          simp [List.filter, hm, ← h.1, ih]
        | true =>
          simp only [Bool.not_true, Bool.false_eq_true, if_false] at h
          cases hl : Schemas.locate ss b.for_.selfPkg with
          | none => simp [hl] at h; simp [List.filter, hm, ← h.1, ih]
          | some sch => simp [hl] at h; simp [List.filter, hm, ← h.1, ih]

end Cog.Builder
