/-
  Well-typedness of what `array_to_append`, `map_to_index` and `unfold_boolean` return for an option of
  the shape `FromAST` derives (one argument, one assignment of that argument to a plain field path, no
  index items): the normal use of these actions is fine; the failures recorded in C17.lean need an
  earlier rule that shared a pointer, added an index, or turned the target into an append.
-/
import Cog.Builder.WTLemmas
namespace Cog.Builder
open Cog.IR

/-- no index items: the walk does not look at the arguments -/
def noIndex (p : Path) : Bool := p.all fun i => i.index.isNone

theorem walkPath_args_irrel (ss : Schemas) (args args' : List Argument) : ∀ (p : Path) (cur : Ty),
    noIndex p = true → walkPath ss args p cur = walkPath ss args' p cur
  | [], _, _ => rfl
  | i :: rest, cur, h => by
    have h' : i.index.isNone = true ∧ noIndex rest = true := by simpa [noIndex] using h
    have hi : i.index = none := by simpa using h'.1
    simp only [walkPath, hi]
    rw [walkPath_args_irrel ss args args' rest _ h'.2]

/-- type reached after walking a path (what the next item is checked against) -/
def endTy : Path → Ty → Ty
  | [], cur => cur
  | i :: rest, _ => endTy rest (i.typeHint.getD i.ty)

theorem walkPath_append (ss : Schemas) (args : List Argument) : ∀ (p q : Path) (cur : Ty),
    walkPath ss args (p ++ q) cur = (walkPath ss args p cur && walkPath ss args q (endTy p cur))
  | [], q, cur => by simp [walkPath, endTy]
  | i :: rest, q, cur => by
    simp only [List.cons_append, walkPath, endTy, walkPath_append ss args rest q, Bool.and_assoc]

theorem endTy_of_getLast? : ∀ (p : Path) (cur : Ty) (last : PathItem), p.getLast? = some last →
    endTy p cur = last.typeHint.getD last.ty
  | [], _, _, h => by simp at h
  | [i], cur, last, h => by
    have : i = last := by simpa using h
    subst this; simp [endTy]
  | i :: j :: rest, cur, last, h => by
    have h' : (j :: rest).getLast? = some last := by simpa [List.getLast?_cons_cons] using h
    have := endTy_of_getLast? (j :: rest) (i.typeHint.getD i.ty) last h'
    simpa [endTy] using this

/-- the shape of an option as `FromAST` derives it (and as most rules leave it) -/
structure FreshOpt (o : Opt) (a : Argument) (asg : Assignment) (c : ArgCell) (last : PathItem) : Prop where
  hArgs : o.args = [a]
  hAsgs : o.assignments = [asg]
  hValue : asg.value = .arg c
  hNoIndex : noIndex asg.path = true
  hNoCons : asg.constraints = []
  hLast : asg.path.getLast? = some last
  hLastTy : last.typeHint = none ∧ last.ty = a.ty

theorem resolveS_nonref (ss : Schemas) (t : Ty) (h : t.isRef = false) : resolveS ss t = some t := by
  simp only [resolveS, fuelFor, Schemas.resolveToType]
  cases t <;> simp_all [Ty.isRef]

/-- `array_to_append` on a fresh, well-typed option returns a well-typed option -/
theorem arrayToAppend_fresh_WT (ss : Schemas) (root : Ty) (o : Opt) (a : Argument) (asg : Assignment) (c : ArgCell)
    (last : PathItem) (hf : FreshOpt o a asg c last) (hw : optWT ss root o = true) (out : ActOut)
    (h : arrayToAppendAction o = .ok out) : out.opts.all (optWT ss root) = true := by
  unfold arrayToAppendAction at h
  simp only [hf.hArgs] at h
  by_cases hk : (!kindIs a.ty "array") = true
  · simp [hk, unchanged] at h; subst h; simpa using hw
  · simp only [hk] at h
    cases hty : a.ty with
    | array elem m =>
      simp only [hty, hf.hAsgs, hf.hValue] at h
      simp at h; subst h
      have hasg : assignmentWT ss root o.args asg = true := by
        simpa [optWT, hf.hAsgs] using hw
      simp only [assignmentWT, Bool.and_eq_true] at hasg
      obtain ⟨⟨⟨hne, hwalk⟩, _⟩, _⟩ := hasg
      have hw' : ∀ args', walkPath ss args' asg.path root = true := by
        intro args'; rw [walkPath_args_irrel ss _ o.args asg.path root hf.hNoIndex]; exact hwalk
      simp [optWT, assignmentWT, hf.hNoCons, valueWT, declared, tyMatchLoose_refl, hw']
      simpa using hne
    | _ => simp [hty] at h

/-- `map_to_index` on a fresh, well-typed option returns a well-typed option -/
theorem mapToIndex_fresh_WT (ss : Schemas) (root : Ty) (o : Opt) (a : Argument) (asg : Assignment) (c : ArgCell)
    (last : PathItem) (hf : FreshOpt o a asg c last) (hw : optWT ss root o = true) (out : ActOut)
    (h : mapToIndexAction o = .ok out) : out.opts.all (optWT ss root) = true := by
  unfold mapToIndexAction at h
  simp only [hf.hArgs] at h
  by_cases hk : (!kindIs a.ty "map") = true
  · simp [hk, unchanged] at h; subst h; simpa using hw
  · simp only [hk] at h
    cases hty : a.ty with
    | map idx val m =>
      simp only [hty, hf.hAsgs, hf.hValue] at h
      simp at h; subst h
      have hasg : assignmentWT ss root o.args asg = true := by
        simpa [optWT, hf.hAsgs] using hw
      simp only [assignmentWT, Bool.and_eq_true] at hasg
      obtain ⟨⟨⟨hne, hwalk⟩, _⟩, _⟩ := hasg
      have hend : endTy asg.path root = .map idx val m := by
        rw [endTy_of_getLast? asg.path root last hf.hLast, hf.hLastTy.1, Option.getD_none, hf.hLastTy.2, hty]
      have hw' : ∀ args', walkPath ss args' asg.path root = true := by
        intro args'; rw [walkPath_args_irrel ss _ o.args asg.path root hf.hNoIndex]; exact hwalk
      simp [optWT, assignmentWT, hf.hNoCons, valueWT, declared, tyMatchLoose_refl, walkPath_append, hend, hw',
        walkPath, collectionValue, resolveS_nonref ss (.map idx val m) rfl, tyMatch_refl, indexArgsDeclared]
    | _ => simp [hty] at h

/-- `unfold_boolean` on a fresh, well-typed option returns well-typed options -/
theorem unfoldBoolean_fresh_WT (ss : Schemas) (root : Ty) (t f : String) (o : Opt) (a : Argument) (asg : Assignment)
    (c : ArgCell) (last : PathItem) (hf : FreshOpt o a asg c last) (hw : optWT ss root o = true) (out : ActOut)
    (h : unfoldBooleanAction t f o = .ok out) : out.opts.all (optWT ss root) = true := by
  have hasg : assignmentWT ss root o.args asg = true := by
    simpa [optWT, hf.hAsgs] using hw
  simp only [assignmentWT, Bool.and_eq_true] at hasg
  obtain ⟨⟨⟨hne, hwalk⟩, _⟩, _⟩ := hasg
  have hconst : ∀ v : Bool, assignmentWT ss root [] (constantAssignment asg.path (.bool v)) = true := by
    intro v
    have hw' : walkPath ss [] asg.path root = true := by
      rw [walkPath_args_irrel ss _ o.args asg.path root hf.hNoIndex]; exact hwalk
    simp [assignmentWT, constantAssignment, isNil, valueWT, hw']
    simpa using hne
  unfold unfoldBooleanAction at h
  simp only [hf.hAsgs, hf.hLast] at h
  by_cases hk : (!kindIs last.ty "scalar") = true
  · simp [hk, unchanged] at h; subst h; simpa using hw
  · simp only [hk] at h
    cases hty : last.ty with
    | scalar k v cs m =>
      simp only [hty] at h
      by_cases hb : (k != "bool") = true
      · simp [hb, unchanged] at h; subst h; simpa using hw
      · simp only [hb] at h
        cases hd : o.dflt with
        | none => simp [hd] at h; subst h; simp [optWT, hconst]
        | some vs =>
          cases vs with
          | nil => simp [hd] at h
          | cons v0 vs' =>
            simp only [hd] at h
            cases v0 <;> (try (rename_i bv; cases bv)) <;> (simp at h; subst h; simp [optWT, hconst])
    | _ => simp [hty] at h

end Cog.Builder
