/-
  Specification vocabulary for C16 (what "covered exactly once" means), independent of the
  `FromAST` model.  Core Lean only.
-/
import Cog.Builder.FromAST
namespace Cog.Builder
open Cog.IR

/-- pointwise relation between two lists of equal length (core has no `List.Forall₂`) -/
def All2 {α β : Type} (R : α → β → Prop) : List α → List β → Prop
  | [], [] => True
  | a :: as, b :: bs => R a b ∧ All2 R as bs
  | _, _ => False

theorem All2.length_eq {α β : Type} {R : α → β → Prop} : ∀ {l₁ : List α} {l₂ : List β}, All2 R l₁ l₂ → l₁.length = l₂.length
  | [], [], _ => rfl
  | _ :: as, _ :: bs, h => by simp [All2.length_eq (l₁ := as) (l₂ := bs) h.2]
  | [], _ :: _, h => by simp [All2] at h
  | _ :: _, [], h => by simp [All2] at h

theorem All2.append {α β : Type} {R : α → β → Prop} :
    ∀ {l₁ l₁' : List α} {l₂ l₂' : List β}, All2 R l₁ l₂ → All2 R l₁' l₂' → All2 R (l₁ ++ l₁') (l₂ ++ l₂')
  | [], _, [], _, _, h' => by simpa using h'
  | a :: as, _, b :: bs, _, h, h' => by
    simp only [List.cons_append, All2]
    exact ⟨h.1, All2.append h.2 h'⟩
  | [], _, _ :: _, _, h, _ => by simp [All2] at h
  | _ :: _, _, [], _, h, _ => by simp [All2] at h

theorem All2.imp {α β : Type} {R R' : α → β → Prop} (hi : ∀ a b, R a b → R' a b) :
    ∀ {l₁ : List α} {l₂ : List β}, All2 R l₁ l₂ → All2 R' l₁ l₂
  | [], [], _ => by simp [All2]
  | a :: as, b :: bs, h => ⟨hi a b h.1, All2.imp hi h.2⟩
  | [], _ :: _, h => by simp [All2] at h
  | _ :: _, [], h => by simp [All2] at h

/-- every right element is related to some left element -/
theorem All2.exists_left {α β : Type} {R : α → β → Prop} :
    ∀ {l₁ : List α} {l₂ : List β}, All2 R l₁ l₂ → ∀ b ∈ l₂, ∃ a ∈ l₁, R a b
  | [], [], _, b, hb => by simp at hb
  | a :: as, b' :: bs, h, b, hb => by
    rcases List.mem_cons.1 hb with rfl | hb
    · exact ⟨a, by simp, h.1⟩
    · obtain ⟨x, hx, hr⟩ := All2.exists_left h.2 b hb
      exact ⟨x, by simp [hx], hr⟩
  | [], _ :: _, h, _, _ => by simp [All2] at h
  | _ :: _, [], h, _, _ => by simp [All2] at h

/-- every left element is related to some right element -/
theorem All2.exists_right {α β : Type} {R : α → β → Prop} :
    ∀ {l₁ : List α} {l₂ : List β}, All2 R l₁ l₂ → ∀ a ∈ l₁, ∃ b ∈ l₂, R a b
  | [], [], _, a, ha => by simp at ha
  | a' :: as, b :: bs, h, a, ha => by
    rcases List.mem_cons.1 ha with rfl | ha
    · exact ⟨b, by simp, h.1⟩
    · obtain ⟨x, hx, hr⟩ := All2.exists_right h.2 a ha
      exact ⟨x, by simp [hx], hr⟩
  | [], _ :: _, h, _, _ => by simp [All2] at h
  | _ :: _, [], h, _, _ => by simp [All2] at h

/-! ### objects and resolution (spec side uses the shared resolver of `Cog.IR.Basic`) -/

/-- every object of the schema set in iteration order, with the schema it is declared in -/
def allObjects : List Schema → List (Schema × Obj)
  | [] => []
  | s :: rest => s.objects.map (fun ko => (s, ko.2)) ++ allObjects rest

/-- the struct an object stands for, directly or through a chain of references -/
def structFieldsOf (ss : Schemas) (t : Ty) : Option (List Field) :=
  match Schemas.resolveToType ss (fuelFor ss) t with
  | some (.struct fs _ _ _) => some fs
  | _ => none

def resolvesToStruct (ss : Schemas) (t : Ty) : Bool := (structFieldsOf ss t).isSome

/-! ### how a field is covered -/

inductive FieldClass where
  | constant (v : Val)   -- the schema fixes the value: constructor constant
  | ownCtor              -- constant reference: the referred type's own constructor
  | option               -- free: one option
  deriving Inhabited

def FieldClass.isOption : FieldClass → Bool
  | .option => true
  | _ => false

def FieldClass.const? : FieldClass → Option Val
  | .constant v => some v
  | _ => none

/-- value of a concrete scalar -/
def concreteValue? : Ty → Option Val
  | .scalar _ v _ _ => if isNil v then none else some v
  | _ => none

/-- value fixed through a reference to a constant object (any package) -/
def refConstValue? (ss : Schemas) : Ty → Option Val
  | .ref p n m =>
    match Schemas.resolveToType ss (fuelFor ss) (.ref p n m) with
    | some r => concreteValue? r
    | none => none
  | _ => none

/-- the property's reading: the schema fixes the value of a concrete scalar, of a reference to a
    constant, and of a constant reference — whatever `required`/`nullable` say -/
def specClass (ss : Schemas) (f : Field) : FieldClass :=
  match concreteValue? f.ty with
  | some v => .constant v
  | none =>
    match refConstValue? ss f.ty with
    | some v => .constant v
    | none => if kindIs f.ty "constant_ref" then .ownCtor else .option

/-- what `structObjectToBuilder` does: a reference to a constant is only a constructor constant
    when the field is required and not nullable; otherwise it becomes an option -/
def codeClass (ss : Schemas) (f : Field) : FieldClass :=
  match concreteValue? f.ty with
  | some v => .constant v
  | none =>
    match (if f.required && !f.ty.getMeta.nullable then refConstValue? ss f.ty else none) with
    | some v => .constant v
    | none => if kindIs f.ty "constant_ref" then .ownCtor else .option

/-- decidable hypothesis under which the two readings agree -/
def noOptionalConstRef (ss : Schemas) (fs : List Field) : Bool :=
  fs.all fun f => (refConstValue? ss f.ty).isNone || (f.required && !f.ty.getMeta.nullable)

def scalarConstraints : Ty → List Constraint
  | .scalar _ _ cs _ => cs
  | _ => []

/-- the assignment constraints are the field type's constraints, each on the option's argument -/
def ConstraintsOf (f : Field) (acs : List AConstraint) : Prop :=
  All2 (fun (c : Constraint) (ac : AConstraint) =>
      ac.argument.name = f.name ∧ ac.argument.ty = f.ty ∧ ac.op = c.op ∧ c.args.head? = some ac.parameter)
    (scalarConstraints f.ty) acs

/-- "one option whose single argument has the field's name, type and default and whose assignment
    targets that field with the field's constraints" -/
def IsOptionFor (f : Field) (o : Opt) : Prop :=
  o.name = f.name ∧ o.comments = f.comments ∧
  (∃ a : Argument, o.args = [a] ∧ a.name = f.name ∧ a.ty = f.ty) ∧
  o.dflt = (if isNil f.ty.getMeta.dflt then none else some [f.ty.getMeta.dflt]) ∧
  ∃ a : Assignment, o.assignments = [a] ∧
    (∃ i : PathItem, a.path = [i] ∧ i.identifier = f.name ∧ i.ty = f.ty ∧ i.index.isNone ∧ i.typeHint.isNone ∧ i.root = false) ∧
    (∃ c : ArgCell, a.value = .arg c ∧ c.arg.name = f.name ∧ c.arg.ty = f.ty) ∧
    a.method = "direct" ∧ ConstraintsOf f a.constraints ∧ a.nilChecks = []

/-- "a constructor constant" for field `f` with value `v` -/
def IsConstantFor (fv : Field × Val) (a : Assignment) : Prop :=
  (∃ i : PathItem, a.path = [i] ∧ i.identifier = fv.1.name ∧ i.ty = fv.1.ty ∧ i.index.isNone ∧ i.typeHint.isNone ∧ i.root = false) ∧
  a.value = .const fv.2 ∧ isNil fv.2 = false ∧ a.method = "direct" ∧ a.constraints = [] ∧ a.nilChecks = []

def constFields (cls : Field → FieldClass) : List Field → List (Field × Val)
  | [] => []
  | f :: fs => match (cls f).const? with
    | some v => (f, v) :: constFields cls fs
    | none => constFields cls fs

def optionFields (cls : Field → FieldClass) (fs : List Field) : List Field := fs.filter fun f => (cls f).isOption

/-- Every field covered exactly once, nothing extra: the options are, in order, exactly the options
    for the option-class fields; the constructor constants are, in order, exactly the constants of
    the constant-class fields; own-constructor fields get neither; nothing else is in the builder. -/
def Covered (cls : Field → FieldClass) (fs : List Field) (b : Builder) : Prop :=
  All2 IsOptionFor (optionFields cls fs) b.options ∧
  All2 IsConstantFor (constFields cls fs) b.constructor.assignments ∧
  b.constructor.args = [] ∧ b.properties = [] ∧ b.factories = []

end Cog.Builder
