/-
  `WT ss b` : well-typedness of a builder against the schemas (C17), a decidable (Bool) predicate.

    * every assignment path — of every option and of the constructor — names an existing chain of
      fields of the built object: starting at `b.for_.ty`, a field item must name a field of the
      struct the current type resolves to (through references) and carry that field's type (equal up
      to the top-level `Default`, which veneers overwrite); an index item must index a map or an array
      and carry its value type; after an item with a type hint the walk continues from the hint
      (that is what `ComposeBuilders` uses the hint for);
    * every argument used by an assignment value (also inside envelopes), by a path index or by a
      constraint is declared by the enclosing option — by the constructor for constructor assignments —
      with the same name and the same type up to top-level `Default`/`Nullable`;
    * an envelope's type resolves to a struct that has the fields the envelope assigns, with their types.
-/
import Cog.Builder.Veneers
import Cog.Builder.TyEq
namespace Cog.Builder
open Cog.IR

def declared (args : List Argument) (a : Argument) : Bool :=
  args.any fun d => d.name == a.name && tyMatchLoose d.ty a.ty

def resolveS (ss : Schemas) (t : Ty) : Option Ty := Schemas.resolveToType ss (fuelFor ss) t

/-- value type of the collection a type resolves to -/
def collectionValue (ss : Schemas) (t : Ty) : Option Ty :=
  match resolveS ss t with
  | some (.array e _) => some e
  | some (.map _ v _) => some v
  | _ => none

def structFields (ss : Schemas) (t : Ty) : Option (List Field) :=
  match resolveS ss t with
  | some (.struct fs _ _ _) => some fs
  | _ => none

def indexArgsDeclared (args : List Argument) (i : PathItem) : Bool :=
  match i.index with
  | some ix => (match ix.argument with | some a => declared args a | none => true)
  | none => true

/-- walk a path from the current type `cur` -/
def walkPath (ss : Schemas) (args : List Argument) : Path → Ty → Bool
  | [], _ => true
  | i :: rest, cur =>
    let here : Bool :=
      match i.index with
      | some _ =>
        (match collectionValue ss cur with
         | some v => tyMatch i.ty v
         | none => false) && indexArgsDeclared args i
      | none =>
        match structFields ss cur with
        | some fs =>
          (match fieldByName fs i.identifier with
           | some f => tyMatch i.ty f.ty
           | none => false)
        | none => false
    here && walkPath ss args rest (i.typeHint.getD i.ty)

mutual
/-- the value side: arguments declared, envelopes assign existing fields of the envelope's struct -/
def valueWT (ss : Schemas) (args : List Argument) : AValue → Bool
  | .none => true
  | .const _ => true
  | .arg c => declared args c.arg
  | .env t vs => (structFields ss t).isSome && envWT ss args t vs
def envWT (ss : Schemas) (args : List Argument) (t : Ty) : List EnvField → Bool
  | [] => true
  | e :: es => walkPath ss args e.path t && valueWT ss args e.value && envWT ss args t es
end

def assignmentWT (ss : Schemas) (root : Ty) (args : List Argument) (a : Assignment) : Bool :=
  !a.path.isEmpty && walkPath ss args a.path root && valueWT ss args a.value &&
  a.constraints.all fun c => declared args c.argument

def optWT (ss : Schemas) (root : Ty) (o : Opt) : Bool := o.assignments.all (assignmentWT ss root o.args)

/-- well-typedness of one builder -/
def WT (ss : Schemas) (b : Builder) : Bool :=
  b.constructor.assignments.all (assignmentWT ss b.for_.ty b.constructor.args) &&
  b.options.all (optWT ss b.for_.ty)

def WTs (ss : Schemas) (bs : Builders) : Bool := bs.all (WT ss)

end Cog.Builder
