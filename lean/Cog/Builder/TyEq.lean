/-
  Boolean equality of IR values and types (`Val`, `Ty` are nested inductives without derived
  `DecidableEq`), used by the decidable well-typedness predicate `WT`.  Only reflexivity is needed by
  the theorems (`beq_refl`: a type matches itself).
-/
import Cog.IR.Types
namespace Cog.Builder
open Cog.IR

mutual
def valBeq : Val → Val → Bool
  | .nil, .nil => true
  | .bool a, .bool b => a == b
  | .int t n, .int t' n' => t == t' && n == n'
  | .float t r, .float t' r' => t == t' && r == r'
  | .jnum s, .jnum s' => s == s'
  | .str s, .str s' => s == s'
  | .list xs, .list ys => valBeqList xs ys
  | .map kvs, .map kvs' => valBeqMap kvs kvs'
  | .other a b, .other a' b' => a == a' && b == b'
  | _, _ => false
def valBeqList : List Val → List Val → Bool
  | [], [] => true
  | x :: xs, y :: ys => valBeq x y && valBeqList xs ys
  | _, _ => false
def valBeqMap : List (String × Val) → List (String × Val) → Bool
  | [], [] => true
  | kv :: r, kv' :: r' => kv.1 == kv'.1 && valBeq kv.2 kv'.2 && valBeqMap r r'
  | _, _ => false
end

mutual
theorem valBeq_refl : ∀ v : Val, valBeq v v = true
  | .nil => by simp [valBeq]
  | .bool _ => by simp [valBeq]
  | .int .. => by simp [valBeq]
  | .float .. => by simp [valBeq]
  | .jnum _ => by simp [valBeq]
  | .str _ => by simp [valBeq]
  | .list xs => by simp [valBeq, valBeqList_refl xs]
  | .map kvs => by simp [valBeq, valBeqMap_refl kvs]
  | .other .. => by simp [valBeq]
theorem valBeqList_refl : ∀ xs : List Val, valBeqList xs xs = true
  | [] => by simp [valBeqList]
  | x :: xs => by simp [valBeqList, valBeq_refl x, valBeqList_refl xs]
theorem valBeqMap_refl : ∀ kvs : List (String × Val), valBeqMap kvs kvs = true
  | [] => by simp [valBeqMap]
  | kv :: r => by simp [valBeqMap, valBeq_refl kv.2, valBeqMap_refl r]
end

def listBeq {α : Type} (f : α → α → Bool) : List α → List α → Bool
  | [], [] => true
  | a :: as, b :: bs => f a b && listBeq f as bs
  | _, _ => false

theorem listBeq_refl {α : Type} {f : α → α → Bool} (h : ∀ a, f a a = true) : ∀ l : List α, listBeq f l l = true
  | [] => rfl
  | a :: as => by simp [listBeq, h a, listBeq_refl h as]

def hintsBeq (a b : List (String × Val)) : Bool := valBeqMap a b

def metaBeq (a b : Meta) : Bool := a.nullable == b.nullable && valBeq a.dflt b.dflt && hintsBeq a.hints b.hints

theorem metaBeq_refl (m : Meta) : metaBeq m m = true := by
  simp [metaBeq, valBeq_refl, hintsBeq, valBeqMap_refl]

def constraintBeq (a b : Constraint) : Bool := a.op == b.op && valBeqList a.args b.args
theorem constraintBeq_refl (c : Constraint) : constraintBeq c c = true := by simp [constraintBeq, valBeqList_refl]

def enumValBeq (a b : EnumVal) : Bool := a.name == b.name && valBeq a.value b.value && a.kind == b.kind
theorem enumValBeq_refl (c : EnumVal) : enumValBeq c c = true := by simp [enumValBeq, valBeq_refl]

def strPairsBeq (a b : List (String × String)) : Bool := a == b

def disjInfoBeq (a b : DisjInfo) : Bool := a.discriminator == b.discriminator && a.mapping == b.mapping
theorem disjInfoBeq_refl (c : DisjInfo) : disjInfoBeq c c = true := by simp [disjInfoBeq]

def genInfoBeq : Option (String × DisjInfo) → Option (String × DisjInfo) → Bool
  | none, none => true
  | some (h, d), some (h', d') => h == h' && disjInfoBeq d d'
  | _, _ => false
theorem genInfoBeq_refl : ∀ g, genInfoBeq g g = true
  | none => rfl
  | some (h, d) => by simp [genInfoBeq, disjInfoBeq_refl]

mutual
def tyBeq : Ty → Ty → Bool
  | .scalar k v cs m, .scalar k' v' cs' m' => k == k' && valBeq v v' && listBeq constraintBeq cs cs' && metaBeq m m'
  | .ref p n m, .ref p' n' m' => p == p' && n == n' && metaBeq m m'
  | .cref p n v m, .cref p' n' v' m' => p == p' && n == n' && valBeq v v' && metaBeq m m'
  | .array e m, .array e' m' => tyBeq e e' && metaBeq m m'
  | .map i v m, .map i' v' m' => tyBeq i i' && tyBeq v v' && metaBeq m m'
  | .struct fs g gi m, .struct fs' g' gi' m' => tyBeqFields fs fs' && tyBeqList g g' && genInfoBeq gi gi' && metaBeq m m'
  | .enum vs m, .enum vs' m' => listBeq enumValBeq vs vs' && metaBeq m m'
  | .disj bs i m, .disj bs' i' m' => tyBeqList bs bs' && disjInfoBeq i i' && metaBeq m m'
  | .inter bs m, .inter bs' m' => tyBeqList bs bs' && metaBeq m m'
  | .slot v m, .slot v' m' => v == v' && metaBeq m m'
  | .bad k m, .bad k' m' => k == k' && metaBeq m m'
  | _, _ => false
def tyBeqList : List Ty → List Ty → Bool
  | [], [] => true
  | a :: as, b :: bs => tyBeq a b && tyBeqList as bs
  | _, _ => false
def tyBeqFields : List Field → List Field → Bool
  | [], [] => true
  | a :: as, b :: bs => a.name == b.name && tyBeq a.ty b.ty && a.required == b.required && a.comments == b.comments && tyBeqFields as bs
  | _, _ => false
end

mutual
theorem tyBeq_refl : ∀ t : Ty, tyBeq t t = true
  | .scalar .. => by simp [tyBeq, valBeq_refl, listBeq_refl constraintBeq_refl, metaBeq_refl]
  | .ref .. => by simp [tyBeq, metaBeq_refl]
  | .cref .. => by simp [tyBeq, valBeq_refl, metaBeq_refl]
  | .array e _ => by simp [tyBeq, tyBeq_refl e, metaBeq_refl]
  | .map i v _ => by simp [tyBeq, tyBeq_refl i, tyBeq_refl v, metaBeq_refl]
  | .struct fs g gi _ => by simp [tyBeq, tyBeqFields_refl fs, tyBeqList_refl g, genInfoBeq_refl, metaBeq_refl]
  | .enum .. => by simp [tyBeq, listBeq_refl enumValBeq_refl, metaBeq_refl]
  | .disj bs _ _ => by simp [tyBeq, tyBeqList_refl bs, disjInfoBeq_refl, metaBeq_refl]
  | .inter bs _ => by simp [tyBeq, tyBeqList_refl bs, metaBeq_refl]
  | .slot .. => by simp [tyBeq, metaBeq_refl]
  | .bad .. => by simp [tyBeq, metaBeq_refl]
theorem tyBeqList_refl : ∀ ts : List Ty, tyBeqList ts ts = true
  | [] => by simp [tyBeqList]
  | t :: ts => by simp [tyBeqList, tyBeq_refl t, tyBeqList_refl ts]
theorem tyBeqFields_refl : ∀ fs : List Field, tyBeqFields fs fs = true
  | [] => by simp [tyBeqFields]
  | f :: fs => by simp [tyBeqFields, tyBeq_refl f.ty, tyBeqFields_refl fs]
end

/-- `Default` erased at the top (veneers overwrite it on path items and arguments) -/
def eraseDflt (t : Ty) : Ty := t.setMeta { t.getMeta with dflt := .nil }

/-- `Default` and `Nullable` erased at the top (`PromoteOptionsToConstructor` clears `Nullable`) -/
def eraseDfltNull (t : Ty) : Ty := t.setMeta { t.getMeta with dflt := .nil, nullable := false }

/-- "matching types" for a path item against the field it names: equal up to the top-level default -/
def tyMatch (a b : Ty) : Bool := tyBeq (eraseDflt a) (eraseDflt b)

/-- a used argument against a declared one: equal up to top-level default and nullability -/
def tyMatchLoose (a b : Ty) : Bool := tyBeq (eraseDfltNull a) (eraseDfltNull b)

theorem tyMatch_refl (t : Ty) : tyMatch t t = true := tyBeq_refl _
theorem tyMatchLoose_refl (t : Ty) : tyMatchLoose t t = true := tyBeq_refl _

end Cog.Builder
