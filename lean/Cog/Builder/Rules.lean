/-
  Veneer rules as data: exactly what internal/yaml/{veneers,builder,option}.go decode from a YAML
  veneers file (one constructor per YAML key; `empty` = a rule / selector mapping with none of the
  known keys set, which the loader rejects with an error).
-/
import Cog.Builder.Types
namespace Cog.Builder
open Cog.IR

structure VEnvFieldOf (α : Type) where
  field : String
  value : α
  deriving Inhabited

/-- `veneers.AssignmentValue` (`Argument *ast.Argument`, `Constant any`, `Envelope *AssignmentEnvelope`):
    all three members are kept, `AsIR` picks the first that is set. -/
inductive VValue where
  | mk (argument : Option ArgCell) (constant : Val) (hasEnvelope : Bool) (envelope : List (VEnvFieldOf VValue))
  deriving Inhabited

/-- `veneers.Assignment` -/
structure VAssignment where
  path : String
  method : String
  value : VValue
  deriving Inhabited

/-- `veneers.Option`; `argsId` is the identity of the decoded `Arguments` slice, which every
    application of the rule re-uses (`Args: opt.Arguments`) -/
structure VOption where
  name : String
  comments : List String := []
  arguments : List Argument := []
  argsId : Nat := 0
  assignments : List VAssignment := []
  deriving Inhabited

/-- `yaml.BuilderSelector` (first key set wins, in this order) -/
inductive BSel where
  | byObject (name : String)
  | byName (name : String)
  | byVariant (variant : String)
  | generatedFromDisjunction
  | empty
  deriving Inhabited

structure ComposeCfg where
  sourceBuilderName : String := ""
  pluginDiscriminatorField : String := ""
  excludeOptions : List String := []
  compositionMap : List (String × String) := []   -- Go map (unique keys)
  composedBuilderName : String := ""
  preserveOriginalBuilders : Bool := false
  deriving Inhabited

/-- `yaml.BuilderRule` -/
inductive BRule where
  | omit (sel : BSel)
  | rename (sel : BSel) (as_ : String)
  | mergeInto (destination source underPath : String) (excludeOptions : List String)
      (renameOptions : List (String × String))
  | compose (sel : BSel) (cfg : ComposeCfg)
  | properties (sel : BSel) (set : List Field)
  | duplicate (sel : BSel) (as_ : String) (excludeOptions : List String)
  | initialize (sel : BSel) (set : List (String × Val))
  | promote (sel : BSel) (options : List String)
  | addOption (sel : BSel) (opt : VOption)
  | addFactory (sel : BSel) (factory : Factory)
  | empty
  deriving Inhabited

/-- `yaml.OptionSelector` -/
inductive OSel where
  | byName (s : String)
  | byBuilder (s : String)
  | byNames (object builder : String) (options : List String)
  | empty
  deriving Inhabited

/-- `yaml.OptionRule`.  `fields = none` is a nil slice (key absent): "all fields". -/
inductive ORule where
  | omit (sel : OSel)
  | rename (sel : OSel) (as_ : String)
  | renameArguments (sel : OSel) (as_ : List String)
  | unfoldBoolean (sel : OSel) (trueAs falseAs : String)
  | structFieldsAsArguments (sel : OSel) (fields : Option (List String))
  | structFieldsAsOptions (sel : OSel) (fields : Option (List String))
  | arrayToAppend (sel : OSel)
  | mapToIndex (sel : OSel)
  | disjunctionAsOptions (sel : OSel) (argumentIndex : Int)
  | duplicate (sel : OSel) (as_ : String)
  | addAssignment (sel : OSel) (assignment : VAssignment)
  | addComments (sel : OSel) (comments : List String)
  | empty
  deriving Inhabited

/-- `yaml.Veneers`: one decoded file -/
structure VFile where
  language : String
  pkg : String
  builders : List BRule := []
  options : List ORule := []
  deriving Inhabited

end Cog.Builder
