/-
  Model of the veneers: internal/veneers/{types.go, builder/{rules,selectors}.go,
  option/{actions,rules,selectors}.go, rewrite/rewrite.go} and the YAML glue of
  internal/yaml/{veneers,builder,option}.go, transcribed literally.  Core Lean only.

  Go partial operations are explicit: `xs[i]` out of range, `As*()` / `.Struct.` / `.Map.` on a nil
  kind pointer, `path.Last()` on an empty path, a nil `*Schema` → `.panic`; `error` returns → `.err`.
  Shared pointers: see `Cog.Builder.Alias`.  The three actions that store through a shared pointer
  return the stores as `Write`s; the rewriter applies them to every place that carries the identity.
  `ComposeBuilders` ranges over a Go map of panel types; the model takes the groups in key order
  (with one group the order is immaterial; the correspondence harness flags the other case).
-/
import Cog.Builder.Rules
import Cog.Builder.Alias
import Cog.Builder.FromAST
import Cog.Builder.Str
namespace Cog.Builder
open Cog.IR Cog.Builder.Str

/-! ### small helpers -/

/-- Go map lookup (`v, ok := m[k]`) on an association list with unique keys -/
def mapGet {α : Type} (k : String) : List (String × α) → Option α
  | [] => none
  | (k', v) :: r => if k' = k then some v else mapGet k r

def fieldByName (fs : List Field) (n : String) : Option Field := fs.find? fun f => f.name == n

def hintNonNil (m : Meta) (k : String) : Bool :=
  match mapGet k m.hints with
  | some v => !isNil v
  | none => false

/-- `Type.IsStructGeneratedFromDisjunction` (the two hints with a `DisjunctionType` payload are the
    `genInfo` component of `Ty.struct`) -/
def isStructGenFromDisj : Ty → Bool
  | .struct _ _ gi m => gi.isSome || hintNonNil m "disjunction_of_scalars" || hintNonNil m "disjunction_of_refs"
  | _ => false

def asRefO : Ty → Outcome (String × String)
  | .ref p n _ => .ok (p, n)
  | _ => .panic "AsRef"

/-- `Builders.LocateByObject` -/
def locateByObject (bs : Builders) (pkg name : String) : Option Builder :=
  bs.find? fun b => b.for_.selfPkg == pkg && b.for_.selfName == name

/-- `Builders.LocateByName` -/
def locateByName (bs : Builders) (pkg name : String) : Option Builder :=
  bs.find? fun b => b.for_.selfPkg == pkg && b.name == name

def refTy (pkg name : String) : Ty := .ref pkg name {}

/-- `ArgumentAssignment(path, argument, Method(m))` without constraints: a new pointee -/
def argumentAssignment (p : Path) (a : Argument) (method : String := "direct") (cs : List AConstraint := []) : Assignment :=
  { path := p, value := .arg { id := 0, arg := a }, method := method, constraints := cs }

/-! ### `Builder.MakePath` -/

def makePathLoop (bs : Builders) : List String → Ty → Path → Outcome Path
  | [], _, acc => .ok acc
  | part :: rest, cur, acc =>
    let cur' : Outcome Ty :=
      if kindIs cur "ref" then
        match asRefO cur with
        | .ok (p, n) =>
          match locateByObject bs p n with
          | some rb => .ok rb.for_.ty
          | none => .err "could not make path: reference could not be resolved"
        | .err e => .err e
        | .panic s => .panic s
      else .ok cur
    match cur' with
    | .ok cur =>
      if !kindIs cur "struct" then .err "could not make path: not a struct or a ref"
      else
        match asStructFields cur with
        | .ok fs =>
          match fieldByName fs part with
          | some f => makePathLoop bs rest f.ty (acc ++ [{ identifier := part, ty := f.ty }])
          | none => .err "could not make path: field not found"
        | .err e => .err e
        | .panic s => .panic s
    | .err e => .err e
    | .panic s => .panic s

def makePath (bs : Builders) (b : Builder) (s : String) : Outcome Path :=
  if s == "" then .err "can not make path from empty input"
  else makePathLoop bs (splitDot s) b.for_.ty []

/-! ### internal/veneers/types.go : YAML-declared options and assignments → IR -/

/-- the envelope type: the last path item's type, one array level and then one map level removed -/
def unwrapEnvelopeType (t : Ty) : Outcome Ty :=
  let t1 : Outcome Ty :=
    if kindIs t "array" then (match t with | .array e _ => .ok e | _ => .panic "Array.ValueType") else .ok t
  match t1 with
  | .ok t1 => if kindIs t1 "map" then (match t1 with | .map _ v _ => .ok v | _ => .panic "Map.ValueType") else .ok t1
  | .err e => .err e
  | .panic s => .panic s

mutual
/-- `AssignmentValue.AsIR` as it was before /repo b52532c: the rule's own `*Argument` is handed to
    every option the rule is applied to -/
def VValue.asIRPreFix (ss : Schemas) (path : Path) : VValue → Outcome AValue
  | .mk (some c) _ _ _ => .ok (.arg c)
  | .mk none constant he env =>
    if !isNil constant then .ok (.const constant)
    else if he then
      match path.getLast? with
      | none => .panic "Path.Last"
      | some last =>
        match unwrapEnvelopeType last.ty with
        | .ok et =>
          match asIREnvPreFix ss et env with
          | .ok vs => .ok (.env et vs)
          | .err e => .err e
          | .panic s => .panic s
        | .err e => .err e
        | .panic s => .panic s
    else .err "empty assignment value"
/-- `AssignmentEnvelope.AsIR` / `EnvelopeFieldValue.AsIR` -/
def asIREnvPreFix (ss : Schemas) (et : Ty) : List (VEnvFieldOf VValue) → Outcome (List EnvField)
  | [] => .ok []
  | e :: es =>
    match resolveO ss (fuelFor ss) et with
    | .ok r =>
      match asStructFields r with
      | .ok fs =>
        match fieldByName fs e.field with
        | none => .err "envelope field not found"
        | some f =>
          match VValue.asIRPreFix ss (pathFromStructField f) e.value with
          | .ok v =>
            match asIREnvPreFix ss et es with
            | .ok rest => .ok ({ path := pathFromStructField f, value := v } :: rest)
            | .err x => .err x
            | .panic s => .panic s
          | .err x => .err x
          | .panic s => .panic s
      | .err x => .err x
      | .panic s => .panic s
    | .err x => .err x
    | .panic s => .panic s
end

/-- `AssignmentValue.AsIR` (since /repo b52532c): every application gets its own copy of what the
    rule holds (`irValue.DeepCopy()`, at every envelope level): new pointees -/
def VValue.asIR (ss : Schemas) (path : Path) (v : VValue) : Outcome AValue :=
  match v.asIRPreFix ss path with
  | .ok a => .ok (a.mapCells zeroCell)
  | .err e => .err e
  | .panic s => .panic s

/-- `veneers.Assignment.AsIR` -/
def VAssignment.asIR (ss : Schemas) (bs : Builders) (root : Builder) (va : VAssignment) : Outcome Assignment :=
  match makePath bs root va.path with
  | .ok path =>
    match va.value.asIR ss path with
    | .ok v => .ok { path := path, value := v, method := va.method }
    | .err e => .err e
    | .panic s => .panic s
  | .err e => .err e
  | .panic s => .panic s

def asIRAssignments (ss : Schemas) (bs : Builders) (root : Builder) : List VAssignment → Outcome (List Assignment)
  | [] => .ok []
  | va :: rest =>
    match va.asIR ss bs root with
    | .ok a =>
      match asIRAssignments ss bs root rest with
      | .ok as => .ok (a :: as)
      | .err e => .err e
      | .panic s => .panic s
    | .err e => .err e
    | .panic s => .panic s

/-- `veneers.Option.AsIR` -/
def VOption.asIR (ss : Schemas) (bs : Builders) (root : Builder) (vo : VOption) : Outcome Opt :=
  match asIRAssignments ss bs root vo.assignments with
  -- since /repo b52532c the arguments are copied (`Argument.DeepCopy`) into a new slice: a new `Args` array
  | .ok as => .ok { name := vo.name, comments := vo.comments, args := vo.arguments, argsId := 0, assignments := as }
  | .err e => .err e
  | .panic s => .panic s

/-! ### builder selectors (internal/veneers/builder/selectors.go + yaml.BuilderSelector) -/

def BSel.isEmpty : BSel → Bool
  | .empty => true
  | _ => false

def BSel.matches (pkg : String) (ss : Schemas) (b : Builder) : BSel → Outcome Bool
  | .byObject n => .ok (equalFold b.for_.selfPkg pkg && equalFold b.for_.selfName n)
  | .byName n => .ok (equalFold b.for_.selfPkg pkg && equalFold b.name n)
  | .byVariant v =>
    .ok (match Schemas.locate ss b.for_.selfPkg with
      | none => false
      | some s => s.smeta.kind == "composable" && s.smeta.variant == v && s.smeta.identifier != "")
  | .generatedFromDisjunction =>
    match resolveO ss (fuelFor ss) b.for_.ty with
    | .ok r => .ok (isStructGenFromDisj r)
    | .err e => .err e
    | .panic s => .panic s
  | .empty => .err "empty selector"

/-! ### option selectors (internal/veneers/option/selectors.go + yaml.OptionSelector) -/

/-- a compiled option selector: `option.ByName` / `option.ByBuilder` -/
inductive OSelC where
  | byName (pkg objectName : String) (optionNames : List String)
  | byBuilder (pkg builderName : String) (optionNames : List String)
  deriving Inhabited

def OSel.compile (pkg : String) : OSel → Outcome OSelC
  | .byName s =>
    match cutDot s with
    | some (o, n) => .ok (.byName pkg o [n])
    | none => .err "option name is incorrect: no object name found"
  | .byBuilder s =>
    match cutDot s with
    | some (b, n) => .ok (.byBuilder pkg b [n])
    | none => .err "option name is incorrect: no builder name found"
  | .byNames object builder options =>
    if object == "" && builder == "" then .err "`object` or `builder` is required"
    else if builder != "" then .ok (.byBuilder pkg builder options)
    else .ok (.byName pkg object options)
  | .empty => .err "empty or unknown selector"

def OSelC.matches (b : Builder) (o : Opt) : OSelC → Bool
  | .byName pkg objectName names =>
    b.for_.selfPkg == pkg && equalFold b.for_.name objectName && inListFold o.name names
  | .byBuilder pkg builderName names =>
    b.pkg == pkg && equalFold b.name builderName && inListFold o.name names

/-! ### builder rules (internal/veneers/builder/rules.go) -/

def prefixPath (under : Path) (a : Assignment) : Assignment := { a with path := under ++ a.path }

def isConstValue : AValue → Bool
  | .const _ => true
  | _ => false

/-- `mergeBuilderInto` (never fails) -/
def mergeBuilderInto (from_ into : Builder) (underPath : Path) (exclude : List String)
    (renames : List (String × String)) : Builder :=
  let consts := (from_.constructor.assignments.filter fun a => isConstValue a.value).map (prefixPath underPath)
  let opts := (from_.options.filter fun o => !exclude.contains o.name).map fun o =>
    { o with name := (mapGet o.name renames).getD o.name, assignments := o.assignments.map (prefixPath underPath) }
  { into with
    factories := into.factories ++ from_.factories,
    constructor := { into.constructor with assignments := into.constructor.assignments ++ consts },
    options := into.options ++ opts }

/-- `mapToSelected`: in-place loop; `f` sees the slice as updated so far -/
def mapToSelectedLoop (sel : Builder → Outcome Bool) (f : Builders → Builder → Outcome Builder) :
    Builders → Builders → Outcome Builders
  | done, [] => .ok done
  | done, b :: todo =>
    match sel b with
    | .ok false => mapToSelectedLoop sel f (done ++ [b]) todo
    | .ok true =>
      match f (done ++ b :: todo) b with
      | .ok nb => mapToSelectedLoop sel f (done ++ [nb]) todo
      | .err e => .err e
      | .panic s => .panic s
    | .err e => .err e
    | .panic s => .panic s

/-- a loop `for i, builder := range builders { if !selector … ; builders[i] = g builder }` -/
def mapSelected (sel : Builder → Outcome Bool) (g : Builder → Outcome Builder) : Builders → Outcome Builders
  | [] => .ok []
  | b :: rest =>
    match sel b with
    | .ok s =>
      let nb : Outcome Builder := if s then g b else .ok b
      match nb with
      | .ok nb =>
        match mapSelected sel g rest with
        | .ok r => .ok (nb :: r)
        | .err e => .err e
        | .panic st => .panic st
      | .err e => .err e
      | .panic st => .panic st
    | .err e => .err e
    | .panic st => .panic st

def filterO (p : Builder → Outcome Bool) : Builders → Outcome Builders
  | [] => .ok []
  | b :: rest =>
    match p b with
    | .ok keep =>
      match filterO p rest with
      | .ok r => .ok (if keep then b :: r else r)
      | .err e => .err e
      | .panic st => .panic st
    | .err e => .err e
    | .panic st => .panic st

def notO : Outcome Bool → Outcome Bool
  | .ok b => .ok (!b)
  | .err e => .err e
  | .panic s => .panic s

/-- `Initialize`'s inner loop over the statements -/
def initStatements (bs : Builders) (b : Builder) : List (String × Val) → Outcome (List Assignment)
  | [] => .ok []
  | (p, v) :: rest =>
    match makePath bs b p with
    | .ok path =>
      match initStatements bs b rest with
      | .ok as => .ok (constantAssignment path v :: as)
      | .err e => .err e
      | .panic s => .panic s
    | .err e => .err e
    | .panic s => .panic s

/-- `Builder.OptionByName` -/
def optionByName (b : Builder) (n : String) : Option Opt := b.options.find? fun o => equalFold o.name n

/-- `PromoteOptionsToConstructor`'s inner loop over the option names: what is appended to
    `Constructor.Args` / `Constructor.Assignments` -/
def promoteLoop (b : Builder) : List String → Outcome (List Argument × List Assignment)
  | [] => .ok ([], [])
  | n :: rest =>
    match optionByName b n with
    | none => promoteLoop b rest
    | some o =>
      match o.args, o.assignments with
      | a :: _, asg :: _ =>
        match promoteLoop b rest with
        | .ok (as, gs) => .ok ({ a with ty := a.ty.setMeta { a.ty.getMeta with nullable := false } } :: as, asg :: gs)
        | .err e => .err e
        | .panic s => .panic s
      | [], _ => .panic "opt.Args[0]"
      | _ :: _, [] => .panic "opt.Assignments[0]"

/-! #### ComposeBuilders -/

def groupInsert (k : String) (b : Builder) : List (String × Builders) → List (String × Builders)
  | [] => [(k, [b])]
  | (k', bs) :: r =>
    if k' = k then (k', bs ++ [b]) :: r
    else if k < k' then (k, [b]) :: (k', bs) :: r
    else (k', bs) :: groupInsert k b r

def setLastHint (h : Ty) : Path → Path
  | [] => []
  | [i] => [{ i with typeHint := some h }]
  | i :: r => i :: setLastHint h r

/-- the loop over the composable builders of one panel type: returns (kept/preserved builders, new builder) -/
def composeLoop (bs : Builders) (cfg : ComposeCfg) : Builders → Builder → Builders → Outcome (Builders × Builder)
  | [], nb, composed => .ok (composed, nb)
  | cb :: rest, nb, composed =>
    match mapGet cb.for_.name cfg.compositionMap with
    | none => composeLoop bs cfg rest nb (composed ++ [cb])
    | some underPath =>
      match makePath bs nb underPath with
      | .ok newRoot =>
        let newRoot := setLastHint (refTy cb.for_.selfPkg cb.for_.selfName) newRoot
        let nb := mergeBuilderInto cb nb newRoot [] []
        composeLoop bs cfg rest nb (if cfg.preserveOriginalBuilders then composed ++ [cb] else composed)
      | .err e => .err e
      | .panic s => .panic s

/-- `ast.TypeName` -/
def typeName : Ty → Outcome String
  | .ref _ n _ => .ok (upperCamelCase n)
  | .scalar k _ _ _ => .ok (upperCamelCase k)
  | .array e _ =>
    match typeName e with
    | .ok s => .ok ("ArrayOf" ++ s)
    | .err x => .err x
    | .panic s => .panic s
  | .bad k _ => if k = "ref" ∨ k = "scalar" ∨ k = "array" then .panic "TypeName: nil kind pointer" else .ok (upperCamelCase k)
  | t => .ok (upperCamelCase t.kind)

def entrypointBranchOptions (newRoot : Path) : List Ty → Outcome (List Opt)
  | [] => .ok []
  | br :: rest =>
    match typeName br with
    | .ok n =>
      match entrypointBranchOptions newRoot rest with
      | .ok os => .ok ({ name := n, args := [{ name := n, ty := br }],
                         assignments := [argumentAssignment newRoot { name := n, ty := br }] } :: os)
      | .err e => .err e
      | .panic s => .panic s
    | .err e => .err e
    | .panic s => .panic s

/-- the `__schema_entrypoint` part of `composeBuilderForType` -/
def composeEntrypoint (ss : Schemas) (bs : Builders) (cfg : ComposeCfg) (composable : Builders) (nb : Builder) :
    Outcome Builder :=
  match mapGet "__schema_entrypoint" cfg.compositionMap with
  | none => .ok nb
  | some ep =>
    if ep == "" then .ok nb
    else
      match composable with
      | [] => .panic "composableBuilders[0]"
      | c0 :: _ =>
        match Schemas.locate ss c0.pkg with
        | none => .panic "nil *Schema"
        | some schema =>
          if schema.entryPoint == "" then .err "schema does not have an entrypoint"
          else
            match makePath bs nb ep with
            | .ok newRoot =>
              match resolveO ss (fuelFor ss) schema.entryPointType with
              | .ok r =>
                if isStructGenFromDisj r then
                  match r with
                  | .struct fs _ _ _ =>
                    let root := setLastHint schema.entryPointType newRoot
                    .ok { nb with options := nb.options ++ fs.map fun f =>
                      { name := f.name, args := [{ name := f.name, ty := f.ty }],
                        assignments := [argumentAssignment (root ++ pathFromStructField f) { name := f.name, ty := f.ty }] } }
                  | _ => .panic "unreachable"
                else if kindIs r "disjunction" then
                  match r with
                  | .disj branches _ _ =>
                    let root := if branches.isEmpty then newRoot else setLastHint schema.entryPointType newRoot
                    match entrypointBranchOptions root branches with
                    | .ok os => .ok { nb with options := nb.options ++ os }
                    | .err e => .err e
                    | .panic s => .panic s
                  | _ => .panic "Disjunction.Branches"
                else if kindIs r "struct" then
                  match locateByObject composable schema.pkg schema.entryPoint with
                  | none => .err "builder for schema entrypoint not found"
                  | some eb =>
                    .ok (mergeBuilderInto eb nb (setLastHint (refTy eb.for_.selfPkg eb.for_.selfName) newRoot) [] [])
                else .err "entrypoint kind not implemented"
              | .err e => .err e
              | .panic s => .panic s
            | .err e => .err e
            | .panic s => .panic s

/-- `composeBuilderForType` -/
def composeBuilderForType (ss : Schemas) (bs : Builders) (cfg : ComposeCfg) (typeDiscriminator : String)
    (source : Builder) (composable : Builders) : Outcome Builders :=
  match composable with
  | [] => .panic "composableBuilders[0]"
  | c0 :: _ =>
    match asStructFields source.for_.ty with
    | .ok fs =>
      match fieldByName fs cfg.pluginDiscriminatorField with
      | none => .err "could not find plugin discriminator field"
      | some typeField =>
        let nb : Builder :=
          { for_ := source.for_, pkg := c0.pkg,
            name := if cfg.composedBuilderName != "" then cfg.composedBuilderName else source.for_.name,
            properties := source.properties,
            constructor := { source.constructor with
              assignments := source.constructor.assignments ++
                [constantAssignment (pathFromStructField typeField) (.str typeDiscriminator)] },
            options := source.options.filter fun o =>
              !(o.name == cfg.pluginDiscriminatorField) && !inListFold o.name cfg.excludeOptions }
        match composeLoop bs cfg composable nb [] with
        | .ok (composed, nb) =>
          match composeEntrypoint ss bs cfg composable nb with
          | .ok nb => .ok (composed ++ [nb])
          | .err e => .err e
          | .panic s => .panic s
        | .err e => .err e
        | .panic s => .panic s
    | .err e => .err e
    | .panic s => .panic s

/-- first loop of `ComposeBuilders`: unselected builders are kept, selected ones are grouped by the
    identifier of their schema (a selected builder whose package has no schema is dropped) -/
def composePartition (pkg : String) (sel : BSel) (ss : Schemas) :
    Builders → Outcome (Builders × List (String × Builder))
  | [] => .ok ([], [])
  | b :: rest =>
    match sel.matches pkg ss b with
    | .ok s =>
      match composePartition pkg sel ss rest with
      | .ok (keep, groups) =>
        if !s then .ok (b :: keep, groups)
        else
          match Schemas.locate ss b.for_.selfPkg with
          | none => .ok (keep, groups)
          | some schema => .ok (keep, (schema.smeta.identifier, b) :: groups)
      | .err e => .err e
      | .panic st => .panic st
    | .err e => .err e
    | .panic st => .panic st

def composeGroups (ss : Schemas) (bs : Builders) (cfg : ComposeCfg) (source : Builder) :
    List (String × Builders) → Outcome Builders
  | [] => .ok []
  | (ptype, group) :: rest =>
    match composeBuilderForType ss bs cfg ptype source group with
    | .ok composed =>
      match composeGroups ss bs cfg source rest with
      | .ok r => .ok (composed ++ r)
      | .err e => .err e
      | .panic s => .panic s
    | .err e => .err e
    | .panic s => .panic s

def composeBuilders (pkg : String) (sel : BSel) (cfg : ComposeCfg) (ss : Schemas) (bs : Builders) : Outcome Builders :=
  match cutDot cfg.sourceBuilderName with
  | none => .err "SourceBuilderName is incorrect: no package found"
  | some (sp, sn) =>
    match locateByObject bs sp sn with
    | none => .ok bs
    | some source =>
      match composePartition pkg sel ss bs with
      | .ok (keep, tagged) =>
        let groups := tagged.foldl (fun g (kb : String × Builder) => groupInsert kb.1 kb.2 g) []
        match composeGroups ss bs cfg source groups with
        | .ok composed => .ok (keep ++ composed)
        | .err e => .err e
        | .panic s => .panic s
      | .err e => .err e
      | .panic s => .panic s

/-- number of distinct panel types `ComposeBuilders` would range over (the harness flags > 1) -/
def composeGroupCount (pkg : String) (sel : BSel) (ss : Schemas) (bs : Builders) : Nat :=
  match composePartition pkg sel ss bs with
  | .ok (_, tagged) => (tagged.foldl (fun g (kb : String × Builder) => groupInsert kb.1 kb.2 g) []).length
  | _ => 0

/-- one builder rule (`yaml.BuilderRule.AsRewriteRule(pkg)` applied to the builders) -/
def applyBRule (pkg : String) (ss : Schemas) (bs : Builders) : BRule → Outcome Builders
  | .omit sel => filterO (fun b => notO (sel.matches pkg ss b)) bs
  | .rename sel as_ => mapSelected (sel.matches pkg ss) (fun b => .ok { b with name := as_ }) bs
  | .mergeInto destination source underPath exclude renames =>
    mapToSelectedLoop ((BSel.byName destination).matches pkg ss)
      (fun cur dest =>
        match locateByName cur dest.for_.selfPkg source with
        | none => .ok dest
        | some src =>
          match makePath cur dest underPath with
          | .ok newRoot => .ok (mergeBuilderInto src dest newRoot exclude renames)
          | .err e => .err e
          | .panic s => .panic s)
      [] bs
  | .compose sel cfg => composeBuilders pkg sel cfg ss bs
  | .properties sel set =>
    mapSelected (sel.matches pkg ss) (fun b => .ok { b with properties := b.properties ++ set }) bs
  | .duplicate sel as_ exclude =>
    match filterO (sel.matches pkg ss) bs with
    | .ok selected =>
      .ok (bs ++ selected.map fun b =>
        let d := { b.deepCopy with name := as_ }
        if exclude.isEmpty then d else { d with options := d.options.filter fun o => !inListFold o.name exclude })
    | .err e => .err e
    | .panic s => .panic s
  | .initialize sel set =>
    mapSelected (sel.matches pkg ss)
      (fun b =>
        match initStatements bs b set with
        | .ok as => .ok { b with constructor := { b.constructor with assignments := b.constructor.assignments ++ as } }
        | .err e => .err e
        | .panic s => .panic s) bs
  | .promote sel names =>
    mapSelected (sel.matches pkg ss)
      (fun b =>
        if !b.factories.isEmpty then .err "constructor arguments can not be added to builders that have factories"
        else
          match promoteLoop b names with
          | .ok (as, gs) => .ok { b with constructor := { args := b.constructor.args ++ as,
                                                           assignments := b.constructor.assignments ++ gs } }
          | .err e => .err e
          | .panic s => .panic s) bs
  | .addOption sel vo =>
    mapSelected (sel.matches pkg ss)
      (fun b =>
        match vo.asIR ss bs b with
        | .ok o => .ok { b with options := b.options ++ [o] }
        | .err e => .err e
        | .panic s => .panic s) bs
  | .addFactory sel f =>
    mapSelected (sel.matches pkg ss)
      (fun b =>
        if !b.constructor.args.isEmpty then .err "builder factories can not be defined on builders that accept parameters in their constructor"
        else .ok { b with factories := b.factories ++ [f] }) bs
  | .empty => .err "empty rule"

/-! ### option actions (internal/veneers/option/actions.go) -/

structure ActOut where
  opts : List Opt
  writes : List Write := []
  deriving Inhabited

def unchanged (o : Opt) : Outcome ActOut := .ok { opts := [o] }

/-- `RenameArgumentsAction`: for argument `i` (old name `prev`), every assignment whose pointee is
    currently named `prev` is renamed through the pointer. Returns the updated assignments and the stores. -/
def renameInAssignments (prev new : String) : List Assignment → List Assignment × List Write
  | [] => ([], [])
  | a :: rest =>
    let r := renameInAssignments prev new rest
    match a.value with
    | .arg c =>
      if c.arg.name == prev then
        ({ a with value := .arg { c with arg := { c.arg with name := new } } } :: r.1, .cellSet c.id (some new) none :: r.2)
      else (a :: r.1, r.2)
    | _ => (a :: r.1, r.2)

def renameArgsLoop (aid : Nat) : Nat → List Argument → List String → List Assignment →
    List Argument × List Assignment × List Write
  | _, [], _, asg => ([], asg, [])
  | _, args, [], asg => (args, asg, [])
  | i, a :: args, n :: names, asg =>
    let r := renameInAssignments a.name n asg
    let rest := renameArgsLoop aid (i + 1) args names r.1
    ({ a with name := n } :: rest.1, rest.2.1, (.argsSetName aid i n :: r.2) ++ rest.2.2)

def renameArgumentsAction (newNames : List String) (o : Opt) : Outcome ActOut :=
  if newNames.length != o.args.length then unchanged o
  else
    let r := renameArgsLoop o.argsId 0 o.args newNames o.assignments
    .ok { opts := [{ o with args := r.1, assignments := r.2.1 }], writes := r.2.2 }

def arrayToAppendAction (o : Opt) : Outcome ActOut :=
  match o.args with
  | [a] =>
    if !kindIs a.ty "array" then unchanged o
    else
      match a.ty with
      | .array elem _ =>
        let newArg : Argument := { name := singularize a.name, ty := elem }
        match o.assignments with
        | [] => .panic "option.Assignments[0]"
        | a0 :: rest =>
          let (v, ws) : AValue × List Write := match a0.value with
            | .arg c => (.arg { c with arg := newArg }, [.cellSet c.id (some newArg.name) (some newArg.ty)])
            | v => (v, [])
          .ok { opts := [{ o with args := [newArg], argsId := 0,
                                  assignments := { a0 with method := "append", value := v } :: rest }],
                writes := ws }
      | _ => .panic "AsArray"
  | _ => unchanged o

def mapToIndexAction (o : Opt) : Outcome ActOut :=
  match o.args with
  | [a] =>
    if !kindIs a.ty "map" then unchanged o
    else
      match a.ty with
      | .map idx val _ =>
        let keyArg : Argument := { name := "key", ty := idx }
        let valArg : Argument := { name := singularize a.name, ty := val }
        match o.assignments with
        | [] => .panic "option.Assignments[0]"
        | a0 :: rest =>
          let (v, ws) : AValue × List Write := match a0.value with
            | .arg c => (.arg { c with arg := valArg }, [.cellSet c.id (some valArg.name) (some valArg.ty)])
            | v => (v, [])
          let item : PathItem := { identifier := "", index := some { argument := some keyArg, constant := .nil }, ty := val }
          .ok { opts := [{ o with args := [keyArg, valArg], argsId := 0,
                                  assignments := { a0 with method := "index", path := a0.path ++ [item], value := v } :: rest }],
                writes := ws }
      | _ => .panic "Type.Map"
  | _ => unchanged o

/-- the type looked at by the two `StructFieldsAs…` actions: one hop through `schemas.LocateObject` -/
def firstArgStruct (ss : Schemas) (t : Ty) : Outcome Ty :=
  if kindIs t "ref" then
    match asRefO t with
    | .ok (p, n) =>
      match Schemas.locateObject ss p n with
      | some o => .ok o.ty
      | none => .ok t
    | .err e => .err e
    | .panic s => .panic s
  else .ok t

def explicitOK (explicit : Option (List String)) (name : String) : Bool :=
  match explicit with
  | none => true
  | some l => l.contains name

structure SFAcc where
  args : List Argument := []
  assignments : List Assignment := []
  envValues : List EnvField := []
  dflt : Option (List Val) := none

/-- what one field contributes in the non-list case: the new assignment -/
def sfArgsAssignment (prefix_ : Path) (method : String) (f' : Field) (newArg : Argument) (isConst : Bool)
    (cs : List Constraint) : Outcome Assignment :=
  if isConst then
    match asScalar f'.ty with
    | .ok (_, v, _) => .ok (constantAssignment (prefix_ ++ pathFromStructField f') v)
    | .err e => .err e
    | .panic s => .panic s
  else
    match withTypeConstraints newArg cs with
    | .ok acs => .ok (argumentAssignment (prefix_ ++ pathFromStructField f') newArg method acs)
    | .err e => .err e
    | .panic s => .panic s

/-- … and in the list case: the envelope member -/
def sfArgsEnvValue (f' : Field) (newArg : Argument) (isConst : Bool) : Outcome EnvField :=
  if isConst then
    match asScalar f'.ty with
    | .ok (_, v, _) => .ok { path := pathFromStructField f', value := if isNil v then .none else .const v }
    | .err e => .err e
    | .panic s => .panic s
  else .ok { path := pathFromStructField f', value := .arg { id := 0, arg := newArg } }

/-- `field.Type` after `if def, ok := defaults[field.Name]; ok { field.Type.Default = def }` -/
def sfFieldType (defaults : List (String × Val)) (f : Field) : Ty :=
  match mapGet f.name defaults with
  | some d => f.ty.setMeta { f.ty.getMeta with dflt := d }
  | none => f.ty

/-- `newOpt.Default` after `if defaults[field.Name] != nil { … append … }` -/
def sfDefault (defaults : List (String × Val)) (f : Field) (cur : Option (List Val)) : Option (List Val) :=
  match mapGet f.name defaults with
  | some d => if isNil d then cur else some (cur.getD [] ++ [d])
  | none => cur

/-- the body of the loop once the field's (default-carrying) type `ty` is known -/
def sfArgsStepTy (prefix_ : Path) (method : String) (intoList : Bool) (f : Field) (ty : Ty)
    (cs : List Constraint) (dflt : Option (List Val)) (acc : SFAcc) : Outcome SFAcc :=
  match isConcreteScalar ty with
  | .ok isConst =>
    let args := if isConst then acc.args else acc.args ++ [{ name := f.name, ty := ty }]
    if !intoList then
      match sfArgsAssignment prefix_ method { f with ty := ty } { name := f.name, ty := ty } isConst cs with
      | .ok a => .ok { args := args, assignments := acc.assignments ++ [a], envValues := acc.envValues, dflt := dflt }
      | .err e => .err e
      | .panic s => .panic s
    else
      match sfArgsEnvValue { f with ty := ty } { name := f.name, ty := ty } isConst with
      | .ok ev => .ok { args := args, assignments := acc.assignments, envValues := acc.envValues ++ [ev], dflt := dflt }
      | .err e => .err e
      | .panic s => .panic s
  | .err e => .err e
  | .panic s => .panic s

/-- one iteration of the field loop of `StructFieldsAsArgumentsAction` -/
def sfArgsStep (explicit : Option (List String)) (prefix_ : Path) (method : String) (intoList : Bool)
    (defaults : List (String × Val)) (f : Field) (acc : SFAcc) : Outcome SFAcc :=
  if !explicitOK explicit f.name then .ok acc
  else
    match fieldConstraints f.ty with
    | .ok cs => sfArgsStepTy prefix_ method intoList f (sfFieldType defaults f) cs (sfDefault defaults f acc.dflt) acc
    | .err e => .err e
    | .panic s => .panic s

/-- the field loop of `StructFieldsAsArgumentsAction` -/
def sfArgsLoop (explicit : Option (List String)) (prefix_ : Path) (method : String) (intoList : Bool)
    (defaults : List (String × Val)) : List Field → SFAcc → Outcome SFAcc
  | [], acc => .ok acc
  | f :: rest, acc =>
    match sfArgsStep explicit prefix_ method intoList defaults f acc with
    | .ok acc' => sfArgsLoop explicit prefix_ method intoList defaults rest acc'
    | .err e => .err e
    | .panic s => .panic s

/-- `defaults` of `StructFieldsAsArgumentsAction`: the option's single default value when it is a map -/
def sfDefaults (o : Opt) : List (String × Val) :=
  match o.dflt with
  | some [.map kvs] => kvs
  | _ => []

/-- the assignments of the new option, from the loop's result -/
def sfArgsAssemble (asg0 : Assignment) (last : PathItem) (intoList : Bool) (acc : SFAcc) : Outcome (List Assignment) :=
  if !intoList then .ok acc.assignments
  else
    match last.ty with
    | .array elem _ => .ok [{ path := asg0.path, value := .env elem acc.envValues, method := "append" }]
    | _ => .panic "AsArray"

/-- `StructFieldsAsArgumentsAction` once the first argument is known to be the struct `fs` and the
    option has a first assignment -/
def sfArgsBuild (explicit : Option (List String)) (o : Opt) (oldArgsRest : List Argument) (asg0 : Assignment)
    (oldAsgRest : List Assignment) (fs : List Field) : Outcome ActOut :=
  match asg0.path.getLast? with
  | none => .panic "Path.Last"
  | some last =>
    let intoList := kindIs last.ty "array"
    match sfArgsLoop explicit asg0.path asg0.method intoList (sfDefaults o) fs {} with
    | .ok acc =>
      match sfArgsAssemble asg0 last intoList acc with
      | .ok asgs =>
        .ok { opts := [{ o with args := if oldArgsRest.isEmpty then acc.args else acc.args ++ oldArgsRest, argsId := 0,
                                assignments := if oldArgsRest.isEmpty then asgs else asgs ++ oldAsgRest,
                                dflt := acc.dflt }] }
      | .err e => .err e
      | .panic s => .panic s
    | .err e => .err e
    | .panic s => .panic s

def structFieldsAsArgumentsAction (explicit : Option (List String)) (ss : Schemas) (o : Opt) : Outcome ActOut :=
  match o.args with
  | [] => unchanged o
  | a0 :: oldArgsRest =>
    match firstArgStruct ss a0.ty with
    | .ok t =>
      if !kindIs t "struct" then unchanged o
      else
        match o.assignments with
        | [] => .panic "oldAssignments[0]"
        | asg0 :: oldAsgRest =>
          match asStructFields t with
          | .ok fs => sfArgsBuild explicit o oldArgsRest asg0 oldAsgRest fs
          | .err e => .err e
          | .panic s => .panic s
    | .err e => .err e
    | .panic s => .panic s

def sfOptsLoop (explicit : Option (List String)) (prefix_ : Path) : List Field → Outcome (List Opt)
  | [] => .ok []
  | f :: rest =>
    if !explicitOK explicit f.name then sfOptsLoop explicit prefix_ rest
    else
      match fieldAssignment f with
      | .ok a =>
        match sfOptsLoop explicit prefix_ rest with
        | .ok os =>
          .ok ({ name := f.name, comments := f.comments, args := [{ name := f.name, ty := f.ty }],
                 assignments := [{ a with path := prefix_ ++ a.path }],
                 dflt := if isNil f.ty.getMeta.dflt then none else some [f.ty.getMeta.dflt] } :: os)
        | .err e => .err e
        | .panic s => .panic s
      | .err e => .err e
      | .panic s => .panic s

def structFieldsAsOptionsAction (explicit : Option (List String)) (ss : Schemas) (o : Opt) : Outcome ActOut :=
  match o.args with
  | [] => unchanged o
  | a0 :: _ =>
    match firstArgStruct ss a0.ty with
    | .ok t =>
      if !kindIs t "struct" then unchanged o
      else
        match asStructFields t with
        | .ok fs =>
          match o.assignments with
          | [] => .panic "oldAssignments[0]"
          | asg0 :: _ =>
            match sfOptsLoop explicit asg0.path fs with
            | .ok os => .ok { opts := os }
            | .err e => .err e
            | .panic s => .panic s
        | .err e => .err e
        | .panic s => .panic s
    | .err e => .err e
    | .panic s => .panic s

/-- replace the first assignment whose value is the argument named `argName` -/
def replaceFirstArgAssignment (argName : String) (mk : Assignment → Assignment) : List Assignment → List Assignment
  | [] => []
  | a :: rest =>
    match a.value with
    | .arg c => if c.arg.name == argName then mk a :: rest else a :: replaceFirstArgAssignment argName mk rest
    | _ => a :: replaceFirstArgAssignment argName mk rest

def spliceArg (args : List Argument) (idx : Nat) (arg : Argument) : List Argument :=
  args.take idx ++ [arg] ++ args.drop (idx + 1)

def disjunctionBranchOptions (o : Opt) (idx : Nat) (target : Argument) : List Ty → Outcome (List Opt)
  | [] => .ok []
  | br :: rest =>
    match typeName br with
    | .ok tn =>
      let n := lowerCamelCase tn
      let arg : Argument := { name := n, ty := br }
      let clone := o.deepCopy
      match disjunctionBranchOptions o idx target rest with
      | .ok os =>
        .ok ({ name := n, args := spliceArg o.args idx arg,
               assignments := replaceFirstArgAssignment target.name
                 (fun a => argumentAssignment a.path arg a.method) clone.assignments,
               dflt := if isNil br.getMeta.dflt then none else some [br.getMeta.dflt] } :: os)
      | .err e => .err e
      | .panic s => .panic s
    | .err e => .err e
    | .panic s => .panic s

def disjunctionStructOptions (o : Opt) (idx : Nat) (target : Argument) (fs : List Field) : List Opt :=
  fs.map fun f =>
    let arg : Argument := { name := f.name, ty := f.ty }
    let clone := o.deepCopy
    { name := f.name, args := spliceArg o.args idx arg,
      assignments := replaceFirstArgAssignment target.name
        (fun a => { path := a.path, method := a.method,
                    value := .env target.ty [{ path := pathFromStructField f, value := .arg { id := 0, arg := arg } }] })
        clone.assignments,
      dflt := if isNil f.ty.getMeta.dflt then none else some [f.ty.getMeta.dflt] }

/-- `DisjunctionAsOptionsAction` once `option.Args[argumentIndex]` is known to exist -/
def disjunctionOnTarget (ss : Schemas) (o : Opt) (idx : Nat) (target : Argument) : Outcome ActOut :=
  if kindIs target.ty "disjunction" then
    match target.ty with
    | .disj branches _ _ =>
      match disjunctionBranchOptions o idx target branches with
      | .ok os => .ok { opts := os }
      | .err e => .err e
      | .panic s => .panic s
    | _ => .panic "AsDisjunction"
  else if kindIs target.ty "ref" then
    match resolveO ss (fuelFor ss) target.ty with
    | .ok r =>
      if !isStructGenFromDisj r then unchanged o
      else
        match r with
        | .struct fs _ _ _ => .ok { opts := disjunctionStructOptions o idx target fs }
        | _ => .panic "unreachable"
    | .err e => .err e
    | .panic s => .panic s
  else unchanged o

/-- `DisjunctionAsOptionsAction` (since /repo 423e7f3: an `argumentIndex` outside the option's
    arguments returns the option unchanged) -/
def disjunctionAsOptionsAction (argumentIndex : Int) (ss : Schemas) (o : Opt) : Outcome ActOut :=
  if o.args.isEmpty then unchanged o          -- (subsumed by the range test; kept: same shape as before the fix)
  else if argumentIndex < 0 then unchanged o
  else
    match o.args[argumentIndex.toNat]? with
    | none => unchanged o
    | some target => disjunctionOnTarget ss o argumentIndex.toNat target

/-- before /repo 423e7f3: only `len(option.Args) == 0` was checked, `option.Args[argumentIndex]` panicked -/
def disjunctionAsOptionsActionPreFix (argumentIndex : Int) (ss : Schemas) (o : Opt) : Outcome ActOut :=
  if o.args.isEmpty then unchanged o
  else if argumentIndex < 0 then .panic "option.Args[argumentIndex]"
  else
    match o.args[argumentIndex.toNat]? with
    | none => .panic "option.Args[argumentIndex]"
    | some target => disjunctionOnTarget ss o argumentIndex.toNat target

def unfoldBooleanAction (trueAs falseAs : String) (o : Opt) : Outcome ActOut :=
  match o.assignments with
  | [] => .panic "option.Assignments[0]"
  | a0 :: _ =>
    match a0.path.getLast? with
    | none => .panic "Path.Last"
    | some last =>
      if !kindIs last.ty "scalar" then unchanged o
      else
        match last.ty with
        | .scalar k _ _ _ =>
          if k != "bool" then unchanged o
          else
            let mk (n : String) (v : Bool) (d : Option (List Val)) : Opt :=
              { name := n, comments := o.comments, assignments := [constantAssignment a0.path (.bool v)], dflt := d }
            match o.dflt with
            | none => .ok { opts := [mk trueAs true none, mk falseAs false none] }
            | some [] => .panic "option.Default.ArgsValues[0]"
            | some (v :: _) =>
              match v with
              | .bool true => .ok { opts := [mk trueAs true (some []), mk falseAs false none] }
              | _ => .ok { opts := [mk trueAs true none, mk falseAs false (some [])] }
        | _ => .panic "Type.Scalar"

def addAssignmentAction (va : VAssignment) (ss : Schemas) (b : Builder) (o : Opt) : Outcome ActOut :=
  match va.asIR ss [b] b with
  | .ok a => .ok { opts := [{ o with assignments := o.assignments ++ [a] }] }
  | .err _ => unchanged o
  | .panic s => .panic s

/-- `yaml.OptionRule` → action -/
def applyAction (ss : Schemas) (b : Builder) (o : Opt) : ORule → Outcome ActOut
  | .omit _ => .ok { opts := [] }
  | .rename _ as_ => .ok { opts := [{ o with name := as_ }] }
  | .renameArguments _ names => renameArgumentsAction names o
  | .unfoldBoolean _ t f => unfoldBooleanAction t f o
  | .structFieldsAsArguments _ fields => structFieldsAsArgumentsAction fields ss o
  | .structFieldsAsOptions _ fields => structFieldsAsOptionsAction fields ss o
  | .arrayToAppend _ => arrayToAppendAction o
  | .mapToIndex _ => mapToIndexAction o
  | .disjunctionAsOptions _ idx => disjunctionAsOptionsAction idx ss o
  | .duplicate _ as_ => .ok { opts := [o, { o.deepCopy with name := as_ }] }
  | .addAssignment _ va => addAssignmentAction va ss b o
  | .addComments _ cs => .ok { opts := [{ o with comments := o.comments ++ cs }] }
  | .empty => .err "empty rule"

def ORule.sel : ORule → OSel
  | .omit s | .rename s _ | .renameArguments s _ | .unfoldBoolean s _ _ | .structFieldsAsArguments s _
  | .structFieldsAsOptions s _ | .arrayToAppend s | .mapToIndex s | .disjunctionAsOptions s _
  | .duplicate s _ | .addAssignment s _ | .addComments s _ => s
  | .empty => .empty

def BRule.selEmpty : BRule → Bool
  | .omit s | .rename s _ | .compose s _ | .properties s _ | .duplicate s _ _ | .initialize s _
  | .promote s _ | .addOption s _ | .addFactory s _ => s.isEmpty
  | .mergeInto .. => false
  | .empty => true

/-! ### the rewriter (internal/veneers/rewrite/rewrite.go) -/

/-- rewriter state: the builders and the next fresh pointer identity -/
structure St where
  builders : Builders
  next : Nat
  deriving Inhabited

def St.renumber (bs : Builders) (n : Nat) : St :=
  let r := numberBuilders bs n
  { builders := r.1, next := r.2 }

/-- options of one builder under one option rule.  `todo` are the not yet visited options *as they
    were when the loop over this builder started*; `pending` are the stores made since, which reach
    them through the shared pointers (re-applied when the option is visited).  `done` are the
    processed options, `all` the whole builder slice (stores reach it too). -/
def optionLoop (ss : Schemas) (sel : OSelC) (rule : ORule) (b : Builder) :
    List Opt → List Write → List Opt → Builders → Nat → Outcome (List Opt × Builders × Nat)
  | [], _, done, all, n => .ok (done, all, n)
  | o₀ :: todo, pending, done, all, n =>
    let o := (applyWritesOpts pending [o₀]).headD o₀
    if !sel.matches b o then optionLoop ss sel rule b todo pending (done ++ [o]) all n
    else
      match applyAction ss b o rule with
      | .ok out =>
        let outs := numberOpts out.opts n
        optionLoop ss sel rule b todo (pending ++ out.writes)
          (applyWritesOpts out.writes done ++ applyWritesOpts out.writes outs.1)
          (applyWrites out.writes all) outs.2
      | .err e => .err e
      | .panic s => .panic s

def setOptions (i : Nat) (os : List Opt) (bs : Builders) : Builders :=
  setNth (fun b => { b with options := os }) i bs

/-- `for i, b := range builders { … builders[i].Options = processedOptions }` for one rule;
    `k` = builders still to visit -/
def builderLoop (ss : Schemas) (sel : OSelC) (rule : ORule) : Nat → Nat → Builders → Nat → Outcome (Builders × Nat)
  | 0, _, all, n => .ok (all, n)
  | k + 1, i, all, n =>
    match all[i]? with
    | none => .ok (all, n)
    | some b =>
      match optionLoop ss sel rule b b.options [] [] all n with
      | .ok (done, all, n) => builderLoop ss sel rule k (i + 1) (setOptions i done all) n
      | .err e => .err e
      | .panic s => .panic s

def applyORule (ss : Schemas) (sel : OSelC) (rule : ORule) (st : St) : Outcome St :=
  match builderLoop ss sel rule st.builders.length 0 st.builders st.next with
  | .ok (bs, n) => .ok { builders := bs, next := n }
  | .err e => .err e
  | .panic s => .panic s

/-- `applyOptionRules`: every rule over every builder, then builders left without options are dismissed -/
def applyORules (ss : Schemas) : List (OSelC × ORule) → St → Outcome St
  | [], st => .ok { st with builders := st.builders.filter fun b => !b.options.isEmpty }
  | (sel, r) :: rest, st =>
    match applyORule ss sel r st with
    | .ok st => applyORules ss rest st
    | .err e => .err e
    | .panic s => .panic s

/-- `applyBuilderRules` -/
def applyBRules (ss : Schemas) : List (String × BRule) → St → Outcome St
  | [], st => .ok st
  | (pkg, r) :: rest, st =>
    match applyBRule pkg ss st.builders r with
    | .ok bs => applyBRules ss rest (St.renumber bs st.next)
    | .err e => .err e
    | .panic s => .panic s

/-- the rules of all loaded files, grouped like `rewrite.NewRewrite` does (per language, file order) -/
structure Loaded where
  brules : List (String × String × BRule) := []    -- language, package, rule
  orules : List (String × OSelC × ORule) := []     -- language, compiled selector, rule

def compileORules (pkg lang : String) : List ORule → Outcome (List (String × OSelC × ORule))
  | [] => .ok []
  | r :: rest =>
    match r with
    | .empty => .err "empty rule"
    | _ =>
      match r.sel.compile pkg with
      | .ok sel =>
        match compileORules pkg lang rest with
        | .ok rs => .ok ((lang, sel, r) :: rs)
        | .err e => .err e
        | .panic s => .panic s
      | .err e => .err e
      | .panic s => .panic s

/-- `VeneersLoader.load` for one decoded file -/
def loadFile (f : VFile) : Outcome Loaded :=
  if f.pkg == "" then .err "missing 'package' statement in veneers file"
  else if f.builders.any BRule.selEmpty then .err "empty rule or selector"
  else
    match compileORules f.pkg f.language f.options with
    | .ok os => .ok { brules := f.builders.map fun r => (f.language, f.pkg, r), orules := os }
    | .err e => .err e
    | .panic s => .panic s

def loadFiles : List VFile → Outcome Loaded
  | [] => .ok {}
  | f :: rest =>
    match loadFile f with
    | .ok l =>
      match loadFiles rest with
      | .ok r => .ok { brules := l.brules ++ r.brules, orules := l.orules ++ r.orules }
      | .err e => .err e
      | .panic s => .panic s
    | .err e => .err e
    | .panic s => .panic s

def Loaded.bFor (l : Loaded) (lang : String) : List (String × BRule) :=
  (l.brules.filter fun r => r.1 == lang).map fun r => r.2

def Loaded.oFor (l : Loaded) (lang : String) : List (OSelC × ORule) :=
  (l.orules.filter fun r => r.1 == lang).map fun r => r.2

/-- one pass of `ApplyTo`: builder rules, then option rules, of one language key -/
def applyLanguage (ss : Schemas) (l : Loaded) (lang : String) (st : St) : Outcome St :=
  match applyBRules ss (l.bFor lang) st with
  | .ok st => applyORules ss (l.oFor lang) st
  | .err e => .err e
  | .panic s => .panic s

/-- `Rewriter.ApplyTo(schemas, builders, language)` (Debug off): rules common to all languages,
    then the language's own -/
def applyTo (ss : Schemas) (l : Loaded) (language : String) (st : St) : Outcome St :=
  match applyLanguage ss l "all" st with
  | .ok st => applyLanguage ss l language st
  | .err e => .err e
  | .panic s => .panic s

/-- load the files, then rewrite -/
def rewrite (files : List VFile) (language : String) (ss : Schemas) (bs : Builders) (next : Nat) : Outcome Builders :=
  match loadFiles files with
  | .ok l =>
    match applyTo ss l language (St.renumber bs next) with
    | .ok st => .ok st.builders
    | .err e => .err e
    | .panic s => .panic s
  | .err e => .err e
  | .panic s => .panic s

end Cog.Builder
