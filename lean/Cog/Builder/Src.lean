/-
  Mini-language for the bodies of `BuilderGenerator.FromAST`, `structObjectToBuilder`,
  `fieldIsRefToConcrete`, `structFieldToOption` (/repo/internal/ast/builder.go) and its Go semantics.

  The translator /verif/extract/xfromast (go/ast, purely syntactic) turns each body into a closed
  term of `Stmt` (generated module `Cog.Gen.FromASTSrc`, regenerated from /repo on every run).
  This file gives those terms their meaning (`eval`, `exec`); `Cog/Builder/SrcEquiv.lean` proves that
  each translated body computes exactly the hand-written model function of `FromAST.lean`.
  Core Lean only.  The values are the SAME IR datatypes the hand-written model uses
  (`Cog.IR.Ty/Field/Obj/Schema`, `Cog.Builder.Assignment/Opt/Builder`).

  Trusted here (the semantics of the Go fragment):
  * outcomes are the model's `Outcome`: `.panic` = Go panic, `.err "diverge"` = unbounded recursion
    of `ResolveToType`; a form applied to a value of the wrong shape is `.err "stuck"` (never
    reached by a well-typed Go program);
  * structs are values: `x.F.G = e` updates the local `x` in place; `for _, x := range l`,
    `continue`, `return`; `e.Iterate(func(_, v) { body })` runs `body` per pair of the association
    list (C19 refinement), a `return` in the callback ends that call only, the callback assigns
    captured locals of the enclosing function (flat environment: the translator refuses shadowing);
    `&&` short-circuits; `make([]T, 0, len(x))` is the empty slice; `append(s, x)`;
  * operations on `ast.Type` / `ast.Schemas` that the hand-written model also takes as given mean the
    MODEL's functions of `FromAST.lean` (not translated; types.go / schema.go):
      `t.IsScalar() / IsStruct() / IsRef() / IsConstantRef()` = `kindIs t "scalar" / "struct" / "ref" / "constant_ref"`,
      `t.AsScalar()` = `asScalar` (panics on a nil kind pointer), `.Value` of it, `.IsConcrete()` = value non-nil,
      `t.AsStruct()` = `asStructFields`, `.Fields` of it,
      `t.IsConcreteScalar()` = `isConcreteScalar`,
      `schemas.ResolveToType(t)` = `resolveO ss fuel` (fuel is a parameter of the interpreter),
      `t.Nullable`, `t.Default` = the type's `Meta`; `x != nil` on an `any` = `!isNil`;
  * callees in builder.go outside the translator's grammar (closures, variadic options) mean the
    MODEL's functions: `PathFromStructField` = `pathFromStructField`, `ConstantAssignment(p, v)` =
    `constantAssignment p v`, `FieldAssignment(f)` = `fieldAssignment f`;
  * calls of other TRANSLATED methods mean the model's functions (assume-guarantee; each is proved
    equal to its own translated body in SrcEquiv): `fieldIsRefToConcrete`, `structFieldToOption`,
    `structObjectToBuilder`;
  * pointer identities (`ArgCell.id`, `Opt.argsId`) are 0 as in the model (see `Cog.Builder.Alias`);
    `Builder.VeneerTrail`, `Option.VeneerTrail` are not modelled (always nil here).
-/
import Cog.Builder.FromAST
namespace Cog.Builder.Src
open Cog Cog.IR Cog.Builder

inductive Expr where
  | var (x : String)
  | nil
  | bool (b : Bool)
  | field (e : Expr) (f : String)
  | not (a : Expr)
  | and (a b : Expr)
  | neNil (a : Expr)
  | append1 (s x : Expr)
  | emptySlice (elem : String)
  | zero (ty : String)
  | withField (e : Expr) (f : String) (v : Expr)
  | addr (e : Expr)
  | call1 (f : String) (a : Expr)
  | call2 (f : String) (a b : Expr)
  | mcall0 (recv : Expr) (name : String)
  | mcall1 (recv : Expr) (name : String) (a : Expr)
  | mcall2 (recv : Expr) (name : String) (a b : Expr)
  | mcall3 (recv : Expr) (name : String) (a b c : Expr)

inductive Stmt where
  | skip
  | seq (a b : Stmt)
  | assign (x : String) (e : Expr)
  | setPath (x : String) (path : List String) (e : Expr)
  | ifThen (c : Expr) (body : Stmt)
  | ifElse (c : Expr) (a b : Stmt)
  | forRange (x : String) (e : Expr) (body : Stmt)
  | iterate (e : Expr) (k v : String) (body : Stmt)
  | cont
  | ret0
  | ret1 (e : Expr)

inductive V where
  | gen                                  -- the `*BuilderGenerator` receiver (no state)
  | nil
  | b (x : Bool)
  | str (s : String)
  | strs (l : List String)
  | any (v : Val)
  | anys (l : List Val)
  | ty (t : Ty)
  | scalarT (k : String) (v : Val) (cs : List Constraint)   -- result of `AsScalar()`
  | structT (fs : List Field)                               -- result of `AsStruct()`
  | fld (f : Field)
  | flds (l : List Field)
  | obj (o : Obj)
  | objs (l : List (String × Obj))
  | schema (s : Schema)
  | schemas (l : Schemas)
  | path (p : Path)
  | arg (a : Argument)
  | args (l : List Argument)
  | asg (a : Assignment)
  | asgs (l : List Assignment)
  | ctor (c : Constructor)
  | odefv (l : List Val)                 -- `OptionDefault{ArgsValues: l}`
  | odefp (l : List Val)                 -- `&OptionDefault{…}`
  | opt (o : Opt)
  | opts (l : List Opt)
  | builder (b : Builder)
  | builders (l : List Builder)

abbrev Env := String → Option V

def upd (env : Env) (x : String) (v : V) : Env :=
  fun y => if y = x then some v else env y

inductive Ctl where
  | normal
  | cont
  | ret (v : Option V)

def stuck {α : Type} : Outcome α := .err "stuck"

def zeroBuilder : Builder := { for_ := default, pkg := "", name := "" }
def zeroOpt : Opt := { name := "" }
def zeroArg : Argument := { name := "", ty := default }

def evalField : V → String → Outcome V
  | .fld f, n =>
    if n = "Name" then .ok (.str f.name)
    else if n = "Type" then .ok (.ty f.ty)
    else if n = "Comments" then .ok (.strs f.comments)
    else if n = "Required" then .ok (.b f.required)
    else stuck
  | .ty t, n =>
    if n = "Nullable" then .ok (.b t.getMeta.nullable)
    else if n = "Default" then .ok (.any t.getMeta.dflt)
    else stuck
  | .scalarT _ v _, n => if n = "Value" then .ok (.any v) else stuck
  | .structT fs, n => if n = "Fields" then .ok (.flds fs) else stuck
  | .obj o, n =>
    if n = "Name" then .ok (.str o.name)
    else if n = "Type" then .ok (.ty o.ty)
    else stuck
  | .schema s, n =>
    if n = "Package" then .ok (.str s.pkg)
    else if n = "Objects" then .ok (.objs s.objects)
    else stuck
  | .builder b, n =>
    if n = "Constructor" then .ok (.ctor b.constructor)
    else if n = "Options" then .ok (.opts b.options)
    else stuck
  | .ctor c, n => if n = "Assignments" then .ok (.asgs c.assignments) else stuck
  | _, _ => stuck

/-- `x.F = v` on a struct value (also the keyed elements of a composite literal) -/
def setField : V → String → V → Outcome V
  | .builder b, n, v =>
    if n = "Package" then (match v with | .str x => .ok (.builder { b with pkg := x }) | _ => stuck)
    else if n = "For" then (match v with | .obj x => .ok (.builder { b with for_ := x }) | _ => stuck)
    else if n = "Name" then (match v with | .str x => .ok (.builder { b with name := x }) | _ => stuck)
    else if n = "Options" then (match v with | .opts x => .ok (.builder { b with options := x }) | _ => stuck)
    else if n = "Constructor" then (match v with | .ctor x => .ok (.builder { b with constructor := x }) | _ => stuck)
    else stuck
  | .ctor c, n, v =>
    if n = "Assignments" then (match v with | .asgs x => .ok (.ctor { c with assignments := x }) | _ => stuck)
    else stuck
  | .opt o, n, v =>
    if n = "Name" then (match v with | .str x => .ok (.opt { o with name := x }) | _ => stuck)
    else if n = "Comments" then (match v with | .strs x => .ok (.opt { o with comments := x }) | _ => stuck)
    else if n = "Args" then (match v with | .args x => .ok (.opt { o with args := x }) | _ => stuck)
    else if n = "Assignments" then (match v with | .asgs x => .ok (.opt { o with assignments := x }) | _ => stuck)
    else if n = "Default" then (match v with
      | .odefp x => .ok (.opt { o with dflt := some x })
      | .nil => .ok (.opt { o with dflt := none })
      | _ => stuck)
    else stuck
  | .arg a, n, v =>
    if n = "Name" then (match v with | .str x => .ok (.arg { a with name := x }) | _ => stuck)
    else if n = "Type" then (match v with | .ty x => .ok (.arg { a with ty := x }) | _ => stuck)
    else stuck
  | .odefv _, n, v =>
    if n = "ArgsValues" then (match v with | .anys x => .ok (.odefv x) | _ => stuck)
    else stuck
  | _, _, _ => stuck

/-- `x.F1.….Fn = v` -/
def setPath : V → List String → V → Outcome V
  | _, [], _ => stuck
  | x, [f], v => setField x f v
  | x, f :: g :: rest, v =>
    match evalField x f with
    | .ok inner =>
      (match setPath inner (g :: rest) v with
       | .ok inner' => setField x f inner'
       | .err e => .err e
       | .panic s => .panic s)
    | .err e => .err e
    | .panic s => .panic s

def evalAppend : V → V → Outcome V
  | .asgs l, .asg x => .ok (.asgs (l ++ [x]))
  | .opts l, .opt x => .ok (.opts (l ++ [x]))
  | .args l, .arg x => .ok (.args (l ++ [x]))
  | .anys l, .any x => .ok (.anys (l ++ [x]))
  | .builders l, .builder x => .ok (.builders (l ++ [x]))
  | _, _ => stuck

def evalEmpty (elem : String) : Outcome V :=
  if elem = "Argument" then .ok (.args [])
  else if elem = "Assignment" then .ok (.asgs [])
  else if elem = "any" then .ok (.anys [])
  else if elem = "Builder" then .ok (.builders [])
  else stuck

def evalZero (ty : String) : Outcome V :=
  if ty = "Builder" then .ok (.builder zeroBuilder)
  else if ty = "Option" then .ok (.opt zeroOpt)
  else if ty = "Argument" then .ok (.arg zeroArg)
  else if ty = "OptionDefault" then .ok (.odefv [])
  else stuck

def liftB : Outcome Bool → Outcome V
  | .ok x => .ok (.b x)
  | .err e => .err e
  | .panic s => .panic s

/-- methods without argument on types -/
def method0 : V → String → Outcome V
  | .ty t, n =>
    if n = "IsScalar" then .ok (.b (kindIs t "scalar"))
    else if n = "IsStruct" then .ok (.b (kindIs t "struct"))
    else if n = "IsRef" then .ok (.b (kindIs t "ref"))
    else if n = "IsConstantRef" then .ok (.b (kindIs t "constant_ref"))
    else if n = "IsConcreteScalar" then liftB (isConcreteScalar t)
    else if n = "AsScalar" then
      (match asScalar t with
       | .ok (k, v, cs) => .ok (.scalarT k v cs)
       | .err e => .err e
       | .panic s => .panic s)
    else if n = "AsStruct" then
      (match asStructFields t with
       | .ok fs => .ok (.structT fs)
       | .err e => .err e
       | .panic s => .panic s)
    else stuck
  | .scalarT _ v _, n => if n = "IsConcrete" then .ok (.b (!isNil v)) else stuck
  | _, _ => stuck

def method1 (fuel : Nat) : V → String → V → Outcome V
  | .schemas ss, n, .ty t =>
    if n = "ResolveToType" then
      (match resolveO ss fuel t with
       | .ok r => .ok (.ty r)
       | .err e => .err e
       | .panic s => .panic s)
    else stuck
  | .gen, n, .fld f =>
    if n = "structFieldToOption" then
      (match structFieldToOption f with
       | .ok o => .ok (.opt o)
       | .err e => .err e
       | .panic s => .panic s)
    else stuck
  | _, _, _ => stuck

def method2 (fuel : Nat) : V → String → V → V → Outcome V
  | .gen, n, .schemas ss, .fld f =>
    if n = "fieldIsRefToConcrete" then liftB (fieldIsRefToConcrete ss fuel f) else stuck
  | _, _, _, _ => stuck

def method3 (fuel : Nat) : V → String → V → V → V → Outcome V
  | .gen, n, .schemas ss, .schema s, .obj o =>
    if n = "structObjectToBuilder" then
      (match structObjectToBuilder ss fuel s o with
       | .ok b => .ok (.builder b)
       | .err e => .err e
       | .panic st => .panic st)
    else stuck
  | _, _, _, _, _ => stuck

def func1 : String → V → Outcome V
  | n, .fld f =>
    if n = "PathFromStructField" then .ok (.path (pathFromStructField f))
    else if n = "FieldAssignment" then
      (match fieldAssignment f with
       | .ok a => .ok (.asg a)
       | .err e => .err e
       | .panic s => .panic s)
    else stuck
  | _, _ => stuck

def func2 : String → V → V → Outcome V
  | n, .path p, .any v => if n = "ConstantAssignment" then .ok (.asg (constantAssignment p v)) else stuck
  | _, _, _ => stuck

def eval (fuel : Nat) : Expr → Env → Outcome V
  | .var x, env => match env x with | some v => .ok v | none => stuck
  | .nil, _ => .ok .nil
  | .bool x, _ => .ok (.b x)
  | .field e f, env =>
    match eval fuel e env with
    | .ok v => evalField v f
    | r => r
  | .not a, env =>
    match eval fuel a env with
    | .ok (.b r) => .ok (.b (!r))
    | .ok _ => stuck
    | r => r
  | .and a b, env =>
    match eval fuel a env with
    | .ok (.b false) => .ok (.b false)
    | .ok (.b true) =>
      (match eval fuel b env with
       | .ok (.b r) => .ok (.b r)
       | .ok _ => stuck
       | r => r)
    | .ok _ => stuck
    | r => r
  | .neNil a, env =>
    match eval fuel a env with
    | .ok (.any v) => .ok (.b (!isNil v))
    | .ok _ => stuck
    | r => r
  | .append1 s x, env =>
    match eval fuel s env with
    | .ok vs =>
      (match eval fuel x env with
       | .ok vx => evalAppend vs vx
       | r => r)
    | r => r
  | .emptySlice elem, _ => evalEmpty elem
  | .zero ty, _ => evalZero ty
  | .withField e f v, env =>
    match eval fuel e env with
    | .ok ve =>
      (match eval fuel v env with
       | .ok vv => setField ve f vv
       | r => r)
    | r => r
  | .addr e, env =>
    match eval fuel e env with
    | .ok (.odefv l) => .ok (.odefp l)
    | .ok _ => stuck
    | r => r
  | .call1 f a, env =>
    match eval fuel a env with
    | .ok va => func1 f va
    | r => r
  | .call2 f a b, env =>
    match eval fuel a env with
    | .ok va =>
      (match eval fuel b env with
       | .ok vb => func2 f va vb
       | r => r)
    | r => r
  | .mcall0 r n, env =>
    match eval fuel r env with
    | .ok vr => method0 vr n
    | r => r
  | .mcall1 r n a, env =>
    match eval fuel r env with
    | .ok vr =>
      (match eval fuel a env with
       | .ok va => method1 fuel vr n va
       | r => r)
    | r => r
  | .mcall2 r n a b, env =>
    match eval fuel r env with
    | .ok vr =>
      (match eval fuel a env with
       | .ok va =>
         (match eval fuel b env with
          | .ok vb => method2 fuel vr n va vb
          | r => r)
       | r => r)
    | r => r
  | .mcall3 r n a b c, env =>
    match eval fuel r env with
    | .ok vr =>
      (match eval fuel a env with
       | .ok va =>
         (match eval fuel b env with
          | .ok vb =>
            (match eval fuel c env with
             | .ok vc => method3 fuel vr n va vb vc
             | r => r)
          | r => r)
       | r => r)
    | r => r

/-- `for _, x := range l { body }` (`closure = false`: `continue` goes on, `return` leaves the
    function) and `l.Iterate(func(..) { body })` (`closure = true`: a `return` ends one callback call) -/
def loop {α : Type} (body : Env → Outcome (Ctl × Env)) (bindf : Env → α → Env) (closure : Bool) :
    List α → Env → Outcome (Ctl × Env)
  | [], env => .ok (.normal, env)
  | a :: l, env =>
    match body (bindf env a) with
    | .ok (.ret v, env') => if closure then loop body bindf closure l env' else .ok (.ret v, env')
    | .ok (.cont, env') => if closure then stuck else loop body bindf closure l env'
    | .ok (.normal, env') => loop body bindf closure l env'
    | .err e => .err e
    | .panic s => .panic s

def evalCond (fuel : Nat) (c : Expr) (env : Env) : Outcome Bool :=
  match eval fuel c env with
  | .ok (.b x) => .ok x
  | .ok _ => stuck
  | .err e => .err e
  | .panic s => .panic s

def exec (fuel : Nat) : Stmt → Env → Outcome (Ctl × Env)
  | .skip, env => .ok (.normal, env)
  | .seq a b, env =>
    match exec fuel a env with
    | .ok (.normal, env') => exec fuel b env'
    | r => r
  | .assign x e, env =>
    match eval fuel e env with
    | .ok v => .ok (.normal, upd env x v)
    | .err e => .err e
    | .panic s => .panic s
  | .setPath x path e, env =>
    match env x with
    | some vx =>
      (match eval fuel e env with
       | .ok v =>
         (match setPath vx path v with
          | .ok vx' => .ok (.normal, upd env x vx')
          | .err e => .err e
          | .panic s => .panic s)
       | .err e => .err e
       | .panic s => .panic s)
    | none => stuck
  | .ifThen c body, env =>
    match evalCond fuel c env with
    | .ok true => exec fuel body env
    | .ok false => .ok (.normal, env)
    | .err e => .err e
    | .panic s => .panic s
  | .ifElse c a b, env =>
    match evalCond fuel c env with
    | .ok true => exec fuel a env
    | .ok false => exec fuel b env
    | .err e => .err e
    | .panic s => .panic s
  | .forRange x e body, env =>
    match eval fuel e env with
    | .ok (.flds l) => loop (fun s => exec fuel body s) (fun s a => upd s x (.fld a)) false l env
    | .ok (.schemas l) => loop (fun s => exec fuel body s) (fun s a => upd s x (.schema a)) false l env
    | .ok _ => stuck
    | .err e => .err e
    | .panic s => .panic s
  | .iterate e _ v body, env =>
    match eval fuel e env with
    | .ok (.objs l) =>
      loop (fun s => exec fuel body s) (fun s (a : String × Obj) => upd s v (.obj a.2)) true l env
    | .ok _ => stuck
    | .err e => .err e
    | .panic s => .panic s
  | .cont, env => .ok (.cont, env)
  | .ret0, env => .ok (.ret none, env)
  | .ret1 e, env =>
    match eval fuel e env with
    | .ok v => .ok (.ret (some v), env)
    | .err e => .err e
    | .panic s => .panic s

/-- positional binding of the arguments to the (canonical) parameter names -/
def bind : List String → List V → Env
  | x :: xs, v :: vs => upd (bind xs vs) x v
  | _, _ => fun _ => none

/-- the environment in which a method body starts: receiver `r` (the generator), parameters `p0 …` -/
def init (params : List String) (args : List V) : Env :=
  upd (bind params args) "r" .gen

/-- Outcome of a call of a method with one result: the returned value; falling off the end of the
    body or a bare `return` is `stuck` (the Go compiler rejects both for these signatures). -/
def call (fuel : Nat) (body : Stmt) (params : List String) (args : List V) : Outcome V :=
  match exec fuel body (init params args) with
  | .ok (.ret (some v), _) => .ok v
  | .ok _ => stuck
  | .err e => .err e
  | .panic s => .panic s

end Cog.Builder.Src
