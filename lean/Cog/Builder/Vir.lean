/-
  VIR encoding / decoding of builders (driver-side; no theorem depends on it).
  Go side: /verif/harness/vir_builders.go.  Pointer identities (`ArgCell.id`, `Opt.argsId`) are not
  part of the text; the decoder sets them to 0 and `Alias.relabel` makes them distinct.
-/
import Cog.IR.Vir
import Cog.Builder.Types
namespace Cog.Builder.Vir
open Cog Cog.IR Cog.IR.Vir Cog.Builder

def argOut (a : Argument) : Sexp := .list [.atom "arg", .str a.name, tyOut a.ty]
def argIn : Sexp → Option Argument
  | .list [.atom "arg", .str n, t] => do some { name := n, ty := (← tyIn t) }
  | _ => none

def optTyOut : Option Ty → Sexp
  | none => .atom "none"
  | some t => tyOut t
def optTyIn : Sexp → Option (Option Ty)
  | .atom "none" => some none
  | s => (tyIn s).map some

def indexOut : Option PathIndex → Sexp
  | none => .atom "none"
  | some i => .list [.atom "idx", (match i.argument with | none => .atom "none" | some a => argOut a), valOut i.constant]
def indexIn : Sexp → Option (Option PathIndex)
  | .atom "none" => some none
  | .list [.atom "idx", a, c] => do
    let a' ← match a with | .atom "none" => some none | s => (argIn s).map some
    some (some { argument := a', constant := (← valIn c) })
  | _ => none

def itemOut (i : PathItem) : Sexp :=
  .list [.atom "pi", .str i.identifier, indexOut i.index, tyOut i.ty, optTyOut i.typeHint, b2s i.root]
def itemIn : Sexp → Option PathItem
  | .list [.atom "pi", .str n, ix, t, h, .atom r] => do
    some { identifier := n, index := (← indexIn ix), ty := (← tyIn t), typeHint := (← optTyIn h), root := r == "true" }
  | _ => none

def pathOut (p : Path) : Sexp := .list (.atom "path" :: p.map itemOut)
def pathIn : Sexp → Option Path
  | .list (.atom "path" :: xs) => xs.mapM itemIn
  | _ => none

partial def valueOut : AValue → Sexp
  | .none => .atom "none"
  | .arg c => argOut c.arg
  | .const v => .list [.atom "const", valOut v]
  | .env t vs => .list (.atom "env" :: tyOut t :: vs.map fun ev => .list [.atom "ev", pathOut ev.path, valueOut ev.value])

partial def valueIn : Sexp → Option AValue
  | .atom "none" => some .none
  | .list [.atom "arg", .str n, t] => do some (.arg { id := 0, arg := { name := n, ty := (← tyIn t) } })
  | .list [.atom "const", v] => do some (.const (← valIn v))
  | .list (.atom "env" :: t :: vs) => do
    let vs' ← vs.mapM fun (x : Sexp) => match x with
      | .list [.atom "ev", p, v] => do some ({ path := (← pathIn p), value := (← valueIn v) } : EnvField)
      | _ => none
    some (.env (← tyIn t) vs')
  | _ => none

def consOut (c : AConstraint) : Sexp := .list [.atom "con", argOut c.argument, .str c.op, valOut c.parameter]
def consIn : Sexp → Option AConstraint
  | .list [.atom "con", a, .str op, p] => do some { argument := (← argIn a), op := op, parameter := (← valIn p) }
  | _ => none

def nilOut (c : NilCheck) : Sexp := .list [.atom "nc", pathOut c.path, tyOut c.emptyValueType]
def nilIn : Sexp → Option NilCheck
  | .list [.atom "nc", p, t] => do some { path := (← pathIn p), emptyValueType := (← tyIn t) }
  | _ => none

def asgOut (a : Assignment) : Sexp :=
  .list [.atom "asg", pathOut a.path, valueOut a.value, .str a.method,
    .list (.atom "cons" :: a.constraints.map consOut), .list (.atom "nil" :: a.nilChecks.map nilOut)]
def asgIn : Sexp → Option Assignment
  | .list [.atom "asg", p, v, .str m, .list (.atom "cons" :: cs), .list (.atom "nil" :: ns)] => do
    some { path := (← pathIn p), value := (← valueIn v), method := m,
           constraints := (← cs.mapM consIn), nilChecks := (← ns.mapM nilIn) }
  | _ => none

def dfltOut : Option (List Val) → Sexp
  | none => .atom "none"
  | some vs => .list (.atom "dflt" :: vs.map valOut)
def dfltIn : Sexp → Option (Option (List Val))
  | .atom "none" => some none
  | .list (.atom "dflt" :: vs) => (vs.mapM valIn).map some
  | _ => none

def optOut (o : Opt) : Sexp :=
  .list [.atom "opt", .str o.name, .list (.atom "c" :: o.comments.map .str),
    .list (.atom "args" :: o.args.map argOut), .list (.atom "asgs" :: o.assignments.map asgOut), dfltOut o.dflt]
def optIn : Sexp → Option Opt
  | .list [.atom "opt", .str n, .list (.atom "c" :: cs), .list (.atom "args" :: as), .list (.atom "asgs" :: gs), d] => do
    some { name := n, comments := (← strsIn cs), args := (← as.mapM argIn), assignments := (← gs.mapM asgIn), dflt := (← dfltIn d) }
  | _ => none

def fieldOut (f : Field) : Sexp :=
  .list [.atom "f", .str f.name, tyOut f.ty, b2s f.required, .list (.atom "c" :: f.comments.map .str)]
def fieldIn : Sexp → Option Field
  | .list [.atom "f", .str n, t, .atom r, .list (.atom "c" :: cs)] => do
    some { name := n, ty := (← tyIn t), required := r == "true", comments := (← strsIn cs) }
  | _ => none

partial def paramOut : CallParam → Sexp
  | .mk a c f => .list [.atom "param",
      (match a with | none => .atom "none" | some a => argOut a),
      (match c with | none => .atom "none" | some (t, v) => .list [.atom "tc", tyOut t, valOut v]),
      (match f with
        | none => .atom "none"
        | some (r, ps) => .list (.atom "fc" :: .str r.pkg :: .str r.builder :: .str r.factory :: ps.map paramOut))]

partial def paramIn : Sexp → Option CallParam
  | .list [.atom "param", a, c, f] => do
    let a' ← match a with | .atom "none" => some none | s => (argIn s).map some
    let c' ← match c with
      | .atom "none" => some none
      | .list [.atom "tc", t, v] => do some (some ((← tyIn t), (← valIn v)))
      | _ => none
    let f' ← match f with
      | .atom "none" => some none
      | .list (.atom "fc" :: .str p :: .str b :: .str fa :: ps) => do
        some (some (({ pkg := p, builder := b, factory := fa } : FactoryRef), (← ps.mapM paramIn)))
      | _ => none
    some (.mk a' c' f')
  | _ => none

def factoryOut (f : Factory) : Sexp :=
  .list [.atom "factory", .str f.name, .list (.atom "c" :: f.comments.map .str),
    .list (.atom "args" :: f.args.map argOut),
    .list (.atom "calls" :: f.optionCalls.map fun oc => .list (.atom "call" :: .str oc.name :: oc.parameters.map paramOut))]
def factoryIn : Sexp → Option Factory
  | .list [.atom "factory", .str n, .list (.atom "c" :: cs), .list (.atom "args" :: as), .list (.atom "calls" :: ocs)] => do
    let ocs' ← ocs.mapM fun (x : Sexp) => match x with
      | .list (.atom "call" :: .str n :: ps) => do some ({ name := n, parameters := (← ps.mapM paramIn) } : OptionCall)
      | _ => none
    some { name := n, comments := (← strsIn cs), args := (← as.mapM argIn), optionCalls := ocs' }
  | _ => none

def builderOut (b : Builder) : Sexp :=
  .list [.atom "builder", objOut b.for_, .str b.pkg, .str b.name,
    .list (.atom "props" :: b.properties.map fieldOut),
    .list [.atom "ctor", .list (.atom "args" :: b.constructor.args.map argOut),
      .list (.atom "asgs" :: b.constructor.assignments.map asgOut)],
    .list (.atom "opts" :: b.options.map optOut),
    .list (.atom "factories" :: b.factories.map factoryOut)]

def builderIn : Sexp → Option Builder
  | .list [.atom "builder", o, .str p, .str n, .list (.atom "props" :: ps),
      .list [.atom "ctor", .list (.atom "args" :: as), .list (.atom "asgs" :: gs)],
      .list (.atom "opts" :: os), .list (.atom "factories" :: fs)] => do
    some { for_ := (← objIn o), pkg := p, name := n, properties := (← ps.mapM fieldIn),
           constructor := { args := (← as.mapM argIn), assignments := (← gs.mapM asgIn) },
           options := (← os.mapM optIn), factories := (← fs.mapM factoryIn) }
  | _ => none

def buildersOut (bs : Builders) : Sexp := .list (.atom "builders" :: bs.map builderOut)
def buildersIn : Sexp → Option Builders
  | .list (.atom "builders" :: bs) => bs.mapM builderIn
  | _ => none

/-- reply of `fromast` / `veneer`: `ok <builders>` | `err` | `panic` | `diverge` -/
def outcomeOut : Outcome Builders → String
  | .ok bs => "ok " ++ (buildersOut bs).render
  | .err "diverge" => "diverge"
  | .err _ => "err"
  | .panic _ => "panic"

end Cog.Builder.Vir
