/-
  VIR encoding / decoding of builders (driver-side; no theorem depends on it).
  Go side: /verif/harness/vir_builders.go.  Pointer identities (`ArgCell.id`, `Opt.argsId`) are not
  part of the text; the decoder sets them to 0 and `Alias.relabel` makes them distinct.
-/
import Cog.IR.Vir
import Cog.Builder.Types
import Cog.Builder.Rules
namespace Cog.Builder.Vir
open Cog Cog.IR Cog.IR.Vir Cog.Builder

def argOut (a : Argument) : Sexp := .list [.atom "arg", .str a.name, tyOut a.ty]
def argIn : Sexp → Option Argument
  | .list [.atom "arg", .str n, t] => do some { name := n, ty := (← tyIn t) }
  | _ => none

def optTyOut : Option Ty → Sexp
  | none => .atom "none"
  | some t => tyOut t
def optTyIn : Sexp → Option (Option Ty)
  | .atom "none" => some none
  | s => (tyIn s).map some

def indexOut : Option PathIndex → Sexp
  | none => .atom "none"
  | some i => .list [.atom "idx", (match i.argument with | none => .atom "none" | some a => argOut a), valOut i.constant]
def indexIn : Sexp → Option (Option PathIndex)
  | .atom "none" => some none
  | .list [.atom "idx", a, c] => do
    let a' ← match a with | .atom "none" => some none | s => (argIn s).map some
    some (some { argument := a', constant := (← valIn c) })
  | _ => none

def itemOut (i : PathItem) : Sexp :=
  .list [.atom "pi", .str i.identifier, indexOut i.index, tyOut i.ty, optTyOut i.typeHint, b2s i.root]
def itemIn : Sexp → Option PathItem
  | .list [.atom "pi", .str n, ix, t, h, .atom r] => do
    some { identifier := n, index := (← indexIn ix), ty := (← tyIn t), typeHint := (← optTyIn h), root := r == "true" }
  | _ => none

def pathOut (p : Path) : Sexp := .list (.atom "path" :: p.map itemOut)
def pathIn : Sexp → Option Path
  | .list (.atom "path" :: xs) => xs.mapM itemIn
  | _ => none

partial def valueOut : AValue → Sexp
  | .none => .atom "none"
  | .arg c => argOut c.arg
  | .const v => .list [.atom "const", valOut v]
  | .env t vs => .list (.atom "env" :: tyOut t :: vs.map fun ev => .list [.atom "ev", pathOut ev.path, valueOut ev.value])

partial def valueIn : Sexp → Option AValue
  | .atom "none" => some .none
  | .list [.atom "arg", .str n, t] => do some (.arg { id := 0, arg := { name := n, ty := (← tyIn t) } })
  | .list [.atom "const", v] => do some (.const (← valIn v))
  | .list (.atom "env" :: t :: vs) => do
    let vs' ← vs.mapM fun (x : Sexp) => match x with
      | .list [.atom "ev", p, v] => do some ({ path := (← pathIn p), value := (← valueIn v) } : EnvField)
      | _ => none
    some (.env (← tyIn t) vs')
  | _ => none

def consOut (c : AConstraint) : Sexp := .list [.atom "con", argOut c.argument, .str c.op, valOut c.parameter]
def consIn : Sexp → Option AConstraint
  | .list [.atom "con", a, .str op, p] => do some { argument := (← argIn a), op := op, parameter := (← valIn p) }
  | _ => none

def nilOut (c : NilCheck) : Sexp := .list [.atom "nc", pathOut c.path, tyOut c.emptyValueType]
def nilIn : Sexp → Option NilCheck
  | .list [.atom "nc", p, t] => do some { path := (← pathIn p), emptyValueType := (← tyIn t) }
  | _ => none

def asgOut (a : Assignment) : Sexp :=
  .list [.atom "asg", pathOut a.path, valueOut a.value, .str a.method,
    .list (.atom "cons" :: a.constraints.map consOut), .list (.atom "nil" :: a.nilChecks.map nilOut)]
def asgIn : Sexp → Option Assignment
  | .list [.atom "asg", p, v, .str m, .list (.atom "cons" :: cs), .list (.atom "nil" :: ns)] => do
    some { path := (← pathIn p), value := (← valueIn v), method := m,
           constraints := (← cs.mapM consIn), nilChecks := (← ns.mapM nilIn) }
  | _ => none

def dfltOut : Option (List Val) → Sexp
  | none => .atom "none"
  | some vs => .list (.atom "dflt" :: vs.map valOut)
def dfltIn : Sexp → Option (Option (List Val))
  | .atom "none" => some none
  | .list (.atom "dflt" :: vs) => (vs.mapM valIn).map some
  | _ => none

def optOut (o : Opt) : Sexp :=
  .list [.atom "opt", .str o.name, .list (.atom "c" :: o.comments.map .str),
    .list (.atom "args" :: o.args.map argOut), .list (.atom "asgs" :: o.assignments.map asgOut), dfltOut o.dflt]
def optIn : Sexp → Option Opt
  | .list [.atom "opt", .str n, .list (.atom "c" :: cs), .list (.atom "args" :: as), .list (.atom "asgs" :: gs), d] => do
    some { name := n, comments := (← strsIn cs), args := (← as.mapM argIn), assignments := (← gs.mapM asgIn), dflt := (← dfltIn d) }
  | _ => none

def fieldOut (f : Field) : Sexp :=
  .list [.atom "f", .str f.name, tyOut f.ty, b2s f.required, .list (.atom "c" :: f.comments.map .str)]
def fieldIn : Sexp → Option Field
  | .list [.atom "f", .str n, t, .atom r, .list (.atom "c" :: cs)] => do
    some { name := n, ty := (← tyIn t), required := r == "true", comments := (← strsIn cs) }
  | _ => none

partial def paramOut : CallParam → Sexp
  | .mk a c f => .list [.atom "param",
      (match a with | none => .atom "none" | some a => argOut a),
      (match c with | none => .atom "none" | some (t, v) => .list [.atom "tc", tyOut t, valOut v]),
      (match f with
        | none => .atom "none"
        | some (r, ps) => .list (.atom "fc" :: .str r.pkg :: .str r.builder :: .str r.factory :: ps.map paramOut))]

partial def paramIn : Sexp → Option CallParam
  | .list [.atom "param", a, c, f] => do
    let a' ← match a with | .atom "none" => some none | s => (argIn s).map some
    let c' ← match c with
      | .atom "none" => some none
      | .list [.atom "tc", t, v] => do some (some ((← tyIn t), (← valIn v)))
      | _ => none
    let f' ← match f with
      | .atom "none" => some none
      | .list (.atom "fc" :: .str p :: .str b :: .str fa :: ps) => do
        some (some (({ pkg := p, builder := b, factory := fa } : FactoryRef), (← ps.mapM paramIn)))
      | _ => none
    some (.mk a' c' f')
  | _ => none

def factoryOut (f : Factory) : Sexp :=
  .list [.atom "factory", .str f.name, .list (.atom "c" :: f.comments.map .str),
    .list (.atom "args" :: f.args.map argOut),
    .list (.atom "calls" :: f.optionCalls.map fun oc => .list (.atom "call" :: .str oc.name :: oc.parameters.map paramOut))]
def factoryIn : Sexp → Option Factory
  | .list [.atom "factory", .str n, .list (.atom "c" :: cs), .list (.atom "args" :: as), .list (.atom "calls" :: ocs)] => do
    let ocs' ← ocs.mapM fun (x : Sexp) => match x with
      | .list (.atom "call" :: .str n :: ps) => do some ({ name := n, parameters := (← ps.mapM paramIn) } : OptionCall)
      | _ => none
    some { name := n, comments := (← strsIn cs), args := (← as.mapM argIn), optionCalls := ocs' }
  | _ => none

def builderOut (b : Builder) : Sexp :=
  .list [.atom "builder", objOut b.for_, .str b.pkg, .str b.name,
    .list (.atom "props" :: b.properties.map fieldOut),
    .list [.atom "ctor", .list (.atom "args" :: b.constructor.args.map argOut),
      .list (.atom "asgs" :: b.constructor.assignments.map asgOut)],
    .list (.atom "opts" :: b.options.map optOut),
    .list (.atom "factories" :: b.factories.map factoryOut)]

def builderIn : Sexp → Option Builder
  | .list [.atom "builder", o, .str p, .str n, .list (.atom "props" :: ps),
      .list [.atom "ctor", .list (.atom "args" :: as), .list (.atom "asgs" :: gs)],
      .list (.atom "opts" :: os), .list (.atom "factories" :: fs)] => do
    some { for_ := (← objIn o), pkg := p, name := n, properties := (← ps.mapM fieldIn),
           constructor := { args := (← as.mapM argIn), assignments := (← gs.mapM asgIn) },
           options := (← os.mapM optIn), factories := (← fs.mapM factoryIn) }
  | _ => none

def buildersOut (bs : Builders) : Sexp := .list (.atom "builders" :: bs.map builderOut)
def buildersIn : Sexp → Option Builders
  | .list (.atom "builders" :: bs) => bs.mapM builderIn
  | _ => none

/-- reply of `fromast` / `veneer`: `ok <builders>` | `err` | `panic` | `diverge` -/
def outcomeOut : Outcome Builders → String
  | .ok bs => "ok " ++ (buildersOut bs).render
  | .err "diverge" => "diverge"
  | .err _ => "err"
  | .panic _ => "panic"


/-! ### veneer rule files (Go side: harness/c17_rules_vir.go, printed from the decoded `yaml.Veneers`) -/

def strList (head : String) : Sexp → Option (List String)
  | .list (.atom h :: xs) => if h == head then strsIn xs else none
  | _ => none

def strPairs (head : String) : Sexp → Option (List (String × String))
  | .list (.atom h :: xs) => if h == head then pairsIn xs else none
  | _ => none

partial def vvalueIn : Sexp → Option VValue
  | .list [.atom "vv", a, c, e] => do
    let a' ← match a with
      | .atom "none" => some none
      | s => (argIn s).map fun x => some ({ id := 0, arg := x } : ArgCell)
    let (he, env) ← match e with
      | .atom "none" => some (false, [])
      | .list (.atom "env" :: fs) => do
        let fs' ← fs.mapM fun (x : Sexp) => match x with
          | .list [.atom "ef", .str f, v] => do some ({ field := f, value := (← vvalueIn v) } : VEnvFieldOf VValue)
          | _ => none
        some (true, fs')
      | _ => none
    some (.mk a' (← valIn c) he env)
  | _ => none

def vasgIn : Sexp → Option VAssignment
  | .list [.atom "vasg", .str p, .str m, v] => do some { path := p, method := m, value := (← vvalueIn v) }
  | _ => none

def voptIn : Sexp → Option VOption
  | .list [.atom "vopt", .str n, .list (.atom "c" :: cs), .list (.atom "args" :: as), .list (.atom "vasgs" :: gs)] => do
    some { name := n, comments := (← strsIn cs), arguments := (← as.mapM argIn), assignments := (← gs.mapM vasgIn) }
  | _ => none

def bselIn : Sexp → Option BSel
  | .list [.atom "by_object", .str s] => some (.byObject s)
  | .list [.atom "by_name", .str s] => some (.byName s)
  | .list [.atom "by_variant", .str s] => some (.byVariant s)
  | .list [.atom "gen"] => some .generatedFromDisjunction
  | .list [.atom "empty"] => some .empty
  | _ => none

def bruleIn : Sexp → Option BRule
  | .list [.atom "omit", s] => do some (.omit (← bselIn s))
  | .list [.atom "rename", s, .str a] => do some (.rename (← bselIn s) a)
  | .list [.atom "merge_into", .str d, .str src, .str u, ex, ren] => do
    some (.mergeInto d src u (← strList "ex" ex) (← strPairs "ren" ren))
  | .list [.atom "compose", s, .str src, .str dfield, ex, cmap, .str cn, .atom pr] => do
    let sel ← bselIn s
    let exl ← strList "ex" ex
    let cm ← strPairs "map" cmap
    let cfg : ComposeCfg := { sourceBuilderName := src, pluginDiscriminatorField := dfield, excludeOptions := exl, compositionMap := cm, composedBuilderName := cn, preserveOriginalBuilders := pr == "true" }
    some (.compose sel cfg)
  | .list (.atom "properties" :: s :: fs) => do some (.properties (← bselIn s) (← fs.mapM fieldIn))
  | .list [.atom "duplicate", s, .str a, ex] => do some (.duplicate (← bselIn s) a (← strList "ex" ex))
  | .list (.atom "initialize" :: s :: sets) => do
    let sel ← bselIn s
    let sets' ← sets.mapM fun (x : Sexp) => match x with
      | .list [.str p, v] => (valIn v).map fun v' => (p, v')
      | _ => none
    some (.initialize sel sets')
  | .list (.atom "promote" :: s :: os) => do some (.promote (← bselIn s) (← strsIn os))
  | .list [.atom "add_option", s, o] => do some (.addOption (← bselIn s) (← voptIn o))
  | .list [.atom "add_factory", s, f] => do some (.addFactory (← bselIn s) (← factoryIn f))
  | .list [.atom "empty"] => some .empty
  | _ => none

def oselIn : Sexp → Option OSel
  | .list [.atom "by_name", .str s] => some (.byName s)
  | .list [.atom "by_builder", .str s] => some (.byBuilder s)
  | .list (.atom "by_names" :: .str o :: .str b :: os) => do some (.byNames o b (← strsIn os))
  | .list [.atom "empty"] => some .empty
  | _ => none

def fieldsIn : Sexp → Option (Option (List String))
  | .atom "none" => some none
  | .list (.atom "fields" :: xs) => (strsIn xs).map some
  | _ => none

def oruleIn : Sexp → Option ORule
  | .list [.atom "omit", s] => do some (.omit (← oselIn s))
  | .list [.atom "rename", s, .str a] => do some (.rename (← oselIn s) a)
  | .list (.atom "rename_arguments" :: s :: as) => do some (.renameArguments (← oselIn s) (← strsIn as))
  | .list [.atom "unfold_boolean", s, .str t, .str f] => do some (.unfoldBoolean (← oselIn s) t f)
  | .list [.atom "sf_args", s, fs] => do some (.structFieldsAsArguments (← oselIn s) (← fieldsIn fs))
  | .list [.atom "sf_opts", s, fs] => do some (.structFieldsAsOptions (← oselIn s) (← fieldsIn fs))
  | .list [.atom "array_to_append", s] => do some (.arrayToAppend (← oselIn s))
  | .list [.atom "map_to_index", s] => do some (.mapToIndex (← oselIn s))
  | .list [.atom "disj_as_opts", s, .atom i] => do some (.disjunctionAsOptions (← oselIn s) (← i.toInt?))
  | .list [.atom "duplicate", s, .str a] => do some (.duplicate (← oselIn s) a)
  | .list [.atom "add_assignment", s, a] => do some (.addAssignment (← oselIn s) (← vasgIn a))
  | .list (.atom "add_comments" :: s :: cs) => do some (.addComments (← oselIn s) (← strsIn cs))
  | .list [.atom "empty"] => some .empty
  | _ => none

def vfileIn : Sexp → Option VFile
  | .list [.atom "file", .str lang, .str pkg, .list (.atom "builders" :: bs), .list (.atom "options" :: os)] => do
    some { language := lang, pkg := pkg, builders := (← bs.mapM bruleIn), options := (← os.mapM oruleIn) }
  | _ => none

/-- `(veneers "<target language>" <file>*)` -/
def veneersIn : Sexp → Option (String × List VFile)
  | .list (.atom "veneers" :: .str lang :: fs) => do some (lang, (← fs.mapM vfileIn))
  | _ => none

/-! pointer identities of the rule-owned pointees (`*ast.Argument` decoded from YAML, the decoded
    `Arguments` slice of an `add_option`): one fresh identity each, shared by every application -/

partial def numberVValue : VValue → Nat → VValue × Nat
  | .mk a c he env, n =>
    let (a', n) := match a with
      | some cell => (some { cell with id := n }, n + 1)
      | none => (none, n)
    let (env', n) := env.foldl (fun (acc : List (VEnvFieldOf VValue) × Nat) e =>
      let r := numberVValue e.value acc.2
      (acc.1 ++ [{ e with value := r.1 }], r.2)) ([], n)
    (.mk a' c he env', n)

def numberVAssignment (a : VAssignment) (n : Nat) : VAssignment × Nat :=
  let r := numberVValue a.value n
  ({ a with value := r.1 }, r.2)

def numberBRule : BRule → Nat → BRule × Nat
  | .addOption s o, n =>
    let (as, n') := o.assignments.foldl (fun (acc : List VAssignment × Nat) a =>
      let r := numberVAssignment a acc.2
      (acc.1 ++ [r.1], r.2)) ([], n + 1)
    (.addOption s { o with argsId := n, assignments := as }, n')
  | r, n => (r, n)

def numberORule : ORule → Nat → ORule × Nat
  | .addAssignment s a, n => let r := numberVAssignment a n; (.addAssignment s r.1, r.2)
  | r, n => (r, n)

def numberFiles (fs : List VFile) (n : Nat) : List VFile × Nat :=
  fs.foldl (fun (acc : List VFile × Nat) f =>
    let (bs, n) := f.builders.foldl (fun (a : List BRule × Nat) r => let x := numberBRule r a.2; (a.1 ++ [x.1], x.2)) ([], acc.2)
    let (os, n) := f.options.foldl (fun (a : List ORule × Nat) r => let x := numberORule r a.2; (a.1 ++ [x.1], x.2)) ([], n)
    (acc.1 ++ [{ f with builders := bs, options := os }], n)) ([], n)

end Cog.Builder.Vir
