/-
  Lemmas about the well-typedness predicate `WT` (C17).
-/
import Cog.Builder.WT
import Cog.Builder.VeneerLemmas
namespace Cog.Builder
open Cog.IR

/-! ### `WT` does not look at pointer identities -/

mutual
theorem valueWT_mapCells (ss : Schemas) (args : List Argument) (f : ArgCell → ArgCell) (hf : ∀ c, (f c).arg = c.arg) :
    ∀ v : AValue, valueWT ss args (v.mapCells f) = valueWT ss args v
  | .none => by simp [AValue.mapCells]
  | .arg c => by simp [AValue.mapCells, valueWT, hf]
  | .const _ => by simp [AValue.mapCells]
  | .env t vs => by simp [AValue.mapCells, valueWT, envWT_mapCells ss args f hf t vs]
theorem envWT_mapCells (ss : Schemas) (args : List Argument) (f : ArgCell → ArgCell) (hf : ∀ c, (f c).arg = c.arg)
    (t : Ty) : ∀ vs : List EnvField, envWT ss args t (mapCellsEnv f vs) = envWT ss args t vs
  | [] => by simp [mapCellsEnv]
  | e :: es => by
    simp [mapCellsEnv, envWT, valueWT_mapCells ss args f hf e.value, envWT_mapCells ss args f hf t es]
end

theorem assignmentWT_mapCells (ss : Schemas) (root : Ty) (args : List Argument) (f : ArgCell → ArgCell)
    (hf : ∀ c, (f c).arg = c.arg) (a : Assignment) :
    assignmentWT ss root args (a.mapCells f) = assignmentWT ss root args a := by
  simp [assignmentWT, Assignment.mapCells, valueWT_mapCells ss args f hf]

theorem optWT_content (ss : Schemas) (root : Ty) (o : Opt) : optWT ss root o.content = optWT ss root o := by
  simp [optWT, Opt.content, Opt.mapCells, List.all_map, Function.comp_def,
    assignmentWT_mapCells ss root o.args zeroCell (fun _ => rfl)]

theorem WT_content (ss : Schemas) (b : Builder) : WT ss b.content = WT ss b := by
  simp [WT, Builder.content, List.all_map, Function.comp_def, optWT_content,
    assignmentWT_mapCells ss b.for_.ty b.constructor.args zeroCell (fun _ => rfl)]

/-- builders with the same content are equally well-typed -/
theorem WT_of_content_eq (ss : Schemas) {b b' : Builder} (h : b'.content = b.content) : WT ss b' = WT ss b := by
  rw [← WT_content ss b', h, WT_content]

theorem WTs_of_content_eq (ss : Schemas) : ∀ {bs bs' : Builders}, bs'.map Builder.content = bs.map Builder.content →
    WTs ss bs' = WTs ss bs
  | [], [], _ => rfl
  | b :: bs, b' :: bs', h => by
    simp only [List.map_cons, List.cons.injEq] at h
    simp only [WTs, List.all_cons]
    have ih := WTs_of_content_eq ss (bs := bs) (bs' := bs') h.2
    simp only [WTs] at ih
    rw [WT_of_content_eq ss h.1, ih]
  | [], _ :: _, h => by simp at h
  | _ :: _, [], h => by simp at h

theorem WTs_renumber (ss : Schemas) (bs : Builders) (n : Nat) : WTs ss (St.renumber bs n).builders = WTs ss bs :=
  WTs_of_content_eq ss (numberBuilders_content bs n)

/-! ### what `WT` does look at -/

/-- `WT` only reads the built object's type, the constructor and the options' arguments/assignments -/
theorem WT_congr (ss : Schemas) {b b' : Builder} (h1 : b'.for_.ty = b.for_.ty) (h2 : b'.constructor = b.constructor)
    (h3 : b'.options.map (fun o => (o.args, o.assignments)) = b.options.map (fun o => (o.args, o.assignments))) :
    WT ss b' = WT ss b := by
  have hopts : ∀ (l l' : List Opt), l'.map (fun o => (o.args, o.assignments)) = l.map (fun o => (o.args, o.assignments)) →
      l'.all (optWT ss b.for_.ty) = l.all (optWT ss b.for_.ty) := by
    intro l
    induction l with
    | nil => intro l' h; cases l' <;> simp_all
    | cons o l ih =>
      intro l' h
      cases l' with
      | nil => simp at h
      | cons o' l' =>
        simp only [List.map_cons, List.cons.injEq, Prod.mk.injEq] at h
        simp only [List.all_cons, ih l' h.2]
        simp [optWT, h.1.1, h.1.2]
  simp only [WT, h1, h2, hopts _ _ h3]

theorem WTs_filter (ss : Schemas) (p : Builder → Bool) (bs : Builders) (h : WTs ss bs = true) :
    WTs ss (bs.filter p) = true := by
  simp only [WTs, List.all_eq_true] at h ⊢
  intro b hb
  exact h b (List.mem_filter.1 hb).1

theorem WTs_append (ss : Schemas) (bs bs' : Builders) : WTs ss (bs ++ bs') = (WTs ss bs && WTs ss bs') := by
  simp [WTs, List.all_append]


/-! ### `DeepCopy` keeps well-typedness -/

theorem optWT_deepCopy (ss : Schemas) (root : Ty) (o : Opt) : optWT ss root o.deepCopy = optWT ss root o := by
  simp [optWT, Opt.deepCopy, Assignment.deepCopy, List.all_map, Function.comp_def,
    assignmentWT_mapCells ss root o.args zeroCell (fun _ => rfl)]

theorem WT_deepCopy (ss : Schemas) (b : Builder) : WT ss b.deepCopy = WT ss b := by
  simp [WT, Builder.deepCopy, Assignment.deepCopy, List.all_map, Function.comp_def, optWT_deepCopy,
    assignmentWT_mapCells ss b.for_.ty b.constructor.args zeroCell (fun _ => rfl)]

theorem optWT_number (ss : Schemas) (root : Ty) (o : Opt) (n : Nat) : optWT ss root (o.number n).1 = optWT ss root o := by
  rw [← optWT_content, Opt.number_content, optWT_content]

theorem numberOpts_optWT (ss : Schemas) (root : Ty) : ∀ (os : List Opt) (n : Nat),
    (numberOpts os n).1.all (optWT ss root) = os.all (optWT ss root)
  | [], n => by simp [numberOpts]
  | o :: os, n => by simp [numberOpts, optWT_number, numberOpts_optWT ss root os]

/-! ### option rules that store nothing: the loops -/

theorem applyWritesOpts_nil (l : List Opt) : applyWritesOpts [] l = l := rfl
theorem applyWrites_nil (l : Builders) : applyWrites [] l = l := rfl

/-- Per-builder loop of an option rule whose action stores nothing and maps well-typed options to
    well-typed options: the other builders are untouched and the processed options are well-typed. -/
theorem optionLoop_preserves (ss : Schemas) (sel : OSelC) (rule : ORule) (b : Builder) (root : Ty)
    (hact : ∀ o out, optWT ss root o = true → applyAction ss b o rule = .ok out →
      out.writes = [] ∧ out.opts.all (optWT ss root) = true) :
    ∀ (todo done : List Opt) (all : Builders) (n : Nat) (done' : List Opt) (all' : Builders) (n' : Nat),
      optionLoop ss sel rule b todo [] done all n = .ok (done', all', n') →
      todo.all (optWT ss root) = true → done.all (optWT ss root) = true →
      all' = all ∧ done'.all (optWT ss root) = true
  | [], done, all, n, done', all', n', h, _, hd => by
    simp [optionLoop] at h
    obtain ⟨h1, h2, _⟩ := h
    subst h1 h2
    exact ⟨rfl, hd⟩
  | o :: todo, done, all, n, done', all', n', h, ht, hd => by
    have ht' : optWT ss root o = true ∧ todo.all (optWT ss root) = true := by simpa using ht
    simp only [optionLoop, applyWritesOpts_nil, List.headD_cons] at h
    by_cases hs : sel.matches b o = true
    · simp only [hs, Bool.not_true, Bool.false_eq_true, if_false] at h
      cases ha : applyAction ss b o rule with
      | err e => simp [ha] at h
      | panic s => simp [ha] at h
      | ok out =>
        simp only [ha] at h
        obtain ⟨hw, ho⟩ := hact o out ht'.1 ha
        rw [hw] at h
        simp only [List.append_nil, applyWritesOpts_nil, applyWrites_nil] at h
        refine optionLoop_preserves ss sel rule b root hact todo _ all _ done' all' n' h ht'.2 ?_
        simp only [List.all_append, hd, Bool.true_and]
        rw [numberOpts_optWT]; exact ho
    · have hs' : sel.matches b o = false := by simpa using hs
      simp only [hs', Bool.not_false, if_true] at h
      refine optionLoop_preserves ss sel rule b root hact todo _ all n done' all' n' h ht'.2 ?_
      simp [List.all_append, hd, ht'.1]

theorem WT_setOptions (ss : Schemas) (b : Builder) (os : List Opt) (hb : WT ss b = true)
    (hos : os.all (optWT ss b.for_.ty) = true) : WT ss { b with options := os } = true := by
  simp only [WT, Bool.and_eq_true] at hb ⊢
  exact ⟨hb.1, hos⟩

theorem setNth_all {α : Type} (p : α → Bool) (f : α → α) : ∀ (i : Nat) (l : List α),
    l.all p = true → (∀ a, l[i]? = some a → p (f a) = true) → (setNth f i l).all p = true
  | _, [], _, _ => by simp [setNth]
  | 0, a :: as, h, hf => by
    have h' : p a = true ∧ as.all p = true := by simpa using h
    simp [setNth, h'.2, hf a (by simp)]
  | i + 1, a :: as, h, hf => by
    have h' : p a = true ∧ as.all p = true := by simpa using h
    simp only [setNth, List.all_cons, h'.1, Bool.true_and]
    exact setNth_all p f i as h'.2 (fun x hx => hf x (by simpa using hx))

theorem builderLoop_preserves (ss : Schemas) (sel : OSelC) (rule : ORule)
    (hact : ∀ b o out, optWT ss b.for_.ty o = true → applyAction ss b o rule = .ok out →
      out.writes = [] ∧ out.opts.all (optWT ss b.for_.ty) = true) :
    ∀ (k i : Nat) (all : Builders) (n : Nat) (all' : Builders) (n' : Nat),
      builderLoop ss sel rule k i all n = .ok (all', n') → WTs ss all = true → WTs ss all' = true
  | 0, i, all, n, all', n', h, hw => by
    simp [builderLoop] at h; rw [← h.1]; exact hw
  | k + 1, i, all, n, all', n', h, hw => by
    simp only [builderLoop] at h
    cases hb : all[i]? with
    | none => simp [hb] at h; rw [← h.1]; exact hw
    | some b =>
      simp only [hb] at h
      cases hl : optionLoop ss sel rule b b.options [] [] all n with
      | err e => simp [hl] at h
      | panic s => simp [hl] at h
      | ok r =>
        obtain ⟨done, all1, n1⟩ := r
        simp only [hl] at h
        have hbw : WT ss b = true := by
          have := List.all_eq_true.1 hw b (List.mem_of_getElem? hb)
          exact this
        have hbo : b.options.all (optWT ss b.for_.ty) = true := by
          simp only [WT, Bool.and_eq_true] at hbw; exact hbw.2
        obtain ⟨hall, hdone⟩ := optionLoop_preserves ss sel rule b b.for_.ty (hact b) b.options [] all n done all1 n1 hl hbo (by simp)
        subst hall
        refine builderLoop_preserves ss sel rule hact k (i + 1) _ n1 all' n' h ?_
        simp only [WTs, setOptions]
        refine setNth_all (WT ss) _ i all1 hw ?_
        intro a ha
        rw [hb] at ha
        injection ha with ha
        subst ha
        exact WT_setOptions ss b done hbw hdone

theorem applyORule_preserves (ss : Schemas) (sel : OSelC) (rule : ORule)
    (hact : ∀ b o out, optWT ss b.for_.ty o = true → applyAction ss b o rule = .ok out →
      out.writes = [] ∧ out.opts.all (optWT ss b.for_.ty) = true)
    (st st' : St) (h : applyORule ss sel rule st = .ok st') (hw : WTs ss st.builders = true) :
    WTs ss st'.builders = true := by
  simp only [applyORule] at h
  cases hb : builderLoop ss sel rule st.builders.length 0 st.builders st.next with
  | err e => simp [hb] at h
  | panic s => simp [hb] at h
  | ok r =>
    obtain ⟨bs, n⟩ := r
    simp [hb] at h; subst h
    exact builderLoop_preserves ss sel rule hact _ _ _ _ bs n hb hw


/-! ### the rule kinds for which preservation is proved outright -/

/-- option rules that neither store through pointers nor build new assignments -/
def ORule.simple : ORule → Bool
  | .omit _ | .rename _ _ | .addComments _ _ | .duplicate _ _ => true
  | _ => false

/-- builder rules that neither build new assignments nor move assignments between builders -/
def BRule.simple : BRule → Bool
  | .omit _ | .rename _ _ | .properties _ _ | .addFactory _ _ | .duplicate _ _ _ => true
  | _ => false

theorem simple_action_spec (ss : Schemas) (b : Builder) (root : Ty) (o : Opt) (rule : ORule) (out : ActOut)
    (hs : rule.simple = true) (ho : optWT ss root o = true) (h : applyAction ss b o rule = .ok out) :
    out.writes = [] ∧ out.opts.all (optWT ss root) = true := by
  cases rule with
  | «omit» sel => simp [applyAction] at h; subst h; simp
  | rename sel as_ =>
    simp [applyAction] at h; subst h
    simpa [optWT] using ho
  | addComments sel cs =>
    simp [applyAction] at h; subst h
    simpa [optWT] using ho
  | duplicate sel as_ =>
    simp [applyAction] at h; subst h
    have hd := optWT_deepCopy ss root o
    rw [ho] at hd
    have hn : optWT ss root { o.deepCopy with name := as_ } = true := by
      simpa [optWT] using hd
    simp [ho, hn]
  | renameArguments => simp [ORule.simple] at hs
  | unfoldBoolean => simp [ORule.simple] at hs
  | structFieldsAsArguments => simp [ORule.simple] at hs
  | structFieldsAsOptions => simp [ORule.simple] at hs
  | arrayToAppend => simp [ORule.simple] at hs
  | mapToIndex => simp [ORule.simple] at hs
  | disjunctionAsOptions => simp [ORule.simple] at hs
  | addAssignment => simp [ORule.simple] at hs
  | empty => simp [ORule.simple] at hs

theorem All2_WTs (ss : Schemas) {R : Builder → Builder → Prop} (hR : ∀ b b', R b b' → WT ss b = true → WT ss b' = true) :
    ∀ {bs bs' : Builders}, All2 R bs bs' → WTs ss bs = true → WTs ss bs' = true
  | [], [], _, _ => rfl
  | b :: bs, b' :: bs', h, hw => by
    have hw' : WT ss b = true ∧ WTs ss bs = true := by simpa [WTs] using hw
    have ih := All2_WTs ss hR h.2 hw'.2
    simp only [WTs, List.all_cons, Bool.and_eq_true] at ih ⊢
    exact ⟨hR b b' h.1 hw'.1, ih⟩
  | [], _ :: _, h, _ => by simp [All2] at h
  | _ :: _, [], h, _ => by simp [All2] at h

theorem simple_brule_preserves (pkg : String) (ss : Schemas) (bs bs' : Builders) (r : BRule)
    (hs : r.simple = true) (h : applyBRule pkg ss bs r = .ok bs') (hw : WTs ss bs = true) : WTs ss bs' = true := by
  cases r with
  | «omit» sel =>
    obtain ⟨h1, _⟩ := filterO_spec _ bs bs' h
    rw [h1]; exact WTs_filter ss _ bs hw
  | rename sel as_ =>
    refine All2_WTs ss ?_ (mapSelected_spec _ _ bs bs' h) hw
    intro b b' hr hb
    rcases hr with ⟨_, hg⟩ | ⟨_, rfl⟩
    · simp at hg; subst hg; rw [WT_congr ss rfl rfl rfl]; exact hb
    · exact hb
  | properties sel set =>
    refine All2_WTs ss ?_ (mapSelected_spec _ _ bs bs' h) hw
    intro b b' hr hb
    rcases hr with ⟨_, hg⟩ | ⟨_, rfl⟩
    · simp at hg; subst hg; rw [WT_congr ss rfl rfl rfl]; exact hb
    · exact hb
  | addFactory sel f =>
    refine All2_WTs ss ?_ (mapSelected_spec _ _ bs bs' h) hw
    intro b b' hr hb
    rcases hr with ⟨_, hg⟩ | ⟨_, rfl⟩
    · by_cases hc : (!b.constructor.args.isEmpty) = true
      · simp [hc] at hg
      · simp [hc] at hg; subst hg; rw [WT_congr ss rfl rfl rfl]; exact hb
    · exact hb
  | duplicate sel as_ ex =>
    simp only [applyBRule] at h
    cases hf : filterO (sel.matches pkg ss) bs with
    | err e => simp [hf] at h
    | panic s => simp [hf] at h
    | ok selected =>
      simp only [hf] at h
      injection h with h
      subst h
      rw [WTs_append, hw, Bool.true_and]
      have hsel : ∀ b ∈ selected, WT ss b = true := by
        intro b hb
        rw [(filterO_spec _ bs selected hf).1] at hb
        exact List.all_eq_true.1 hw b (List.mem_filter.1 hb).1
      simp only [WTs, List.all_map, List.all_eq_true]
      intro b hb
      have hd : WT ss b.deepCopy = true := by rw [WT_deepCopy]; exact hsel b hb
      simp only [Function.comp]
      split
      · simp only [WT, Bool.and_eq_true, List.all_eq_true] at hd ⊢
        exact hd
      · simp only [WT, Bool.and_eq_true, List.all_eq_true] at hd ⊢
        exact ⟨hd.1, fun o ho => hd.2 o (List.mem_filter.1 ho).1⟩
  | mergeInto => simp [BRule.simple] at hs
  | compose => simp [BRule.simple] at hs
  | «initialize» => simp [BRule.simple] at hs
  | promote => simp [BRule.simple] at hs
  | addOption => simp [BRule.simple] at hs
  | empty => simp [BRule.simple] at hs

theorem applyBRules_preserves (ss : Schemas) : ∀ (rules : List (String × BRule)) (st st' : St),
    (∀ r ∈ rules, r.2.simple = true) → applyBRules ss rules st = .ok st' →
    WTs ss st.builders = true → WTs ss st'.builders = true
  | [], st, st', _, h, hw => by simp [applyBRules] at h; subst h; exact hw
  | (pkg, r) :: rest, st, st', hs, h, hw => by
    simp only [applyBRules] at h
    cases hr : applyBRule pkg ss st.builders r with
    | err e => simp [hr] at h
    | panic s => simp [hr] at h
    | ok bs =>
      simp only [hr] at h
      have h1 := simple_brule_preserves pkg ss st.builders bs r (hs (pkg, r) (by simp)) hr hw
      exact applyBRules_preserves ss rest _ st' (fun x hx => hs x (by simp [hx])) h (by rw [WTs_renumber]; exact h1)

theorem applyORules_preserves (ss : Schemas) : ∀ (rules : List (OSelC × ORule)) (st st' : St),
    (∀ r ∈ rules, r.2.simple = true) → applyORules ss rules st = .ok st' →
    WTs ss st.builders = true → WTs ss st'.builders = true
  | [], st, st', _, h, hw => by
    simp [applyORules] at h; subst h
    exact WTs_filter ss _ _ hw
  | (sel, r) :: rest, st, st', hs, h, hw => by
    simp only [applyORules] at h
    cases hr : applyORule ss sel r st with
    | err e => simp [hr] at h
    | panic s => simp [hr] at h
    | ok st1 =>
      simp only [hr] at h
      have hsr := hs (sel, r) (by simp)
      have h1 := applyORule_preserves ss sel r
        (fun b o out ho ha => simple_action_spec ss b b.for_.ty o r out hsr ho ha) st st1 hr hw
      exact applyORules_preserves ss rest st1 st' (fun x hx => hs x (by simp [hx])) h h1


/-! ### loading keeps the rules -/

theorem compileORules_mem (pkg lang : String) : ∀ (rs : List ORule) (out : List (String × OSelC × ORule)),
    compileORules pkg lang rs = .ok out → ∀ x ∈ out, x.2.2 ∈ rs
  | [], out, h => by simp [compileORules] at h; subst h; simp
  | r :: rest, out, h => by
    simp only [compileORules] at h
    split at h
    · simp at h
    · cases hc : r.sel.compile pkg with
      | err e => simp [hc] at h
      | panic s => simp [hc] at h
      | ok sel =>
        simp only [hc] at h
        cases hr : compileORules pkg lang rest with
        | err e => simp [hr] at h
        | panic s => simp [hr] at h
        | ok rs =>
          simp [hr] at h; subst h
          intro x hx
          rcases List.mem_cons.1 hx with rfl | hx
          · simp
          · exact List.mem_cons_of_mem _ (compileORules_mem pkg lang rest rs hr x hx)

theorem loadFile_mem (f : VFile) (l : Loaded) (h : loadFile f = .ok l) :
    (∀ x ∈ l.brules, x.2.2 ∈ f.builders) ∧ (∀ x ∈ l.orules, x.2.2 ∈ f.options) := by
  unfold loadFile at h
  split at h
  · simp at h
  · split at h
    · simp at h
    · cases hc : compileORules f.pkg f.language f.options with
      | err e => simp [hc] at h
      | panic s => simp [hc] at h
      | ok os =>
        simp [hc] at h; subst h
        refine ⟨?_, compileORules_mem _ _ _ os hc⟩
        intro x hx
        simp only [List.mem_map] at hx
        obtain ⟨r, hr, rfl⟩ := hx
        exact hr

theorem loadFiles_mem : ∀ (fs : List VFile) (l : Loaded), loadFiles fs = .ok l →
    (∀ x ∈ l.brules, ∃ f ∈ fs, x.2.2 ∈ f.builders) ∧ (∀ x ∈ l.orules, ∃ f ∈ fs, x.2.2 ∈ f.options)
  | [], l, h => by simp [loadFiles] at h; subst h; simp
  | f :: rest, l, h => by
    simp only [loadFiles] at h
    cases hf : loadFile f with
    | err e => simp [hf] at h
    | panic s => simp [hf] at h
    | ok lf =>
      simp only [hf] at h
      cases hr : loadFiles rest with
      | err e => simp [hr] at h
      | panic s => simp [hr] at h
      | ok lr =>
        simp [hr] at h; subst h
        obtain ⟨hb, ho⟩ := loadFile_mem f lf hf
        obtain ⟨ihb, iho⟩ := loadFiles_mem rest lr hr
        constructor
        · intro x hx
          rcases List.mem_append.1 hx with hx | hx
          · exact ⟨f, by simp, hb x hx⟩
          · obtain ⟨g, hg, hxg⟩ := ihb x hx
            exact ⟨g, by simp [hg], hxg⟩
        · intro x hx
          rcases List.mem_append.1 hx with hx | hx
          · exact ⟨f, by simp, ho x hx⟩
          · obtain ⟨g, hg, hxg⟩ := iho x hx
            exact ⟨g, by simp [hg], hxg⟩

end Cog.Builder
