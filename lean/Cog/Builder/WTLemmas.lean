/-
  Lemmas about the well-typedness predicate `WT` (C17).
-/
import Cog.Builder.WT
import Cog.Builder.VeneerLemmas
namespace Cog.Builder
open Cog.IR

end Cog.Builder
