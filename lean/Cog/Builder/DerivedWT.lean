/-
  The builders derived by `FromAST` are well-typed (base case of C17: "for all derived builder sets").
-/
import Cog.Builder.FromASTLemmas
import Cog.Builder.WTLemmas
namespace Cog.Builder
open Cog.IR

theorem fieldByName_of_mem_nodup : ∀ {fs : List Field} {f : Field}, (fs.map (·.name)).Nodup → f ∈ fs →
    fieldByName fs f.name = some f
  | [], f, _, h => by simp at h
  | g :: fs, f, hnd, h => by
    have hnd' : g.name ∉ fs.map (·.name) ∧ (fs.map (·.name)).Nodup := by simpa using hnd
    rcases List.mem_cons.1 h with rfl | h
    · simp [fieldByName, List.find?]
    · have hne : g.name ≠ f.name := fun e => hnd'.1 (by rw [e]; exact List.mem_map.2 ⟨f, h, rfl⟩)
      have ih := fieldByName_of_mem_nodup hnd'.2 h
      simp only [fieldByName] at ih ⊢
      have hb : (g.name == f.name) = false := by simpa using hne
      simp [List.find?, hb, ih]

/-- the one-item path of a field of the resolved struct walks -/
theorem walk_field_item (ss : Schemas) (args : List Argument) (root : Ty) (fs : List Field) (f : Field) (i : PathItem)
    (hfs : structFieldsOf ss root = some fs) (hnd : (fs.map (·.name)).Nodup) (hf : f ∈ fs)
    (hi : i.identifier = f.name ∧ i.ty = f.ty ∧ i.index.isNone = true ∧ i.typeHint.isNone = true ∧ i.root = false) :
    walkPath ss args [i] root = true := by
  obtain ⟨h1, h2, h3, _, _⟩ := hi
  have hidx : i.index = none := by simpa using h3
  have hsf : structFields ss root = some fs := by
    simp only [structFieldsOf] at hfs
    simp only [structFields, resolveS]
    exact hfs
  simp [walkPath, hidx, hsf, h1, fieldByName_of_mem_nodup hnd hf, h2, tyMatch_refl]

theorem covered_WT (ss : Schemas) (b : Builder) (fs : List Field) (hfs : structFieldsOf ss b.for_.ty = some fs)
    (hnd : (fs.map (·.name)).Nodup) (hc : Covered (codeClass ss) fs b) : WT ss b = true := by
  obtain ⟨hopt, hconst, hargs, _, _⟩ := hc
  simp only [WT, Bool.and_eq_true, List.all_eq_true]
  constructor
  · intro a ha
    obtain ⟨fv, hfv, ⟨i, hp, hi⟩, hv, _, _, hcs, _⟩ := All2.exists_left hconst a ha
    obtain ⟨hmem, _⟩ := mem_constFields hfv
    simp only [assignmentWT, hp, hv, hcs, hargs, valueWT]
    simp [walk_field_item ss [] b.for_.ty fs fv.1 i hfs hnd hmem hi]
  · intro o ho
    obtain ⟨f, hf, _, _, ⟨arg, hoargs, han, hat⟩, _, asg, hasg, ⟨i, hp, hi⟩, ⟨c, hv, hcn, hct⟩, _, hcons, _⟩ :=
      All2.exists_left hopt o ho
    have hmem : f ∈ fs := (List.mem_filter.1 hf).1
    have hdecl : ∀ x : Argument, x.name = f.name → x.ty = f.ty → declared o.args x = true := by
      intro x hxn hxt
      simp [declared, hoargs, han, hat, hxn, hxt, tyMatchLoose_refl]
    simp only [optWT, hasg, List.all_cons, List.all_nil, Bool.and_true]
    simp only [assignmentWT, hp, hv, valueWT, Bool.and_eq_true, List.all_eq_true]
    refine ⟨⟨⟨by simp, walk_field_item ss o.args b.for_.ty fs f i hfs hnd hmem hi⟩, hdecl c.arg hcn hct⟩, ?_⟩
    intro ac hac
    obtain ⟨_, _, hr⟩ := All2.exists_left hcons ac hac
    exact hdecl ac.argument hr.1 hr.2.1

end Cog.Builder
