/-
  The builder IR of cog (internal/ast/builder.go, builder_factories.go) as Lean data.  Core Lean only.

  One structure per Go struct, carrying exactly the Go payload.  Differences that matter:

  * `*Argument` inside `AssignmentValue` is a *pointer* in Go and several veneer actions write
    through it (`ArrayToAppend`, `MapToIndex`, `RenameArguments`), while other rules copy the
    pointer without copying the pointee (`mergeBuilderInto`, `PromoteOptionsToConstructor`,
    YAML-declared assignments).  `ArgCell` therefore carries an identity `id` next to the content:
    two cells with the same `id` are the same Go pointer, and a write through one is a write
    through all (see `Cog.Builder.Alias`).  VIR drops the ids.
  * `Option.Args` is a slice whose backing array is written in place by `RenameArguments`
    (`option.Args[i].Name = …`) and shared by struct copies of the option; `argsId` is the identity
    of that backing array.
  * `AssignmentValue` is a Go struct of three optional members; every code path that builds one
    sets at most one of them, so it is a sum here (`none` = all three nil).  The Go encoder checks
    that representation invariant on every value it prints.
  * VeneerTrail (audit text) is not modelled.
-/
import Cog.IR.Types
namespace Cog.Builder
open Cog.IR

structure Argument where
  name : String
  ty : Ty
  deriving Inhabited

/-- `*Argument` (pointer identity + pointee) -/
structure ArgCell where
  id : Nat
  arg : Argument
  deriving Inhabited

/-- `PathIndex{Argument *Argument; Constant any}` (nobody writes through this pointer) -/
structure PathIndex where
  argument : Option Argument
  constant : Val
  deriving Inhabited

structure PathItem where
  identifier : String
  index : Option PathIndex := none
  ty : Ty
  typeHint : Option Ty := none
  root : Bool := false
  deriving Inhabited

abbrev Path := List PathItem

structure EnvFieldOf (α : Type) where
  path : Path
  value : α
  deriving Inhabited

/-- `AssignmentValue` (+ `AssignmentEnvelope`, `EnvelopeFieldValue`) -/
inductive AValue where
  | none
  | arg (c : ArgCell)
  | const (v : Val)
  | env (ty : Ty) (values : List (EnvFieldOf AValue))
  deriving Inhabited

abbrev EnvField := EnvFieldOf AValue

structure AConstraint where
  argument : Argument
  op : String
  parameter : Val
  deriving Inhabited

structure NilCheck where
  path : Path
  emptyValueType : Ty
  deriving Inhabited

structure Assignment where
  path : Path
  value : AValue
  method : String := "direct"
  constraints : List AConstraint := []
  nilChecks : List NilCheck := []
  deriving Inhabited

/-- `ast.Option`.  `dflt = none` is a nil `*OptionDefault`. -/
structure Opt where
  name : String
  comments : List String := []
  args : List Argument := []
  argsId : Nat := 0
  assignments : List Assignment := []
  dflt : Option (List Val) := none
  deriving Inhabited

structure Constructor where
  args : List Argument := []
  assignments : List Assignment := []
  deriving Inhabited

structure FactoryRef where
  pkg : String := ""
  builder : String := ""
  factory : String := ""
  deriving Inhabited

/-- `OptionCallParameter` / `FactoryCall` (mutually recursive in Go) -/
inductive CallParam where
  | mk (argument : Option Argument) (constant : Option (Ty × Val))
       (factory : Option (FactoryRef × List CallParam))
  deriving Inhabited

structure OptionCall where
  name : String
  parameters : List CallParam := []
  deriving Inhabited

structure Factory where
  name : String
  comments : List String := []
  args : List Argument := []
  optionCalls : List OptionCall := []
  deriving Inhabited

structure Builder where
  for_ : Obj
  pkg : String
  name : String
  properties : List Field := []
  constructor : Constructor := {}
  options : List Opt := []
  factories : List Factory := []
  deriving Inhabited

abbrev Builders := List Builder

/-- `Val` has no derived equality (nested list); the code only ever asks `v != nil`. -/
def isNil : Val → Bool
  | .nil => true
  | _ => false

theorem isNil_iff (v : Val) : isNil v = true ↔ v = .nil := by
  cases v <;> simp [isNil]

end Cog.Builder
