/-
  Lemmas about the `FromAST` model used by the C16 theorems.
-/
import Cog.Builder.Spec
namespace Cog.Builder
open Cog.IR

/-- on success the explicit-outcome resolver agrees with the shared one -/
theorem resolveO_ok (ss : Schemas) : ∀ (n : Nat) (t r : Ty), resolveO ss n t = .ok r →
    Schemas.resolveToType ss n t = some r
  | 0, t, r, h => by simp [resolveO] at h
  | n + 1, t, r, h => by
    cases t with
    | ref p nm m =>
      simp only [resolveO] at h
      simp only [Schemas.resolveToType]
      cases hl : Schemas.locateObject ss p nm with
      | none => simp [hl] at h; simp [h]
      | some o => simp [hl] at h; simpa using resolveO_ok ss n o.ty r h
    | bad k m =>
      simp only [Schemas.resolveToType]
      by_cases hk : k = "ref"
      · subst hk; simp [resolveO] at h
      · have : resolveO ss (n + 1) (.bad k m) = .ok (.bad k m) := by
          unfold resolveO; split <;> simp_all
        rw [this] at h; simpa using h
    | scalar => simp [resolveO] at h; simp [Schemas.resolveToType, h]
    | cref => simp [resolveO] at h; simp [Schemas.resolveToType, h]
    | array => simp [resolveO] at h; simp [Schemas.resolveToType, h]
    | map => simp [resolveO] at h; simp [Schemas.resolveToType, h]
    | struct => simp [resolveO] at h; simp [Schemas.resolveToType, h]
    | enum => simp [resolveO] at h; simp [Schemas.resolveToType, h]
    | disj => simp [resolveO] at h; simp [Schemas.resolveToType, h]
    | inter => simp [resolveO] at h; simp [Schemas.resolveToType, h]
    | slot => simp [resolveO] at h; simp [Schemas.resolveToType, h]


theorem isConcreteScalar_true {t : Ty} (h : isConcreteScalar t = .ok true) :
    ∃ k v cs m, t = .scalar k v cs m ∧ isNil v = false := by
  cases t with
  | scalar k v cs m =>
    refine ⟨k, v, cs, m, rfl, ?_⟩
    simpa [isConcreteScalar, kindIs, Ty.kind, asScalar] using h
  | bad k m =>
    by_cases hk : k = "scalar" <;> simp [isConcreteScalar, kindIs, Ty.kind, asScalar, hk] at h
  | _ => simp [isConcreteScalar, kindIs, Ty.kind] at h

theorem isConcreteScalar_false {t : Ty} (h : isConcreteScalar t = .ok false) :
    concreteValue? t = none := by
  cases t with
  | scalar k v cs m =>
    have : isNil v = true := by simpa [isConcreteScalar, kindIs, Ty.kind, asScalar] using h
    simp [concreteValue?, this]
  | _ => simp [concreteValue?]

theorem withTypeConstraints_spec (arg : Argument) :
    ∀ (cs : List Constraint) (acs : List AConstraint), withTypeConstraints arg cs = .ok acs →
      All2 (fun (c : Constraint) (ac : AConstraint) =>
        ac.argument = arg ∧ ac.op = c.op ∧ c.args.head? = some ac.parameter) cs acs
  | [], acs, h => by
    simp [withTypeConstraints] at h; subst h; simp [All2]
  | c :: cs, acs, h => by
    simp only [withTypeConstraints] at h
    cases hargs : c.args with
    | nil => simp [hargs] at h
    | cons a rest =>
      simp only [hargs] at h
      cases hr : withTypeConstraints arg cs with
      | ok r =>
        simp [hr] at h; subst h
        exact ⟨⟨rfl, rfl, by simp [hargs]⟩, withTypeConstraints_spec arg cs r hr⟩
      | err e => simp [hr] at h
      | panic st => simp [hr] at h

theorem fieldConstraints_spec {t : Ty} {cs : List Constraint} (h : fieldConstraints t = .ok cs) :
    cs = scalarConstraints t := by
  cases t with
  | scalar k v c m => simpa [fieldConstraints, kindIs, Ty.kind, asScalar, scalarConstraints, eq_comm] using h
  | bad k m =>
    by_cases hk : k = "scalar" <;> simp [fieldConstraints, kindIs, Ty.kind, asScalar, hk, scalarConstraints] at h ⊢
    first | exact h | exact h.symm
  | _ => simpa [fieldConstraints, kindIs, Ty.kind, scalarConstraints, eq_comm] using h

theorem constraintsOf_of_all2 (f : Field) : ∀ (l : List Constraint) (acs : List AConstraint),
    All2 (fun (c : Constraint) (ac : AConstraint) =>
        ac.argument = { name := f.name, ty := f.ty } ∧ ac.op = c.op ∧ c.args.head? = some ac.parameter) l acs →
    All2 (fun (c : Constraint) (ac : AConstraint) =>
      ac.argument.name = f.name ∧ ac.argument.ty = f.ty ∧ ac.op = c.op ∧ c.args.head? = some ac.parameter) l acs
  | [], [], _ => by simp [All2]
  | c :: l, ac :: acs, hh => by
    simp only [All2] at hh ⊢
    exact ⟨⟨by rw [hh.1.1], by rw [hh.1.1], hh.1.2.1, hh.1.2.2⟩, constraintsOf_of_all2 f l acs hh.2⟩
  | [], _ :: _, hh => by simp [All2] at hh
  | _ :: _, [], hh => by simp [All2] at hh

theorem structFieldToOption_spec {f : Field} {o : Opt} (h : structFieldToOption f = .ok o) :
    IsOptionFor f o := by
  simp only [structFieldToOption] at h
  cases ha : fieldAssignment f with
  | err e => simp [ha] at h
  | panic st => simp [ha] at h
  | ok a =>
    simp [ha] at h; subst h
    simp only [fieldAssignment] at ha
    cases hc : fieldConstraints f.ty with
    | err e => simp [hc] at ha
    | panic st => simp [hc] at ha
    | ok cs =>
      simp only [hc] at ha
      cases hw : withTypeConstraints { name := f.name, ty := f.ty } cs with
      | err e => simp [hw] at ha
      | panic st => simp [hw] at ha
      | ok acs =>
        simp [hw] at ha; subst ha
        have hcs := fieldConstraints_spec hc
        have hall := withTypeConstraints_spec _ cs acs hw
        refine ⟨rfl, rfl, ⟨_, rfl, rfl, rfl⟩, rfl, _, rfl, ⟨_, rfl, rfl, rfl, rfl, rfl, rfl⟩, ⟨_, rfl, rfl, rfl⟩, rfl, ?_, rfl⟩
        subst hcs
        exact constraintsOf_of_all2 f _ acs hall


/-- what one loop iteration contributes, against the code's classification of the field -/
def FieldOutSpec (ss : Schemas) (f : Field) : FieldOut → Prop
  | .const a => ∃ v, (codeClass ss f).const? = some v ∧ (codeClass ss f).isOption = false ∧ IsConstantFor (f, v) a
  | .skip => (codeClass ss f).const? = none ∧ (codeClass ss f).isOption = false
  | .opt o => (codeClass ss f).const? = none ∧ (codeClass ss f).isOption = true ∧ IsOptionFor f o

theorem optionOrSkip_spec {ss : Schemas} {f : Field} {out : FieldOut} (h : optionOrSkip f = .ok out)
    (hc : concreteValue? f.ty = none)
    (hr : (if f.required && !f.ty.getMeta.nullable then refConstValue? ss f.ty else none) = none) :
    FieldOutSpec ss f out := by
  have hcls : codeClass ss f = if kindIs f.ty "constant_ref" then .ownCtor else .option := by
    simp only [codeClass, hc, hr]
  simp only [optionOrSkip] at h
  by_cases hk : kindIs f.ty "constant_ref" = true
  · simp [hk] at h; subst h
    simp [FieldOutSpec, hcls, hk, FieldClass.const?, FieldClass.isOption]
  · simp [hk] at h
    cases ho : structFieldToOption f with
    | err e => simp [ho] at h
    | panic st => simp [ho] at h
    | ok o =>
      simp [ho] at h; subst h
      simp [FieldOutSpec, hcls, hk, FieldClass.const?, FieldClass.isOption, structFieldToOption_spec ho]

theorem kindIs_ref_cases {t : Ty} (h : kindIs t "ref" = true) :
    (∃ p n m, t = .ref p n m) ∨ (∃ m, t = .bad "ref" m) := by
  cases t with
  | ref p n m => exact .inl ⟨p, n, m, rfl⟩
  | bad k m =>
    have : k = "ref" := by simpa [kindIs, Ty.kind] using h
    subst this; exact .inr ⟨m, rfl⟩
  | _ => simp [kindIs, Ty.kind] at h

theorem resolveO_bad_ref (ss : Schemas) (n : Nat) (m : Meta) (r : Ty) :
    resolveO ss n (.bad "ref" m) ≠ .ok r := by
  cases n <;> simp [resolveO]

theorem refConstValue?_not_ref {ss : Schemas} {t : Ty} (h : kindIs t "ref" = false) :
    refConstValue? ss t = none := by
  cases t with
  | ref p n m => simp [kindIs, Ty.kind] at h
  | _ => simp [refConstValue?]

theorem constantAssignment_isConstantFor (f : Field) (v : Val) (hv : isNil v = false) :
    IsConstantFor (f, v) (constantAssignment (pathFromStructField f) v) := by
  refine ⟨⟨_, rfl, rfl, rfl, rfl, rfl, rfl⟩, ?_, hv, rfl, rfl, rfl⟩
  simp [constantAssignment, hv]

theorem fieldStepRest_spec {ss : Schemas} {f : Field} {out : FieldOut}
    (h : fieldStepRest ss (fuelFor ss) f = .ok out) (hc : concreteValue? f.ty = none) :
    FieldOutSpec ss f out := by
  simp only [fieldStepRest] at h
  by_cases hreq : (f.required && !f.ty.getMeta.nullable) = true
  · simp only [hreq, if_true] at h
    simp only [fieldIsRefToConcrete] at h
    by_cases hk : kindIs f.ty "ref" = true
    · simp only [hk, if_true] at h
      rcases kindIs_ref_cases hk with ⟨p, n, m, hty⟩ | ⟨m, hty⟩
      · cases hres : resolveO ss (fuelFor ss) f.ty with
        | err e => simp [hres] at h
        | panic st => simp [hres] at h
        | ok r =>
          simp only [hres] at h
          have hshared := resolveO_ok ss _ _ _ hres
          cases hcs : isConcreteScalar r with
          | err e => simp [hcs] at h
          | panic st => simp [hcs] at h
          | ok b =>
            cases b with
            | true =>
              simp only [hcs, constantOf, hres] at h
              obtain ⟨k, v, cs, m', hr, hv⟩ := isConcreteScalar_true hcs
              subst hr
              simp [asScalar] at h; subst h
              have hrc : refConstValue? ss f.ty = some v := by
                rw [hty] at hshared ⊢
                simp [refConstValue?, hshared, concreteValue?, hv]
              have hcls : codeClass ss f = .constant v := by
                simp only [codeClass, hc, hreq, if_true, hrc]
              exact ⟨v, by simp [hcls, FieldClass.const?], by simp [hcls, FieldClass.isOption],
                constantAssignment_isConstantFor f v hv⟩
            | false =>
              simp only [hcs] at h
              have hrc : refConstValue? ss f.ty = none := by
                rw [hty] at hshared ⊢
                simp [refConstValue?, hshared, isConcreteScalar_false hcs]
              exact optionOrSkip_spec h hc (by simp [hrc])
      · rw [hty] at h
        cases hres : resolveO ss (fuelFor ss) (.bad "ref" m) with
        | ok r => exact absurd hres (resolveO_bad_ref ss _ m r)
        | err e => simp [hres] at h
        | panic st => simp [hres] at h
    · have hk' : kindIs f.ty "ref" = false := by simpa using hk
      simp only [hk'] at h
      exact optionOrSkip_spec h hc (by simp [refConstValue?_not_ref hk'])
  · have hreq' : (f.required && !f.ty.getMeta.nullable) = false := by simpa using hreq
    simp only [hreq'] at h
    exact optionOrSkip_spec h hc (by simp [hreq'])

theorem fieldStep_spec {ss : Schemas} {f : Field} {out : FieldOut}
    (h : fieldStep ss (fuelFor ss) f = .ok out) : FieldOutSpec ss f out := by
  simp only [fieldStep] at h
  cases hcs : isConcreteScalar f.ty with
  | err e => simp [hcs] at h
  | panic st => simp [hcs] at h
  | ok b =>
    cases b with
    | true =>
      obtain ⟨k, v, cs, m, hty, hv⟩ := isConcreteScalar_true hcs
      simp only [hcs] at h
      rw [hty] at h
      simp [asScalar] at h; subst h
      have hcls : codeClass ss f = .constant v := by
        simp [codeClass, hty, concreteValue?, hv]
      exact ⟨v, by simp [hcls, FieldClass.const?], by simp [hcls, FieldClass.isOption],
        constantAssignment_isConstantFor f v hv⟩
    | false =>
      simp only [hcs] at h
      exact fieldStepRest_spec h (isConcreteScalar_false hcs)


theorem fieldSteps_spec (ss : Schemas) : ∀ (fs : List Field) (outs : List FieldOut),
    fieldSteps ss (fuelFor ss) fs = .ok outs →
    All2 IsOptionFor (optionFields (codeClass ss) fs) (outOpts outs) ∧
    All2 IsConstantFor (constFields (codeClass ss) fs) (outConsts outs)
  | [], outs, h => by
    simp [fieldSteps] at h; subst h
    simp [optionFields, constFields, outOpts, outConsts, All2]
  | f :: fs, outs, h => by
    simp only [fieldSteps] at h
    cases h1 : fieldStep ss (fuelFor ss) f with
    | err e => simp [h1] at h
    | panic st => simp [h1] at h
    | ok o =>
      simp only [h1] at h
      cases h2 : fieldSteps ss (fuelFor ss) fs with
      | err e => simp [h2] at h
      | panic st => simp [h2] at h
      | ok os =>
        simp [h2] at h; subst h
        have ih := fieldSteps_spec ss fs os h2
        have hs := fieldStep_spec h1
        cases o with
        | const a =>
          obtain ⟨v, hc, ho, hcf⟩ := hs
          simp only [optionFields, List.filter, ho, constFields, hc, outOpts, outConsts, All2]
          exact ⟨ih.1, hcf, ih.2⟩
        | skip =>
          obtain ⟨hc, ho⟩ := hs
          simp only [optionFields, List.filter, ho, constFields, hc, outOpts, outConsts]
          exact ih
        | opt o =>
          obtain ⟨hc, ho, hof⟩ := hs
          simp only [optionFields, List.filter, ho, constFields, hc, outOpts, outConsts, All2]
          exact ⟨⟨hof, ih.1⟩, ih.2⟩

/-- what a builder derived for object `o` of schema `s` looks like -/
def BuilderFor (ss : Schemas) (s : Schema) (o : Obj) (b : Builder) : Prop :=
  b.for_ = o ∧ b.pkg = s.pkg ∧ b.name = o.name ∧
  ∃ fs, structFieldsOf ss o.ty = some fs ∧ Covered (codeClass ss) fs b

theorem structObjectToBuilder_spec {ss : Schemas} {s : Schema} {o : Obj} {b : Builder}
    (h : structObjectToBuilder ss (fuelFor ss) s o = .ok b) : BuilderFor ss s o b := by
  simp only [structObjectToBuilder] at h
  cases hr : resolveO ss (fuelFor ss) o.ty with
  | err e => simp [hr] at h
  | panic st => simp [hr] at h
  | ok r =>
    simp only [hr] at h
    cases r with
    | struct fs g gi m =>
      simp only [asStructFields] at h
      cases hf : fieldSteps ss (fuelFor ss) fs with
      | err e => simp [hf] at h
      | panic st => simp [hf] at h
      | ok outs =>
        simp [hf] at h; subst h
        have hsp := fieldSteps_spec ss fs outs hf
        refine ⟨rfl, rfl, rfl, fs, ?_, hsp.1, hsp.2, rfl, rfl, rfl⟩
        simp [structFieldsOf, resolveO_ok ss _ _ _ hr]
    | _ => simp [asStructFields] at h

theorem objectBuilder_spec {ss : Schemas} {s : Schema} {o : Obj} {ob : Option Builder}
    (h : objectBuilder ss (fuelFor ss) s o = .ok ob) :
    match ob with
    | some b => resolvesToStruct ss o.ty = true ∧ BuilderFor ss s o b
    | none => resolvesToStruct ss o.ty = false := by
  simp only [objectBuilder] at h
  cases hr : resolveO ss (fuelFor ss) o.ty with
  | err e => simp [hr] at h
  | panic st => simp [hr] at h
  | ok r =>
    simp only [hr] at h
    have hshared := resolveO_ok ss _ _ _ hr
    by_cases hk : kindIs r "struct" = true
    · simp only [hk, if_true] at h
      cases hb : structObjectToBuilder ss (fuelFor ss) s o with
      | err e => simp [hb] at h
      | panic st => simp [hb] at h
      | ok b =>
        simp [hb] at h; subst h
        have hsp := structObjectToBuilder_spec hb
        obtain ⟨_, _, _, fs, hfs, _⟩ := hsp
        exact ⟨by simp [resolvesToStruct, hfs], structObjectToBuilder_spec hb⟩
    · have hk' : kindIs r "struct" = false := by simpa using hk
      simp [hk'] at h; subst h
      have : ∀ fs g gi m, r ≠ .struct fs g gi m := by
        intro fs g gi m hrr; subst hrr; simp [kindIs, Ty.kind] at hk'
      show resolvesToStruct ss o.ty = false
      simp only [resolvesToStruct, structFieldsOf, hshared]
      cases r with
      | struct fs g gi m => exact absurd rfl (this fs g gi m)
      | _ => simp

/-- the objects that get a builder -/
def selected (ss : Schemas) (l : List (Schema × Obj)) : List (Schema × Obj) :=
  l.filter fun so => resolvesToStruct ss so.2.ty

theorem objectsBuilders_spec (ss : Schemas) (s : Schema) : ∀ (l : List (String × Obj)) (bs : Builders),
    objectsBuilders ss (fuelFor ss) s l = .ok bs →
    All2 (fun (b : Builder) (so : Schema × Obj) => BuilderFor ss so.1 so.2 b) bs
      (selected ss (l.map fun ko => (s, ko.2)))
  | [], bs, h => by
    simp [objectsBuilders] at h; subst h; simp [selected, All2]
  | (k, o) :: rest, bs, h => by
    simp only [objectsBuilders] at h
    cases h1 : objectBuilder ss (fuelFor ss) s o with
    | err e => simp [h1] at h
    | panic st => simp [h1] at h
    | ok ob =>
      simp only [h1] at h
      cases h2 : objectsBuilders ss (fuelFor ss) s rest with
      | err e => simp [h2] at h
      | panic st => simp [h2] at h
      | ok bs' =>
        simp [h2] at h; subst h
        have ih := objectsBuilders_spec ss s rest bs' h2
        have hs := objectBuilder_spec h1
        cases ob with
        | some b =>
          simp only [selected, List.map, List.filter, hs.1, All2]
          exact ⟨hs.2, ih⟩
        | none =>
          simp only [selected, List.map, List.filter, hs]
          exact ih

theorem selected_append (ss : Schemas) (l₁ l₂ : List (Schema × Obj)) :
    selected ss (l₁ ++ l₂) = selected ss l₁ ++ selected ss l₂ := by
  simp [selected]

theorem schemasBuilders_spec (ss : Schemas) : ∀ (l : List Schema) (bs : Builders),
    schemasBuilders ss (fuelFor ss) l = .ok bs →
    All2 (fun (b : Builder) (so : Schema × Obj) => BuilderFor ss so.1 so.2 b) bs
      (selected ss (allObjects l))
  | [], bs, h => by
    simp [schemasBuilders] at h; subst h; simp [selected, allObjects, All2]
  | s :: rest, bs, h => by
    simp only [schemasBuilders] at h
    cases h1 : objectsBuilders ss (fuelFor ss) s s.objects with
    | err e => simp [h1] at h
    | panic st => simp [h1] at h
    | ok b1 =>
      simp only [h1] at h
      cases h2 : schemasBuilders ss (fuelFor ss) rest with
      | err e => simp [h2] at h
      | panic st => simp [h2] at h
      | ok b2 =>
        simp [h2] at h; subst h
        simp only [allObjects, selected_append]
        exact All2.append (objectsBuilders_spec ss s s.objects b1 h1) (schemasBuilders_spec ss rest b2 h2)


/-! ### bookkeeping about `optionFields` / `constFields` -/

theorem mem_constFields {cls : Field → FieldClass} : ∀ {fs : List Field} {fv : Field × Val},
    fv ∈ constFields cls fs → fv.1 ∈ fs ∧ (cls fv.1).const? = some fv.2
  | [], fv, h => by simp [constFields] at h
  | f :: fs, fv, h => by
    simp only [constFields] at h
    cases hc : (cls f).const? with
    | none =>
      simp only [hc] at h
      obtain ⟨h1, h2⟩ := mem_constFields h
      exact ⟨by simp [h1], h2⟩
    | some v =>
      simp only [hc] at h
      rcases List.mem_cons.1 h with rfl | h
      · exact ⟨by simp, hc⟩
      · obtain ⟨h1, h2⟩ := mem_constFields h
        exact ⟨by simp [h1], h2⟩

theorem constFields_mem {cls : Field → FieldClass} : ∀ {fs : List Field} {f : Field} {v : Val},
    f ∈ fs → (cls f).const? = some v → (f, v) ∈ constFields cls fs
  | [], f, v, h, _ => by simp at h
  | g :: fs, f, v, h, hv => by
    simp only [constFields]
    rcases List.mem_cons.1 h with rfl | h
    · simp [hv]
    · have := constFields_mem h hv
      cases (cls g).const? <;> simp [this]

theorem optionFields_congr {cls cls' : Field → FieldClass} : ∀ {fs : List Field},
    (∀ f ∈ fs, cls f = cls' f) → optionFields cls fs = optionFields cls' fs
  | [], _ => rfl
  | f :: fs, h => by
    have ih := optionFields_congr (cls := cls) (cls' := cls') (fs := fs) (fun g hg => h g (by simp [hg]))
    simp only [optionFields] at ih ⊢
    simp only [List.filter, h f (by simp), ih]

theorem constFields_congr {cls cls' : Field → FieldClass} : ∀ {fs : List Field},
    (∀ f ∈ fs, cls f = cls' f) → constFields cls fs = constFields cls' fs
  | [], _ => rfl
  | f :: fs, h => by
    have ih := constFields_congr (cls := cls) (cls' := cls') (fs := fs) (fun g hg => h g (by simp [hg]))
    simp only [constFields, h f (by simp), ih]

theorem codeClass_eq_specClass (ss : Schemas) (f : Field)
    (h : (refConstValue? ss f.ty).isNone = true ∨ (f.required && !f.ty.getMeta.nullable) = true) :
    codeClass ss f = specClass ss f := by
  simp only [codeClass, specClass]
  rcases h with h | h
  · have : refConstValue? ss f.ty = none := by simpa using h
    simp [this]
  · simp only [h, if_true]

/-- the field a (constructor) assignment targets: identifier of a one-item path -/
def targetName (a : Assignment) : String :=
  match a.path with
  | [i] => i.identifier
  | _ => ""

theorem optionNames_eq : ∀ {l : List Field} {opts : List Opt}, All2 IsOptionFor l opts →
    opts.map (·.name) = l.map (·.name)
  | [], [], _ => rfl
  | f :: l, o :: opts, h => by
    simp only [List.map, h.1.1, optionNames_eq h.2]
  | [], _ :: _, h => by simp [All2] at h
  | _ :: _, [], h => by simp [All2] at h

theorem constNames_eq : ∀ {l : List (Field × Val)} {as : List Assignment}, All2 IsConstantFor l as →
    as.map targetName = l.map (·.1.name)
  | [], [], _ => rfl
  | fv :: l, a :: as, h => by
    obtain ⟨⟨i, hp, hi, _⟩, _⟩ := h.1
    simp only [List.map, constNames_eq h.2]
    simp [targetName, hp, hi]
  | [], _ :: _, h => by simp [All2] at h
  | _ :: _, [], h => by simp [All2] at h

theorem count_optionFields_absent (cls : Field → FieldClass) (n : String) : ∀ (fs : List Field),
    n ∉ fs.map (·.name) → ((optionFields cls fs).map (·.name)).count n = 0
  | [], _ => by simp [optionFields]
  | f :: fs, h => by
    have hne : f.name ≠ n := fun e => h (by simp [e])
    have ih := count_optionFields_absent cls n fs (fun hm => h (by simp [List.mem_map] at hm ⊢; exact .inr hm))
    simp only [optionFields] at ih ⊢
    simp only [List.filter]
    cases (cls f).isOption <;> simp [ih, hne]

theorem count_constFields_absent (cls : Field → FieldClass) (n : String) : ∀ (fs : List Field),
    n ∉ fs.map (·.name) → ((constFields cls fs).map (·.1.name)).count n = 0
  | [], _ => by simp [constFields]
  | f :: fs, h => by
    have hne : f.name ≠ n := fun e => h (by simp [e])
    have ih := count_constFields_absent cls n fs (fun hm => h (by simp [List.mem_map] at hm ⊢; exact .inr hm))
    simp only [constFields]
    cases (cls f).const? <;> simp [ih, hne]

theorem count_classes' (cls : Field → FieldClass) : ∀ (fs : List Field), (fs.map (·.name)).Nodup →
    ∀ f ∈ fs, ((optionFields cls fs).map (·.name)).count f.name + ((constFields cls fs).map (·.1.name)).count f.name
      = (if (cls f).isOption then 1 else 0) + (if ((cls f).const?).isSome then 1 else 0)
  | [], _, f, hf => by simp at hf
  | g :: fs, hnd, f, hf => by
    have hnd' : g.name ∉ fs.map (·.name) ∧ (fs.map (·.name)).Nodup := by simpa using hnd
    rcases List.mem_cons.1 hf with rfl | hf'
    · have h1 := count_optionFields_absent cls f.name fs hnd'.1
      have h2 := count_constFields_absent cls f.name fs hnd'.1
      simp only [optionFields] at h1 ⊢
      simp only [List.filter, constFields]
      cases ho : (cls f).isOption <;> cases hk : (cls f).const? <;> simp [h1, h2]
    · have hne : g.name ≠ f.name := fun e => hnd'.1 (by rw [e]; exact List.mem_map.2 ⟨f, hf', rfl⟩)
      have ih := count_classes' cls fs hnd'.2 f hf'
      simp only [optionFields] at ih ⊢
      simp only [List.filter, constFields]
      cases hg1 : (cls g).isOption <;> cases hg2 : (cls g).const? <;> simp [hne, ih]

theorem count_classes (cls : Field → FieldClass) (fs : List Field) (hnd : (fs.map (·.name)).Nodup)
    (f : Field) (hf : f ∈ fs) :
    ((optionFields cls fs).map (·.name)).count f.name + ((constFields cls fs).map (·.1.name)).count f.name
      = (match cls f with | .ownCtor => 0 | _ => 1) := by
  rw [count_classes' cls fs hnd f hf]
  cases cls f <;> simp [FieldClass.isOption, FieldClass.const?]

end Cog.Builder
