/-
  Concrete witnesses used by the counterexample theorems of C16/C17.  The same inputs are built by
  the Go harness (`c16-pinned`, `c17-pinned`) and replayed on the real code on every run; the check
  compares the VIR text of both sides.
-/
import Cog.Builder.Types
import Cog.Builder.Veneers
namespace Cog.Builder
open Cog.IR

/-- `p.D = ref p.Missing` : the alias chain ends in an unresolvable reference -/
def danglingWitness : Schemas :=
  [{ pkg := "p", objects := [("D", { name := "D", ty := .ref "p" "Missing" {}, selfPkg := "p", selfName := "D" })] }]

/-- `p.A = ref p.A` : an alias cycle (`Schemas.ResolveToType` recurses without a visited set) -/
def cycleWitness : Schemas :=
  [{ pkg := "p", objects := [("A", { name := "A", ty := .ref "p" "A" {}, selfPkg := "p", selfName := "A" })] }]

/-- `p.K = "x"` (constant), `p.S = { k?: ref p.K }` : the optional field `k` gets an option -/
def optionalConstRefWitness : Schemas :=
  [{ pkg := "p", objects := [
      ("K", { name := "K", ty := .scalar "string" (.str "x") [] {}, selfPkg := "p", selfName := "K" }),
      ("S", { name := "S", ty := .struct [{ name := "k", ty := .ref "p" "K" {}, required := false }] [] none {},
              selfPkg := "p", selfName := "S" })] }]


/-! ### C17 -/

structure VWitness where
  ss : Schemas
  files : List VFile
  lang : String := "go"

/-- derive the builders, then rewrite (what `codegen.Pipeline` does) -/
def VWitness.run (w : VWitness) : Outcome Builders :=
  match fromAST w.ss with
  | .ok bs => rewrite w.files w.lang w.ss bs 1
  | .err e => .err e
  | .panic s => .panic s

def wStr : Ty := .scalar "string" .nil [] {}
def wBool : Ty := .scalar "bool" .nil [] {}

/-- `p.S = { a?: bool = true, n?: int64 (>= 1), tags?: []string, flags?: map[string]bool }` -/
def wS : Obj :=
  { name := "S", selfPkg := "p", selfName := "S",
    ty := .struct [
      { name := "a", ty := .scalar "bool" .nil [] { dflt := .bool true }, required := false },
      { name := "n", ty := .scalar "int64" .nil [{ op := ">=", args := [.int "i64" 1] }] {}, required := false },
      { name := "tags", ty := .array wStr {}, required := false },
      { name := "flags", ty := .map wStr wBool {}, required := false }] [] none {} }

def wSchema (extra : List (String × Obj)) : Schemas := [{ pkg := "p", objects := ("S", wS) :: extra }]

def wFile (bs : List BRule) (os : List ORule) : List VFile := [{ language := "all", pkg := "p", builders := bs, options := os }]

def wDupOption : VWitness := { ss := wSchema [], files := wFile [] [.duplicate (.byName "S.a") "dup"] }
def wDupBuilder : VWitness := { ss := wSchema [], files := wFile [.duplicate (.byObject "S") "Copy" []] [] }
def wDismissed : VWitness :=
  { ss := wSchema [("E", { name := "E", selfPkg := "p", selfName := "E", ty := .struct [] [] none {} })], files := wFile [] [] }
def wRenameArgs : VWitness := { ss := wSchema [], files := wFile [] [.renameArguments (.byName "S.n") ["x"]] }
def wPromoteAppend : VWitness :=
  { ss := wSchema [], files := wFile [.promote (.byObject "S") ["tags"]] [.arrayToAppend (.byName "S.tags")] }
def wMergeRename : VWitness :=
  { ss := wSchema [
      ("I", { name := "I", selfPkg := "p", selfName := "I", ty := .struct [{ name := "x", ty := wStr, required := false }] [] none {} }),
      ("D", { name := "D", selfPkg := "p", selfName := "D", ty := .struct [{ name := "inner", ty := .ref "p" "I" {}, required := false }] [] none {} })],
    files := wFile [.mergeInto "D" "I" "inner" [] []] [.renameArguments (.byName "D.x") ["y"]] }
def wMapIndexUnfold : VWitness :=
  { ss := wSchema [], files := wFile [] [.mapToIndex (.byName "S.flags"), .unfoldBoolean (.byName "S.flags") "on" "off"] }

def wSfOptsAfterAppend : VWitness :=
  { ss := wSchema [
      ("I", { name := "I", selfPkg := "p", selfName := "I", ty := .struct [{ name := "x", ty := wStr, required := false }] [] none {} }),
      ("L", { name := "L", selfPkg := "p", selfName := "L", ty := .struct [{ name := "items", ty := .array (.ref "p" "I" {}) {}, required := false }] [] none {} })],
    files := wFile [] [.arrayToAppend (.byName "L.items"), .structFieldsAsOptions (.byName "L.items") none] }

/-- a YAML-declared second assignment using the option's argument, then `array_to_append`:
    only `Assignments[0]` is rewritten -/
def wAddAssignmentAppend : VWitness :=
  { ss := wSchema [],
    files := wFile [] [
      .addAssignment (.byName "S.tags")
        { path := "tags", method := "append",
          value := .mk (some { id := 900, arg := { name := "tags", ty := .array wStr {} } }) .nil false [] },
      .arrayToAppend (.byName "S.tags")] }

/-- `map_to_index` (common pass) gives the option two arguments; `promote_options_to_constructor`
    (language pass) declares only the first in the constructor but promotes the assignment, which uses the second -/
def wMapIndexPromote : VWitness :=
  { ss := wSchema [],
    files := [{ language := "all", pkg := "p", options := [.mapToIndex (.byName "S.flags")] },
              { language := "go", pkg := "p", builders := [.promote (.byObject "S") ["flags"]] }] }

/-- `array_to_append` on `ms : []map[string]string` leaves an option whose argument is a map and whose
    target is the array; `map_to_index` then indexes the *array* with the map's key -/
def wAppendThenMapToIndex : VWitness :=
  { ss := wSchema [
      ("M", { name := "M", selfPkg := "p", selfName := "M",
              ty := .struct [{ name := "ms", ty := .array (.map wStr wStr {}) {}, required := false }] [] none {} })],
    files := wFile [] [.arrayToAppend (.byName "M.ms"), .mapToIndex (.byName "M.ms")] }

/-- `struct_fields_as_arguments` twice on `r : ref R` where `R = { v: "x" (constant), r?: ref R }`: after
    the first application `Assignments[0]` is the *constant* assignment `r.v = "x"`; the second takes its
    path as the prefix for the fields of the argument -/
def wSfArgsTwice : VWitness :=
  { ss := wSchema [
      ("R", { name := "R", selfPkg := "p", selfName := "R",
              ty := .struct [{ name := "v", ty := .scalar "string" (.str "x") [] {}, required := true },
                             { name := "r", ty := .ref "p" "R" {}, required := false }] [] none {} })],
    files := wFile [] [.structFieldsAsArguments (.byName "R.r") none, .structFieldsAsArguments (.byName "R.r") none] }

/-- `map_to_index` on `items : map[ref K]string` makes the key (a struct reference) the option's first
    argument; `struct_fields_as_options` then spreads the *key's* fields over options built around
    `Assignments[0].Path`, which still indexes with `key` -/
def wMapIndexSfOpts : VWitness :=
  { ss := wSchema [
      ("K", { name := "K", selfPkg := "p", selfName := "K", ty := .struct [{ name := "h", ty := wBool, required := false }] [] none {} }),
      ("MK", { name := "MK", selfPkg := "p", selfName := "MK",
               ty := .struct [{ name := "items", ty := .map (.ref "p" "K" {}) wStr {}, required := false }] [] none {} })],
    files := wFile [] [.mapToIndex (.byName "MK.items"), .structFieldsAsOptions (.byName "MK.items") none] }

def vWitness : String → Option VWitness
  | "dup-option-default" => some wDupOption
  | "dup-builder-default" => some wDupBuilder
  | "dismissed" => some wDismissed
  | "rename-args-constraint" => some wRenameArgs
  | "promote-array-to-append" => some wPromoteAppend
  | "merge-rename-arguments" => some wMergeRename
  | "map-index-unfold" => some wMapIndexUnfold
  | "sf-opts-after-append" => some wSfOptsAfterAppend
  | "add-assignment-array-to-append" => some wAddAssignmentAppend
  | "map-index-promote" => some wMapIndexPromote
  | "append-then-map-to-index" => some wAppendThenMapToIndex
  | "sf-args-twice" => some wSfArgsTwice
  | "map-index-sf-opts" => some wMapIndexSfOpts
  | _ => none

end Cog.Builder
