/-
  Concrete witnesses used by the counterexample theorems of C16/C17.  The same inputs are built by
  the Go harness (`c16-pinned`, `c17-pinned`) and replayed on the real code on every run; the check
  compares the VIR text of both sides.
-/
import Cog.Builder.Types
namespace Cog.Builder
open Cog.IR

/-- `p.D = ref p.Missing` : the alias chain ends in an unresolvable reference -/
def danglingWitness : Schemas :=
  [{ pkg := "p", objects := [("D", { name := "D", ty := .ref "p" "Missing" {}, selfPkg := "p", selfName := "D" })] }]

/-- `p.K = "x"` (constant), `p.S = { k?: ref p.K }` : the optional field `k` gets an option -/
def optionalConstRefWitness : Schemas :=
  [{ pkg := "p", objects := [
      ("K", { name := "K", ty := .scalar "string" (.str "x") [] {}, selfPkg := "p", selfName := "K" }),
      ("S", { name := "S", ty := .struct [{ name := "k", ty := .ref "p" "K" {}, required := false }] [] none {},
              selfPkg := "p", selfName := "S" })] }]

end Cog.Builder
