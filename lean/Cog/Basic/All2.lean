/- pointwise relation between two lists (core Lean has no `List.Forall₂`) -/
namespace Cog

inductive All2 {α β : Type _} (R : α → β → Prop) : List α → List β → Prop
  | nil : All2 R [] []
  | cons {a b as bs} : R a b → All2 R as bs → All2 R (a :: as) (b :: bs)

namespace All2
variable {α β : Type _} {R : α → β → Prop}

@[simp] theorem nil_left {bs : List β} : All2 R [] bs ↔ bs = [] := by
  constructor
  · intro h; cases h; rfl
  · rintro rfl; exact .nil

@[simp] theorem nil_right {as : List α} : All2 R as [] ↔ as = [] := by
  constructor
  · intro h; cases h; rfl
  · rintro rfl; exact .nil

@[simp] theorem cons_cons {a b} {as : List α} {bs : List β} :
    All2 R (a :: as) (b :: bs) ↔ R a b ∧ All2 R as bs := by
  constructor
  · intro h; cases h with | cons h1 h2 => exact ⟨h1, h2⟩
  · rintro ⟨h1, h2⟩; exact .cons h1 h2

theorem length_eq {as : List α} {bs : List β} (h : All2 R as bs) : as.length = bs.length := by
  induction h with
  | nil => rfl
  | cons _ _ ih => simp [ih]

theorem mem_left {as : List α} {bs : List β} (h : All2 R as bs) {a} (ha : a ∈ as) :
    ∃ b ∈ bs, R a b := by
  induction h with
  | nil => simp at ha
  | cons h1 _ ih =>
    cases List.mem_cons.1 ha with
    | inl e => subst e; exact ⟨_, by simp, h1⟩
    | inr e => obtain ⟨b, hb, hr⟩ := ih e; exact ⟨b, by simp [hb], hr⟩

theorem mem_right {as : List α} {bs : List β} (h : All2 R as bs) {b} (hb : b ∈ bs) :
    ∃ a ∈ as, R a b := by
  induction h with
  | nil => simp at hb
  | cons h1 _ ih =>
    cases List.mem_cons.1 hb with
    | inl e => subst e; exact ⟨_, by simp, h1⟩
    | inr e => obtain ⟨a, ha, hr⟩ := ih e; exact ⟨a, by simp [ha], hr⟩

theorem map_eq {γ : Type _} {as : List α} {bs : List β} (f : α → γ) (g : β → γ)
    (hR : ∀ a b, R a b → g b = f a) (h : All2 R as bs) : bs.map g = as.map f := by
  induction h with
  | nil => rfl
  | cons h1 _ ih => simp [hR _ _ h1, ih]

end All2
end Cog
