/-
  S-expressions: the interchange syntax between the Go harness and the Lean driver ("VIR").
  atom | "string" | ( sexp* ).  Strings use Go's strconv.Quote ASCII escapes (\" \\ \n \t \r \xHH \uHHHH).
  Driver-side code only (no theorem depends on the parser).
-/
namespace Cog

inductive Sexp where
  | atom (s : String)
  | str (s : String)
  | list (xs : List Sexp)
  deriving Inhabited

namespace Sexp

def hexDigit (n : Nat) : Char := if n < 10 then Char.ofNat (48 + n) else Char.ofNat (87 + n)

def quote (s : String) : String :=
  let body := s.foldl (fun acc c =>
    if c == '"' then acc ++ "\\\""
    else if c == '\\' then acc ++ "\\\\"
    else if c == '\n' then acc ++ "\\n"
    else if c == '\t' then acc ++ "\\t"
    else if c == '\r' then acc ++ "\\r"
    else if c.toNat < 32 || c.toNat == 127 then
      acc ++ "\\x" ++ String.singleton (hexDigit (c.toNat / 16)) ++ String.singleton (hexDigit (c.toNat % 16))
    else acc.push c) ""
  "\"" ++ body ++ "\""

partial def render : Sexp → String
  | atom s => s
  | str s => quote s
  | list xs => "(" ++ " ".intercalate (xs.map render) ++ ")"

inductive Tok where
  | lp | rp | atom (s : String) | str (s : String)

def hexVal (c : Char) : Nat :=
  if '0' ≤ c ∧ c ≤ '9' then c.toNat - 48
  else if 'a' ≤ c ∧ c ≤ 'f' then c.toNat - 87
  else if 'A' ≤ c ∧ c ≤ 'F' then c.toNat - 55 else 0

partial def lexStr (cs : List Char) (acc : String) : String × List Char :=
  match cs with
  | [] => (acc, [])
  | '"' :: rest => (acc, rest)
  | '\\' :: 'n' :: rest => lexStr rest (acc.push '\n')
  | '\\' :: 't' :: rest => lexStr rest (acc.push '\t')
  | '\\' :: 'r' :: rest => lexStr rest (acc.push '\r')
  | '\\' :: 'x' :: a :: b :: rest => lexStr rest (acc.push (Char.ofNat (hexVal a * 16 + hexVal b)))
  | '\\' :: 'u' :: a :: b :: c :: d :: rest =>
    lexStr rest (acc.push (Char.ofNat (((hexVal a * 16 + hexVal b) * 16 + hexVal c) * 16 + hexVal d)))
  | '\\' :: c :: rest => lexStr rest (acc.push c)
  | c :: rest => lexStr rest (acc.push c)

partial def lex (cs : List Char) (acc : Array Tok) : Array Tok :=
  match cs with
  | [] => acc
  | '(' :: rest => lex rest (acc.push .lp)
  | ')' :: rest => lex rest (acc.push .rp)
  | ' ' :: rest => lex rest acc
  | '"' :: rest => let (s, rest') := lexStr rest ""; lex rest' (acc.push (.str s))
  | c :: rest =>
    let rec go (cs : List Char) (a : String) : String × List Char :=
      match cs with
      | [] => (a, [])
      | c :: r => if c == ' ' || c == '(' || c == ')' then (a, c :: r) else go r (a.push c)
    let (a, rest') := go rest (String.singleton c)
    lex rest' (acc.push (.atom a))

partial def parseToks (toks : Array Tok) (i : Nat) : Option (Sexp × Nat) :=
  match toks[i]? with
  | none => none
  | some .rp => none
  | some (.atom a) => some (atom a, i + 1)
  | some (.str s) => some (str s, i + 1)
  | some .lp =>
    let rec items (j : Nat) (acc : Array Sexp) : Option (Sexp × Nat) :=
      match toks[j]? with
      | none => none
      | some .rp => some (list acc.toList, j + 1)
      | _ => match parseToks toks j with
        | none => none
        | some (x, j') => items j' (acc.push x)
    items (i + 1) #[]

def parse (s : String) : Option Sexp :=
  let toks := lex s.toList #[]
  match parseToks toks 0 with
  | some (x, n) => if n == toks.size then some x else none
  | none => none

/-- parse a whole line into a list of top-level items -/
def parseMany (s : String) : Option (List Sexp) :=
  match parse ("(" ++ s ++ ")") with
  | some (list xs) => some xs
  | _ => none

end Sexp
end Cog
