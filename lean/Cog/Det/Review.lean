/-
  C03 — the hand-maintained side of the site obligation.

  The regenerated table (Cog/Gen/MapRangeSites.lean) lists every `range` over a map and every
  call of a function that hands out map contents in iteration order.  A site is accepted iff

    (1) it lies outside a cog run, or
    (2) all its effects are admissible (each admissible effect has a theorem, `Effect.sound`)
        and every module function called from its body is on `reviewedCallees`, or
    (3) it is on `knownNondeterministic`: genuinely order-dependent on the current tree,
        replayed on the real code by a recipe of the harness (these are cog defects), or
    (4) it is on `reviewedSites`: the syntactic classifier cannot prove it, a reviewer did,
        and the facts the review relies on are pinned (`needsSort`).

  Sites are matched by file + enclosing function + kind + effect list — never by line number,
  so that edits which merely shift lines do not alarm.  A site that is new, or whose effects
  changed, matches nothing and fails `C03_sites`.
-/
import Cog.Det.Site
import Cog.Gen.MapRangeSites
namespace Cog.Det

structure SiteKey where
  file : String
  func : String
  kind : SiteKind
  effects : List Effect
  deriving DecidableEq, Repr

def Site.key (s : Site) : SiteKey := ⟨s.file, s.func, s.kind, s.effects⟩

/-- a fact of `Gen.sortFacts` a review depends on: (file, function, what is sorted) -/
abbrev SortDep := String × String × String

def sortDepHolds (d : SortDep) : Bool :=
  Gen.sortFacts.any (fun f => f.file == d.1 && f.func == d.2.1 && f.what == d.2.2)

/-! ### (3) order-dependent today — each one replayed on the real code (harness recipe named) -/


def knownNondeterministic : List SiteKey := [
  -- empty today.  The eight sites found by this check on the pinned tree
  --   inferDiscriminatorField, Schemas.Consolidate/LoadSchemas, FieldsSetDefault.processObject,
  --   Pipeline.interpolate, ConverterGenerator.FromBuilder, ComposeBuilders,
  --   typescript formatValue, referenceResolver.packageForToken
  -- were repaired in /repo by `fix:` commits (keys sorted before ranging; see
  -- known_findings.json "fixed").  They are now classified collectThenSort and proved; the
  -- recipes that exposed them stay in the harness as regression recipes (`fixed-*`).
]

/-! ### (4) reviewed sites -/

/-- fields that a `DeepCopy` method does not rebuild recursively although they can hold IR
    structure, and that the language loop may nevertheless live with (none today) -/
def allowedShallowCopies : List (String × String) := []

/-- the per-language isolation the loop over output languages relies on: every `DeepCopy`
    method reachable from a run rebuilds every structure-carrying field through a recursive
    DeepCopy / deepCopyValue call (regenerated facts `Gen.shallowCopies`; the full statement
    about copies is C18's) -/
def copiesAreDeep : Bool :=
  Gen.shallowCopies.all (fun f => f.outsideRun || allowedShallowCopies.contains (f.func, f.what))

structure ReviewedSite where
  key : SiteKey
  needsSort : List SortDep := []
  needsDeepCopies : Bool := false
  why : String
  deriving Repr

def reviewedSites : List ReviewedSite := [
  { key := ⟨"internal/codegen/run.go", "Pipeline.Run", .range, [.allMustSucceed, .opaqueEffect, .unknown]⟩,
    needsDeepCopies := true,
    why := "one iteration per output language: `reporter` is progress text (not an output), \
            `ContextForLanguage` works on the schemas returned by `LoadSchemas` and its passes \
            copy before writing, `languageJennies` is created in the iteration, and the files \
            go into the path-keyed FS under a per-language prefix (S_merge_fs). Validated by the \
            all-languages pipeline recipes." },
  { key := ⟨"internal/codegen/run.go", "Pipeline.Run", .leakCall, [.appendUnsorted]⟩,
    why := "`AsLanguageRefs()` only feeds `RepositoryTemplate.Generate`, which renders one \
            directory per language into a codejen file list (path-keyed, S_emit_files)." },
  { key := ⟨"internal/jennies/python/builder.go", "Builder.Generate", .range,
            [.allMustSucceed, .emitFiles, .lastWriteWins]⟩,
    why := "the four `jenny.*` fields are re-assigned unconditionally at the top of every \
            iteration before any read, and `jenny` is a value receiver: nothing survives the loop" },
  { key := ⟨"internal/openapi/generator.go", "generator.declareDefinition", .range,
            [.allMustSucceed, .opaqueEffect]⟩,
    needsSort := [("internal/openapi/generator.go", "GenerateAST", "g.schema.Objects.Sort")],
    why := "objects are inserted into the ordered map in iteration order under their (unique) \
            definition name; the only caller sorts the map by name right after \
            (orderedInsertThenSort across a call)" },
  { key := ⟨"helpers.go", "CUEImports", .range, [.appendUnsorted]⟩,
    why := "library API only: the list is turned into a map (`buildLibrariesMap`) and into a \
            merged FS of per-import-path directories whose paths are disjoint for distinct keys" }
]

/-! ### (2) functions that may be called from the body of an admissible site -/

structure CalleeReview where
  name : String
  needsSort : List SortDep := []
  why : String := "pure function of its arguments"
  deriving Repr

def reviewedCallees : List CalleeReview := [
  { name := "ast.Comments" }, { name := "ast.NewStructField" }, { name := "ast.NewSchema" },
  { name := "ast.Type.AsStruct" },
  { name := "ast.deepCopyValue", why := "returns a fresh recursive copy of its argument, writes nothing else" },
  { name := "compiler.FieldReferenceFromString", why := "pure string split (its injectivity is reviewed separately, pinned to its body)" }, { name := "tools.ItemInList" }, { name := "tools.UpperCamelCase" },
  { name := "ast.Schema.Merge", why := "mutates only the schema created in the same iteration" },
  { name := "orderedmap.Map.Remove", why := "the deleteKeys effect itself" },
  { name := "orderedmap.Map.Set", why := "the orderedInsert effect itself" },
  { name := "common.APIReference.kindBadge" },
  { name := "dyn:jenny.Formatter.ObjectName", why := "language formatter callback, pure" },
  { name := "common.APIReference.referenceForObject", why := "renders one object, reads the collector" },
  { name := "dyn:interpolator",
    why := "`Pipeline.interpolate`: a function of (string, parameters); its own map range is the \
            known site `Pipeline.interpolate`" },
  { name := "java.Config.builderFactoryClassForPackage" }, { name := "java.formatPackageName" },
  { name := "java.formatScalarType" },
  { name := "java.Factory.generateFactories", why := "fresh import map per call; template funcs set then rendered" },
  { name := "php.Config.builderFactoryClassForPackage" }, { name := "php.formatObjectName" },
  { name := "php.formatPackageName" },
  { name := "php.Factory.generateFactories", why := "template funcs set then rendered" },
  { name := "typescript.Config.pathWithPrefix" }, { name := "typescript.formatPackageName" },
  { name := "typescript.Index.generateIndex", why := "renders the (sorted by caller) refs of one package" },
  { name := "jsonschema.schemaComments" }, { name := "openapi.schemaComments" },
  { name := "jsonschema.generator.walkDefinition",
    needsSort := [("internal/jsonschema/generator.go", "GenerateAST", "g.schema.Objects.Sort")],
    why := "may add referenced definitions to the schema in visiting order; `GenerateAST` sorts \
            the objects by name afterwards" },
  { name := "openapi.generator.walkSchemaRef",
    needsSort := [("internal/openapi/generator.go", "GenerateAST", "g.schema.Objects.Sort")],
    why := "pure apart from recursion into walkObject (itself a site); objects sorted by the caller" }
]

/-! ### sort keys: `collectThenSort` by a field of the collected elements

    `S_collect_then_sort` has the premise that the order is antisymmetric on the collected
    elements.  The extractor accepts on its own: orders on the elements themselves, lexicographic
    comparators that end on the element or cover all fields of its struct type, and a field
    that the loop visibly fills with the range key.  Any other field comparison lands here. -/

structure SortKeyReview where
  file : String
  func : String
  key : String
  why : String
  deriving Repr

def reviewedSortKeys : List SortKeyReview := [
  { file := "internal/jsonschema/generator.go", func := "generator.walkObject", key := "fields by .Name",
    why := "each collected field is `ast.NewStructField(name, …)` with `name` the range key of \
            `schema.Properties`; NewStructField stores it in `.Name`, so `.Name` is unique" },
  { file := "internal/openapi/generator.go", func := "generator.walkObject", key := "fields by .Name",
    why := "same construction over `schema.Properties` of kin-openapi" }
]

/-! ### key derivations: `dst[f(k)] = …`

    A keyed write is admissible only if the index is injective in the range key
    (`S_keyed_write`, hypothesis `ginj`; `N_keyed_write_collision` is what happens otherwise).
    The identity is accepted by the extractor; one function application to the key is recorded
    with the hash of the function's declaration and must be listed here. -/

structure KeyDerivReview where
  file : String
  func : String
  deriv : String
  why : String
  deriving Repr

def reviewedKeyDerivations : List KeyDerivReview := [
  { file := "internal/yaml/compilerpasses.go", func := "FieldsSetDefault.AsCompilerPass",
    deriv := "defaults[compiler.FieldReferenceFromString(key)] body=0d52225ade2f",
    why := "splits the key on '.', fails unless there are exactly three parts and returns them \
            unchanged as (Package, Object, Field): distinct keys that parse give distinct triples" }
]

def keyDerivOK (s : Site) (d : String) : Bool :=
  reviewedKeyDerivations.any (fun r => r.file == s.file && r.func == s.func && r.deriv == d)

def sortKeyOK (s : Site) (k : String) : Bool :=
  reviewedSortKeys.any (fun r => r.file == s.file && r.func == s.func && r.key == k)

def calleeOK (c : String) : Bool :=
  reviewedCallees.any (fun r => r.name == c && r.needsSort.all sortDepHolds)

/-! ### the decision -/

def Site.known (s : Site) : Bool := knownNondeterministic.contains s.key

def Site.reviewed (s : Site) : Bool :=
  reviewedSites.any (fun r => r.key == s.key && r.needsSort.all sortDepHolds &&
    (!r.needsDeepCopies || copiesAreDeep))

def Site.proved (s : Site) : Bool :=
  s.admissible && s.callees.all calleeOK && s.sortKeys.all (sortKeyOK s) &&
    s.keyDerivs.all (keyDerivOK s)

def Site.ok (s : Site) : Bool := s.outsideRun || s.proved || s.known || s.reviewed

/-- the sites that make `C03_sites` fail (printed by the check to name them) -/
def offending : List Site := Gen.mapRangeSites.filter (fun s => !s.ok)

/-! ### purity -/

/-- uses of ambient state that a run may make: the working directory is an *input* of the run
    (`__current_dir`, relative output paths) -/
def allowedImpure : List (String × String × String) := [
  ("internal/codegen/pipeline.go", "PipelineFromFile", "os.Getwd"),
  ("internal/codegen/pipeline.go", "NewPipeline", "os.Getwd")
]

def Fact.ok (f : Fact) : Bool := f.outsideRun || allowedImpure.contains (f.file, f.func, f.what)

def offendingImpure : List Fact := Gen.impureUses.filter (fun f => !f.ok)

end Cog.Det
