/-
  C03 — composition.  A cog run is single-threaded Go; apart from `range` over maps it is a
  pure function of its inputs (purity facts are regenerated, see Cog/Gen/MapRangeSites.lean).
  `Prog α` is such a program: pure computation, sequencing, and `range` nodes whose body is
  again a program (so ranges nest, and a range reached twice dynamically draws a new order
  each time).  `Results p r` = "`r` is a possible result of `p` for some choice of iteration
  orders".  `Adm p` = every `range` node of `p` is order-insensitive.  Theorem
  `run_deterministic`: an admissible program has at most one result.
-/
import Cog.Det.Fold
namespace Cog.Det

open List

inductive Prog : Type → Type 1 where
  | pure {α : Type} (a : α) : Prog α
  | bind {α β : Type} (p : Prog β) (f : β → Prog α) : Prog α
  /-- `s := init; for k, v := range entries { s = body(s, (k, v)) }; return s` -/
  | range {S X : Type} (entries : List X) (init : S) (body : S → X → Prog S) : Prog S

/-- running a loop body over the entries in one given order, threading the state -/
def FoldResults {S X : Type} (step : S → X → S → Prop) : S → List X → S → Prop
  | s, [], r => r = s
  | s, x :: xs, r => ∃ s', step s x s' ∧ FoldResults step s' xs r

/-- possible results of a program, over all choices of iteration orders -/
def Results : {α : Type} → Prog α → α → Prop
  | _, .pure a, r => r = a
  | _, .bind p f, r => ∃ b, Results p b ∧ Results (f b) r
  | _, .range entries init body, r =>
      ∃ l, l ~ entries ∧ FoldResults (fun s x s' => Results (body s x) s') init l r

def Deterministic {α : Type} (p : Prog α) : Prop := ∀ r₁ r₂, Results p r₁ → Results p r₂ → r₁ = r₂

/-- every `range` node is order-insensitive: its body is deterministic with denotation
    `den`, and folding `den` over the entries is permutation-invariant -/
inductive Adm : {α : Type} → Prog α → Prop where
  | pure {α : Type} (a : α) : Adm (.pure a)
  | bind {α β : Type} {p : Prog β} {f : β → Prog α} : Adm p → (∀ b, Adm (f b)) → Adm (.bind p f)
  | range {S X : Type} {entries : List X} {init : S} {body : S → X → Prog S} (den : S → X → S) :
      (∀ s x, Adm (body s x)) →
      (∀ s x r, Results (body s x) r → r = den s x) →
      PermInv den init entries →
      Adm (.range entries init body)

theorem foldResults_den {S X : Type} {step : S → X → S → Prop} {den : S → X → S}
    (h : ∀ s x r, step s x r → r = den s x) :
    ∀ (l : List X) (s r : S), FoldResults step s l r → r = l.foldl den s
  | [], _, _, hr => hr
  | x :: xs, s, r, ⟨s', hs, hr⟩ => by
    have := h s x s' hs
    subst this
    exact foldResults_den h xs _ r hr

/-- **Composition theorem.**  A program all of whose map ranges are admissible returns the
    same result for every choice of iteration orders. -/
theorem run_deterministic {α : Type} {p : Prog α} (h : Adm p) : Deterministic p := by
  induction h with
  | pure a => intro r₁ r₂ h₁ h₂; exact h₁.trans h₂.symm
  | bind _ _ ihp ihf =>
    intro r₁ r₂ ⟨b₁, hb₁, hr₁⟩ ⟨b₂, hb₂, hr₂⟩
    have := ihp b₁ b₂ hb₁ hb₂
    subst this
    exact ihf b₁ r₁ r₂ hr₁ hr₂
  | range den _ hden hinv _ =>
    intro r₁ r₂ ⟨l₁, p₁, h₁⟩ ⟨l₂, p₂, h₂⟩
    rw [foldResults_den hden l₁ _ r₁ h₁, foldResults_den hden l₂ _ r₂ h₂]
    exact hinv l₁ l₂ p₁ p₂

/-- a loop whose body is a pure function of (state, entry) -/
def Prog.rangePure {S X : Type} (entries : List X) (init : S) (den : S → X → S) : Prog S :=
  .range entries init (fun s x => .pure (den s x))

theorem Adm.rangePure {S X : Type} {entries : List X} {init : S} {den : S → X → S}
    (h : PermInv den init entries) : Adm (Prog.rangePure entries init den) :=
  Adm.range den (fun _ _ => Adm.pure _) (fun _ _ _ hr => hr) h

/-- non-vacuity of `Results`: every program has a result (the schedule "as listed") -/
theorem results_nonempty {α : Type} (p : Prog α) (h : Adm p) : ∃ r, Results p r := by
  induction h with
  | pure a => exact ⟨a, rfl⟩
  | bind _ _ ihp ihf =>
    obtain ⟨b, hb⟩ := ihp
    obtain ⟨r, hr⟩ := ihf b
    exact ⟨r, b, hb, hr⟩
  | @range S X entries init body den _ hden _ ihb =>
    have : ∀ (l : List X) (s : S), ∃ r, FoldResults (fun s x s' => Results (body s x) s') s l r := by
      intro l
      induction l with
      | nil => intro s; exact ⟨s, rfl⟩
      | cons x xs ih =>
        intro s
        obtain ⟨s', hs'⟩ := ihb s x
        obtain ⟨r, hr⟩ := ih s'
        exact ⟨r, s', hs', hr⟩
    obtain ⟨r, hr⟩ := this entries init
    exact ⟨r, entries, Perm.refl _, hr⟩

/-- and a non-admissible range really has two results: the witness of `N_first_match_break`
    as a program -/
theorem not_deterministic_example :
    ¬ Deterministic (Prog.rangePure ["kind", "type"] (none : Option String)
        (fun s x => match s with | none => some x | some y => some y)) := by
  intro h
  have h1 : Results (Prog.rangePure ["kind", "type"] (none : Option String)
        (fun s x => match s with | none => some x | some y => some y)) (some "kind") :=
    ⟨["kind", "type"], Perm.refl _, _, rfl, _, rfl, rfl⟩
  have h2 : Results (Prog.rangePure ["kind", "type"] (none : Option String)
        (fun s x => match s with | none => some x | some y => some y)) (some "type") :=
    ⟨["type", "kind"], Perm.swap _ _ _, _, rfl, _, rfl, rfl⟩
  exact absurd (h _ _ h1 h2) (by decide)

end Cog.Det
