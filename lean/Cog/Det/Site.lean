/-
  C03 — the vocabulary of the regenerated site table (Cog/Gen/MapRangeSites.lean, written by
  /verif/extract/xmaprange on every run) and the link from each admissible EFFECT of a loop
  body to the theorem that justifies it.
-/
import Cog.Det.Shapes
namespace Cog.Det

open List

/-- what one statement of a map-range body does to state that outlives the iteration
    (classification: extract/xmaprange/classify.go; anything unrecognised is `unknown`) -/
inductive Effect where
  -- admissible
  | keyedWrite            -- dst[k] = …            (k the range key)
  | deleteKeys            -- delete(dst, k) / ordered.Remove(k)
  | commAcc               -- n += …, n++, b = b && …
  | collectThenSort       -- xs = append(xs, …); … sort(xs) before any other use, the comparator
                          -- ordering the collected elements themselves (else see `sortKeys`)
  | collectThenFold       -- xs = append(xs, …); xs only consumed by order-insensitive loops / len
  | orderedInsertThenSort -- om.Set(…); … om.Sort(…) before any other use
  | emitFiles             -- files = append(files, codejen.File{…}) (consumer: path-keyed FS)
  | allMustSucceed        -- if … { return …, err }
  | errorCapture          -- inner = err
  | anyFlag               -- found = true [; break]   /  return <constants>
  | errorText             -- map order only reaches the text of an error
  -- accounted for elsewhere: the function returns map contents in iteration order; every
  -- call of it is a site of kind `leakCall` in the same table
  | collectReturn
  -- not admissible
  | collectThenSortByDerivedKey -- sorted, but by something that is not an order on the elements
  | appendUnsorted | firstMatchBreak | firstMatchReturn | lastWriteWins | keyedWriteDerived
  | orderedSideEffect | chainedUpdate | orderedInsert | opaqueEffect | ioEffect | unknown
  deriving DecidableEq, Repr

def Effect.admissible : Effect → Bool
  | .keyedWrite | .deleteKeys | .commAcc | .collectThenSort | .collectThenFold
  | .orderedInsertThenSort | .emitFiles | .allMustSucceed | .errorCapture | .anyFlag
  | .errorText | .collectReturn => true
  | _ => false

inductive SiteKind where
  | range | leakCall
  deriving DecidableEq, Repr

structure Site where
  file : String
  func : String
  line : Nat            -- informative only; nothing is matched on it
  kind : SiteKind
  effects : List Effect
  callees : List String -- module functions / func-typed variables called from the body
  /-- for a `collectThenSort` whose comparator looks only at some fields of the collected
      elements: "<slice> by <fields>".  `S_collect_then_sort` needs the order to be antisymmetric
      on the collected elements, i.e. these fields must determine the element; that premise is
      not visible syntactically and has to be on `reviewedSortKeys`. -/
  sortKeys : List String
  /-- for a `keyedWrite` whose index is not the range key itself but one function application
      to it: "dst[f(key)] body=<hash of f's declaration>".  `S_keyed_write` needs `f` injective
      on the ranged keys; that premise has to be on `reviewedKeyDerivations`, pinned to the
      body of `f` (a changed `f` has a different hash and is not reviewed). -/
  keyDerivs : List String
  outsideRun : Bool     -- enclosing function unreachable from cmd/cli and the public API
  ptrKey : Bool         -- key type whose identity is an address (no sort can fix that)
  deriving Repr

structure Fact where
  file : String
  func : String
  what : String
  outsideRun : Bool
  deriving Repr, DecidableEq

/-- all effects admissible and the key is not an address -/
def Site.admissible (s : Site) : Bool := s.effects.all Effect.admissible && !s.ptrKey

/-! ### each admissible effect has a theorem -/

/-- the statement that justifies an effect (for non-admissible effects: nothing is claimed) -/
def Effect.Sound : Effect → Prop
  | .keyedWrite =>
      ∀ (K V K' W : Type) [DecidableEq K'] (g : K → K') (h : K → V → W) (l₁ l₂ : List (K × V)),
        NodupKeys l₁ → l₁ ~ l₂ → (∀ a ∈ l₁, ∀ b ∈ l₁, g a.1 = g b.1 → a.1 = b.1) →
        ∀ dst : K' → Option W,
          l₁.foldl (fun s e => upd s (g e.1) (h e.1 e.2)) dst
            = l₂.foldl (fun s e => upd s (g e.1) (h e.1 e.2)) dst
  | .deleteKeys =>
      ∀ (K V W : Type) [DecidableEq K] (l₁ l₂ : List (K × V)), l₁ ~ l₂ →
        (∀ dst : K → Option W,
          l₁.foldl (fun s e => del s e.1) dst = l₂.foldl (fun s e => del s e.1) dst) ∧
        (∀ dst : List (K × W),
          l₁.foldl (fun s e => s.filter (fun x => !decide (x.1 = e.1))) dst
            = l₂.foldl (fun s e => s.filter (fun x => !decide (x.1 = e.1))) dst)
  | .commAcc =>
      ∀ (S α : Type) (op : S → S → S), (∀ a b c, op (op a b) c = op a (op b c)) →
        (∀ a b, op a b = op b a) → ∀ (w : α → S) (l₁ l₂ : List α), l₁ ~ l₂ → ∀ acc,
          l₁.foldl (fun s e => op s (w e)) acc = l₂.foldl (fun s e => op s (w e)) acc
  | .collectThenSort | .orderedInsertThenSort =>
      ∀ (α β : Type) (f : α → β) (le : β → β → Prop) (srt : List β → List β),
        (∀ l, srt l ~ l) → (∀ l, (srt l).Pairwise le) → ∀ (l₁ l₂ : List α), l₁ ~ l₂ →
        ∀ acc, (∀ a b, a ∈ collect f l₁ acc → b ∈ collect f l₁ acc → le a b → le b a → a = b) →
          srt (collect f l₁ acc) = srt (collect f l₂ acc)
  | .collectThenFold =>
      ∀ (α β S : Type) (f : α → β) (body : S → β → S),
        (∀ a b s, body (body s a) b = body (body s b) a) → ∀ (l₁ l₂ : List α), l₁ ~ l₂ →
        ∀ acc init, (collect f l₁ acc).foldl body init = (collect f l₂ acc).foldl body init
  | .emitFiles =>
      ∀ (α P B : Type) [DecidableEq P] (le : P → P → Bool), (∀ a b c, le a b → le b c → le a c) →
        (∀ a b, le a b || le b a) → (∀ a b, le a b → le b a → a = b) →
        ∀ (file : α → P × B) (l₁ l₂ : List α), l₁ ~ l₂ → ∀ files₀,
          toFS le (collect file l₁ files₀) = toFS le (collect file l₂ files₀)
  | .allMustSucceed =>
      ∀ (K V S ε : Type) (c : K × V → Option ε) (step : S → K × V → S),
        (∀ a b s, a.1 ≠ b.1 → step (step s a) b = step (step s b) a) →
        ∀ (l₁ l₂ : List (K × V)), NodupKeys l₁ → l₁ ~ l₂ → ∀ s,
          Except.outcome (foldE c step s l₁) = Except.outcome (foldE c step s l₂)
  | .errorCapture =>
      ∀ (α ε : Type) (c : α → Option ε) (l₁ l₂ : List α), l₁ ~ l₂ → ∀ init : Option ε,
        (l₁.foldl (fun acc a => match c a with | some e => some e | none => acc) init).isSome
          = (l₂.foldl (fun acc a => match c a with | some e => some e | none => acc) init).isSome
  | .anyFlag =>
      ∀ (α : Type) (q : α → Bool) (l₁ l₂ : List α), l₁ ~ l₂ → anyBreak q l₁ = anyBreak q l₂
  | .errorText =>
      -- the order only selects which error text is produced; the outcome is a failure anyway
      ∀ (α S ε : Type) (c : α → Option ε) (step : S → α → S) (s : S) (l₁ l₂ : List α), l₁ ~ l₂ →
        (∃ a ∈ l₁, c a ≠ none) →
        Except.outcome (foldE c step s l₁) = none ∧ Except.outcome (foldE c step s l₂) = none
  | .collectReturn =>
      -- what a leak function hands to its callers: some permutation of the map's contents
      ∀ (α β : Type) (f : α → β) (l₁ l₂ : List α), l₁ ~ l₂ → collect f l₁ [] ~ collect f l₂ []
  | _ => True

theorem Effect.sound : ∀ e : Effect, e.admissible = true → e.Sound := by
  intro e he
  cases e <;> try (simp [Effect.admissible] at he)
  · intro K V K' W _ g h l₁ l₂ hnd p ginj dst; exact S_keyed_write g h hnd p ginj dst
  · intro K V W _ l₁ l₂ p; exact ⟨S_delete_keys p, S_delete_keys_ordered p⟩
  · intro S α op assoc comm w l₁ l₂ p acc; exact S_commutative_acc op assoc comm w p acc
  · intro α β f le srt h1 h2 l₁ l₂ p acc anti; exact S_collect_then_sort f le srt h1 h2 p acc anti
  · intro α β S f body comm l₁ l₂ p acc init; exact S_collect_then_fold f body comm p acc init
  · intro α β f le srt h1 h2 l₁ l₂ p acc anti; exact S_collect_then_sort f le srt h1 h2 p acc anti
  · intro α P B _ le tr to an file l₁ l₂ p f0; exact S_emit_files le tr to an file p f0
  · intro K V S ε c step comm l₁ l₂ hnd p s; exact S_all_must_succeed_keys c step comm hnd p s
  · intro α ε c l₁ l₂ p init; exact S_error_capture c p init
  · intro α q l₁ l₂ p; exact S_any_flag q p
  · intro α S ε c step s l₁ l₂ p h
    exact ⟨foldE_err c step s l₁ h,
           foldE_err c step s l₂ (by obtain ⟨a, ha, hn⟩ := h; exact ⟨a, p.subset ha, hn⟩)⟩
  · intro α β f l₁ l₂ p; exact collect_perm f p []

/-! ### each non-admissible effect has an order-dependence witness -/

/-- for a non-admissible effect: a loop of that kind whose result differs between two
    iteration orders of one two-entry map (`unknown`, `opaqueEffect`, `ioEffect` are
    non-admissible because nothing is known, not because a witness exists) -/
def Effect.Witness : Effect → Prop
  | .appendUnsorted | .orderedInsert =>
      collect Prod.fst [("a", 1), ("b", 2)] [] ≠ collect Prod.fst [("b", 2), ("a", 1)] []
  | .firstMatchBreak | .firstMatchReturn =>
      firstMatch (fun _ => true) ["kind", "type"] ≠ firstMatch (fun _ => true) ["type", "kind"]
  | .lastWriteWins =>
      [("Obj.f", 1), ("obj.F", 2)].foldl (fun _ e => e.2) 0
        ≠ [("obj.F", 2), ("Obj.f", 1)].foldl (fun _ e => e.2) 0
  | .keyedWriteDerived =>
      ([(1, "x"), (2, "y")].foldl (fun s e => upd s (e.1 / 4) e.2) (fun _ => none)) 0
        ≠ ([(2, "y"), (1, "x")].foldl (fun s e => upd s (e.1 / 4) e.2) (fun _ => none)) 0
  | .orderedSideEffect =>
      [("a", 1), ("b", 2)].foldl (fun (buf : List String) e => buf ++ [e.1, ": ", toString e.2]) []
        ≠ [("b", 2), ("a", 1)].foldl (fun (buf : List String) e => buf ++ [e.1, ": ", toString e.2]) []
  | .collectThenSortByDerivedKey =>
      -- two different sorted permutations of the same collected list: sortedness by a derived,
      -- non-injective key does not determine the result (ties keep the iteration order)
      ∃ r₁ r₂ : List (String × String),
        r₁ ~ r₂ ∧ r₁.Pairwise (fun a b => a.2 ≤ b.2) ∧ r₂.Pairwise (fun a b => a.2 ≤ b.2) ∧ r₁ ≠ r₂
  | .chainedUpdate =>
      [(0, [Tok.param 1]), (1, [Tok.lit 7])].foldl substTok [Tok.param 0]
        ≠ [(1, [Tok.lit 7]), (0, [Tok.param 1])].foldl substTok [Tok.param 0]
  | _ => True

theorem Effect.witness : ∀ e : Effect, e.Witness := by
  intro e
  cases e <;> first
    | trivial
    | exact N_append_unsorted
    | exact N_first_match_break
    | exact N_last_write_wins
    | exact N_keyed_write_collision
    | exact N_ordered_side_effect
    | exact N_nested_replace
    | exact N_sort_by_derived_key

end Cog.Det
