/-
  C03 — determinism.  Meta-theorems about folds over a Go map.

  A Go `map[K]V` is modelled as its entry list with pairwise distinct keys; `range m`
  iterates over *some permutation* of that list, chosen afresh at every execution of the
  `range` statement (Go spec: "The iteration order over maps is not specified and is not
  guaranteed to be the same from one iteration to the next").  A loop
  `s := init; for k, v := range m { s = body(s, k, v) }` is therefore
  `foldl body init l` for an arbitrary `l ~ entries m`.

  Core Lean only.
-/
namespace Cog.Det

open List

variable {K V S α β : Type}

/-- the entry list of a Go map: keys are pairwise distinct -/
def NodupKeys (l : List (K × V)) : Prop := (l.map Prod.fst).Nodup

theorem NodupKeys.perm {l₁ l₂ : List (K × V)} (h : NodupKeys l₁) (p : l₁ ~ l₂) : NodupKeys l₂ :=
  (p.map Prod.fst).nodup h

/-- in a map, an entry is determined by its key -/
theorem NodupKeys.eq_of_key_eq {l : List (K × V)} (h : NodupKeys l) {x y : K × V}
    (hx : x ∈ l) (hy : y ∈ l) (hk : x.1 = y.1) : x = y := by
  induction l with
  | nil => cases hx
  | cons e t ih =>
    have hnd : e.1 ∉ t.map Prod.fst ∧ (t.map Prod.fst).Nodup := by
      simpa [NodupKeys] using h
    rcases mem_cons.1 hx with rfl | hx' <;> rcases mem_cons.1 hy with rfl | hy'
    · rfl
    · exact absurd (hk ▸ mem_map_of_mem (f := Prod.fst) hy') hnd.1
    · exact absurd (hk.symm ▸ mem_map_of_mem (f := Prod.fst) hx') hnd.1
    · exact ih hnd.2 hx' hy'

/-- **The meta-theorem.**  A fold whose body commutes gives the same result for every
    permutation of the list it ranges over. -/
theorem fold_perm_invariant {body : S → α → S}
    (comm : ∀ a b s, body (body s a) b = body (body s b) a)
    {l₁ l₂ : List α} (p : l₁ ~ l₂) (init : S) :
    l₁.foldl body init = l₂.foldl body init :=
  p.foldl_eq' (fun x _ y _ z => comm x y z) init

/-- Map version: since the keys of a map are distinct, the body only has to commute for
    entries with *different keys* (this is what makes "write to `dst[k]`" admissible). -/
theorem fold_perm_invariant_keys {body : S → K × V → S}
    (comm : ∀ a b s, a.1 ≠ b.1 → body (body s a) b = body (body s b) a)
    {l₁ l₂ : List (K × V)} (hnd : NodupKeys l₁) (p : l₁ ~ l₂) (init : S) :
    l₁.foldl body init = l₂.foldl body init :=
  p.foldl_eq' (fun x hx y hy z => by
    by_cases h : x.1 = y.1
    · have := hnd.eq_of_key_eq hx hy h
      subst this; rfl
    · exact comm x y z h) init

/-- commutation is only needed on the states reachable under an invariant `I` that the
    body preserves (used when the body commutes only on well-formed states) -/
theorem fold_perm_invariant_inv {body : S → α → S} (I : S → Prop)
    (pres : ∀ a s, I s → I (body s a))
    (comm : ∀ a b s, I s → body (body s a) b = body (body s b) a)
    {l₁ l₂ : List α} (p : l₁ ~ l₂) (init : S) (hi : I init) :
    l₁.foldl body init = l₂.foldl body init := by
  induction p generalizing init with
  | nil => rfl
  | cons x _ ih => exact ih _ (pres x init hi)
  | swap x y l => simp only [foldl]; rw [comm y x init hi]
  | trans _ _ ih₁ ih₂ => exact (ih₁ init hi).trans (ih₂ init hi)

/-- `PermInv body init es`: the loop `for e := range es` with this body and start state has
    one result, whatever order the runtime picks. -/
def PermInv (body : S → α → S) (init : S) (es : List α) : Prop :=
  ∀ l₁ l₂, l₁ ~ es → l₂ ~ es → l₁.foldl body init = l₂.foldl body init

theorem PermInv.of_comm {body : S → α → S}
    (comm : ∀ a b s, body (body s a) b = body (body s b) a) (init : S) (es : List α) :
    PermInv body init es :=
  fun _ _ p₁ p₂ => fold_perm_invariant comm (p₁.trans p₂.symm) init

theorem PermInv.of_key_comm {body : S → K × V → S}
    (comm : ∀ a b s, a.1 ≠ b.1 → body (body s a) b = body (body s b) a)
    (init : S) {es : List (K × V)} (hnd : NodupKeys es) : PermInv body init es :=
  fun _ _ p₁ p₂ => fold_perm_invariant_keys comm (hnd.perm p₁.symm) (p₁.trans p₂.symm) init

/-- observing a fold through a function keeps invariance (quotient of states) -/
theorem PermInv.map_obs {body : S → α → S} {init : S} {es : List α} (h : PermInv body init es)
    (obs : S → β) : ∀ l₁ l₂, l₁ ~ es → l₂ ~ es →
      obs (l₁.foldl body init) = obs (l₂.foldl body init) :=
  fun l₁ l₂ p₁ p₂ => congrArg obs (h l₁ l₂ p₁ p₂)

/-- Two state components updated independently: invariance of each gives invariance of the
    pair (a loop body with several effects on *different* variables). -/
theorem fold_pair {S₁ S₂ : Type} (b₁ : S₁ → α → S₁) (b₂ : S₂ → α → S₂) (s₁ : S₁) (s₂ : S₂)
    (l : List α) :
    l.foldl (fun (s : S₁ × S₂) a => (b₁ s.1 a, b₂ s.2 a)) (s₁, s₂)
      = (l.foldl b₁ s₁, l.foldl b₂ s₂) := by
  induction l generalizing s₁ s₂ with
  | nil => rfl
  | cons a t ih => simp only [foldl]; exact ih _ _

theorem PermInv.pair {S₁ S₂ : Type} {b₁ : S₁ → α → S₁} {b₂ : S₂ → α → S₂} {s₁ : S₁} {s₂ : S₂}
    {es : List α} (h₁ : PermInv b₁ s₁ es) (h₂ : PermInv b₂ s₂ es) :
    PermInv (fun (s : S₁ × S₂) a => (b₁ s.1 a, b₂ s.2 a)) (s₁, s₂) es := by
  intro l₁ l₂ p₁ p₂
  rw [fold_pair, fold_pair, h₁ l₁ l₂ p₁ p₂, h₂ l₁ l₂ p₁ p₂]

end Cog.Det
