/-
  C03 — one lemma per admissible LOOP SHAPE (each proves that the loop's result does not
  depend on the iteration order), and one concrete counterexample per NON-admissible shape
  (showing that the classification is meaningful: those shapes are order-dependent).

  Throughout: `l₁ ~ l₂` are two iteration orders of the same map (entry lists with distinct
  keys).  Core Lean only.
-/
import Cog.Det.Fold
namespace Cog.Det

open List

variable {K V S α β W K' P B ε : Type}

/-! ## S_keyed_write — `dst[g k] = h k v`, `g` injective on the ranged keys
    (covers copy-map `dst[k] = v`, in-place update `m[k] = f(v)`, set insertion) -/

/-- a destination map, observed by lookup only -/
def upd [DecidableEq K'] (s : K' → Option W) (k : K') (w : W) : K' → Option W :=
  fun x => if x = k then some w else s x

theorem upd_comm [DecidableEq K'] (s : K' → Option W) {k₁ k₂ : K'} (w₁ w₂ : W) (h : k₁ ≠ k₂) :
    upd (upd s k₁ w₁) k₂ w₂ = upd (upd s k₂ w₂) k₁ w₁ := by
  funext x
  simp only [upd]
  by_cases h1 : x = k₁ <;> by_cases h2 : x = k₂ <;> simp_all

theorem S_keyed_write [DecidableEq K'] (g : K → K') (h : K → V → W)
    {l₁ l₂ : List (K × V)} (hnd : NodupKeys l₁) (p : l₁ ~ l₂)
    (ginj : ∀ a ∈ l₁, ∀ b ∈ l₁, g a.1 = g b.1 → a.1 = b.1) (dst : K' → Option W) :
    l₁.foldl (fun s e => upd s (g e.1) (h e.1 e.2)) dst
      = l₂.foldl (fun s e => upd s (g e.1) (h e.1 e.2)) dst :=
  p.foldl_eq' (fun x hx y hy z => by
    by_cases hk : x.1 = y.1
    · have := hnd.eq_of_key_eq hx hy hk
      subst this; rfl
    · exact upd_comm z _ _ (fun c => hk (ginj x hx y hy c))) dst

/-- `dst[k] = v` (DeepCopy of hints / discriminator mappings, FuncMap merge, parameters) -/
theorem S_copy_map [DecidableEq K] {l₁ l₂ : List (K × V)} (hnd : NodupKeys l₁) (p : l₁ ~ l₂)
    (dst : K → Option V) :
    l₁.foldl (fun s e => upd s e.1 e.2) dst = l₂.foldl (fun s e => upd s e.1 e.2) dst :=
  S_keyed_write id (fun _ v => v) hnd p (fun _ _ _ _ h => h) dst

/-- `set[k] = struct{}{}` -/
theorem S_set_insert [DecidableEq K] {l₁ l₂ : List (K × V)} (hnd : NodupKeys l₁) (p : l₁ ~ l₂)
    (dst : K → Option Unit) :
    l₁.foldl (fun s e => upd s e.1 ()) dst = l₂.foldl (fun s e => upd s e.1 ()) dst :=
  S_keyed_write id (fun _ _ => ()) hnd p (fun _ _ _ _ h => h) dst

/-! ## S_delete_keys — `delete(dst, k)` / `ordered.Remove(k)` -/

def del [DecidableEq K] (s : K → Option W) (k : K) : K → Option W :=
  fun x => if x = k then none else s x

theorem S_delete_keys [DecidableEq K] {l₁ l₂ : List (K × V)} (p : l₁ ~ l₂) (dst : K → Option W) :
    l₁.foldl (fun s e => del s e.1) dst = l₂.foldl (fun s e => del s e.1) dst :=
  fold_perm_invariant (fun a b s => by
    funext x; simp only [del]; by_cases h1 : x = a.1 <;> by_cases h2 : x = b.1 <;> simp_all) p dst

/-- removal from an insertion-ordered map (internal/orderedmap: `Remove` filters `order`) -/
theorem S_delete_keys_ordered [DecidableEq K] {l₁ l₂ : List (K × V)} (p : l₁ ~ l₂)
    (dst : List (K × W)) :
    l₁.foldl (fun s e => s.filter (fun x => !decide (x.1 = e.1))) dst
      = l₂.foldl (fun s e => s.filter (fun x => !decide (x.1 = e.1))) dst :=
  fold_perm_invariant (fun a b s => by
    simp only [filter_filter]; congr 1; funext x; exact Bool.and_comm _ _) p dst

/-! ## S_commutative_acc — `acc = acc ⊕ w(k,v)` with ⊕ associative and commutative
    (`&&`, `||`, `+`, `max`, counting) -/

theorem S_commutative_acc (op : S → S → S) (assoc : ∀ a b c, op (op a b) c = op a (op b c))
    (comm : ∀ a b, op a b = op b a) (w : α → S) {l₁ l₂ : List α} (p : l₁ ~ l₂) (acc : S) :
    l₁.foldl (fun s e => op s (w e)) acc = l₂.foldl (fun s e => op s (w e)) acc :=
  fold_perm_invariant (fun a b s => by rw [assoc, assoc, comm (w a)]) p acc

theorem S_acc_and (w : α → Bool) {l₁ l₂ : List α} (p : l₁ ~ l₂) (acc : Bool) :
    l₁.foldl (fun s e => s && w e) acc = l₂.foldl (fun s e => s && w e) acc :=
  S_commutative_acc (· && ·) Bool.and_assoc Bool.and_comm w p acc

theorem S_acc_or (w : α → Bool) {l₁ l₂ : List α} (p : l₁ ~ l₂) (acc : Bool) :
    l₁.foldl (fun s e => s || w e) acc = l₂.foldl (fun s e => s || w e) acc :=
  S_commutative_acc (· || ·) Bool.or_assoc Bool.or_comm w p acc

theorem S_acc_add (w : α → Nat) {l₁ l₂ : List α} (p : l₁ ~ l₂) (acc : Nat) :
    l₁.foldl (fun s e => s + w e) acc = l₂.foldl (fun s e => s + w e) acc :=
  S_commutative_acc (· + ·) Nat.add_assoc Nat.add_comm w p acc

theorem S_acc_max (w : α → Nat) {l₁ l₂ : List α} (p : l₁ ~ l₂) (acc : Nat) :
    l₁.foldl (fun s e => max s (w e)) acc = l₂.foldl (fun s e => max s (w e)) acc :=
  S_commutative_acc max Nat.max_assoc Nat.max_comm w p acc

theorem S_acc_count (q : α → Bool) {l₁ l₂ : List α} (p : l₁ ~ l₂) (acc : Nat) :
    l₁.foldl (fun s e => s + (if q e then 1 else 0)) acc
      = l₂.foldl (fun s e => s + (if q e then 1 else 0)) acc :=
  S_acc_add (fun e => if q e then 1 else 0) p acc

/-! ## S_pure_lookup — the body has no effect on state that outlives the iteration -/

theorem S_pure_lookup {l₁ l₂ : List α} (_p : l₁ ~ l₂) (s : S) :
    l₁.foldl (fun s _ => s) s = l₂.foldl (fun s _ => s) s := by
  have : ∀ l : List α, l.foldl (fun s _ => s) s = s := by
    intro l; induction l <;> simp_all [foldl]
  rw [this, this]

/-! ## S_collect_then_sort — append in map order, sort before any use.
    Stated for *any* sorting procedure (Go's `sort.Slice` is unstable pdqsort,
    `sort.SliceStable`, `slices.SortFunc`, `orderedmap.Sort`): all that is used is that the
    result is a sorted permutation, and that the order is antisymmetric on the collected
    elements (the sort key is the map key, which is unique). -/

theorem sorted_perm_unique (le : β → β → Prop) {c₁ c₂ r₁ r₂ : List β}
    (anti : ∀ a b, a ∈ c₁ → b ∈ c₁ → le a b → le b a → a = b)
    (pc : c₁ ~ c₂) (p₁ : r₁ ~ c₁) (s₁ : r₁.Pairwise le) (p₂ : r₂ ~ c₂) (s₂ : r₂.Pairwise le) :
    r₁ = r₂ :=
  Perm.eq_of_pairwise (le := le)
    (fun a b ha hb => anti a b (p₁.subset ha) ((p₂.trans pc.symm).subset hb))
    s₁ s₂ (p₁.trans (pc.trans p₂.symm))

/-- the collected slice, in iteration order -/
def collect (f : α → β) (l : List α) (acc : List β) : List β :=
  l.foldl (fun s e => s ++ [f e]) acc

theorem collect_eq (f : α → β) (l : List α) (acc : List β) : collect f l acc = acc ++ l.map f := by
  unfold collect
  induction l generalizing acc with
  | nil => simp
  | cons a t ih => simp [foldl, ih]

theorem collect_perm (f : α → β) {l₁ l₂ : List α} (p : l₁ ~ l₂) (acc : List β) :
    collect f l₁ acc ~ collect f l₂ acc := by
  rw [collect_eq, collect_eq]; exact (p.map f).append_left acc

theorem S_collect_then_sort (f : α → β) (le : β → β → Prop) (srt : List β → List β)
    (srt_perm : ∀ l, srt l ~ l) (srt_sorted : ∀ l, (srt l).Pairwise le)
    {l₁ l₂ : List α} (p : l₁ ~ l₂) (acc : List β)
    (anti : ∀ a b, a ∈ collect f l₁ acc → b ∈ collect f l₁ acc → le a b → le b a → a = b) :
    srt (collect f l₁ acc) = srt (collect f l₂ acc) :=
  sorted_perm_unique le anti (collect_perm f p acc) (srt_perm _) (srt_sorted _) (srt_perm _)
    (srt_sorted _)

/-- instance with the model's own sort (`List.mergeSort`) and a total preorder given as a
    Bool comparator, antisymmetric on the collected elements -/
theorem S_collect_then_mergeSort (f : α → β) (le : β → β → Bool)
    (trans : ∀ a b c, le a b → le b c → le a c) (total : ∀ a b, le a b || le b a)
    {l₁ l₂ : List α} (p : l₁ ~ l₂) (acc : List β)
    (anti : ∀ a b, a ∈ collect f l₁ acc → b ∈ collect f l₁ acc → le a b → le b a → a = b) :
    (collect f l₁ acc).mergeSort le = (collect f l₂ acc).mergeSort le :=
  S_collect_then_sort f (fun a b => le a b = true) (fun l => l.mergeSort le)
    (fun l => mergeSort_perm l le) (fun l => pairwise_mergeSort trans total l) p acc anti

/-! ## S_collect_then_fold — the collected slice is only ever consumed by loops that are
    themselves order-insensitive (`allTypes` in `inferDiscriminatorField`) -/

theorem S_collect_then_fold (f : α → β) (body : S → β → S)
    (comm : ∀ a b s, body (body s a) b = body (body s b) a)
    {l₁ l₂ : List α} (p : l₁ ~ l₂) (acc : List β) (init : S) :
    (collect f l₁ acc).foldl body init = (collect f l₂ acc).foldl body init :=
  fold_perm_invariant comm (collect_perm f p acc) init

/-! ## S_all_must_succeed / S_any_flag — early exit
    `for … { if bad(k,v) { return err } ; s = step(s,k,v) }`.
    The observable is success/failure and, on success, the final state; *which* error is
    reported is not part of any generated output. -/

def foldE (c : α → Option ε) (step : S → α → S) : S → List α → Except ε S
  | s, [] => .ok s
  | s, a :: l => match c a with
    | some e => .error e
    | none => foldE c step (step s a) l

/-- what the rest of the run can observe of a loop that may fail -/
def Except.outcome : Except ε S → Option S
  | .ok s => some s
  | .error _ => none

theorem foldE_ok (c : α → Option ε) (step : S → α → S) (s : S) (l : List α)
    (h : ∀ a ∈ l, c a = none) : foldE c step s l = .ok (l.foldl step s) := by
  induction l generalizing s with
  | nil => rfl
  | cons a t ih =>
    simp only [foldE, h a mem_cons_self, foldl]
    exact ih _ (fun b hb => h b (mem_cons_of_mem a hb))

theorem foldE_err (c : α → Option ε) (step : S → α → S) (s : S) (l : List α)
    (h : ∃ a ∈ l, c a ≠ none) : Except.outcome (foldE c step s l) = none := by
  induction l generalizing s with
  | nil => obtain ⟨a, ha, _⟩ := h; cases ha
  | cons a t ih =>
    simp only [foldE]
    cases hc : c a with
    | some e => rfl
    | none =>
      obtain ⟨b, hb, hne⟩ := h
      rcases mem_cons.1 hb with rfl | hb'
      · exact absurd hc hne
      · exact ih _ ⟨b, hb', hne⟩

theorem S_all_must_succeed (c : α → Option ε) (step : S → α → S)
    (comm : ∀ a b s, step (step s a) b = step (step s b) a)
    {l₁ l₂ : List α} (p : l₁ ~ l₂) (s : S) :
    Except.outcome (foldE c step s l₁) = Except.outcome (foldE c step s l₂) := by
  by_cases h : ∃ a ∈ l₁, c a ≠ none
  · rw [foldE_err c step s l₁ h,
        foldE_err c step s l₂ (by obtain ⟨a, ha, hn⟩ := h; exact ⟨a, p.subset ha, hn⟩)]
  · have h1 : ∀ a ∈ l₁, c a = none := fun a ha => Classical.byContradiction fun hn => h ⟨a, ha, hn⟩
    have h2 : ∀ a ∈ l₂, c a = none := fun a ha => h1 a (p.symm.subset ha)
    rw [foldE_ok c step s l₁ h1, foldE_ok c step s l₂ h2, fold_perm_invariant comm p s]

/-- same, for a map (step only has to commute on different keys) -/
theorem S_all_must_succeed_keys (c : K × V → Option ε) (step : S → K × V → S)
    (comm : ∀ a b s, a.1 ≠ b.1 → step (step s a) b = step (step s b) a)
    {l₁ l₂ : List (K × V)} (hnd : NodupKeys l₁) (p : l₁ ~ l₂) (s : S) :
    Except.outcome (foldE c step s l₁) = Except.outcome (foldE c step s l₂) := by
  by_cases h : ∃ a ∈ l₁, c a ≠ none
  · rw [foldE_err c step s l₁ h,
        foldE_err c step s l₂ (by obtain ⟨a, ha, hn⟩ := h; exact ⟨a, p.subset ha, hn⟩)]
  · have h1 : ∀ a ∈ l₁, c a = none := fun a ha => Classical.byContradiction fun hn => h ⟨a, ha, hn⟩
    have h2 : ∀ a ∈ l₂, c a = none := fun a ha => h1 a (p.symm.subset ha)
    rw [foldE_ok c step s l₁ h1, foldE_ok c step s l₂ h2, fold_perm_invariant_keys comm hnd p s]

/-- `found := false; for … { if q(k,v) { found = true; break } }` -/
def anyBreak (q : α → Bool) : List α → Bool
  | [] => false
  | a :: l => if q a then true else anyBreak q l

theorem anyBreak_eq_any (q : α → Bool) (l : List α) : anyBreak q l = l.any q := by
  induction l with
  | nil => rfl
  | cons a t ih => simp only [anyBreak, any_cons, ih]; cases q a <;> rfl

theorem any_perm (q : α → Bool) {l₁ l₂ : List α} (p : l₁ ~ l₂) : l₁.any q = l₂.any q := by
  rw [Bool.eq_iff_iff, any_eq_true, any_eq_true]
  exact ⟨fun ⟨a, ha, h⟩ => ⟨a, p.subset ha, h⟩, fun ⟨a, ha, h⟩ => ⟨a, p.symm.subset ha, h⟩⟩

theorem S_any_flag (q : α → Bool) {l₁ l₂ : List α} (p : l₁ ~ l₂) :
    anyBreak q l₁ = anyBreak q l₂ := by
  rw [anyBreak_eq_any, anyBreak_eq_any, any_perm q p]

/-- `var inner error; for … { if err != nil { inner = err } }; if inner != nil { fail }`:
    last error wins, but only *whether* there was one is observed -/
theorem S_error_capture (c : α → Option ε) {l₁ l₂ : List α} (p : l₁ ~ l₂) (init : Option ε) :
    (l₁.foldl (fun acc a => match c a with | some e => some e | none => acc) init).isSome
      = (l₂.foldl (fun acc a => match c a with | some e => some e | none => acc) init).isSome := by
  have key : ∀ (l : List α) (i : Option ε),
      (l.foldl (fun acc a => match c a with | some e => some e | none => acc) i).isSome
        = (i.isSome || l.any (fun a => (c a).isSome)) := by
    intro l
    induction l with
    | nil => intro i; simp
    | cons a t ih =>
      intro i
      simp only [foldl, any_cons, ih]
      cases c a <;> cases i <;> simp
  rw [key, key, any_perm _ p]

/-! ## S_emit_files — every iteration appends one file `(path k, content k v)`; the consumer
    is codejen's FS: path-keyed, duplicate path ⇒ error, `AsFiles` sorted by path. -/

/-- codejen `FS.Add` + `AsFiles` on a list of files -/
def toFS [DecidableEq P] (le : P → P → Bool) (fs : List (P × B)) : Option (List (P × B)) :=
  if (fs.map Prod.fst).Nodup then some (fs.mergeSort (fun a b => le a.1 b.1)) else none

theorem toFS_perm [DecidableEq P] (le : P → P → Bool)
    (trans : ∀ a b c, le a b → le b c → le a c) (total : ∀ a b, le a b || le b a)
    (anti : ∀ a b, le a b → le b a → a = b)
    {f₁ f₂ : List (P × B)} (p : f₁ ~ f₂) : toFS le f₁ = toFS le f₂ := by
  unfold toFS
  have hn : (f₁.map Prod.fst).Nodup ↔ (f₂.map Prod.fst).Nodup := (p.map Prod.fst).nodup_iff
  by_cases h : (f₁.map Prod.fst).Nodup
  · rw [if_pos h, if_pos (hn.1 h)]
    congr 1
    refine sorted_perm_unique (fun a b => le a.1 b.1 = true) ?_ p (mergeSort_perm _ _)
      (pairwise_mergeSort (fun a b c => trans a.1 b.1 c.1) (fun a b => total a.1 b.1) _)
      (mergeSort_perm _ _)
      (pairwise_mergeSort (fun a b c => trans a.1 b.1 c.1) (fun a b => total a.1 b.1) _)
    intro a b ha hb hab hba
    exact NodupKeys.eq_of_key_eq (l := f₁) h ha hb (anti _ _ hab hba)
  · rw [if_neg h, if_neg (fun c => h (hn.2 c))]

theorem S_emit_files [DecidableEq P] (le : P → P → Bool)
    (trans : ∀ a b c, le a b → le b c → le a c) (total : ∀ a b, le a b || le b a)
    (anti : ∀ a b, le a b → le b a → a = b)
    (file : α → P × B) {l₁ l₂ : List α} (p : l₁ ~ l₂) (files₀ : List (P × B)) :
    toFS le (collect file l₁ files₀) = toFS le (collect file l₂ files₀) :=
  toFS_perm le trans total anti (collect_perm file p files₀)

/-- codejen `FS.Merge`: union of path-keyed file sets is commutative up to `toFS` -/
theorem S_merge_fs [DecidableEq P] (le : P → P → Bool)
    (trans : ∀ a b c, le a b → le b c → le a c) (total : ∀ a b, le a b || le b a)
    (anti : ∀ a b, le a b → le b a → a = b) (a b : List (P × B)) :
    toFS le (a ++ b) = toFS le (b ++ a) :=
  toFS_perm le trans total anti perm_append_comm

/-! ## Non-admissible shapes: concrete order-dependence witnesses.
    Each is two iteration orders of the same two-entry map with different results. -/

/-- N_append_unsorted: `out = append(out, k)` and `out` is used as is
    (`Schemas.Consolidate`, `ComposeBuilders`, `ConverterGenerator.FromBuilder`, `tools.Keys`) -/
theorem N_append_unsorted :
    collect Prod.fst [("a", 1), ("b", 2)] [] ≠ collect Prod.fst [("b", 2), ("a", 1)] [] := by decide

/-- N_first_match_break: `for k := range m { if p(k) { r = k; break } }`
    (`inferDiscriminatorField` with two candidate fields, `packageForToken`) -/
def firstMatch (q : α → Bool) : List α → Option α
  | [] => none
  | a :: l => if q a then some a else firstMatch q l

theorem N_first_match_break :
    firstMatch (fun _ => true) ["kind", "type"] ≠ firstMatch (fun _ => true) ["type", "kind"] := by
  decide

/-- N_last_write_wins: `x = v` with `x` independent of the key (`FieldsSetDefault` when two
    references match the same field) -/
theorem N_last_write_wins :
    [("Obj.f", 1), ("obj.F", 2)].foldl (fun _ e => e.2) 0
      ≠ [("obj.F", 2), ("Obj.f", 1)].foldl (fun _ e => e.2) 0 := by decide

/-- … and the keyed variant: `dst[g k] = v` with `g` *not* injective -/
theorem N_keyed_write_collision :
    ([(1, "x"), (2, "y")].foldl (fun s e => upd s (e.1 / 4) e.2) (fun _ => none)) 0
      ≠ ([(2, "y"), (1, "x")].foldl (fun s e => upd s (e.1 / 4) e.2) (fun _ => none)) 0 := by
  decide

/-- N_ordered_side_effect: `buffer.WriteString(k)` (typescript `formatValue` on a
    `map[string]any` default) — the buffer is the list of writes -/
theorem N_ordered_side_effect :
    [("a", 1), ("b", 2)].foldl (fun (buf : List String) e => buf ++ [e.1, ": ", toString e.2]) []
      ≠ [("b", 2), ("a", 1)].foldl (fun (buf : List String) e => buf ++ [e.1, ": ", toString e.2]) []
    := by decide

/-- tokens of a string with `%name%` placeholders -/
inductive Tok where
  | lit (c : Nat)
  | param (name : Nat)
  deriving DecidableEq

/-- `strings.ReplaceAll(s, "%"+k+"%", v)` on token strings -/
def substTok (s : List Tok) (e : Nat × List Tok) : List Tok :=
  s.flatMap (fun t => if t = Tok.param e.1 then e.2 else [t])

/-- N_nested_replace: `s = strings.ReplaceAll(s, "%"+k+"%", v)` (`Pipeline.interpolate` with
    parameters `a = "%b%"`, `b = "x"` applied to `"%a%"`: one order gives `x`, the other `%b%`) -/
theorem N_nested_replace :
    [(0, [Tok.param 1]), (1, [Tok.lit 7])].foldl substTok [Tok.param 0]
      ≠ [(1, [Tok.lit 7]), (0, [Tok.param 1])].foldl substTok [Tok.param 0] := by decide

/-- N_error_value: *which* error an all-must-succeed loop reports depends on the order;
    this is why only `Except.outcome` is observable in `S_all_must_succeed`. -/
theorem N_error_value :
    foldE (S := Unit) (fun (e : String × Nat) => some e.1) (fun s _ => s) () [("a", 1), ("b", 2)]
        = .error "a" ∧
    foldE (S := Unit) (fun (e : String × Nat) => some e.1) (fun s _ => s) () [("b", 2), ("a", 1)]
        = .error "b" := ⟨rfl, rfl⟩

/-- N_sort_by_derived_key: the collected discriminator values are sorted by the class they map
    to; `dog` and `puppy` both map to `Dog`, so both orders are sorted and a (stable or not)
    sort may return either — the antisymmetry premise of `S_collect_then_sort` fails. -/
theorem N_sort_by_derived_key :
    ∃ r₁ r₂ : List (String × String),
      r₁ ~ r₂ ∧ r₁.Pairwise (fun a b => a.2 ≤ b.2) ∧ r₂.Pairwise (fun a b => a.2 ≤ b.2) ∧ r₁ ≠ r₂ :=
  ⟨[("dog", "Dog"), ("puppy", "Dog")], [("puppy", "Dog"), ("dog", "Dog")], Perm.swap _ _ _,
   by simp, by simp, by decide⟩

/-- N_ordered_insert: insertion into an insertion-ordered map *without* a later sort keeps
    the iteration order (that is what C19 proves about `orderedmap`) -/
theorem N_ordered_insert :
    collect id [("a", 1), ("b", 2)] [] ≠ collect id [("b", 2), ("a", 1)] [] := by decide

end Cog.Det
