/-
  Basic IR operations shared by the pass models: lookup, resolution (with fuel), reference
  positions, reference rewriting.  Core Lean only.

  Recursion pattern for the nested inductive `Ty` (see AGENTS.md): every traversal is a `mutual`
  block of three structurally recursive functions — on `Ty`, on `List Ty`, on `List Field`.
-/
import Cog.IR.Types
import Cog.OMap.Model
namespace Cog.IR
open Cog.OMap (rget rset rdel)

/-! ### ordered map of objects (association list; see Cog.OMap.Spec) -/

abbrev Objects := List (String × Obj)

def Schema.has (s : Schema) (name : String) : Bool := (rget name s.objects).isSome
def Schema.locateObject (s : Schema) (name : String) : Option Obj := rget name s.objects
/-- `schema.AddObject` = `Objects.Set(object.Name, object)` -/
def Schema.addObject (s : Schema) (o : Obj) : Schema := { s with objects := rset o.name o s.objects }

/-- `Schemas.Locate`: first schema with that package -/
def Schemas.locate : Schemas → String → Option Schema
  | [], _ => none
  | s :: rest, pkg => if s.pkg = pkg then some s else Schemas.locate rest pkg

/-- `Schemas.LocateObject`: first schema with that package decides -/
def Schemas.locateObject (ss : Schemas) (pkg name : String) : Option Obj :=
  match Schemas.locate ss pkg with
  | some s => s.locateObject name
  | none => none

/-- `Schemas.ResolveToType` (recursion through references: fuelled; `none` = fuel exhausted,
    which for fuel > number of objects means an alias cycle, i.e. a Go stack overflow) -/
def Schemas.resolveToType (ss : Schemas) : Nat → Ty → Option Ty
  | 0, _ => none
  | fuel + 1, t =>
    match t with
    | .ref pkg name _ =>
      match Schemas.locateObject ss pkg name with
      | some o => Schemas.resolveToType ss fuel o.ty
      | none => some t
    | _ => some t

def Schemas.objectCount (ss : Schemas) : Nat := (ss.map (·.objects.length)).sum

/-! ### reference positions

`refs` lists every `(pkg, name)` named by a type: `ref` and `constant_ref` nodes at every depth,
including map index types, enum-free positions, generated-disjunction payloads (`gen`) and
discriminator-mapping targets are listed separately (`mappingTargets`) because they are bare
object names. -/

mutual
def Ty.refs : Ty → List (String × String)
  | .scalar .. => []
  | .ref p n _ => [(p, n)]
  | .cref p n _ _ => [(p, n)]
  | .array e _ => Ty.refs e
  | .map i v _ => Ty.refs i ++ Ty.refs v
  | .struct fs g _ _ => Ty.refsFields fs ++ Ty.refsList g
  | .enum .. => []
  | .disj bs _ _ => Ty.refsList bs
  | .inter bs _ => Ty.refsList bs
  | .slot .. => []
  | .bad .. => []
def Ty.refsList : List Ty → List (String × String)
  | [] => []
  | t :: ts => Ty.refs t ++ Ty.refsList ts
def Ty.refsFields : List Field → List (String × String)
  | [] => []
  | f :: fs => Ty.refs f.ty ++ Ty.refsFields fs
end

/- rewrite every reference (ref and constant_ref, at every depth incl. map index and payloads) -/
mutual
def Ty.mapRefs (f : String × String → String × String) : Ty → Ty
  | .scalar k v c m => .scalar k v c m
  | .ref p n m => .ref (f (p, n)).1 (f (p, n)).2 m
  | .cref p n v m => .cref (f (p, n)).1 (f (p, n)).2 v m
  | .array e m => .array (Ty.mapRefs f e) m
  | .map i v m => .map (Ty.mapRefs f i) (Ty.mapRefs f v) m
  | .struct fs g gi m => .struct (Ty.mapRefsFields f fs) (Ty.mapRefsList f g) gi m
  | .enum vs m => .enum vs m
  | .disj bs i m => .disj (Ty.mapRefsList f bs) i m
  | .inter bs m => .inter (Ty.mapRefsList f bs) m
  | .slot v m => .slot v m
  | .bad k m => .bad k m
def Ty.mapRefsList (f : String × String → String × String) : List Ty → List Ty
  | [] => []
  | t :: ts => Ty.mapRefs f t :: Ty.mapRefsList f ts
def Ty.mapRefsFields (f : String × String → String × String) : List Field → List Field
  | [] => []
  | fd :: fs => { fd with ty := Ty.mapRefs f fd.ty } :: Ty.mapRefsFields f fs
end

/- proof pattern: a `mutual` theorem block mirroring the function block -/
mutual
theorem Ty.refs_mapRefs (f : String × String → String × String) :
    ∀ t : Ty, Ty.refs (Ty.mapRefs f t) = (Ty.refs t).map f
  | .scalar .. => by simp [Ty.mapRefs, Ty.refs]
  | .ref .. => by simp [Ty.mapRefs, Ty.refs]
  | .cref .. => by simp [Ty.mapRefs, Ty.refs]
  | .array e _ => by simp [Ty.mapRefs, Ty.refs, Ty.refs_mapRefs f e]
  | .map i v _ => by simp [Ty.mapRefs, Ty.refs, Ty.refs_mapRefs f i, Ty.refs_mapRefs f v]
  | .struct fs g _ _ => by
    simp [Ty.mapRefs, Ty.refs, Ty.refsFields_mapRefs f fs, Ty.refsList_mapRefs f g]
  | .enum .. => by simp [Ty.mapRefs, Ty.refs]
  | .disj bs _ _ => by simp [Ty.mapRefs, Ty.refs, Ty.refsList_mapRefs f bs]
  | .inter bs _ => by simp [Ty.mapRefs, Ty.refs, Ty.refsList_mapRefs f bs]
  | .slot .. => by simp [Ty.mapRefs, Ty.refs]
  | .bad .. => by simp [Ty.mapRefs, Ty.refs]
theorem Ty.refsList_mapRefs (f : String × String → String × String) :
    ∀ ts : List Ty, Ty.refsList (Ty.mapRefsList f ts) = (Ty.refsList ts).map f
  | [] => by simp [Ty.mapRefsList, Ty.refsList]
  | t :: ts => by
    simp [Ty.mapRefsList, Ty.refsList, Ty.refs_mapRefs f t, Ty.refsList_mapRefs f ts]
theorem Ty.refsFields_mapRefs (f : String × String → String × String) :
    ∀ fs : List Field, Ty.refsFields (Ty.mapRefsFields f fs) = (Ty.refsFields fs).map f
  | [] => by simp [Ty.mapRefsFields, Ty.refsFields]
  | fd :: fs => by
    simp [Ty.mapRefsFields, Ty.refsFields, Ty.refs_mapRefs f fd.ty, Ty.refsFields_mapRefs f fs]
end

end Cog.IR
