/-
  The IR of cog (internal/ast) as Lean data.  Core Lean only.

  * `Val`  models Go `any` values found in defaults / constants / enum values / hints and keeps
    the *dynamic Go type* (`int64` vs `float64` vs `json.Number` …), which the IR's own JSON
    encoding erases.
  * `Ty`   models `ast.Type`: one constructor per `Kind` carrying exactly the Go payload, plus
    `Meta` (Nullable, Default, Hints).  `Ty.bad k` is a `Type` whose `Kind` is `k` but whose kind
    pointer is nil (the zero `Type{}` is `bad ""`): every `As*()` accessor panics on it.
    The two struct hints that carry a `DisjunctionType` payload (`disjunction_of_scalars`,
    `disjunction_of_refs`) are the `gen`/`genInfo` components of `Ty.struct`.
  * PassesTrail / VeneerTrail are audit text and are not modelled.
-/
namespace Cog.IR

inductive Val where
  | nil
  | bool (b : Bool)
  | int (tag : String) (n : Int)        -- tag: i64 u64 i u i8 … (Go dynamic type)
  | float (tag : String) (repr : String) -- f64/f32, repr = strconv 'g' -1 text
  | jnum (s : String)                   -- json.Number
  | str (s : String)
  | list (xs : List Val)
  | map (kvs : List (String × Val))     -- map[string]any, key-sorted
  | other (goType repr : String)
  deriving Inhabited

structure Meta where
  nullable : Bool := false
  dflt : Val := .nil
  hints : List (String × Val) := []
  deriving Inhabited

structure Constraint where
  op : String
  args : List Val
  deriving Inhabited

structure EnumVal where
  name : String
  value : Val
  kind : String          -- scalar kind of the member's Type ("string", "int64", …)
  deriving Inhabited

structure DisjInfo where
  discriminator : String := ""
  mapping : List (String × String) := []   -- Go map, key-sorted
  deriving Inhabited

structure FieldOf (α : Type) where
  name : String
  ty : α
  required : Bool
  comments : List String := []
  deriving Inhabited

inductive Ty where
  | scalar (kind : String) (value : Val) (cs : List Constraint) (m : Meta)
  | ref (pkg name : String) (m : Meta)
  | cref (pkg name : String) (value : Val) (m : Meta)
  | array (elem : Ty) (m : Meta)
  | map (idx val : Ty) (m : Meta)
  | struct (fields : List (FieldOf Ty)) (gen : List Ty) (genInfo : Option (String × DisjInfo)) (m : Meta)
  | enum (values : List EnumVal) (m : Meta)
  | disj (branches : List Ty) (info : DisjInfo) (m : Meta)
  | inter (branches : List Ty) (m : Meta)
  | slot (variant : String) (m : Meta)
  | bad (kind : String) (m : Meta)
  deriving Inhabited

abbrev Field := FieldOf Ty

namespace Ty

def getMeta : Ty → Meta
  | scalar _ _ _ m | ref _ _ m | cref _ _ _ m | array _ m | map _ _ m | struct _ _ _ m
  | enum _ m | disj _ _ m | inter _ m | slot _ m | bad _ m => m

def setMeta (m : Meta) : Ty → Ty
  | scalar k v c _ => scalar k v c m
  | ref p n _ => ref p n m
  | cref p n v _ => cref p n v m
  | array e _ => array e m
  | map i v _ => map i v m
  | struct f g gi _ => struct f g gi m
  | enum vs _ => enum vs m
  | disj b i _ => disj b i m
  | inter b _ => inter b m
  | slot v _ => slot v m
  | bad k _ => bad k m

def kind : Ty → String
  | scalar .. => "scalar" | ref .. => "ref" | cref .. => "constant_ref" | array .. => "array"
  | map .. => "map" | struct .. => "struct" | enum .. => "enum" | disj .. => "disjunction"
  | inter .. => "intersection" | slot .. => "composable_slot" | bad k _ => k

def isRef : Ty → Bool | ref .. => true | _ => false
def isStruct : Ty → Bool | struct .. => true | _ => false
def isScalar : Ty → Bool | scalar .. => true | _ => false
def isDisj : Ty → Bool | disj .. => true | _ => false
def isEnum : Ty → Bool | enum .. => true | _ => false
def isArray : Ty → Bool | array .. => true | _ => false
def isMap : Ty → Bool | map .. => true | _ => false

end Ty

structure Obj where
  name : String
  comments : List String := []
  ty : Ty
  selfPkg : String
  selfName : String
  deriving Inhabited

structure SchemaMeta where
  kind : String := ""
  variant : String := ""
  identifier : String := ""
  deriving Inhabited, DecidableEq

/-- `ast.Schema`.  `objects` is the ordered map (association list in first-insertion order with
    unique keys; justified by the C19 refinement theorem). -/
structure Schema where
  pkg : String
  smeta : SchemaMeta := {}
  entryPoint : String := ""
  entryPointType : Ty := .bad "" {}
  objects : List (String × Obj) := []
  deriving Inhabited

abbrev Schemas := List Schema

/-- what a pass can return -/
inductive Outcome (α : Type) where
  | ok (a : α)
  | err (msg : String)
  | panic (site : String)
  deriving Inhabited

instance : Monad Outcome where
  pure := .ok
  bind x f := match x with
    | .ok a => f a
    | .err e => .err e
    | .panic s => .panic s

end Cog.IR
