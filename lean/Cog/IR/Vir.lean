/-
  VIR: S-expression encoding of the IR (driver-side; no theorem depends on it).
  The Go side is /verif/harness/vir.go; both directions are exercised by the `vir-roundtrip`
  correspondence stream (Lean parses and re-prints what Go printed: must be identical text).
-/
import Cog.Basic.Sexp
import Cog.IR.Types
namespace Cog.IR.Vir
open Cog Cog.IR

def b2s (b : Bool) : Sexp := .atom (if b then "true" else "false")

partial def valOut : Val → Sexp
  | .nil => .atom "nil"
  | .bool b => .list [.atom "b", b2s b]
  | .int t n => .list [.atom "i", .atom t, .atom (toString n)]
  | .float t r => .list [.atom "f", .atom t, .str r]
  | .jnum s => .list [.atom "jn", .str s]
  | .str s => .list [.atom "s", .str s]
  | .list xs => .list (.atom "l" :: xs.map valOut)
  | .map kvs => .list (.atom "m" :: kvs.map fun (k, v) => .list [.str k, valOut v])
  | .other t r => .list [.atom "o", .str t, .str r]

partial def valIn : Sexp → Option Val
  | .atom "nil" => some .nil
  | .list [.atom "b", .atom "true"] => some (.bool true)
  | .list [.atom "b", .atom "false"] => some (.bool false)
  | .list [.atom "i", .atom t, .atom n] => n.toInt?.map (.int t)
  | .list [.atom "f", .atom t, .str r] => some (.float t r)
  | .list [.atom "jn", .str s] => some (.jnum s)
  | .list [.atom "s", .str s] => some (.str s)
  | .list (.atom "l" :: xs) => (xs.mapM valIn).map Val.list
  | .list (.atom "m" :: kvs) => (kvs.mapM fun (x : Sexp) => match x with
      | .list [.str k, v] => (valIn v).map fun v' => (k, v')
      | _ => none).map Val.map
  | .list [.atom "o", .str t, .str r] => some (.other t r)
  | _ => none

def metaOut (m : Meta) : Sexp :=
  .list [.atom "meta", b2s m.nullable, valOut m.dflt,
    .list (.atom "hints" :: m.hints.map fun (k, v) => .list [.str k, valOut v])]

def metaIn : Sexp → Option Meta
  | .list [.atom "meta", .atom n, d, .list (.atom "hints" :: hs)] => do
    let d' ← valIn d
    let hs' ← hs.mapM fun (x : Sexp) => match x with
      | .list [.str k, v] => (valIn v).map fun v' => (k, v')
      | _ => none
    some { nullable := n == "true", dflt := d', hints := hs' }
  | _ => none

def pairsOut (kvs : List (String × String)) : List Sexp := kvs.map fun (k, v) => .list [.str k, .str v]
def pairsIn (xs : List Sexp) : Option (List (String × String)) :=
  xs.mapM fun (x : Sexp) => match x with | .list [.str k, .str v] => some (k, v) | _ => none

partial def tyOut : Ty → Sexp
  | .scalar k v cs m => .list [.atom "scalar", .str k, valOut v,
      .list (.atom "cs" :: cs.map fun c => .list (.str c.op :: c.args.map valOut)), metaOut m]
  | .ref p n m => .list [.atom "ref", .str p, .str n, metaOut m]
  | .cref p n v m => .list [.atom "cref", .str p, .str n, valOut v, metaOut m]
  | .array e m => .list [.atom "array", tyOut e, metaOut m]
  | .map i v m => .list [.atom "map", tyOut i, tyOut v, metaOut m]
  | .struct fs g gi m => .list [.atom "struct",
      .list (.atom "fields" :: fs.map fun f =>
        .list [.atom "f", .str f.name, tyOut f.ty, b2s f.required, .list (.atom "c" :: f.comments.map .str)]),
      .list (.atom "gen" :: g.map tyOut),
      (match gi with
        | none => .atom "none"
        | some (h, di) => .list [.str h, .str di.discriminator, .list (pairsOut di.mapping)]),
      metaOut m]
  | .enum vs m => .list [.atom "enum",
      .list (.atom "vals" :: vs.map fun v => .list [.str v.name, valOut v.value, .str v.kind]), metaOut m]
  | .disj bs di m => .list [.atom "disj", .list (.atom "branches" :: bs.map tyOut),
      .str di.discriminator, .list (.atom "mapping" :: pairsOut di.mapping), metaOut m]
  | .inter bs m => .list [.atom "inter", .list (.atom "branches" :: bs.map tyOut), metaOut m]
  | .slot v m => .list [.atom "slot", .str v, metaOut m]
  | .bad k m => .list [.atom "bad", .str k, metaOut m]

def strsIn (xs : List Sexp) : Option (List String) := xs.mapM fun (x : Sexp) => match x with | .str s => some s | _ => none

partial def tyIn : Sexp → Option Ty
  | .list [.atom "scalar", .str k, v, .list (.atom "cs" :: cs), m] => do
    let cs' ← cs.mapM fun (x : Sexp) => match x with
      | .list (.str op :: args) => (args.mapM valIn).map fun a => ({ op := op, args := a } : Constraint)
      | _ => none
    some (.scalar k (← valIn v) cs' (← metaIn m))
  | .list [.atom "ref", .str p, .str n, m] => do some (.ref p n (← metaIn m))
  | .list [.atom "cref", .str p, .str n, v, m] => do some (.cref p n (← valIn v) (← metaIn m))
  | .list [.atom "array", e, m] => do some (.array (← tyIn e) (← metaIn m))
  | .list [.atom "map", i, v, m] => do some (.map (← tyIn i) (← tyIn v) (← metaIn m))
  | .list [.atom "struct", .list (.atom "fields" :: fs), .list (.atom "gen" :: g), gi, m] => do
    let fs' ← fs.mapM fun (x : Sexp) => match x with
      | .list [.atom "f", .str n, t, .atom r, .list (.atom "c" :: cs)] => do
        some ({ name := n, ty := (← tyIn t), required := r == "true", comments := (← strsIn cs) } : Field)
      | _ => none
    let g' ← g.mapM tyIn
    let gi' ← match gi with
      | .atom "none" => some none
      | .list [.str h, .str d, .list mp] => do some (some (h, ({ discriminator := d, mapping := (← pairsIn mp) } : DisjInfo)))
      | _ => none
    some (.struct fs' g' gi' (← metaIn m))
  | .list [.atom "enum", .list (.atom "vals" :: vs), m] => do
    let vs' ← vs.mapM fun (x : Sexp) => match x with
      | .list [.str n, v, .str k] => do some ({ name := n, value := (← valIn v), kind := k } : EnumVal)
      | _ => none
    some (.enum vs' (← metaIn m))
  | .list [.atom "disj", .list (.atom "branches" :: bs), .str d, .list (.atom "mapping" :: mp), m] => do
    some (.disj (← bs.mapM tyIn) { discriminator := d, mapping := (← pairsIn mp) } (← metaIn m))
  | .list [.atom "inter", .list (.atom "branches" :: bs), m] => do some (.inter (← bs.mapM tyIn) (← metaIn m))
  | .list [.atom "slot", .str v, m] => do some (.slot v (← metaIn m))
  | .list [.atom "bad", .str k, m] => do some (.bad k (← metaIn m))
  | _ => none

def objOut (o : Obj) : Sexp :=
  .list [.atom "obj", .str o.name, .list (.atom "c" :: o.comments.map .str), tyOut o.ty, .str o.selfPkg, .str o.selfName]

def objIn : Sexp → Option Obj
  | .list [.atom "obj", .str n, .list (.atom "c" :: cs), t, .str sp, .str sn] => do
    some { name := n, comments := (← strsIn cs), ty := (← tyIn t), selfPkg := sp, selfName := sn }
  | _ => none

def schemaOut (s : Schema) : Sexp :=
  .list [.atom "schema", .str s.pkg,
    .list [.atom "smeta", .str s.smeta.kind, .str s.smeta.variant, .str s.smeta.identifier],
    .str s.entryPoint, tyOut s.entryPointType,
    .list (.atom "objects" :: s.objects.map fun (k, o) => .list [.str k, objOut o])]

def schemaIn : Sexp → Option Schema
  | .list [.atom "schema", .str p, .list [.atom "smeta", .str k, .str v, .str i], .str ep, ept,
      .list (.atom "objects" :: os)] => do
    let os' ← os.mapM fun (x : Sexp) => match x with
      | .list [.str k, o] => (objIn o).map fun o' => (k, o')
      | _ => none
    some { pkg := p, smeta := { kind := k, variant := v, identifier := i }, entryPoint := ep,
           entryPointType := (← tyIn ept), objects := os' }
  | _ => none

def schemasOut (ss : Schemas) : Sexp := .list (.atom "schemas" :: ss.map schemaOut)
def schemasIn : Sexp → Option Schemas
  | .list (.atom "schemas" :: ss) => ss.mapM schemaIn
  | _ => none

def outcomeOut {α} (f : α → Sexp) : Outcome α → String
  | .ok a => "ok " ++ (f a).render
  | .err _ => "err"
  | .panic _ => "panic"

end Cog.IR.Vir
