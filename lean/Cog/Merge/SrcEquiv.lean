/-
  The bodies of `Schemas.Consolidate`, `Schema.Merge`, `Schema.AddObject`, `NewSchema` and
  `SchemaMeta.Equal` of internal/ast/schema.go, as TRANSLATED by /verif/extract/xmerge into the
  generated module `Cog.Gen.MergeSrc` (regenerated from /repo on every run), compute exactly the
  hand-written model functions of `Model.lean`: for ALL schemas / schema lists and every object
  equality `beq`.  The generated bodies are closed terms, so `exec` unfolds on them; loops are
  handled by two invariant rules (`loop_iter` for the `Iterate` callback, `loop_range` for
  `for … range` with an early `return`), instantiated per loop.

  What is compared.  `Merge`: the returned error is `nil` and the receiver afterwards is the
  model's merged schema, or the returned error is non-nil and the model says `conflict`
  (`mergeResult`: the error's message and the half-merged receiver after a failure are NOT
  compared: the model has one `conflict` outcome and `Consolidate` discards the receiver).
  `Consolidate`: the receiver slice is unchanged and the results are `(R, nil)` with `R` the model's
  list for the package order `packages ss` (first appearance), or `(nil, err)` and the model says
  `conflict` (`consolidateResult`).

  When schema.go changes, `Cog.Gen.MergeSrc` changes and these proofs are re-checked by the
  kernel; if a body no longer means the model function the build breaks (checks/c07.py then
  searches for a concrete failing input with the correspondence streams).
-/
import Cog.Gen.MergeSrc
import Cog.Merge.Lemmas
set_option linter.unusedSimpArgs false
set_option linter.unusedSectionVars false
set_option linter.unusedVariables false
namespace Cog.Merge.Src
open Cog Cog.IR Cog.OMap Cog.Gen.MergeSrc

variable (beq : Obj → Obj → Bool)

/-- `exec` of `s` from `env` terminates without panic in a result satisfying `Q`. -/
def triple (env : Env) (s : Stmt) (Q : Ctl × Env → Prop) : Prop :=
  ∃ r, exec beq s env = some r ∧ Q r

theorem triple_atom {beq} {env : Env} {s Q}
    (h : match exec beq s env with
         | some r => Q r
         | none => False) :
    triple beq env s Q := by
  split at h
  · rename_i r he; exact ⟨r, he, h⟩
  · exact h.elim

/-- sequencing; the first statement may return -/
theorem triple_seq {beq} {env : Env} {a b Q} (P : Env → Prop)
    (h1 : triple beq env a (fun r => (r.1 = .normal ∧ P r.2) ∨ ((∃ vs, r.1 = .ret vs) ∧ Q r)))
    (h2 : ∀ env', P env' → triple beq env' b Q) :
    triple beq env (.seq a b) Q := by
  obtain ⟨⟨c, e⟩, he, h⟩ := h1
  rcases h with ⟨hc, hp⟩ | ⟨⟨vs, hc⟩, hq⟩
  · simp only at hc; subst hc
    obtain ⟨r, hr, hq⟩ := h2 e hp
    exact ⟨r, by simp only [exec, he]; exact hr, hq⟩
  · simp only at hc; subst hc
    exact ⟨_, by simp only [exec, he], hq⟩

/-- sequencing after a statement that is computed by `simp` -/
theorem triple_seq' {beq} {env : Env} {a b Q}
    (h : match exec beq a env with
         | some (.normal, env') => triple beq env' b Q
         | some (.ret vs, env') => Q (.ret vs, env')
         | none => False) :
    triple beq env (.seq a b) Q := by
  split at h
  · rename_i env' he
    obtain ⟨r, hr, hq⟩ := h
    exact ⟨r, by simp only [exec, he]; exact hr, hq⟩
  · rename_i vs env' he
    exact ⟨_, by simp only [exec, he], h⟩
  · exact h.elim

/-- the `Iterate` callback loop: a `return` in the body ends one call, never the loop -/
theorem loop_iter {α : Type} (body : Env → Option (Ctl × Env)) (bindf : Env → α → Env)
    (I : List α → Env → Prop)
    (step : ∀ done a s, I done s → ∃ r, body (bindf s a) = some r ∧ I (done ++ [a]) r.2) :
    ∀ (suf done : List α) (s : Env), I done s →
      ∃ s', loop body bindf true suf s = some (.normal, s') ∧ I (done ++ suf) s' := by
  intro suf
  induction suf with
  | nil => intro done s h; exact ⟨s, rfl, by simpa using h⟩
  | cons a l ih =>
    intro done s h
    obtain ⟨⟨c, s1⟩, h1, h2⟩ := step done a s h
    obtain ⟨s', h3, h4⟩ := ih (done ++ [a]) s1 h2
    refine ⟨s', ?_, by simpa using h4⟩
    simp only [loop, h1]
    cases c <;> simp [h3]

/-- `for _, x := range l` whose body may `return` (then the loop is left with property `X`) -/
theorem loop_range {α : Type} (body : Env → Option (Ctl × Env)) (bindf : Env → α → Env) (l : List α)
    (I : List α → Env → Prop) (X : Ctl × Env → Prop)
    (step : ∀ done a rest s, l = done ++ a :: rest → I done s →
      ∃ r, body (bindf s a) = some r ∧
        ((r.1 = .normal ∧ I (done ++ [a]) r.2) ∨ ((∃ vs, r.1 = .ret vs) ∧ X r))) :
    ∀ (suf done : List α) (s : Env), l = done ++ suf → I done s →
      ∃ r, loop body bindf false suf s = some r ∧
        ((r.1 = .normal ∧ I l r.2) ∨ ((∃ vs, r.1 = .ret vs) ∧ X r)) := by
  intro suf
  induction suf with
  | nil =>
    intro done s hl h
    simp only [List.append_nil] at hl; subst hl
    exact ⟨(.normal, s), rfl, Or.inl ⟨rfl, h⟩⟩
  | cons a suf ih =>
    intro done s hl h
    obtain ⟨⟨c, s1⟩, h1, h2⟩ := step done a suf s hl h
    rcases h2 with ⟨hc, hi⟩ | ⟨⟨vs, hc⟩, hx⟩
    · simp only at hc; subst hc
      obtain ⟨r, h3, h4⟩ := ih (done ++ [a]) s1 (by simp [hl]) hi
      exact ⟨r, by simp only [loop, h1]; exact h3, h4⟩
    · simp only at hc; subst hc
      exact ⟨_, by simp only [loop, h1]; rfl, Or.inr ⟨⟨vs, rfl⟩, hx⟩⟩

theorem triple_iter {beq} {env : Env} {e k v body Q} (I : List (String × Obj) → Env → Prop)
    (l : List (String × Obj)) (he : eval beq e env = some (.objs l)) (h0 : I [] env)
    (step : ∀ done a s, I done s →
      triple beq (upd (upd s k (.str a.1)) v (.obj a.2)) body (fun r => I (done ++ [a]) r.2))
    (post : ∀ s, I l s → Q (.normal, s)) :
    triple beq env (.iterate e k v body) Q := by
  obtain ⟨s', h1, h2⟩ := loop_iter (fun s => exec beq body s)
    (fun s (a : String × Obj) => upd (upd s k (.str a.1)) v (.obj a.2)) I step l [] env h0
  exact ⟨(.normal, s'), by simp only [exec, he]; exact h1, post s' (by simpa using h2)⟩

theorem triple_range_schemas {beq} {env : Env} {x e body Q} (I : List Schema → Env → Prop)
    (X : Ctl × Env → Prop) (l : List Schema) (he : eval beq e env = some (.schemas l)) (h0 : I [] env)
    (step : ∀ done a rest s, l = done ++ a :: rest → I done s →
      triple beq (upd s x (.schema a)) body
        (fun r => (r.1 = .normal ∧ I (done ++ [a]) r.2) ∨ ((∃ vs, r.1 = .ret vs) ∧ X r)))
    (post : ∀ s, I l s → Q (.normal, s)) (postx : ∀ r, (∃ vs, r.1 = .ret vs) → X r → Q r) :
    triple beq env (.forRange x e body) Q := by
  obtain ⟨r, h1, h2⟩ := loop_range (fun s => exec beq body s) (fun s a => upd s x (.schema a)) l I X
    step l [] env rfl h0
  refine ⟨r, by simp only [exec, he]; exact h1, ?_⟩
  rcases h2 with ⟨hc, hi⟩ | ⟨hc, hx⟩
  · obtain ⟨c, s'⟩ := r; simp only at hc; subst hc; exact post s' hi
  · exact postx r hc hx

theorem triple_range_strs {beq} {env : Env} {x e body Q} (I : List String → Env → Prop)
    (X : Ctl × Env → Prop) (l : List String) (he : eval beq e env = some (.strs l)) (h0 : I [] env)
    (step : ∀ done a rest s, l = done ++ a :: rest → I done s →
      triple beq (upd s x (.str a)) body
        (fun r => (r.1 = .normal ∧ I (done ++ [a]) r.2) ∨ ((∃ vs, r.1 = .ret vs) ∧ X r)))
    (post : ∀ s, I l s → Q (.normal, s)) (postx : ∀ r, (∃ vs, r.1 = .ret vs) → X r → Q r) :
    triple beq env (.forRange x e body) Q := by
  obtain ⟨r, h1, h2⟩ := loop_range (fun s => exec beq body s) (fun s a => upd s x (.str a)) l I X
    step l [] env rfl h0
  refine ⟨r, by simp only [exec, he]; exact h1, ?_⟩
  rcases h2 with ⟨hc, hi⟩ | ⟨hc, hx⟩
  · obtain ⟨c, s'⟩ := r; simp only at hc; subst hc; exact post s' hi
  · exact postx r hc hx

/-! ### the loop-free helpers -/

theorem src_metaEqual (a b : SchemaMeta) :
    call beq metaEqualBody metaEqualParams (.smeta a) [.smeta b] = some (.smeta a, [.b (decide (a = b))]) := by
  obtain ⟨k1, v1, i1⟩ := a
  obtain ⟨k2, v2, i2⟩ := b
  by_cases hi : i1 = i2 <;> by_cases hk : k1 = k2 <;> by_cases hv : v1 = v2 <;>
    simp [call, metaEqualBody, metaEqualParams, exec, eval, init, bind, upd, evalField, evalEq, hi, hk, hv]

theorem src_newSchema (p : String) (m : SchemaMeta) :
    call beq newSchemaBody newSchemaParams .unit [.str p, .smeta m] =
      some (.unit, [.schema { pkg := p, smeta := m }]) := by
  simp [call, newSchemaBody, newSchemaParams, exec, eval, init, bind, upd, setField]

theorem src_addObject (s : Schema) (o : Obj) :
    call beq addObjectBody addObjectParams (.schema s) [.obj o] = some (.schema (addObject s o), []) := by
  simp [call, addObjectBody, addObjectParams, exec, eval, init, bind, upd, evalField, addObject]

/-! ### `Merge` -/

/-- what is observed of a `Merge` call: `nil` error + receiver afterwards, or a non-nil error -/
def mergeResult : Option (Val × List Val) → Option (MRes Schema)
  | some (.schema s', [.nil]) => some (.ok s')
  | some (_, [.err _]) => some .conflict
  | _ => none

theorem mergeObjects_snoc (mine done : List (String × Obj)) (bad : Bool) (k : String) (o : Obj) :
    mergeObjects beq mine (done ++ [(k, o)]) bad =
      match rget k (mergeObjects beq mine done bad).1 with
      | none => (rset o.name o (mergeObjects beq mine done bad).1, (mergeObjects beq mine done bad).2)
      | some cur => ((mergeObjects beq mine done bad).1, (mergeObjects beq mine done bad).2 || !beq cur o) := by
  induction done generalizing mine bad with
  | nil => simp only [List.nil_append, mergeObjects]; cases rget k mine <;> rfl
  | cons e rest ih =>
    obtain ⟨k', o'⟩ := e
    simp only [List.cons_append, mergeObjects]
    cases rget k' mine <;> simp only [ih]

/-- the error variable mirrors the model's conflict flag -/
def errIs (v : Option Val) (bad : Bool) : Prop :=
  (bad = false ∧ v = some .nil) ∨ (bad = true ∧ ∃ m, v = some (.err m))

theorem src_merge (s other : Schema) :
    mergeResult (call beq mergeBody mergeParams (.schema s) [.schema other]) = some (mergeChecked beq s other) := by
  by_cases hp : s.pkg = other.pkg
  case neg =>
    simp [call, mergeBody, mergeParams, exec, eval, init, bind, upd, evalField, evalEq, hp, mergeChecked, mergeResult]
  by_cases hm : s.smeta = other.smeta
  case neg =>
    simp [call, mergeBody, mergeParams, exec, eval, init, bind, upd, evalField, evalEq, callee1, hp, hm,
      mergeChecked, merge, mergeResult]
  -- past the two guards
  suffices h : triple beq (init (.schema s) mergeParams [.schema other]) mergeBody
      (fun r => ∃ vs, r.1 = .ret vs ∧ mergeResult ((r.2 "r").map (fun x => (x, vs))) = some (merge beq s other)) by
    obtain ⟨⟨c, e⟩, he, vs, hc, hr⟩ := h
    simp only at hc; subst hc
    simp only [call, he, mergeChecked, hp, ne_eq, not_true_eq_false, if_false]
    exact hr
  unfold mergeBody
  apply triple_seq'; simp [exec, eval, init, bind, upd, mergeParams, evalField, evalEq, hp]
  apply triple_seq'; simp [exec, eval, init, bind, upd, mergeParams, evalField, evalEq, callee1, hm]
  -- entry point
  apply triple_seq (P := fun e => e "r" = some (.schema (mergeEntry s other)) ∧ e "p0" = some (.schema other))
  · apply triple_atom
    by_cases h1 : s.entryPoint = other.entryPoint <;> by_cases h2 : s.entryPoint = "" <;>
      by_cases h3 : other.entryPoint = "" <;>
      simp [exec, eval, upd, evalField, evalEq, setField, mergeEntry, h1, h2, h3] <;> simp_all
  intro e0 ⟨hr0, hp0⟩
  apply triple_seq'; simp only [exec]
  -- the object loop
  apply triple_seq (P := fun e =>
    e "r" = some (.schema { mergeEntry s other with objects := (mergeObjects beq s.objects other.objects false).1 }) ∧
    errIs (e "x0") (mergeObjects beq s.objects other.objects false).2)
  · apply triple_iter (I := fun done e =>
        e "r" = some (.schema { mergeEntry s other with objects := (mergeObjects beq s.objects done false).1 }) ∧
        errIs (e "x0") (mergeObjects beq s.objects done false).2) (l := other.objects)
    · simp [eval, upd, hp0, evalField]
    · refine ⟨?_, Or.inl ⟨rfl, ?_⟩⟩
      · simp [upd, hr0, mergeObjects]
        unfold mergeEntry; split <;> rfl
      · simp [upd]
    · intro done a e ⟨hr, herr⟩
      obtain ⟨k, o⟩ := a
      rw [mergeObjects_snoc]
      apply triple_atom
      cases hg : rget k (mergeObjects beq s.objects done false).1 with
      | none =>
        simp [exec, eval, upd, hr, evalField, callee1, hg, addObject]
        simpa [upd] using herr
      | some cur =>
        cases hb : beq cur o with
        | true =>
          simp [exec, eval, upd, hr, evalField, callee1, hg, hb]
          simpa [upd, hb] using herr
        | false =>
          simp [exec, eval, upd, hr, evalField, callee1, hg, hb]
          right; simp [upd, hb]
    · intro s' h; exact Or.inl ⟨rfl, h⟩
  intro e1 ⟨hr1, herr1⟩
  -- the final test of `err`
  apply triple_atom
  rcases herr1 with ⟨hb, hx⟩ | ⟨hb, m, hx⟩
  · simp [exec, eval, hx, evalEq, hr1, mergeResult, merge, hm, hb]
  · simp [exec, eval, hx, evalEq, hr1, mergeResult, merge, hm, hb]

/-! ### `Consolidate` -/

/-- what is observed of a `Consolidate` call: `(R, nil)` or `(nil, err)` -/
def consolidateResult : Option (Val × List Val) → Option (MRes Schemas)
  | some (_, [.schemas R, .nil]) => some (.ok R)
  | some (_, [.nil, .err _]) => some .conflict
  | _ => none

theorem mem_packages (l : Schemas) (p : String) : p ∈ packages l ↔ ∃ s ∈ l, s.pkg = p := by
  induction l with
  | nil => simp [packages]
  | cons s t ih =>
    simp only [packages, List.mem_cons, List.mem_filter, ih, bne_iff_ne, ne_eq, exists_eq_or_imp]
    constructor
    · rintro (h | ⟨h, _⟩)
      · exact Or.inl h.symm
      · exact Or.inr h
    · rintro (h | h)
      · exact Or.inl h.symm
      · by_cases c : p = s.pkg
        · exact Or.inl c
        · exact Or.inr ⟨h, c⟩

theorem packages_snoc (l : Schemas) (a : Schema) :
    packages (l ++ [a]) = if a.pkg ∈ packages l then packages l else packages l ++ [a.pkg] := by
  induction l with
  | nil => simp [packages]
  | cons s t ih =>
    simp only [List.cons_append, packages, ih]
    by_cases h : a.pkg ∈ packages t
    · have : a.pkg = s.pkg ∨ (a.pkg ∈ packages t ∧ ¬ a.pkg = s.pkg) := by
        by_cases c : a.pkg = s.pkg
        · exact Or.inl c
        · exact Or.inr ⟨h, c⟩
      simp [h, List.mem_filter, this]
    · by_cases c : a.pkg = s.pkg
      · have h' : ¬ s.pkg ∈ packages t := c ▸ h
        simp [h', c, List.filter_append]
      · simp [h, c, List.filter_append, List.mem_filter]

theorem groupOf_snoc (l : Schemas) (a : Schema) (p : String) :
    groupOf (l ++ [a]) p = if a.pkg = p then groupOf l p ++ [a] else groupOf l p := by
  by_cases c : a.pkg = p <;> simp [groupOf, List.filter_append, c]

theorem groupOf_nil (l : Schemas) (p : String) (h : ¬ p ∈ packages l) : groupOf l p = [] := by
  rw [mem_packages] at h
  simp only [groupOf, List.filter_eq_nil_iff, beq_iff_eq]
  intro s hs c
  exact h ⟨s, hs, c⟩

theorem groupOf_ne_nil (l : Schemas) (p : String) (h : p ∈ packages l) : groupOf l p ≠ [] := by
  obtain ⟨s, hs, c⟩ := (mem_packages l p).1 h
  intro e
  have : s ∈ groupOf l p := by simp [groupOf, hs, c]
  rw [e] at this; cases this

theorem groupOf_pkg (l : Schemas) (p : String) (a : Schema) (h : a ∈ groupOf l p) : a.pkg = p := by
  simp only [groupOf, List.mem_filter, beq_iff_eq] at h
  exact h.2

theorem consolidate_snoc (ss : Schemas) (done : List String) (p : String) :
    consolidate beq ss (done ++ [p]) =
      match consolidate beq ss done, consolidatePkg beq ss p with
      | .ok r, .ok s => .ok (r ++ [s])
      | _, _ => .conflict := by
  induction done with
  | nil => simp only [List.nil_append, consolidate]; cases consolidatePkg beq ss p <;> rfl
  | cons q rest ih =>
    simp only [List.cons_append, consolidate, ih]
    cases consolidatePkg beq ss q <;> cases consolidate beq ss rest <;> cases consolidatePkg beq ss p <;> rfl

theorem consolidate_conflict_mem (ss : Schemas) (order : List String) (p : String) (h : p ∈ order)
    (hc : consolidatePkg beq ss p = .conflict) : consolidate beq ss order = .conflict := by
  induction order with
  | nil => cases h
  | cons q rest ih =>
    simp only [consolidate]
    rcases List.mem_cons.1 h with c | c
    · subst c; rw [hc]
    · rw [ih c]; cases consolidatePkg beq ss q <;> rfl

theorem mergeGroup_snoc (acc : Schema) (done : List Schema) (a : Schema) :
    mergeGroup beq acc (done ++ [a]) =
      match mergeGroup beq acc done with
      | .ok c => merge beq c a
      | .conflict => .conflict := by
  induction done generalizing acc with
  | nil => simp only [List.nil_append, mergeGroup]; cases merge beq acc a <;> rfl
  | cons s rest ih =>
    simp only [List.cons_append, mergeGroup]
    cases merge beq acc s with
    | ok acc' => exact ih acc'
    | conflict => rfl

theorem mergeGroup_conflict_prefix (acc : Schema) (pre suf : List Schema)
    (h : mergeGroup beq acc pre = .conflict) : mergeGroup beq acc (pre ++ suf) = .conflict := by
  induction pre generalizing acc with
  | nil => simp [mergeGroup] at h
  | cons s rest ih =>
    simp only [List.cons_append, mergeGroup] at h ⊢
    cases hm : merge beq acc s with
    | ok acc' => rw [hm] at h; exact ih acc' h
    | conflict => rfl

theorem merge_pkg (s o s' : Schema) (h : merge beq s o = .ok s') : s'.pkg = s.pkg := by
  unfold merge at h
  split at h
  · cases h
  · split at h
    · cases h
    · cases h; unfold mergeEntry; split <;> rfl

theorem src_consolidate (ss : Schemas) :
    (call beq consolidateBody consolidateParams (.schemas ss) []).map (·.1) = some (.schemas ss) ∧
    consolidateResult (call beq consolidateBody consolidateParams (.schemas ss) []) =
      some (consolidate beq ss (packages ss)) := by
  suffices h : triple beq (init (.schemas ss) consolidateParams []) consolidateBody
      (fun r => ∃ vs, r.1 = .ret vs ∧ r.2 "r" = some (.schemas ss) ∧
        consolidateResult (some (.schemas ss, vs)) = some (consolidate beq ss (packages ss))) by
    obtain ⟨⟨c, e⟩, he, vs, hc, hr, hres⟩ := h
    simp only at hc hr; subst hc
    refine ⟨?_, ?_⟩
    · simp [call, he, hr]
    · simp only [call, he, hr, Option.map]; exact hres
  unfold consolidateBody
  apply triple_seq'; simp [exec, eval, init, bind, upd, consolidateParams, evalLen]
  apply triple_seq'; simp [exec, eval, init, bind, upd, consolidateParams, evalLen]
  -- first loop: group by package, packages in order of first appearance
  apply triple_seq (P := fun e => ∃ g, e "x0" = some (.groups g) ∧ e "r" = some (.schemas ss) ∧
    e "x1" = some (.strs (packages ss)) ∧
    ∀ p, rget p g = if p ∈ packages ss then some (groupOf ss p) else none)
  · apply triple_range_schemas (I := fun done e => ∃ g, e "x0" = some (.groups g) ∧ e "r" = some (.schemas ss) ∧
      e "x1" = some (.strs (packages done)) ∧
      ∀ p, rget p g = if p ∈ packages done then some (groupOf done p) else none) (X := fun _ => False) (l := ss)
    · simp [eval, upd]
    · exact ⟨[], by simp [upd], by simp [upd], by simp [upd, packages], by simp [rget, packages]⟩
    · intro done a rest e hl ⟨g, h0, hr, h1, hg⟩
      apply triple_atom
      have hga := hg a.pkg
      by_cases hmem : a.pkg ∈ packages done
      · simp only [hmem, if_true] at hga
        simp [exec, eval, upd, evalField, evalIndex, evalAppend, h0, h1, hr, hga]
        refine ⟨?_, ?_⟩
        · simp [packages_snoc, hmem]
        · intro p
          rw [rget_rset, packages_snoc, groupOf_snoc]
          by_cases c : a.pkg = p
          · subst c; simp [hmem]
          · simp [hmem, c, hg p]
      · simp only [hmem, if_false] at hga
        simp [exec, eval, upd, evalField, evalIndex, evalAppend, h0, h1, hr, hga]
        refine ⟨?_, ?_⟩
        · simp [packages_snoc, hmem]
        · intro p
          rw [rget_rset, packages_snoc, groupOf_snoc]
          by_cases c : a.pkg = p
          · subst c; simp [hmem, groupOf_nil done a.pkg hmem]
          · have c' : ¬ p = a.pkg := fun h => c h.symm
            simp [hmem, c, c', hg p]
    · intro s h; exact Or.inl ⟨rfl, h⟩
    · intro r _ hx; exact hx.elim
  intro e1 ⟨g, h0, hr, h1, hg⟩
  apply triple_seq'; simp [exec, eval, upd, hr, evalLen]
  -- second loop: one fresh schema per package, every schema of the group merged into it
  apply triple_seq (P := fun e => ∃ R, consolidate beq ss (packages ss) = .ok R ∧
    e "x4" = some (.schemas R) ∧ e "r" = some (.schemas ss))
  · apply triple_range_strs (I := fun done e => ∃ acc, consolidate beq ss done = .ok acc ∧
        e "x4" = some (.schemas acc) ∧ e "x0" = some (.groups g) ∧ e "r" = some (.schemas ss))
      (X := fun r => r.2 "r" = some (.schemas ss) ∧
        consolidate beq ss (packages ss) = .conflict ∧ ∃ m, r.1 = .ret [.nil, .err m]) (l := packages ss)
    · simp [eval, upd, h1]
    · exact ⟨[], rfl, by simp [upd], by simp [upd, h0], by simp [upd, hr]⟩
    · intro done pkg rest e hl ⟨acc, hc, h4, h0', hr'⟩
      have hmem : pkg ∈ packages ss := by rw [hl]; simp
      have hgp := hg pkg
      simp only [hmem, if_true] at hgp
      obtain ⟨first, grp, hgrp⟩ : ∃ first grp, groupOf ss pkg = first :: grp := by
        cases hx : groupOf ss pkg with
        | nil => exact absurd hx (groupOf_ne_nil ss pkg hmem)
        | cons f t => exact ⟨f, t, rfl⟩
      rw [hgrp] at hgp
      have hcp : consolidatePkg beq ss pkg =
          mergeGroup beq { pkg := pkg, smeta := first.smeta } (first :: grp) := by
        simp [consolidatePkg, hgrp]
      apply triple_seq'; simp [exec, eval, upd, h0', evalIndex, hgp]
      apply triple_seq'; simp [exec, eval, upd, evalIndex, evalField, callee2]
      apply triple_seq (P := fun e' => ∃ cur,
        mergeGroup beq { pkg := pkg, smeta := first.smeta } (first :: grp) = .ok cur ∧
        e' "x7" = some (.schema cur) ∧ e' "x4" = some (.schemas acc) ∧ e' "x0" = some (.groups g) ∧
        e' "r" = some (.schemas ss))
      · apply triple_range_schemas (I := fun done' e' => ∃ cur,
            mergeGroup beq { pkg := pkg, smeta := first.smeta } done' = .ok cur ∧ cur.pkg = pkg ∧
            e' "x7" = some (.schema cur) ∧ e' "x4" = some (.schemas acc) ∧ e' "x0" = some (.groups g) ∧
            e' "r" = some (.schemas ss))
          (X := fun r => r.2 "r" = some (.schemas ss) ∧
            mergeGroup beq { pkg := pkg, smeta := first.smeta } (first :: grp) = .conflict ∧
            ∃ m, r.1 = .ret [.nil, .err m])
          (l := first :: grp)
        · simp [eval, upd]
        · exact ⟨_, rfl, rfl, by simp [upd], by simp [upd, h4], by simp [upd, h0'], by simp [upd, hr']⟩
        · intro done' a rest' e' hl' ⟨cur, hmg, hpk, h7, h4', h0'', hr''⟩
          have ha : a.pkg = pkg := groupOf_pkg ss pkg a (by rw [hgrp, hl']; simp)
          apply triple_atom
          cases hmerge : merge beq cur a with
          | ok cur' =>
            simp [exec, eval, upd, h7, mergeChecked, hpk, ha, hmerge, evalEq]
            refine ⟨cur', ?_, ?_, rfl, h4', h0'', hr''⟩
            · rw [mergeGroup_snoc, hmg]; exact hmerge
            · rw [merge_pkg beq cur a cur' hmerge, hpk]
          | conflict =>
            simp [exec, eval, upd, h7, mergeChecked, hpk, ha, hmerge, evalEq]
            refine ⟨hr'', ?_⟩
            rw [hl']
            have : mergeGroup beq { pkg := pkg, smeta := first.smeta } (done' ++ [a]) = .conflict := by
              rw [mergeGroup_snoc, hmg]; exact hmerge
            have := mergeGroup_conflict_prefix beq _ (done' ++ [a]) rest' this
            simpa using this
        · intro s ⟨cur, hmg, _, h7, h4', h0'', hr''⟩
          exact Or.inl ⟨rfl, cur, hmg, h7, h4', h0'', hr''⟩
        · intro r hret ⟨hr'', hmg, m, hc'⟩
          refine Or.inr ⟨hret, Or.inr ⟨hret, hr'', ?_, m, hc'⟩⟩
          exact consolidate_conflict_mem beq ss _ pkg hmem (by rw [hcp]; exact hmg)
      intro e' ⟨cur, hmg, h7, h4', h0'', hr''⟩
      apply triple_atom
      simp [exec, eval, upd, h7, h4', evalAppend]
      refine ⟨acc ++ [cur], ?_, rfl, h0'', hr''⟩
      rw [consolidate_snoc, hc, hcp, hmg]
    · intro s ⟨acc, hc, h4, _, hr'⟩
      exact Or.inl ⟨rfl, acc, hc, h4, hr'⟩
    · intro r hret ⟨hr', hcf, m, hc⟩
      refine Or.inr ⟨hret, [.nil, .err m], hc, hr', ?_⟩
      simp [consolidateResult, hcf]
  intro e2 ⟨R, hR, h4, hr2⟩
  apply triple_atom
  simp [exec, eval, h4, hr2, consolidateResult, hR]

end Cog.Merge.Src
