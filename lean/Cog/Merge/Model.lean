/-
  Model of `Schema.Merge` and `Schemas.Consolidate` (internal/ast/schema.go), for C07.
  Object equality (`Object.Equal`, go-cmp on every field) is a parameter `beq` with the laws a
  structural equality has; the driver instantiates it with equality of the VIR rendering.
  The only scheduling freedom, the `range byPackage` in Consolidate, is the explicit package
  order `order` (any permutation of the distinct packages).
-/
import Cog.IR.Basic
namespace Cog.Merge
open Cog.IR Cog.OMap

inductive MRes (α : Type) where
  | ok (a : α)
  | conflict
  deriving Inhabited

/-- the object loop of `Merge`: add what is missing, flag a conflict on a differing definition
    (the Go loop keeps going after a conflict; the result is discarded then) -/
def mergeObjects (beq : Obj → Obj → Bool) : List (String × Obj) → List (String × Obj) → Bool → List (String × Obj) × Bool
  | mine, [], bad => (mine, bad)
  | mine, (k, o) :: rest, bad =>
    match rget k mine with
    | none => mergeObjects beq (rset o.name o mine) rest bad
    | some cur => mergeObjects beq mine rest (bad || !beq cur o)

/-- the entry-point part of `Merge`: an empty entry point is filled from the other schema
    (two different non-empty entry points: the receiver's is kept, silently) -/
def mergeEntry (s other : Schema) : Schema :=
  if s.entryPoint ≠ other.entryPoint ∧ (s.entryPoint = "" ∨ other.entryPoint = "") ∧ s.entryPoint = ""
  then { s with entryPoint := other.entryPoint, entryPointType := other.entryPointType }
  else s

/-- `schema.Merge(other)` for two schemas of the same package -/
def merge (beq : Obj → Obj → Bool) (s other : Schema) : MRes Schema :=
  if s.smeta ≠ other.smeta then .conflict
  else
    if (mergeObjects beq s.objects other.objects false).2 then .conflict
    else .ok { mergeEntry s other with objects := (mergeObjects beq s.objects other.objects false).1 }

/-- `schema.Merge(other)` literally: the package guard in front of `merge` (in `Consolidate` the
    guard never fires: a group holds schemas of the group's package only; `Cog/Merge/SrcEquiv.lean`) -/
def mergeChecked (beq : Obj → Obj → Bool) (s other : Schema) : MRes Schema :=
  if s.pkg ≠ other.pkg then .conflict else merge beq s other

/-- merging a group (all of one package) into a fresh schema carrying the first input's metadata -/
def mergeGroup (beq : Obj → Obj → Bool) : Schema → List Schema → MRes Schema
  | acc, [] => .ok acc
  | acc, s :: rest =>
    match merge beq acc s with
    | .ok acc' => mergeGroup beq acc' rest
    | .conflict => .conflict

def groupOf (ss : Schemas) (pkg : String) : List Schema := ss.filter (fun s => s.pkg == pkg)

def consolidatePkg (beq : Obj → Obj → Bool) (ss : Schemas) (pkg : String) : MRes Schema :=
  match groupOf ss pkg with
  | [] => .ok { pkg := pkg }
  | first :: rest => mergeGroup beq { pkg := pkg, smeta := first.smeta } (first :: rest)

/-- `Consolidate` with the iteration order of `byPackage` made explicit -/
def consolidate (beq : Obj → Obj → Bool) (ss : Schemas) : List String → MRes Schemas
  | [] => .ok []
  | pkg :: rest =>
    match consolidatePkg beq ss pkg, consolidate beq ss rest with
    | .ok s, .ok r => .ok (s :: r)
    | _, _ => .conflict

/-- distinct packages in first-occurrence order -/
def packages : Schemas → List String
  | [] => []
  | s :: rest => s.pkg :: (packages rest).filter (fun p => p != s.pkg)

end Cog.Merge
