/-
  Mini-language for the bodies of `Schemas.Consolidate`, `Schema.Merge`, `Schema.AddObject`,
  `NewSchema`, `SchemaMeta.Equal` (/repo/internal/ast/schema.go) and its Go semantics.

  The translator /verif/extract/xmerge (go/ast, purely syntactic) turns each body into a closed
  term of `Stmt` (generated module `Cog.Gen.MergeSrc`, regenerated from /repo on every run).
  This file gives those terms their meaning (`eval`, `exec`); `Cog/Merge/SrcEquiv.lean` proves
  that each translated body computes exactly the hand-written model function of `Model.lean`.

  Trusted here (the semantics of the Go fragment):
  * `*Schema` values are modelled by VALUE: the receiver / a local holding a schema is updated in
    place by `x.F = e`, `x.AddObject(o)`, `x.F.Set(k, v)`, `y := x.Merge(a)`; no two names alias the
    same schema (true in `Consolidate`: `newSchema` is fresh from `NewSchema`; for `Merge` itself:
    receiver and argument are different schemas);
  * `Objects` (`*orderedmap.Map[string, Object]`) is the association list of the Merge model,
    justified by the C19 refinement: `Has / Get / Set / Iterate` mean the C19 model's functions
    (`(rget k l).isSome`, `(rget k l).getD default`, `rset k v l`, the pairs in list order);
  * `e.Iterate(func(k, v) { body })` runs `body` per pair; a `return` in the callback ends that
    call only; the callback assigns captured locals of the enclosing function (flat environment:
    the translator refuses shadowing);
  * `map[string]Schemas` is an association list accessed by key only (`rget`/`rset`); an absent key
    reads as the nil slice; a slice index out of range and `make` with a negative size panic (`none`);
    `&&`, `||` short-circuit;
  * `fmt.Errorf(format, …)` is an error value identified by its format (arguments are pure selector
    chains, checked by the translator, and dropped); `err != nil` distinguishes it from `nil`;
  * `Object.Equal` (go-cmp over all fields) is the parameter `beq`; `SchemaMeta` is three strings;
  * calls of other translated functions mean the MODEL's functions (assume-guarantee; each is proved
    equal to its own translated body): `NewSchema`, `x.AddObject`, `SchemaMeta.Equal`,
    `y := x.Merge(a)` = `mergeChecked`; after a FAILED `Merge` the receiver is unspecified
    (`undef`, every use of it is stuck), exactly what the theorem about `Merge` leaves open.
-/
import Cog.Merge.Model
namespace Cog.Merge.Src
open Cog Cog.IR Cog.OMap

inductive Expr where
  | var (x : String)
  | nil
  | str (s : String)
  | lit (n : Int)
  | field (e : Expr) (f : String)
  | index (a i : Expr)
  | len (a : Expr)
  | eq (a b : Expr)
  | ne (a b : Expr)
  | not (a : Expr)
  | and (a b : Expr)
  | or (a b : Expr)
  | sub (a b : Expr)
  | append1 (s x : Expr)
  | makeMap (cap : Expr)
  | makeSlice (kind : String) (cap : Expr)
  | errorf (fmt : String)
  | call2 (f : String) (a b : Expr)
  | mcall1 (recv : Expr) (name : String) (a : Expr)
  | newOMap
  | zeroSchema
  | withField (e : Expr) (f : String) (v : Expr)

inductive Stmt where
  | skip
  | seq (a b : Stmt)
  | assign (x : String) (e : Expr)
  | declNil (x : String)
  | commaOk (x : String) (m k : Expr)
  | setField (x f : String) (e : Expr)
  | mapSet (m : String) (k e : Expr)
  | ifThen (c : Expr) (body : Stmt)
  | ifElse (c : Expr) (a b : Stmt)
  | forRange (x : String) (e : Expr) (body : Stmt)
  | iterate (e : Expr) (k v : String) (body : Stmt)
  | mcallStmt (x name : String) (a : Expr)
  | mcallAssign (y x name : String) (a : Expr)
  | fieldSet (x f : String) (k v : Expr)
  | ret0
  | ret1 (e : Expr)
  | ret2 (a b : Expr)

inductive Val where
  | str (s : String)
  | b (x : Bool)
  | n (x : Int)
  | smeta (m : SchemaMeta)
  | ty (t : Ty)
  | obj (o : Obj)
  | objs (l : List (String × Obj))
  | schema (s : Schema)
  | schemas (l : List Schema)
  | strs (l : List String)
  | groups (m : List (String × List Schema))
  | err (fmt : String)
  | nil
  | unit
  | undef

abbrev Env := String → Option Val

def upd (env : Env) (x : String) (v : Val) : Env :=
  fun y => if y = x then some v else env y

inductive Ctl where
  | normal
  | ret (vs : List Val)

def evalField : Val → String → Option Val
  | .schema s, f =>
    if f = "Package" then some (.str s.pkg)
    else if f = "Metadata" then some (.smeta s.smeta)
    else if f = "EntryPoint" then some (.str s.entryPoint)
    else if f = "EntryPointType" then some (.ty s.entryPointType)
    else if f = "Objects" then some (.objs s.objects)
    else none
  | .smeta m, f =>
    if f = "Kind" then some (.str m.kind)
    else if f = "Variant" then some (.str m.variant)
    else if f = "Identifier" then some (.str m.identifier)
    else none
  | .obj o, f => if f = "Name" then some (.str o.name) else none
  | _, _ => none

/-- `x.F = v` on a schema -/
def setField : Val → String → Val → Option Val
  | .schema s, f, v =>
    if f = "Package" then (match v with | .str x => some (.schema { s with pkg := x }) | _ => none)
    else if f = "Metadata" then (match v with | .smeta x => some (.schema { s with smeta := x }) | _ => none)
    else if f = "EntryPoint" then (match v with | .str x => some (.schema { s with entryPoint := x }) | _ => none)
    else if f = "EntryPointType" then (match v with | .ty x => some (.schema { s with entryPointType := x }) | _ => none)
    else if f = "Objects" then (match v with | .objs x => some (.schema { s with objects := x }) | _ => none)
    else none
  | _, _, _ => none

def evalEq : Val → Val → Option Bool
  | .str a, .str b => some (decide (a = b))
  | .b a, .b b => some (decide (a = b))
  | .n a, .n b => some (decide (a = b))
  | .nil, .nil => some true
  | .err _, .nil => some false
  | .nil, .err _ => some false
  | _, _ => none

def evalIndex : Val → Val → Option Val
  | .groups m, .str k => some (.schemas ((rget k m).getD []))
  | .schemas l, .n i => if i < 0 then none else (l[i.toNat]?).map .schema
  | .strs l, .n i => if i < 0 then none else (l[i.toNat]?).map .str
  | _, _ => none

def evalLen : Val → Option Val
  | .schemas l => some (.n l.length)
  | .strs l => some (.n l.length)
  | .groups m => some (.n m.length)
  | _ => none

def evalAppend : Val → Val → Option Val
  | .schemas l, .schema x => some (.schemas (l ++ [x]))
  | .strs l, .str x => some (.strs (l ++ [x]))
  | _, _ => none

/-- `NewSchema(pkg, metadata)`: the model's fresh schema (proved equal to its translated body) -/
def callee2 (name : String) : Val → Val → Option Val
  | .str p, .smeta m => if name = "NewSchema" then some (.schema { pkg := p, smeta := m }) else none
  | _, _ => none

/-- pure one-argument methods -/
def callee1 (beq : Obj → Obj → Bool) (name : String) : Val → Val → Option Val
  | .smeta a, .smeta b => if name = "Equal" then some (.b (decide (a = b))) else none
  | .obj a, .obj b => if name = "Equal" then some (.b (beq a b)) else none
  | .objs l, .str k =>
    if name = "Has" then some (.b (rget k l).isSome)
    else if name = "Get" then some (.obj ((rget k l).getD default))
    else none
  | _, _ => none

/-- `schema.AddObject(o)`: the model's `rset o.name o` on the objects -/
def addObject (s : Schema) (o : Obj) : Schema := { s with objects := rset o.name o s.objects }

def eval (beq : Obj → Obj → Bool) : Expr → Env → Option Val
  | .var x, env => env x
  | .nil, _ => some .nil
  | .str s, _ => some (.str s)
  | .lit n, _ => some (.n n)
  | .field e f, env =>
    match eval beq e env with
    | some v => evalField v f
    | none => none
  | .index a i, env =>
    match eval beq a env, eval beq i env with
    | some va, some vi => evalIndex va vi
    | _, _ => none
  | .len a, env =>
    match eval beq a env with
    | some va => evalLen va
    | none => none
  | .eq a b, env =>
    match eval beq a env, eval beq b env with
    | some va, some vb => (evalEq va vb).map .b
    | _, _ => none
  | .ne a b, env =>
    match eval beq a env, eval beq b env with
    | some va, some vb => (evalEq va vb).map (fun r => .b (!r))
    | _, _ => none
  | .not a, env =>
    match eval beq a env with
    | some (.b r) => some (.b (!r))
    | _ => none
  | .and a b, env =>
    match eval beq a env with
    | some (.b false) => some (.b false)
    | some (.b true) =>
      (match eval beq b env with
       | some (.b r) => some (.b r)
       | _ => none)
    | _ => none
  | .or a b, env =>
    match eval beq a env with
    | some (.b true) => some (.b true)
    | some (.b false) =>
      (match eval beq b env with
       | some (.b r) => some (.b r)
       | _ => none)
    | _ => none
  | .sub a b, env =>
    match eval beq a env, eval beq b env with
    | some (.n x), some (.n y) => some (.n (x - y))
    | _, _ => none
  | .append1 s x, env =>
    match eval beq s env, eval beq x env with
    | some vs, some vx => evalAppend vs vx
    | _, _ => none
  | .makeMap cap, env =>
    match eval beq cap env with
    | some (.n c) => if c < 0 then none else some (.groups [])
    | _ => none
  | .makeSlice kind cap, env =>
    match eval beq cap env with
    | some (.n c) =>
      if c < 0 then none
      else if kind = "string" then some (.strs [])
      else if kind = "schema" then some (.schemas [])
      else none
    | _ => none
  | .errorf fmt, _ => some (.err fmt)
  | .call2 f a b, env =>
    match eval beq a env, eval beq b env with
    | some va, some vb => callee2 f va vb
    | _, _ => none
  | .mcall1 r name a, env =>
    match eval beq r env, eval beq a env with
    | some vr, some va => callee1 beq name vr va
    | _, _ => none
  | .newOMap, _ => some (.objs [])
  | .zeroSchema, _ => some (.schema { pkg := "" })
  | .withField e f v, env =>
    match eval beq e env, eval beq v env with
    | some ve, some vv => setField ve f vv
    | _, _ => none

/-- `for _, x := range l { body }` (`closure = false`: a `return` leaves the function) and
    `l.Iterate(func(..) { body })` (`closure = true`: a `return` ends one callback call) -/
def loop {α : Type} (body : Env → Option (Ctl × Env)) (bindf : Env → α → Env) (closure : Bool) :
    List α → Env → Option (Ctl × Env)
  | [], env => some (.normal, env)
  | a :: l, env =>
    match body (bindf env a) with
    | some (.ret vs, env') => if closure then loop body bindf closure l env' else some (.ret vs, env')
    | some (.normal, env') => loop body bindf closure l env'
    | none => none

def exec (beq : Obj → Obj → Bool) : Stmt → Env → Option (Ctl × Env)
  | .skip, env => some (.normal, env)
  | .seq a b, env =>
    match exec beq a env with
    | some (.normal, env') => exec beq b env'
    | r => r
  | .assign x e, env =>
    match eval beq e env with
    | some v => some (.normal, upd env x v)
    | none => none
  | .declNil x, env => some (.normal, upd env x .nil)
  | .commaOk x m k, env =>
    match eval beq m env, eval beq k env with
    | some (.groups g), some (.str key) => some (.normal, upd env x (.b (rget key g).isSome))
    | _, _ => none
  | .setField x f e, env =>
    match env x, eval beq e env with
    | some vx, some v =>
      (match setField vx f v with
       | some vx' => some (.normal, upd env x vx')
       | none => none)
    | _, _ => none
  | .mapSet m k e, env =>
    match env m, eval beq k env, eval beq e env with
    | some (.groups g), some (.str key), some (.schemas l) => some (.normal, upd env m (.groups (rset key l g)))
    | _, _, _ => none
  | .ifThen c body, env =>
    match eval beq c env with
    | some (.b true) => exec beq body env
    | some (.b false) => some (.normal, env)
    | _ => none
  | .ifElse c a b, env =>
    match eval beq c env with
    | some (.b true) => exec beq a env
    | some (.b false) => exec beq b env
    | _ => none
  | .forRange x e body, env =>
    match eval beq e env with
    | some (.schemas l) => loop (fun s => exec beq body s) (fun s a => upd s x (.schema a)) false l env
    | some (.strs l) => loop (fun s => exec beq body s) (fun s a => upd s x (.str a)) false l env
    | _ => none
  | .iterate e k v body, env =>
    match eval beq e env with
    | some (.objs l) =>
      loop (fun s => exec beq body s) (fun s (a : String × Obj) => upd (upd s k (.str a.1)) v (.obj a.2)) true l env
    | _ => none
  | .mcallStmt x name a, env =>
    match env x, eval beq a env with
    | some (.schema s), some (.obj o) =>
      if name = "AddObject" then some (.normal, upd env x (.schema (addObject s o))) else none
    | _, _ => none
  | .mcallAssign y x name a, env =>
    match env x, eval beq a env with
    | some (.schema s), some (.schema o) =>
      if name = "Merge" then
        (match mergeChecked beq s o with
         | .ok s' => some (.normal, upd (upd env x (.schema s')) y .nil)
         | .conflict => some (.normal, upd (upd env x .undef) y (.err "Merge")))
      else none
    | _, _ => none
  | .fieldSet x f k v, env =>
    match env x, eval beq k env, eval beq v env with
    | some (.schema s), some (.str key), some (.obj o) =>
      if f = "Objects" then some (.normal, upd env x (.schema { s with objects := rset key o s.objects })) else none
    | _, _, _ => none
  | .ret0, env => some (.ret [], env)
  | .ret1 e, env =>
    match eval beq e env with
    | some v => some (.ret [v], env)
    | none => none
  | .ret2 a b, env =>
    match eval beq a env, eval beq b env with
    | some va, some vb => some (.ret [va, vb], env)
    | _, _ => none

/-- positional binding of the arguments to the (canonical) parameter names -/
def bind : List String → List Val → Env
  | x :: xs, v :: vs => upd (bind xs vs) x v
  | _, _ => fun _ => none

/-- the environment in which a body starts: receiver `r`, parameters `p0 …` -/
def init (recv : Val) (params : List String) (args : List Val) : Env :=
  upd (bind params args) "r" recv

/-- Outcome of a call: receiver afterwards and the returned values (`[]` when the body falls off
    its end); `none` = panic / stuck. -/
def call (beq : Obj → Obj → Bool) (body : Stmt) (params : List String) (recv : Val) (args : List Val) :
    Option (Val × List Val) :=
  match exec beq body (init recv params args) with
  | some (.ret vs, env) => (env "r").map (fun r => (r, vs))
  | some (.normal, env) => (env "r").map (fun r => (r, []))
  | none => none

end Cog.Merge.Src
