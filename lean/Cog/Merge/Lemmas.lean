import Cog.Merge.Model
import Cog.OMap.Lemmas
import Cog.Basic.All2
namespace Cog.Merge
open Cog Cog.IR Cog.OMap

structure ObjEq where
  beq : Obj → Obj → Bool
  refl : ∀ o, beq o o = true
  eq_of_beq : ∀ a b, beq a b = true → a = b

/-- ordered-map invariant of a schema's objects: keyed by the object's own name, no duplicate keys -/
def WfObjects (l : List (String × Obj)) : Prop :=
  (∀ kv ∈ l, kv.2.name = kv.1) ∧ (l.map (·.1)).Nodup

theorem mergeObjects_spec (E : ObjEq) (others mine : List (String × Obj)) (bad : Bool)
    (hk : ∀ kv ∈ others, kv.2.name = kv.1) :
    -- nothing of `mine` is dropped or overwritten
    (∀ k o, rget k mine = some o → rget k (mergeObjects E.beq mine others bad).1 = some o) ∧
    -- the conflict flag is exact
    ((mergeObjects E.beq mine others bad).2 = true ↔
       bad = true ∨ ∃ kv ∈ others, ∃ cur, rget kv.1 (mergeObjects E.beq mine others bad).1 = some cur ∧
         E.beq cur kv.2 = false) ∧
    -- every definition of `others` is present (possibly the equal one already there)
    (∀ kv ∈ others, ∃ cur, rget kv.1 (mergeObjects E.beq mine others bad).1 = some cur ∧
        ((mergeObjects E.beq mine others bad).2 = false → cur = kv.2)) := by
  induction others generalizing mine bad with
  | nil =>
    refine ⟨fun k o h => h, ?_, ?_⟩
    · simp [mergeObjects]
    · intro kv h; simp at h
  | cons e rest ih =>
    obtain ⟨k, o⟩ := e
    have hname : o.name = k := hk (k, o) (by simp)
    have hk' : ∀ kv ∈ rest, kv.2.name = kv.1 := fun kv h => hk kv (by simp [h])
    cases hg : rget k mine with
    | none =>
      have hstep : mergeObjects E.beq mine ((k, o) :: rest) bad = mergeObjects E.beq (rset o.name o mine) rest bad := by
        simp [mergeObjects, hg]
      rw [hstep, hname]
      obtain ⟨i1, i2, i3⟩ := ih (rset k o mine) bad hk'
      refine ⟨?_, ?_, ?_⟩
      · intro k' o' h
        apply i1
        rw [rget_rset]
        by_cases c : k = k'
        · subst c; rw [hg] at h; cases h
        · simp [c, h]
      · rw [i2]
        constructor
        · rintro (h | ⟨kv, hkv, cur, h1, h2⟩)
          · exact Or.inl h
          · exact Or.inr ⟨kv, by simp [hkv], cur, h1, h2⟩
        · rintro (h | ⟨kv, hkv, cur, h1, h2⟩)
          · exact Or.inl h
          · cases List.mem_cons.1 hkv with
            | inl c =>
              subst c
              have := i1 k o (by simp [rget_rset])
              simp only at h1
              rw [this] at h1; cases h1
              rw [E.refl] at h2; cases h2
            | inr c => exact Or.inr ⟨kv, c, cur, h1, h2⟩
      · intro kv hkv
        cases List.mem_cons.1 hkv with
        | inl c =>
          subst c
          exact ⟨o, i1 k o (by simp [rget_rset]), fun _ => rfl⟩
        | inr c => exact i3 kv c
    | some cur0 =>
      have hstep : mergeObjects E.beq mine ((k, o) :: rest) bad = mergeObjects E.beq mine rest (bad || !E.beq cur0 o) := by
        simp [mergeObjects, hg]
      rw [hstep]
      obtain ⟨i1, i2, i3⟩ := ih mine (bad || !E.beq cur0 o) hk'
      have hcur : rget k (mergeObjects E.beq mine rest (bad || !E.beq cur0 o)).1 = some cur0 := i1 k cur0 hg
      refine ⟨i1, ?_, ?_⟩
      · rw [i2]
        constructor
        · rintro (h | ⟨kv, hkv, cur, h1, h2⟩)
          · simp only [Bool.or_eq_true, Bool.not_eq_true'] at h
            rcases h with h | h
            · exact Or.inl h
            · exact Or.inr ⟨(k, o), by simp, cur0, hcur, h⟩
          · exact Or.inr ⟨kv, by simp [hkv], cur, h1, h2⟩
        · rintro (h | ⟨kv, hkv, cur, h1, h2⟩)
          · left; simp [h]
          · cases List.mem_cons.1 hkv with
            | inl c =>
              subst c
              simp only at h1
              rw [hcur] at h1; cases h1
              left; simp [h2]
            | inr c => exact Or.inr ⟨kv, c, cur, h1, h2⟩
      · intro kv hkv
        cases List.mem_cons.1 hkv with
        | inl c =>
          subst c
          refine ⟨cur0, hcur, ?_⟩
          intro hb
          have hf : (bad || !E.beq cur0 o) = false := by
            cases hx : (bad || !E.beq cur0 o) with
            | false => rfl
            | true =>
              have := i2.2 (Or.inl hx)
              rw [hb] at this; cases this
          simp only [Bool.or_eq_false_iff, Bool.not_eq_false'] at hf
          exact E.eq_of_beq _ _ hf.2
        | inr c => exact i3 kv c

end Cog.Merge
