/-
  Driver verbs of C01's parser-soundness tie (core Lean only; stream `c01-front`, harness/c01_front.go):

    jsfdef <id> (case "<pkg>" ROOT (defs ("name" JS)…))     → ok | bad-…
        stores the compiled JSON Schema value of one case (`JS`: Cog/Front/JsonSchema.lean);
    jsfront <id>                                             → ok <VIR of (schemas S)> | err | panic
        runs the MODEL of the front-end (`generateAST`) — compared with the VIR of the real `GenerateAST`;
    jsfdoc <id> <real-id> <json-sexp>                        → plainS=<b> e2e=<b|n/a> valid=<b> strict=<b> modelled=<b> frag=<b> wf=<b>
                                                               src=<b> msrc=<b> why=<…>
        valid    : `jsValid`   (compared with the library's own `Schema.Validate`)
        strict   : `jsValidX`  (hypothesis of C01_jsonschema_parser_sound_partial)
        modelled : every validation keyword of the case is read by `jsv`
        frag     : `FragJS defs root`      wf : `wfDeep doc`   (hypotheses)
        src      : `srcDen` of the REAL front-end IR `<real-id>` (stored with `defschemas`)  — conclusion
        plainS   : `PlainS` of the REAL front-end IR;  e2e : when FragJS ∧ PlainS ∧ strict ∧ wf hold, the conclusion of
                   C01_jsonschema_end_to_end_partial evaluated on the pass models' output of the REAL front-end IR
        msrc     : `srcDen` of the MODEL's IR
        why      : first reason for `src=false` (diagnostic)

  JS ::= (js (a ATTR*) (l JS*) (l JS*) (l JS*) (p ("name" JS)*) ADDL ITEMS ITEMS)
  ADDL ::= none | (b true|false) | (s JS)        ITEMS ::= none | (one JS) | (tuple JS*)
  JV ::= null | true | false | (n "text" "f64") | (s "str") | (a JV*) | (o ("key" JV)*)
-/
import Cog.Front.JsonSchema
import Cog.Front.JsonSchemaValid
import Cog.Front.JsonSchemaFrag
import Cog.Sem.SrcDen
import Cog.Drv.SchemaStore
import Cog.Drv.SrcDenDrv
namespace Cog.Drv
open Cog Cog.IR Cog.Sem Cog.Sem.Src Cog.Front.JsonSchema

partial def jvIn : Sexp → Option JV
  | .atom "null" => some .null
  | .atom "true" => some (.bool true)
  | .atom "false" => some (.bool false)
  | .list [.atom "n", .str t, .str f] => some (.num t f)
  | .list [.atom "s", .str s] => some (.str s)
  | .list (.atom "a" :: xs) => (xs.mapM jvIn).map JV.arr
  | .list (.atom "o" :: kvs) => (kvs.mapM fun (x : Sexp) => match x with
      | .list [.str k, v] => (jvIn v).map fun v' => (k, v')
      | _ => none).map JV.obj
  | _ => none

def boundIn (n d : String) (f : String) : Option Bound := do
  let n' ← n.toInt?
  let d' ← d.toNat?
  some { num := n', den := d', f64 := f }

def attrIn (a : JAttrs) : Sexp → Option JAttrs
  | .list [.atom "ref", .str n] => some { a with ref := some n }
  | .list [.atom "always", .atom b] => some { a with always := some (b == "true") }
  | .list (.atom "types" :: ts) => (Vir.strsIn ts).map fun ts' => { a with types := ts' }
  | .list (.atom "enum" :: vs) => (vs.mapM jvIn).map fun vs' => { a with enum := some vs' }
  | .list [.atom "const", v] => (jvIn v).map fun v' => { a with const := some v' }
  | .list [.atom "hasOneOf"] => some { a with hasOneOf := true }
  | .list [.atom "hasAnyOf"] => some { a with hasAnyOf := true }
  | .list [.atom "hasAllOf"] => some { a with hasAllOf := true }
  | .list [.atom "hasProps"] => some { a with hasProps := true }
  | .list [.atom "hasPatternProps"] => some { a with hasPatternProps := true }
  | .list (.atom "required" :: rs) => (Vir.strsIn rs).map fun rs' => { a with required := rs' }
  | .list [.atom "format", .str f] => some { a with format := f }
  | .list [.atom "fmtAsserted"] => some { a with fmtAsserted := true }
  | .list [.atom "minLength", .atom n] => n.toInt?.map fun n' => { a with minLength := n' }
  | .list [.atom "maxLength", .atom n] => n.toInt?.map fun n' => { a with maxLength := n' }
  | .list [.atom "pattern", .str p] => some { a with pattern := some p }
  | .list [.atom "minimum", .atom n, .atom d, .str f] => (boundIn n d f).map fun b => { a with minimum := some b }
  | .list [.atom "exclMinimum", .atom n, .atom d, .str f] => (boundIn n d f).map fun b => { a with exclMinimum := some b }
  | .list [.atom "maximum", .atom n, .atom d, .str f] => (boundIn n d f).map fun b => { a with maximum := some b }
  | .list [.atom "exclMaximum", .atom n, .atom d, .str f] => (boundIn n d f).map fun b => { a with exclMaximum := some b }
  | .list [.atom "default", v] => (jvIn v).map fun v' => { a with dflt := v' }
  | .list [.atom "description", .str d] => some { a with description := d }
  | .list (.atom "unmodelled" :: us) => (Vir.strsIn us).map fun us' => { a with unmodelled := us' }
  | _ => none

def attrsIn (xs : List Sexp) : Option JAttrs := xs.foldlM attrIn {}

mutual
partial def jsIn : Sexp → Option JS
  | .list [.atom "js", .list (.atom "a" :: attrs), .list (.atom "l" :: oneOf), .list (.atom "l" :: anyOf),
           .list (.atom "l" :: allOf), .list (.atom "p" :: props), addl, items, items2020] => do
    let a ← attrsIn attrs
    let props' ← props.mapM fun (x : Sexp) => match x with
      | .list [.str k, s] => (jsIn s).map fun s' => (k, s')
      | _ => none
    let addl' ← match addl with
      | .atom "none" => some JAddl.none
      | .list [.atom "b", .atom b] => some (JAddl.bool (b == "true"))
      | .list [.atom "s", s] => (jsIn s).map JAddl.schema
      | _ => none
    some (.mk a (← oneOf.mapM jsIn) (← anyOf.mapM jsIn) (← allOf.mapM jsIn) props' addl' (← itemsIn items) (← itemsIn items2020))
  | _ => none
partial def itemsIn : Sexp → Option JItems
  | .atom "none" => some .none
  | .list [.atom "one", s] => (jsIn s).map JItems.one
  | .list (.atom "tuple" :: ss) => (ss.mapM jsIn).map JItems.tuple
  | _ => none
end

/-! ### why is a case outside `FragJS`? (diagnostic, mirrors `frag`) -/

def firstSomeJ {α} (f : α → Option String) : List α → Option String
  | [] => none
  | x :: xs => match f x with | some r => some r | none => firstSomeJ f xs

partial def fragWhy (defs : Defs) (pair : Bool) (s : JS) : Option String :=
  match s with
  | .mk a oneOf anyOf allOf props addl items items2020 =>
    if a.always.isSome then some "boolean-schema" else
    match a.ref with
    | some name =>
      (match lookupDef defs name with
       | none => some "dangling-ref"
       | some t =>
         if targetOK t then none else
         match t with
         | .mk ta _ _ _ tprops taddl _ _ =>
           some ("ref-to:" ++
             (if ta.ref.isSome then "ref" else if ta.hasOneOf || ta.hasAnyOf then "union" else if ta.hasAllOf then "allOf"
              else if ta.const.isSome then "const" else if ta.format == "date-time" then "date-time"
              else if ta.types.length > 1 then "type-array" else if jsIsAny t then "any" else "other")))
    | none =>
      let branches (bs : List JS) : Option String :=
        if !pair then some "union-below-union"
        else if !pairShape bs then some (if bs.any isNullS then "union-with-null-of-several" else "union")
        else firstSomeJ (fun b => if isNullS b then none else
          match fragWhy defs false b with
          | some r => some r
          | none => if refToColl defs b then some "nullable-ref-to-collection" else none) bs
      if a.hasOneOf then branches oneOf
      else if a.hasAnyOf then branches anyOf
      else if a.hasAllOf then some "allOf"
      else match a.enum with
      | some vs => if enumValsOK vs then none else some "enum-values"
      | none =>
        match a.types with
        | [] => if jsIsAny s || untypedConstOK a addl then none else if a.const.isSome then some "untyped-const" else some "untyped-object"
        | [t] =>
          if t = "boolean" ∨ t = "number" ∨ t = "integer" then none
          else if t = "string" then (if a.pattern.isNone then none else some "pattern")
          else if t = "array" then
            (match items, items2020 with
             | .none, .none => none
             | .one e, .none => fragWhy defs true e
             | .none, .one e => fragWhy defs true e
             | _, _ => some "items-form")
          else if t = "object" then
            (if props.isEmpty then (match addl with | .schema e => fragWhy defs true e | _ => none)
             else if !addlIsFalse addl then some "open-object"
             else if !sortedKeys props then some "props-not-sorted"
             else firstSomeJ (fun (p : String × JS) =>
               match fragWhy defs true p.2 with
               | some r => some r
               | none => if a.required.contains p.1 || !refToColl defs p.2 then none else some "optional-ref-to-collection") props)
          else some ("type:" ++ t)
        | [t1, t2] =>
          if !pair then some "type-array-below-union"
          else if (t1 = "null" && scalarTypeName t2) || (t2 = "null" && scalarTypeName t1) then none else some "type-array-union"
        | _ => some "type-array-union"

def fragJSWhy (defs : Defs) (root : JS) : String :=
  match firstSomeJ (fun (d : String × JS) => fragWhy defs true d.2) defs with
  | some r => r
  | none => if FragJS defs root then "-" else "root"

structure FrontCase where
  pkg : String
  root : JS
  defs : Defs
  model : Outcome Schemas
  modelled : Bool
  frag : Bool
  notfrag : String

initialize frontStore : IO.Ref (Std.HashMap String FrontCase) ← IO.mkRef {}

def frontFuel : Nat := 200

/-- fuel of the end-to-end instance (the codec model `goDecode` evaluates the zero value of absent members eagerly:
    exponential in the fuel on recursive schemas, so the instance is evaluated at a small fuel) -/
def e2eFuel : Nat := 16

def caseIn : Sexp → Option (String × JS × Defs)
  | .list [.atom "case", .str pkg, root, .list (.atom "defs" :: ds)] => do
    let ds' ← ds.mapM fun (x : Sexp) => match x with
      | .list [.str k, s] => (jsIn s).map fun s' => (k, s')
      | _ => none
    some (pkg, ← jsIn root, ds')
  | _ => none

def jsfdefLine (rest : String) : IO String := do
  match rest.splitOn " " with
  | id :: body =>
    match Sexp.parse (" ".intercalate body) with
    | none => return "bad-sexp"
    | some sx => match caseIn sx with
      | none => return "bad-case"
      | some (pkg, root, defs) =>
        frontStore.modify (·.insert id
          { pkg := pkg, root := root, defs := defs, model := frontEnd pkg defs frontFuel root,
            modelled := modelledDefs defs root, frag := FragJS defs root, notfrag := fragJSWhy defs root })
        return "ok"
  | _ => return "bad-request"

def jsfrontLine (rest : String) : IO String := do
  match (← frontStore.get).get? rest.trimAscii.toString with
  | none => return "unknown-case"
  | some c => return Vir.outcomeOut Vir.schemasOut c.model

/-! ### `date-time` (RFC 3339) as the library checks it: the oracle the driver passes for `fmt` -/

def isDigit (c : Char) : Bool := '0' ≤ c && c ≤ '9'

def twoDigits (a b : Char) : Option Nat := if isDigit a && isDigit b then some ((a.toNat - 48) * 10 + (b.toNat - 48)) else none

def daysIn (y m : Nat) : Nat :=
  if m == 2 then (if (y % 4 == 0 && y % 100 != 0) || y % 400 == 0 then 29 else 28)
  else if m == 4 || m == 6 || m == 9 || m == 11 then 30 else 31

def isDateTime (s : String) : Bool :=
  match s.toList with
  | y1 :: y2 :: y3 :: y4 :: '-' :: m1 :: m2 :: '-' :: d1 :: d2 :: t :: h1 :: h2 :: ':' :: n1 :: n2 :: ':' :: s1 :: s2 :: rest =>
    (t == 'T' || t == 't') &&
    (match twoDigits y1 y2, twoDigits y3 y4, twoDigits m1 m2, twoDigits d1 d2, twoDigits h1 h2, twoDigits n1 n2, twoDigits s1 s2 with
     | some ya, some yb, some m, some d, some h, some n, some sec =>
       let y := ya * 100 + yb
       1 ≤ m && m ≤ 12 && 1 ≤ d && d ≤ daysIn y m && h ≤ 23 && n ≤ 59 && sec ≤ 60 &&
       (let rest := match rest with
          | '.' :: r => let r' := r.dropWhile isDigit; if r'.length < r.length then some r' else none
          | r => some r
        match rest with
        | some ['Z'] | some ['z'] => true
        | some [sg, a, b, ':', c, e] =>
          (sg == '+' || sg == '-') &&
          (match twoDigits a b, twoDigits c e with
           | some oh, some om => oh ≤ 23 && om ≤ 59
           | _, _ => false)
        | _ => false)
     | _, _, _, _, _, _, _ => false)
  | _ => false

def fmtOracle (name s : String) : Bool := if name == "date-time" then isDateTime s else true

def jsfdocLine (rest : String) : IO String := do
  match rest.splitOn " " with
  | id :: realId :: js =>
    match (← frontStore.get).get? id, ← getSchemas realId with
    | some c, some real =>
      match (Sexp.parse (" ".intercalate js)).bind Json.ofSexp with
      | none => return "bad-json"
      | some j =>
        let valid := jsValid fmtOracle c.defs frontFuel c.root j
        let strict := jsValidX fmtOracle c.defs frontFuel c.root j
        let t : Ty := .ref c.pkg (rootName c.pkg c.root) {}
        let src := srcDen (frontFuel + soundSlack) real t j
        let msrc := match c.model with
          | .ok m => toString (srcDen (frontFuel + soundSlack) m t j)
          | _ => "err"
        let why := if src then "-" else (srcWhy real (frontFuel + soundSlack) t j).getD "unexplained"
        -- instance of C01_jsonschema_end_to_end_partial on the REAL front-end IR (pass models, codec model)
        let prep ← srcPrep realId real
        let e2e :=
          if c.frag && prep.plainS && wfDeep j && jsValidX fmtOracle c.defs e2eFuel c.root j then
            match prep.model with
            | some S' =>
              (match goRoundTrip (e2eFuel + soundSlack + 1) S' c.pkg (rootName c.pkg c.root) j with
               | .ok j' => toString (Json.eqv j' j)
               | _ => "false")
            | none => "chain-err"
          else "n/a"
        return s!"plainS={prep.plainS} e2e={e2e} valid={valid} strict={strict} modelled={c.modelled} frag={c.frag} wf={wfDeep j} src={src} msrc={msrc} why={why} notfrag={c.notfrag}"
    | none, _ => return "unknown-case"
    | _, none => return "unknown-schemas"
  | _ => return "bad-request"

end Cog.Drv
