/-
  Driver verbs for the semantics of generated builders and converters (C09, C14).

    gobuild def <schemas-id> <builders-id> <builders-vir> <defaults>
        <defaults> = (defaults ("pkg" "Object" <json-sexp of New<Object>()>)*) ; stores the context
        → ok | bad-…
    gobuild <schemas-id> <builders-id> <pkg> <builder> <calls>
        <calls> = (build (ctor ARG*) (call "option" ARG*)*)
        ARG     = (j <json-sexp>) | (b "Builder" (ctor ARG*) (call "option" ARG*)*) | (fail be|plain)
                | (l ARG*) | (d ("key" ARG)*)
        → <ok|err <violation paths>> \t <json of builder.internal> \t errors=<keys of builder.errors>
        | panic <why> | unsup <why> | fuel
-/
import Cog.Sem.GoBuilder
import Cog.Builder.Vir
import Cog.Drv.SchemaStore
import Cog.Drv.ValidateDrv
namespace Cog.Drv
open Cog Cog.IR Cog.Sem Cog.Sem.GB

initialize builderStore : IO.Ref (Std.HashMap String Ctx) ← IO.mkRef {}

partial def argIn : Sexp → Option Arg
  | .list [.atom "j", j] => (Json.ofSexp j).map .json
  | .list [.atom "fail", .atom m] => some (.fail (m == "be"))
  | .list (.atom "l" :: xs) => (xs.mapM argIn).map .list
  | .list (.atom "d" :: kvs) => (kvs.mapM fun (x : Sexp) => match x with
      | .list [.str k, a] => (argIn a).map fun a' => (k, a')
      | _ => none).map .dict
  | .list (.atom "b" :: .str name :: .list (.atom "ctor" :: cas) :: calls) => do
    let cas' ← cas.mapM argIn
    let calls' ← calls.mapM fun (x : Sexp) => match x with
      | .list (.atom "call" :: .str o :: as) => (as.mapM argIn).map fun as' => Call.mk o as'
      | _ => none
    some (.builder name cas' calls')
  | _ => none

def buildIn : Sexp → Option (List Arg × List Call)
  | .list (.atom "build" :: .list (.atom "ctor" :: cas) :: calls) => do
    let cas' ← cas.mapM argIn
    let calls' ← calls.mapM fun (x : Sexp) => match x with
      | .list (.atom "call" :: .str o :: as) => (as.mapM argIn).map fun as' => Call.mk o as'
      | _ => none
    some (cas', calls')
  | _ => none

def defaultsIn (ss : Schemas) : Sexp → Option (List ((String × String) × GoVal))
  | .list (.atom "defaults" :: xs) => some <| xs.filterMap fun (x : Sexp) => match x with
    | .list [.str p, .str n, j] =>
      match Json.ofSexp j with
      | none => none
      | some j' =>
        -- a union struct with no branch set marshals as `null` (which the decoder of a scalars
        -- union would read as its first branch): the constructor leaves every branch nil
        match j', Schemas.locateObject ss p n with
        | .null, some { ty := .struct fields _ (some _) _, .. } =>
          some ((p, n), .union (fields.map fun f => (f.name, .nil)))
        | _, _ =>
          match decodeMinFuel ss (.ref p n {}) j' 12 3 with
          | .ok v => some ((p, n), fixDefault 8 ss (.ref p n {}) j' v)
          | _ => none
    | _ => none
  | _ => none

def gobuildDef (rest : List String) : IO String := do
  match rest with
  | sid :: bid :: more =>
    match ← getSchemas sid with
    | none => return "unknown-schemas"
    | some ss =>
      match Sexp.parseMany (" ".intercalate more) with
      | some [b, d] =>
        match Builder.Vir.buildersIn b with
        | none => return "bad-builders-vir"
        | some bs =>
          match defaultsIn ss d with
          | none => return "bad-defaults"
          | some ds =>
            builderStore.modify (·.insert bid { ss := ss, bs := bs, dflt := ds })
            return "ok"
      | _ => return "bad-sexp"
  | _ => return "bad-request"

def showState (c : Ctx) (b : Builder.Builder) (st : BState) : String :=
  let status := match build c b st with
    | .ok (.ok _) => "ok"
    | .ok (.error vs) => "err " ++ ";".intercalate (sortStrings (vs.map fun v => Path.render v.path))
    | .panic w => "panic " ++ w
    | .unsup w => "unsup-validate " ++ w
    | .fuel => "fuel"
  status ++ "\t" ++ (GoVal.goEncode st.internal).render ++ "\terrors=" ++ ";".intercalate (sortStrings st.errors)

def showBRes (c : Ctx) (b : Builder.Builder) : BRes BState → String
  | .ok st => showState c b st
  | .panic w => "panic " ++ w
  | .unsup w => "unsup " ++ w
  | .fuel => "fuel"

def gobuildLine (rest : String) : IO String := do
  match rest.splitOn " " with
  | "def" :: more => gobuildDef more
  | _sid :: bid :: _pkg :: bname :: more =>
    match (← builderStore.get).get? bid with
    | none => return "unknown-builders"
    | some c =>
      match (Sexp.parse (" ".intercalate more)).bind buildIn with
      | none => return "bad-calls"
      | some (ctor, calls) =>
        match findBuilder c.bs bname with
        | none => return "unknown-builder"
        | some b => return showBRes c b (runBuilder 8 c b ctor calls)
  | _ => return "bad-request"

end Cog.Drv
