/-
  Driver verbs for the semantics of generated builders and converters (C09, C14).

    gobuild def <schemas-id> <builders-id> <builders-vir> <defaults>
        <defaults> = (defaults ("pkg" "Object" <json-sexp of New<Object>()>)*) ; stores the context
        → ok | bad-…
    goconvert <schemas-id> <builders-id> <pkg> <builder> <json-sexp>
        decode the document into the builder's object (C01's decoder model), run the model of the
        generated converter, replay the call list through the builder model
        → <calls> \t <status> \t <json of the rebuilt builder.internal> \t errors=…
    gobuild <schemas-id> <builders-id> <pkg> <builder> <calls>
        <calls> = (build (ctor ARG*) (call "option" ARG*)*)
        ARG     = (j <json-sexp>) | (b "Builder" (ctor ARG*) (call "option" ARG*)*) | (fail be|plain)
                | (l ARG*) | (d ("key" ARG)*)
        → <ok|err <violation paths>> \t <json of builder.internal> \t errors=<keys of builder.errors>
        | panic <why> | unsup <why> | fuel
-/
import Cog.Sem.GoBuilder
import Cog.Sem.Converter
import Cog.Sem.PyBuilder
import Cog.Builder.Vir
import Cog.Drv.SchemaStore
import Cog.Drv.ValidateDrv
namespace Cog.Drv
open Cog Cog.IR Cog.Sem Cog.Sem.GB

initialize builderStore : IO.Ref (Std.HashMap String Ctx) ← IO.mkRef {}

partial def argIn : Sexp → Option Arg
  | .list [.atom "j", j] => (Json.ofSexp j).map .json
  | .list [.atom "fail", .atom m] => some (.fail (m == "be"))
  | .list (.atom "l" :: xs) => (xs.mapM argIn).map .list
  | .list (.atom "d" :: kvs) => (kvs.mapM fun (x : Sexp) => match x with
      | .list [.str k, a] => (argIn a).map fun a' => (k, a')
      | _ => none).map .dict
  | .list (.atom "b" :: .str name :: .list (.atom "ctor" :: cas) :: calls) => do
    let cas' ← cas.mapM argIn
    let calls' ← calls.mapM fun (x : Sexp) => match x with
      | .list (.atom "call" :: .str o :: as) => (as.mapM argIn).map fun as' => Call.mk o as'
      | _ => none
    some (.builder name cas' calls')
  | _ => none

def buildIn : Sexp → Option (List Arg × List Call)
  | .list (.atom "build" :: .list (.atom "ctor" :: cas) :: calls) => do
    let cas' ← cas.mapM argIn
    let calls' ← calls.mapM fun (x : Sexp) => match x with
      | .list (.atom "call" :: .str o :: as) => (as.mapM argIn).map fun as' => Call.mk o as'
      | _ => none
    some (cas', calls')
  | _ => none

def defaultsIn (ss : Schemas) : Sexp → Option (List ((String × String) × GoVal))
  | .list (.atom "defaults" :: xs) => some <| xs.filterMap fun (x : Sexp) => match x with
    | .list [.str p, .str n, j] =>
      match Json.ofSexp j with
      | none => none
      | some j' =>
        -- a union struct with no branch set marshals as `null` (which the decoder of a scalars
        -- union would read as its first branch): the constructor leaves every branch nil
        match j', Schemas.locateObject ss p n with
        | .null, some { ty := .struct fields _ (some _) _, .. } =>
          some ((p, n), .union (fields.map fun f => (f.name, .nil)))
        | _, _ =>
          match decodeMinFuel ss (.ref p n {}) j' 12 3 with
          | .ok v => some ((p, n), fixDefault 8 ss (.ref p n {}) j' v)
          | _ => none
    | _ => none
  | _ => none

def gobuildDef (rest : List String) : IO String := do
  match rest with
  | sid :: bid :: more =>
    match ← getSchemas sid with
    | none => return "unknown-schemas"
    | some ss =>
      match Sexp.parseMany (" ".intercalate more) with
      | some [b, d] =>
        match Builder.Vir.buildersIn b with
        | none => return "bad-builders-vir"
        | some bs =>
          match defaultsIn ss d with
          | none => return "bad-defaults"
          | some ds =>
            builderStore.modify (·.insert bid { ss := ss, bs := bs, dflt := ds })
            return "ok"
      | _ => return "bad-sexp"
  | _ => return "bad-request"

def showState (c : Ctx) (b : Builder.Builder) (st : BState) : String :=
  let status := match build c b st with
    | .ok (.ok _) => "ok"
    | .ok (.error vs) => "err " ++ ";".intercalate (sortStrings (vs.map fun v => Path.render v.path))
    | .panic w => "panic " ++ w
    | .unsup w => "unsup-validate " ++ w
    | .fuel => "fuel"
  status ++ "\t" ++ (GoVal.goEncode st.internal).render ++ "\terrors=" ++ ";".intercalate (sortStrings st.errors)

def showBRes (c : Ctx) (b : Builder.Builder) : BRes BState → String
  | .ok st => showState c b st
  | .panic w => "panic " ++ w
  | .unsup w => "unsup " ++ w
  | .fuel => "fuel"

def gobuildLine (rest : String) : IO String := do
  match rest.splitOn " " with
  | "def" :: more => gobuildDef more
  | _sid :: bid :: _pkg :: bname :: more =>
    match (← builderStore.get).get? bid with
    | none => return "unknown-builders"
    | some c =>
      match (Sexp.parse (" ".intercalate more)).bind buildIn with
      | none => return "bad-calls"
      | some (ctor, calls) =>
        match findBuilder c.bs bname with
        | none => return "unknown-builder"
        | some b => return showBRes c b (runBuilder 8 c b ctor calls)
  | _ => return "bad-request"


/-! ### goconvert -/

partial def jsonOut : Json → Sexp
  | .null => .atom "null"
  | .bool true => .atom "true"
  | .bool false => .atom "false"
  | .num q => .list [.atom "n", .str (Json.numText q)]
  | .str s => .list [.atom "s", .str s]
  | .arr xs => .list (.atom "a" :: xs.map jsonOut)
  | .obj kvs => .list (.atom "o" :: kvs.map fun (k, v) => .list [.str k, jsonOut v])

def sortByKey {α} (l : List (String × α)) : List (String × α) :=
  (l.toArray.qsort (fun a b => a.1 < b.1)).toList

/-- an argument made of plain values only, as JSON (the lab parses Go literals into JSON) -/
partial def plainOf : Arg → Option Json
  | .json j => some j
  | .val v => some (GoVal.goEncode v)
  | .list xs => (xs.mapM plainOf).map .arr
  | .dict kvs => ((sortByKey kvs).mapM fun kv => (plainOf kv.2).map fun j => (kv.1, j)).map .obj
  | _ => none

def isIndexOption (bs : Builder.Builders) (bname oname : String) : Bool :=
  match findBuilder bs bname with
  | some b => match findOption b oname with
    | some o => o.assignments.any fun a => a.method == "index"
    | none => false
  | none => false

/-- runs of consecutive calls of one index option are printed sorted (the real converter ranges
    over a Go map: its call order varies from run to run) -/
def sortIndexRuns (isIdx : String → Bool) (calls : List (String × Sexp)) : List Sexp :=
  let rec go (pending : List (String × Sexp)) (rest : List (String × Sexp)) (fuel : Nat) : List Sexp :=
    let flush (p : List (String × Sexp)) : List Sexp :=
      ((p.map fun x => (x.2.render, x.2)).toArray.qsort (fun a b => a.1 < b.1)).toList.map (·.2)
    match fuel, rest with
    | 0, _ => flush pending ++ rest.map (·.2)
    | _, [] => flush pending
    | f + 1, (n, s) :: more =>
      match pending with
      | [] => if isIdx n then go [(n, s)] more f else s :: go [] more f
      | (pn, _) :: _ =>
        if pn == n then go (pending ++ [(n, s)]) more f
        else flush pending ++ (if isIdx n then go [(n, s)] more f else s :: go [] more f)
  go [] calls (calls.length + 1)

mutual
partial def argOut (bs : Builder.Builders) (a : Arg) : Sexp :=
  match plainOf a with
  | some j => .list [.atom "j", jsonOut j]
  | none =>
    match a with
    | .fail be => .list [.atom "fail", .atom (if be then "be" else "plain")]
    | .builder name ctor calls => .list (.atom "b" :: .str name :: bodyOut bs name ctor calls)
    | .list xs => .list (.atom "l" :: xs.map (argOut bs))
    | .dict kvs => .list (.atom "d" :: (sortByKey kvs).map fun kv => .list [.str kv.1, argOut bs kv.2])
    | .json j => .list [.atom "j", jsonOut j]
    | .val v => .list [.atom "j", jsonOut (GoVal.goEncode v)]
partial def bodyOut (bs : Builder.Builders) (bname : String) (ctor : List Arg) (calls : List Call) : List Sexp :=
  .list (.atom "ctor" :: ctor.map (argOut bs)) ::
    sortIndexRuns (isIndexOption bs bname)
      (calls.map fun cl => (cl.opt, .list (.atom "call" :: .str cl.opt :: cl.args.map (argOut bs))))
end

def goconvertLine (rest : String) : IO String := do
  match rest.splitOn " " with
  | _sid :: bid :: _pkg :: bname :: more =>
    match (← builderStore.get).get? bid with
    | none => return "unknown-builders"
    | some c =>
      match (Sexp.parse (" ".intercalate more)).bind Json.ofSexp with
      | none => return "bad-json"
      | some j =>
        match findBuilder c.bs bname with
        | none => return "unknown-builder"
        | some b =>
          match decodeMinFuel c.ss (.ref b.for_.selfPkg b.for_.selfName {}) j 12 3 with
          | .ok v =>
            match Conv.convert c b v with
            | .ok r =>
              let calls := (Sexp.list (.atom "build" :: bodyOut c.bs b.name r.1 r.2)).render
              return calls ++ "\t" ++ showBRes c b (Conv.replay c b r)
            | .panic w => return "panic " ++ w
            | .unsup w => return "unsup " ++ w
            | .fuel => return "fuel"
          | .err => return "decerr"
          | .unsup w => return "unsup " ++ w
          | .fuel => return "fuel"
  | _ => return "bad-request"


/-! ### pybuild -/

initialize pyBuilderStore : IO.Ref (Std.HashMap String PB.Ctx) ← IO.mkRef {}

/-- the value of a generated Python class read back from its `to_json` document: instances of
    struct objects become `PyVal.obj` (attribute list from the IR), the rest is `json.loads` -/
partial def pyTyped (ss : Schemas) (t : Ty) (j : Json) : PyVal :=
  match t, j with
  | _, .null => .none
  | .ref p n _, .obj members =>
    match Schemas.locateObject ss p n with
    | some { ty := .struct fields _ _ _, .. } =>
      .obj (fields.map fun f => (f.name, f.required, pyTyped ss f.ty ((Json.lookup f.name members).getD .null)))
    | some { ty := .map _ v _, .. } => .dict (members.map fun kv => (kv.1, pyTyped ss v kv.2))
    | some { ty := .ref p' n' m, .. } => pyTyped ss (.ref p' n' m) j
    | _ => PyVal.ofJson j
  | .ref p n _, .arr xs =>
    match Schemas.locateObject ss p n with
    | some { ty := .array e _, .. } => .list (xs.map (pyTyped ss e))
    | _ => PyVal.ofJson j
  | .array e _, .arr xs => .list (xs.map (pyTyped ss e))
  | .map _ v _, .obj members => .dict (members.map fun kv => (kv.1, pyTyped ss v kv.2))
  | _, _ => PyVal.ofJson j

def pyDefaultsIn (ss : Schemas) : Sexp → Option (List ((String × String) × PyVal))
  | .list (.atom "defaults" :: xs) => some <| xs.filterMap fun (x : Sexp) => match x with
    | .list [.str p, .str n, j] => (Json.ofSexp j).map fun j' => ((p, n), pyTyped ss (.ref p n {}) j')
    | _ => none
  | _ => none

partial def pyArgIn : Sexp → Option PB.Arg
  | .list [.atom "j", j] => (Json.ofSexp j).map .json
  | .list [.atom "fail", _] => some .fail
  | .list (.atom "l" :: xs) => (xs.mapM pyArgIn).map .list
  | .list (.atom "d" :: kvs) => (kvs.mapM fun (x : Sexp) => match x with
      | .list [.str k, a] => (pyArgIn a).map fun a' => (k, a')
      | _ => none).map .dict
  | .list (.atom "b" :: .str name :: .list (.atom "ctor" :: cas) :: calls) => do
    let cas' ← cas.mapM pyArgIn
    let calls' ← calls.mapM fun (x : Sexp) => match x with
      | .list (.atom "call" :: .str o :: as) => (as.mapM pyArgIn).map fun as' => PB.Call.mk o as'
      | _ => none
    some (.builder name cas' calls')
  | _ => none

def pyBuildIn : Sexp → Option (List PB.Arg × List PB.Call)
  | .list (.atom "build" :: .list (.atom "ctor" :: cas) :: calls) => do
    let cas' ← cas.mapM pyArgIn
    let calls' ← calls.mapM fun (x : Sexp) => match x with
      | .list (.atom "call" :: .str o :: as) => (as.mapM pyArgIn).map fun as' => PB.Call.mk o as'
      | _ => none
    some (cas', calls')
  | _ => none

/-- `pybuild def <schemas-id> <builders-id> <builders-vir> <defaults>` /
    `pybuild <schemas-id> <builders-id> <pkg> <builder> <calls>` → `ok <json>` | `raise <class>` | unsup … -/
def pybuildLine (rest : String) : IO String := do
  match rest.splitOn " " with
  | "def" :: sid :: bid :: more =>
    match ← getSchemas sid with
    | none => return "unknown-schemas"
    | some ss =>
      match Sexp.parseMany (" ".intercalate more) with
      | some [b, d] =>
        match Builder.Vir.buildersIn b, pyDefaultsIn ss d with
        | some bs, some ds =>
          pyBuilderStore.modify (·.insert bid { ss := ss, bs := bs, dflt := ds })
          return "ok"
        | _, _ => return "bad-vir"
      | _ => return "bad-sexp"
  | _sid :: bid :: _pkg :: bname :: more =>
    match (← pyBuilderStore.get).get? bid with
    | none => return "unknown-builders"
    | some c =>
      match (Sexp.parse (" ".intercalate more)).bind pyBuildIn with
      | none => return "bad-calls"
      | some (ctor, calls) =>
        match PB.findBuilder c.bs bname with
        | none => return "unknown-builder"
        | some b =>
          match PB.runBuilder 8 c b ctor calls with
          | .ok st => return "ok " ++ (pyToJson (PB.build st)).render
          | .raise e => return "raise " ++ e
          | .unsup w => return "unsup " ++ w
          | .fuel => return "fuel"
  | _ => return "bad-request"

end Cog.Drv
