/-
  Line-protocol handlers for the builder model (C16, C17).
    fromast <schemas-vir>                          -> ok <builders-vir> | panic | diverge
-/
import Cog.Builder.Vir
import Cog.Builder.FromAST
import Cog.Builder.Safe
import Cog.Builder.Witness
import Cog.Builder.Str
import Cog.Builder.Veneers
import Cog.Builder.WT
namespace Cog.Drv
open Cog Cog.IR Cog.Builder

def fromastLine (rest : String) : String :=
  match Sexp.parse rest with
  | none => "bad-sexp"
  | some sx => match IR.Vir.schemasIn sx with
    | none => "bad-vir"
    | some ss => Builder.Vir.outcomeOut (fromAST ss)

/-- `c16pred <schemas>`: the decidable hypotheses of the `_partial` theorems, evaluated by the model:
    `safe=` (`Safe`, hypothesis of `C16_total_partial`) and `nocr=` (`noOptionalConstRef` on the
    fields of every derived builder, hypothesis of `C16_cover_partial`) -/
def c16predLine (rest : String) : String :=
  match Sexp.parse rest with
  | none => "bad-sexp"
  | some sx => match IR.Vir.schemasIn sx with
    | none => "bad-vir"
    | some ss =>
      let nocr := match fromAST ss with
        | .ok bs => bs.all fun b => match structFieldsOf ss b.for_.ty with
          | some fs => noOptionalConstRef ss fs
          | none => false
        | _ => true
      s!"safe={Safe ss} nocr={nocr}"

/-- `veneer <rules> <schemas> <builders>`: load the rule files, apply `Rewriter.ApplyTo` -/
def veneerLine (rest : String) : String :=
  match Sexp.parseMany rest with
  | some [r, s, b] =>
    match Builder.Vir.veneersIn r, IR.Vir.schemasIn s, Builder.Vir.buildersIn b with
    | some (lang, files), some ss, some bs =>
      let (files, n) := Builder.Vir.numberFiles files 1
      Builder.Vir.outcomeOut (rewrite files lang ss bs n)
    | _, _, _ => "bad-vir"
  | _ => "bad-sexp"

/-- `wt <schemas> <builders>`: the decidable well-typedness predicate, one `t`/`f` per builder -/
def wtLine (rest : String) : String :=
  match Sexp.parseMany rest with
  | some [s, b] =>
    match IR.Vir.schemasIn s, Builder.Vir.buildersIn b with
    | some ss, some bs => String.ofList (bs.map fun b => if WT ss b then 't' else 'f')
    | _, _ => "bad-vir"
  | _ => "bad-sexp"

/-- `c16witness <name>`: VIR text of the Lean-side counterexample witness -/
def c16witnessLine (rest : String) : String :=
  match rest.trimAscii.toString with
  | "dangling" => (IR.Vir.schemasOut danglingWitness).render
  | "alias-cycle" => (IR.Vir.schemasOut cycleWitness).render
  | "optional-const-ref" => (IR.Vir.schemasOut optionalConstRefWitness).render
  | _ => "unknown-witness"

/-- `c17witness <name>`: the Lean-side witness term, evaluated: `<schemas-vir>\t<result>` -/
def c17witnessLine (rest : String) : String :=
  match vWitness rest.trimAscii.toString with
  | some w => (IR.Vir.schemasOut w.ss).render ++ " => " ++ Builder.Vir.outcomeOut w.run
  | none => "unknown-witness"

/-- `bstr <fn> "<string>" ["<string>"]`: the ASCII string helper models -/
def bstrLine (rest : String) : String :=
  match Sexp.parseMany rest with
  | some [.atom "lcc", .str s] => Sexp.quote (Str.lowerCamelCase s)
  | some [.atom "ucc", .str s] => Sexp.quote (Str.upperCamelCase s)
  | some [.atom "sing", .str s] => Sexp.quote (Str.singularize s)
  | some [.atom "fold", .str a, .str b] => toString (Str.equalFold a b)
  | some [.atom "cut", .str s] => match Str.cutDot s with
    | some (a, b) => Sexp.quote a ++ " " ++ Sexp.quote b
    | none => "none"
  | _ => "bad-request"

end Cog.Drv
