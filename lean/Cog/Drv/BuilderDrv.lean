/-
  Line-protocol handlers for the builder model (C16, C17).
    fromast <schemas-vir>                          -> ok <builders-vir> | panic | diverge
-/
import Cog.Builder.Vir
import Cog.Builder.FromAST
namespace Cog.Drv
open Cog Cog.IR Cog.Builder

def fromastLine (rest : String) : String :=
  match Sexp.parse rest with
  | none => "bad-sexp"
  | some sx => match IR.Vir.schemasIn sx with
    | none => "bad-vir"
    | some ss => Builder.Vir.outcomeOut (fromAST ss)

end Cog.Drv
