/-
  Driver verb of the front-end → emitted-JSON-Schema tie (core Lean only): the instance of
  `C12_jsonschema_source_validates_emitted_partial` (Props/C12.lean, block of the c01-front builder) on the REAL front-end IR of
  the `c01-front` stream, and the MEASURED comparison of the two validators on every document.

    jsfc12 <id> <real-id> <doc>  →  base=<b> satlax=<b> inst=<b> concl=<b|n/a> satgap=<b> jsfrag=<b> frag=<b> modelled=<b> src=<b> emjs=<b|n/a> satjs=<b|n/a>
                                    samedefs=<b> nonull=<b> widened=<b> cmp=<both|none|src-only|emit-only|n/a> cmpgo=<…>
        base    : FragJS ∧ PlainS of the real IR ∧ wfDeep ∧ jsValidX of the SOURCE schema
        satlax  : `satLax` (below) of the pass models' output Sg — expected for every `base` document
        inst    : every hypothesis of the theorem holds (FragJS, PlainS, wfDeep, jsValidX of the SOURCE schema, jsFrag of the pass
                  models' output Sg of the real IR, emitDefs Sg, localHas root, sat)
        concl   : goRoundTrip on Sg answers j' ≡ doc and j' validates against `#/definitions/<root>` of `emitDefs Sg`
        satgap  : every hypothesis but `sat` holds and `sat` does not (the source schema accepts a document the IR's
                  constraints / constants reject — never expected)
        src     : `jsValid` of the SOURCE schema
        emjs    : `JSOut.jsValid` of `emitDefs Sjs`, Sjs = the model of the jsonschema language's own chain
                  (DisjunctionWithNullToOptional; InferEntrypoint touches no definition) on the real front-end IR — compared by the
                  check with the verdict of the reference validator on the schema the REAL jenny emitted
        satjs   : `sat` of Sjs (the exclusions of the known findings C12/nullable/… and C12/any/…)
        nonull  : no object member of the document is `null`
        samedefs: `emitDefs Sg` = `emitDefs Sjs` (the theorem speaks about Sg, the real jenny sees Sjs)
        cmp     : `jsValid` of the SOURCE schema vs `JSOut.jsValid` of `emitDefs` of the real FRONT-END IR (no pass), when
                  every validation keyword of the case is modelled; cmpgo: the same against `emitDefs Sg`
-/
import Cog.Drv.FrontDrv
import Cog.Drv.FrontOaDrv
import Cog.Sem.JsonSchemaOutDescribes
import Cog.Sem.JsonSchemaOutFrag
namespace Cog.Drv
open Cog Cog.IR Cog.Sem Cog.Sem.Src Cog.Front.JsonSchema

def emittedValid (ss : Schemas) (pkg root : String) (fuel : Nat) (j : Json) : Option Bool :=
  match Schemas.locate ss pkg with
  | none => none
  | some s =>
    match JSOut.emitDefs (JSOut.emitFuel ss) ss s with
    | none => none
    | some D => some (JSOut.jsValidObj D fuel root j)

/-- the passes of `jsonschema.Language.CompilerPasses` that change definitions -/
def jsEmitChain : List Passes.PassId := [.disjunctionWithNullToOptional]

/-- no object member holds `null` (the Go encoder omits such optional members: the theorem speaks about the re-encoded document) -/
partial def noNullMember : Json → Bool
  | .obj kvs => kvs.all fun kv => !kv.2.isNull && noNullMember kv.2
  | .arr xs => xs.all noNullMember
  | _ => true

/-- `JSOut.sat` without the two exclusions that the known findings C12/nullable/… and C12/any/… explain: `null` is
    excused everywhere and an `any` holds every value.  What remains (constraints, constants, enumeration members, required
    members, shapes) must hold for every document that is valid against the SOURCE schema: measured by the check
    (a front-end that alters a constraint makes source-valid documents fail it). -/
def satLax : Nat → Schemas → Ty → Json → Bool
  | 0, _, _, _ => false
  | n + 1, ss, t, j =>
    j.isNull ||
    match t with
    | .scalar kind v cs _ => kind == "any" || JSOut.satScalar kind v cs j
    | .array e _ =>
      (match j with
       | .arr xs => xs.all (satLax n ss e)
       | _ => false)
    | .map _ v _ =>
      (match j with
       | .obj kvs => kvs.all (fun kv => satLax n ss v kv.2)
       | _ => false)
    | .ref pkg name _ =>
      (match Schemas.locateObject ss pkg name with
       | none => false
       | some o =>
         match o.ty with
         | .struct fields _ none _ =>
           (match j with
            | .obj members => fields.all fun f =>
                (match Json.lookup f.name members with
                 | some x => satLax n ss f.ty x
                 | none => !f.required)
            | _ => false)
         | .struct fields _ (some (hint, info)) _ =>
           if hint = "disjunction_of_scalars" then
             fields.all (fun f => !den n ss (JSOut.noNull f.ty) j || satLax n ss (JSOut.noNull f.ty) j)
           else
             (match j with
              | .obj members =>
                (match Json.lookup info.discriminator members with
                 | some (.str tag) =>
                   (match info.mapping.find? (fun kv => kv.1 == tag) with
                    | some kv => satLax n ss (.ref pkg kv.2 {}) j
                    | none => false)
                 | _ => false)
              | _ => false)
         | .enum vs _ => JSOut.enumMember vs j
         | .scalar kind v cs _ => kind == "any" || JSOut.satScalar kind v cs j
         | .array .. | .map .. => satLax n ss o.ty j
         | .ref p n' om => satLax n ss (.ref p n' om) j
         | _ => false)
    | _ => false

def cmpText (src : Bool) : Option Bool → String
  | none => "n/a"
  | some e => if src && e then "both" else if src then "src-only" else if e then "emit-only" else "none"

open Cog.Front.OpenApi in
mutual
/-- some node is a CLOSED object without properties (`type: object, additionalProperties: false`, no `properties`):
    `walkObject` reads it as `any`, so the IR — and the emitted schema — accept more than the source does (the converse
    direction of the comparison is not expected for such a case) -/
partial def osClosedEmpty : OS → Bool
  | .mk a allOf anyOf oneOf props addl items =>
    (typeIs a "object" && props.isEmpty && a.addlHas == some false) ||
    allOf.any osrClosedEmpty || anyOf.any osrClosedEmpty || oneOf.any osrClosedEmpty ||
    props.any (fun kv => osrClosedEmpty kv.2) || ooptClosedEmpty addl || ooptClosedEmpty items
partial def osrClosedEmpty : OSR → Bool
  | .mk _ hasValue _ v => hasValue && osClosedEmpty v
partial def ooptClosedEmpty : OOpt → Bool
  | .none => false
  | .some r => osrClosedEmpty r
end

/-- the verdicts of one document; `frag` / `modelled` / `strict` (at fuel `e2eFuel`) / `src` come from the source format -/
def emitVerdicts (frag modelled strict src widened : Bool) (pkg root : String) (real : Schemas) (prep : SrcPrep) (j : Json) : String :=
  let n := e2eFuel
  let base := frag && prep.plainS && wfDeep j && strict
  let (jsf, others, satv, concl) :=
    match prep.model with
    | none => (false, false, false, false)
    | some Sg =>
      match Schemas.locate Sg pkg with
      | none => (false, false, false, false)
      | some s =>
        let jsf := JSOut.jsFrag Sg s
        match JSOut.emitDefs (JSOut.emitFuel Sg) Sg s with
        | none => (jsf, false, false, false)
        | some D =>
          let others := s.pkg == pkg && jsf && JSOut.localHas s root
          let satv := JSOut.sat (n + 3) Sg (.ref pkg root {}) j
          let concl := base && others && satv &&
            (match goRoundTrip (n + 3) Sg pkg root j with
             | .ok j' => Json.eqv j' j && JSOut.jsValidObj D (n + 3 + 1) root j'
             | _ => false)
          (jsf, others, satv, concl)
  let satlax := match prep.model with
    | some Sg => satLax (n + 3) Sg (.ref pkg root {}) j
    | none => false
  let inst := base && others && satv
  let satgap := base && others && !satv
  let cmp := if modelled then cmpText src (emittedValid real pkg root (frontFuel + 1) j) else "n/a"
  let cmpgo := if modelled then
      (match prep.model with
       | some Sg => cmpText src (emittedValid Sg pkg root (frontFuel + 1) j)
       | none => "n/a")
    else "n/a"
  let sjs := match Passes.runChain jsEmitChain real with | .ok x => some x | _ => none
  let emjs := match sjs with
    | some x => (match emittedValid x pkg root (frontFuel + 1) j with | some b => toString b | none => "n/a")
    | none => "n/a"
  let satjs := match sjs with
    | some x => toString (JSOut.sat (frontFuel + 1) x (.ref pkg root {}) j)
    | none => "n/a"
  let defsOf (ss : Schemas) : Option JSOut.Def := (Schemas.locate ss pkg).bind fun s => JSOut.emitDefs (JSOut.emitFuel ss) ss s
  let samedefs := match sjs.bind defsOf, prep.model.bind defsOf with
    | some a, some b => JSOut.jsBeqKvs a b
    | _, _ => false
  s!"base={base} satlax={satlax} inst={inst} concl={if inst then toString concl else "n/a"} satgap={satgap} jsfrag={jsf} frag={frag} modelled={modelled} src={src} emjs={emjs} satjs={satjs} samedefs={samedefs} nonull={noNullMember j} widened={widened} cmp={cmp} cmpgo={cmpgo}"

def jsfc12Line (rest : String) : IO String := do
  match rest.splitOn " " with
  | id :: realId :: js =>
    match (← frontStore.get).get? id, ← getSchemas realId with
    | some c, some real =>
      match (Sexp.parse (" ".intercalate js)).bind Json.ofSexp with
      | none => return "bad-json"
      | some j =>
        let prep ← srcPrep realId real
        return emitVerdicts c.frag c.modelled (jsValidX fmtOracle c.defs e2eFuel c.root j) (jsValid fmtOracle c.defs frontFuel c.root j) false
          c.pkg (rootName c.pkg c.root) real prep j
    | none, _ => return "unknown-case"
    | _, none => return "unknown-schemas"
  | _ => return "bad-request"

/-- `oafc12 <id> <real-id> <root> <doc>`: the same for an OpenAPI case and the component `root`
    (instance of C12_openapi_source_validates_emitted_partial) -/
def oafc12Line (rest : String) : IO String := do
  match rest.splitOn " " with
  | id :: realId :: root :: js =>
    match (← frontOaStore.get).get? id, ← getSchemas realId with
    | some c, some real =>
      match (Sexp.parse (" ".intercalate js)).bind Json.ofSexp with
      | none => return "bad-json"
      | some j =>
        let cs := c.comps.getD []
        let prep ← srcPrep realId real
        return emitVerdicts (c.frag && Cog.Front.OpenApi.rootFrag cs root) c.modelled
          (Cog.Front.OpenApi.oaValidX fmtOracle cs e2eFuel (Cog.Front.OpenApi.refTo root) j)
          (Cog.Front.OpenApi.oaValid fmtOracle cs frontFuel (Cog.Front.OpenApi.refTo root) j)
          (cs.any fun kv => osrClosedEmpty kv.2)
          c.pkg root real prep j
    | none, _ => return "unknown-case"
    | _, none => return "unknown-schemas"
  | _ => return "bad-request"

end Cog.Drv
