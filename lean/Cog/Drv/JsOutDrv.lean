/-
  Driver verbs of C12 (emitted JSON Schema / OpenAPI documents).
    jsemit  <schemas-id> <pkg> js|oa                     →  ok <json> | hang | panic | nopkg | unsup-value
    jsvalid <schemas-id> <pkg> <object> <json-sexp>      →  valid | invalid | hang | nopkg | bad-json
    jshyp   <go-id> <js-id> <pkg> <object> <json-sexp>   →  n=<fuel> describes=<b> den=<b> sat=<b> dec=<ok|err|unsup|fuel> valid=<b>
    jswf    <schemas-id> <pkg>                           →  emitclosed=<b> noclash=<b> terminates=<b>
    jsself  <go-id> <js-id> <pkg>                        →  jsfrag=<b> samedefs=<b>   (hypotheses of C12_values_validate_same_ir_partial
                                                             for S := the Go-chain IR: on the fragment, and emitting the same definitions)
-/
import Cog.Sem.JsonSchemaOutDescribes
import Cog.Sem.JsonSchemaOutWf
import Cog.Sem.JsonSchemaOutFrag
import Cog.Drv.SchemaStore
namespace Cog.Drv
open Cog Cog.IR Cog.Sem Cog.Sem.JSOut

def hex4 (n : Nat) : String :=
  String.ofList [Sexp.hexDigit (n / 4096 % 16), Sexp.hexDigit (n / 256 % 16), Sexp.hexDigit (n / 16 % 16), Sexp.hexDigit (n % 16)]

/-- JSON string literal -/
def jq (s : String) : String :=
  let body := s.foldl (fun acc c =>
    if c == '"' then acc ++ "\\\""
    else if c == '\\' then acc ++ "\\\\"
    else if c == '\n' then acc ++ "\\n"
    else if c == '\t' then acc ++ "\\t"
    else if c == '\r' then acc ++ "\\r"
    else if c.toNat < 32 then acc ++ "\\u" ++ hex4 c.toNat
    else acc.push c) ""
  "\"" ++ body ++ "\""

/-- what `encoding/json` writes for a Go `any` of the IR (numbers as their Go text; compared numerically) -/
partial def valJson : Val → Option String
  | .nil => some "null"
  | .bool b => some (if b then "true" else "false")
  | .int _ n => some (toString n)
  | .float _ r => some r
  | .jnum s => some s
  | .str s => some (jq s)
  | .list xs => (xs.mapM valJson).map fun l => "[" ++ ",".intercalate l ++ "]"
  | .map kvs => (kvs.mapM fun (k, v) => (valJson v).map fun t => jq k ++ ":" ++ t).map fun l => "{" ++ ",".intercalate l ++ "}"
  | .other _ _ => none

partial def jsJson (pfx : String) : JS → Option String
  | .obj kvs => (kvs.mapM fun (k, v) => (jsJson pfx v).map fun t => jq k ++ ":" ++ t).map fun l => "{" ++ ",".intercalate l ++ "}"
  | .arr xs => (xs.mapM (jsJson pfx)).map fun l => "[" ++ ",".intercalate l ++ "]"
  | .str s => some (jq s)
  | .bool b => some (if b then "true" else "false")
  | .ref n => some (jq (pfx ++ n))
  | .raw v => valJson v

def closureFuel (ss : Schemas) : Nat := emitFuel ss

/-- the objects `GenerateSchema` formats for schema `s`: its own, then round by round the queued
    foreign ones whose key was not emitted before -/
def laterObjs (ss : Schemas) (pkg : String) : Nat → Pending → List String → List Obj
  | 0, _, _ => []
  | f + 1, pend, em =>
    if pend.isEmpty then []
    else
      let fresh := (pend.foldl (fun (acc : List (String × Obj) × List String) e =>
        if acc.2.contains e.1 then acc else (acc.1 ++ [e], e.1 :: acc.2)) ([], em)).1
      fresh.map (·.2) ++ laterObjs ss pkg f (runForeign ss pkg pend ([], [], em)).2.1 (runForeign ss pkg pend ([], [], em)).2.2

/-- a Go panic while formatting one of them (nil payload of a Kind, `Args[0]` of an empty argument list) -/
def anyPanics (ss : Schemas) (s : Schema) : Bool :=
  (schemaObjs s ++ laterObjs ss s.pkg (emitFuel ss) (firstRound ss s).2 []).any fun o => emitPanics o.ty

def findSchema (ss : Schemas) (pkg : String) : Option Schema := ss.find? (fun s => s.pkg == pkg)

def jsemitLine (rest : String) : IO String := do
  match rest.splitOn " " with
  | [id, pkg, kind] =>
    match ← getSchemas id with
    | none => return "unknown-schemas"
    | some ss =>
      match findSchema ss pkg with
      | none => return "nopkg"
      | some s =>
        if anyPanics ss s then return "panic" else
        let doc := if kind == "oa" then emitOA (closureFuel ss) ss s else emitJS (closureFuel ss) ss s
        match doc with
        | none => return "hang"
        | some d =>
          match jsJson (if kind == "oa" then "#/components/schemas/" else "#/definitions/") d with
          | some t => return "ok " ++ t
          | none => return "unsup-value"
  | _ => return "bad-request"

def validFuel : Nat := 64

def jsvalidLine (rest : String) : IO String := do
  match rest.splitOn " " with
  | id :: pkg :: obj :: js =>
    match ← getSchemas id with
    | none => return "unknown-schemas"
    | some ss =>
      match findSchema ss pkg with
      | none => return "nopkg"
      | some s =>
        match (Sexp.parse (" ".intercalate js)).bind Json.ofSexp with
        | none => return "bad-json"
        | some j =>
          match emitDefs (closureFuel ss) ss s with
          | none => return "hang"
          | some D => return (if jsValidObj D validFuel obj j then "valid" else "invalid")
  | _ => return "bad-request"

/-- the first fuel (4, 6, …) at which the decoder model does not run out of fuel -/
partial def decodeFuel (ss : Schemas) (pkg name : String) (j : Json) (f : Nat := 4) : Nat :=
  match goDecode f ss (.ref pkg name {}) j with
  | .fuel => if f ≥ 40 then f else decodeFuel ss pkg name j (f + 2)
  | _ => f

def b2 (b : Bool) : String := if b then "true" else "false"

def jshypLine (rest : String) : IO String := do
  match rest.splitOn " " with
  | goid :: jsid :: pkg :: obj :: js =>
    match ← getSchemas goid, ← getSchemas jsid with
    | some sgo, some sjs =>
      match findSchema sjs pkg with
      | none => return "nopkg"
      | some s =>
        match (Sexp.parse (" ".intercalate js)).bind Json.ofSexp with
        | none => return "bad-json"
        | some j =>
          match emitDefs (closureFuel sjs) sjs s with
          | none => return "hang"
          | some D =>
            let n := decodeFuel sgo pkg obj j + 2
            let t : Ty := .ref pkg obj {}
            let node : Def := [("$ref", .ref obj)]
            let (dec, valid) : String × Bool :=
              match goDecode n sgo t j with
              | .ok v => ("ok", jsValid D (n + validFuel) (.obj node) (GoVal.goEncode v))
              | .err => ("err", false)
              | .unsup _ => ("unsup", false)
              | .fuel => ("fuel", false)
            return s!"n={n} describes={b2 (describes D n sgo t node)} den={b2 (den n sgo t j)} sat={b2 (sat n sgo t j)} dec={dec} valid={b2 valid}"
    | _, _ => return "unknown-schemas"
  | _ => return "bad-request"

def jswfLine (rest : String) : IO String := do
  match rest.splitOn " " with
  | [id, pkg] =>
    match ← getSchemas id with
    | none => return "unknown-schemas"
    | some ss =>
      match findSchema ss pkg with
      | none => return "nopkg"
      | some s =>
        return s!"emitclosed={b2 (emitClosed ss s)} noclash={b2 (noClash ss s)} terminates={b2 (emitDefs (closureFuel ss) ss s).isSome}"
  | _ => return "bad-request"

def jsselfLine (rest : String) : IO String := do
  match rest.splitOn " " with
  | [goid, jsid, pkg] =>
    match ← getSchemas goid, ← getSchemas jsid with
    | some sgo, some sjs =>
      match findSchema sgo pkg, findSchema sjs pkg with
      | some g, some s =>
        let same := match emitDefs (closureFuel sgo) sgo g, emitDefs (closureFuel sjs) sjs s with
          | some a, some b => jsBeqKvs a b
          | _, _ => false
        -- `Schemas.locate S pkg = some s` holds by construction: findSchema returns the first schema of that package
        return s!"jsfrag={b2 (jsFrag sgo g)} samedefs={b2 same}"
      | _, _ => return "nopkg"
    | _, _ => return "unknown-schemas"
  | _ => return "bad-request"

end Cog.Drv
