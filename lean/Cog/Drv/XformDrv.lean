/-
  Line-protocol handler for the schema transformations (C15; C05 reuses the models).
  request : `xform <name> <params> <schemas>`      one transformation
            `xform seq ((<name> <params>) …) <schemas>`   a configuration file with several
            `xform str <fn> "<s>" ["<t>"]`         string helpers (eqfold, trim, ucc, objref, fieldref)
            `xform spec <name> <params> <schemas>`  the Lean specification `T.spec p S` (what the theorems are about)
            `xform pred <name> <params> <schemas>`  `wf=<b> hyp=<b> notarget=<b>`: WF, hypotheses of the partial theorem, no target
            `xform witness <i>`                    i-th counterexample witness: `<theorem> <quirk> <request>` | `end`
  reply   : `ok <schemas>` | `err` | `panic`   (nil-`Hints` marks are not printed)
-/
import Cog.IR.Vir
import Cog.Xform.Yaml
import Cog.Xform.Witness
import Cog.Xform.SpecAll
namespace Cog.Drv
open Cog Cog.IR Cog.Xform

namespace XformDrv

def item (key : String) : List Sexp → Option (List Sexp)
  | [] => none
  | .list (.atom k :: vs) :: rest => if k == key then some vs else item key rest
  | _ :: rest => item key rest

def strs (xs : List Sexp) : Option (List String) := Vir.strsIn xs

def str1 (key : String) (ps : List Sexp) : Option String :=
  match item key ps with
  | some [.str s] => some s
  | _ => none

def strList (key : String) (ps : List Sexp) : Option (List String) := (item key ps) >>= strs

def ty1 (key : String) (ps : List Sexp) : Option Ty :=
  match item key ps with
  | some [t] => Vir.tyIn t
  | _ => none

def optComments (ps : List Sexp) : Option (Option (List String)) :=
  match item "comments" ps with
  | none => some none
  | some xs => (strs xs).map some

def fieldIn : Sexp → Option Field
  | .list [.atom "f", .str n, t, .atom r, .list (.atom "c" :: cs)] => do
    some { name := n, ty := (← Vir.tyIn t), required := r == "true", comments := (← strs cs) }
  | _ => none

def kvs (xs : List Sexp) : Option (List (String × Val)) :=
  xs.mapM fun (x : Sexp) => match x with
    | .list [.str k, v] => (Vir.valIn v).map fun v' => (k, v')
    | _ => none

def rawIn (name : String) (ps : List Sexp) : Option RawXf :=
  match name with
  | "rename_object" => do some (.renameObject (← str1 "from" ps) (← str1 "to" ps))
  | "omit" => do some (.omit (← strList "objects" ps))
  | "omit_fields" => do some (.omitFields (← strList "fields" ps))
  | "add_fields" => do some (.addFields (← str1 "to" ps) (← (← item "fields" ps).mapM fieldIn))
  | "add_object" => do some (.addObject (← str1 "object" ps) (← ty1 "as" ps) ((← optComments ps).getD []))
  | "duplicate_object" => do
    some (.duplicateObject (← str1 "object" ps) (← str1 "as" ps) ((strList "omit_fields" ps).getD []))
  | "retype_object" => do some (.retypeObject (← str1 "object" ps) (← ty1 "as" ps) (← optComments ps))
  | "retype_field" => do some (.retypeField (← str1 "field" ps) (← ty1 "as" ps) (← optComments ps))
  | "fields_set_required" => do some (.fieldsSetRequired (← strList "fields" ps))
  | "fields_set_not_required" => do some (.fieldsSetNotRequired (← strList "fields" ps))
  | "fields_set_default" => do some (.fieldsSetDefault (← kvs (← item "defaults" ps)))
  | "replace_reference" => do some (.replaceReference (← str1 "from" ps) (← str1 "to" ps))
  | "constant_to_enum" => do some (.constantToEnum (← strList "objects" ps))
  | "trim_enum_values" => some .trimEnumValues
  | "hint_object" => do some (.hintObject (← str1 "object" ps) (← kvs (← item "hints" ps)))
  | "schema_set_identifier" => do some (.schemaSetIdentifier (← str1 "package" ps) (← str1 "identifier" ps))
  | "schema_set_entry_point" => do some (.schemaSetEntryPoint (← str1 "package" ps) (← str1 "entry_point" ps))
  | "prefix" => do some (.prefixObjectNames (← str1 "prefix" ps))
  | "append_comment" => do some (.appendCommentObjects (← str1 "comment" ps))
  | "unspec" => some .unspec
  | _ => none

def rawSeqIn (xs : List Sexp) : Option (List RawXf) :=
  xs.mapM fun (x : Sexp) => match x with
    | .list [.atom n, .list ps] => rawIn n ps
    | _ => none

/-- what the reply prints: nil-map marks removed everywhere (also in the entry point type) -/
def strip (S : Schemas) : Schemas :=
  S.map fun s => { deepCopySchema s with entryPointType := deepCopyTy s.entryPointType }

def reply (o : Outcome Schemas) : String :=
  match o with
  | .ok S => Vir.outcomeOut Vir.schemasOut (.ok (strip S))
  | .err e => Vir.outcomeOut Vir.schemasOut (.err e)
  | .panic s => Vir.outcomeOut Vir.schemasOut (.panic s)

def strFn : List Sexp → String
  | [.atom "eqfold", .str a, .str b] => toString (eqFold a b)
  | [.atom "trim", .str a] => Sexp.quote (trimSpace a)
  | [.atom "ucc", .str a] => Sexp.quote (upperCamelCase a)
  | [.atom "objref", .str a] => match ObjRef.parse a with
    | some r => Sexp.quote r.pkg ++ " " ++ Sexp.quote r.obj
    | none => "err"
  | [.atom "fieldref", .str a] => match FieldRef.parse a with
    | some r => Sexp.quote r.pkg ++ " " ++ Sexp.quote r.obj ++ " " ++ Sexp.quote r.field
    | none => "err"
  | _ => "bad-request"

/-! printing a step back as request text (for the witnesses) -/

def orefOut (r : ObjRef) : Sexp := .str (r.pkg ++ "." ++ r.obj)
def frefOut (r : FieldRef) : Sexp := .str (r.pkg ++ "." ++ r.obj ++ "." ++ r.field)
def kv (k : String) (vs : List Sexp) : Sexp := .list (.atom k :: vs)
def fieldOut (f : Field) : Sexp :=
  .list [.atom "f", .str f.name, Vir.tyOut f.ty, Vir.b2s f.required, .list (.atom "c" :: f.comments.map .str)]
def commentsOut : Option (List String) → List Sexp
  | none => []
  | some cs => [kv "comments" (cs.map .str)]

def stepOut : Xf → String × List Sexp
  | .renameObject p => ("rename_object", [kv "from" [orefOut p.from_], kv "to" [.str p.to]])
  | .omit p => ("omit", [kv "objects" (p.objects.map orefOut)])
  | .omitFields p => ("omit_fields", [kv "fields" (p.fields.map frefOut)])
  | .addFields p => ("add_fields", [kv "to" [orefOut p.to], kv "fields" (p.fields.map fieldOut)])
  | .addObject p => ("add_object", [kv "object" [orefOut p.object], kv "as" [Vir.tyOut p.as_]] ++
      (if p.comments.isEmpty then [] else [kv "comments" (p.comments.map .str)]))
  | .duplicateObject p => ("duplicate_object", [kv "object" [orefOut p.object], kv "as" [orefOut p.as_]] ++
      (if p.omitFields.isEmpty then [] else [kv "omit_fields" (p.omitFields.map .str)]))
  | .retypeObject p => ("retype_object", [kv "object" [orefOut p.object], kv "as" [Vir.tyOut p.as_]] ++ commentsOut p.comments)
  | .retypeField p => ("retype_field", [kv "field" [frefOut p.field], kv "as" [Vir.tyOut p.as_]] ++ commentsOut p.comments)
  | .fieldsSetRequired p => ("fields_set_required", [kv "fields" (p.fields.map frefOut)])
  | .fieldsSetNotRequired p => ("fields_set_not_required", [kv "fields" (p.fields.map frefOut)])
  | .fieldsSetDefault p => ("fields_set_default", [kv "defaults" (p.defaults.map fun e => .list [frefOut e.1, Vir.valOut e.2])])
  | .replaceReference p => ("replace_reference", [kv "from" [orefOut p.from_], kv "to" [orefOut p.to]])
  | .constantToEnum p => ("constant_to_enum", [kv "objects" (p.objects.map orefOut)])
  | .trimEnumValues => ("trim_enum_values", [])
  | .hintObject p => ("hint_object", [kv "object" [orefOut p.object], kv "hints" (p.hints.map fun e => .list [.str e.1, Vir.valOut e.2])])
  | .schemaSetIdentifier p => ("schema_set_identifier", [kv "package" [.str p.pkg], kv "identifier" [.str p.identifier]])
  | .schemaSetEntryPoint p => ("schema_set_entry_point", [kv "package" [.str p.pkg], kv "entry_point" [.str p.entryPoint]])
  | .prefixObjectNames p => ("prefix", [kv "prefix" [.str p.pfx]])
  | .appendCommentObjects p => ("append_comment", [kv "comment" [.str p.comment]])
  | .unspec => ("unspec", [])

def witnessLine (w : Witness) : String :=
  let head := w.theorem_ ++ " " ++ w.quirk ++ " xform "
  let body := match w.steps with
    | [t] => let (name, ps) := stepOut t; name ++ " " ++ (Sexp.list ps).render
    | ts => "seq " ++ (Sexp.list (ts.map fun t => let (name, ps) := stepOut t; .list [.atom name, .list ps])).render
  head ++ body ++ " " ++ (Vir.schemasOut w.schemas).render

end XformDrv

open XformDrv in
def xformLine (rest : String) : String :=
  match Sexp.parseMany rest with
  | some (.atom "str" :: args) => strFn args
  | some [.atom "witness", .atom n] =>
    match n.toNat? with
    | some i => match witnesses[i]? with
      | some w => witnessLine w
      | none => "end"
    | none => "bad-request"
  | some [.atom "spec", .atom name, .list ps, ss] =>
    match rawIn name ps, Vir.schemasIn ss with
    | some raw, some S => match raw.load with
      | some t => reply (.ok (t.spec (deepCopySchemas S)))
      | none => "err"
    | _, _ => "bad-request"
  | some [.atom "pred", .atom name, .list ps, ss] =>
    match rawIn name ps, Vir.schemasIn ss with
    | some raw, some S => match raw.load with
      | some t =>
        let S0 := deepCopySchemas S
        s!"wf={wfB S0} hyp={t.hyp S0} notarget={t.noTarget S0}"
      | none => "err"
    | _, _ => "bad-request"
  | some [.atom "seq", .list xs, ss] =>
    match rawSeqIn xs, Vir.schemasIn ss with
    | some raw, some S => reply (loadAndProcess raw S)
    | _, _ => "bad-request"
  | some [.atom name, .list ps, ss] =>
    match rawIn name ps, Vir.schemasIn ss with
    | some raw, some S => reply (loadAndProcess [raw] S)
    | _, _ => "bad-request"
  | _ => "bad-request"

end Cog.Drv
