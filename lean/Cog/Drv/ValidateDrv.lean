/-
  Driver verbs for C08 (generated Validate() and strict decoders).
    govalidate <schemas-id> <pkg> <object> <json-sexp>
        decode the document with the plain decoder model (`goDecode`), run the model of the
        generated `Validate()` and the specification `violations` on the value:
        →  ok <n> <path>|<op>|<bound-quarters>;…  spec <m> <…>   (violations sorted)
         | decerr | unsup <why> | fuel
    gostrict <schemas-id> <pkg> <object> <json-sexp>
        →  <ok <json> | err | unsup <why> | fuel>  spec <faults: path|kind;… | unsup … | fuel>
    c08hyp <schemas-id>
        →  noConstrainedAlias=<bool> scalarUnionsAreLeaf=<bool>
-/
import Cog.Sem.GoValidateSpec
import Cog.Sem.GoStrictSpec
import Cog.Drv.SchemaStore
namespace Cog.Drv
open Cog Cog.IR Cog.Sem

def c08Fuel : Nat := 64

def violText (v : Viol) : String :=
  Path.render v.path ++ "|" ++ v.op ++ "|" ++ toString v.bound

def sortStrings (l : List String) : List String := (l.toArray.qsort (· < ·)).toList

def showViols : DRes (List Viol) → String
  | .ok l => "ok " ++ toString l.length ++ " " ++ ";".intercalate (sortStrings (l.map violText))
  | .err => "err"
  | .unsup w => "unsup " ++ w
  | .fuel => "fuel"

def faultKindText : FaultKind → String
  | .undeclared k => "undeclared:" ++ k
  | .missing => "missing"
  | .nullRequired => "nullRequired"
  | .wrongType => "wrongType"
  | .nullElem => "nullElem"

def faultText (f : Fault) : String := Path.render f.path ++ "|" ++ faultKindText f.kind

def showFaults : DRes (List Fault) → String
  | .ok l => "faults " ++ toString l.length ++ " " ++ ";".intercalate (sortStrings (l.map faultText))
  | .err => "err"
  | .unsup w => "unsup " ++ w
  | .fuel => "fuel"

def showVal : DRes GoVal → String
  | .ok v => "ok " ++ (GoVal.goEncode v).render
  | .err => "err"
  | .unsup w => "unsup " ++ w
  | .fuel => "fuel"

def withDoc (rest : String) (k : Schemas → String → String → Json → String) : IO String := do
  match rest.splitOn " " with
  | id :: pkg :: obj :: js =>
    match ← getSchemas id with
    | none => return "unknown-schemas"
    | some ss =>
      match (Sexp.parse (" ".intercalate js)).bind Json.ofSexp with
      | none => return "bad-json"
      | some j => return k ss pkg obj j
  | _ => return "bad-request"

/-- plain decode with the least sufficient fuel (`goDecode` evaluates the zero value of every
    absent nullable struct field before discarding it, which is exponential in the fuel on
    recursive schemas; the result does not depend on the fuel once it is not `.fuel`) -/
def decodeMinFuel (ss : Schemas) (t : Ty) (j : Json) : Nat → Nat → DRes GoVal
  | 0, fuel => goDecode fuel ss t j
  | k + 1, fuel =>
    match goDecode fuel ss t j with
    | .fuel => decodeMinFuel ss t j k (fuel + 2)
    | r => r

def govalidateLine (rest : String) : IO String :=
  withDoc rest fun ss pkg obj j =>
    match decodeMinFuel ss (.ref pkg obj {}) j 12 3 with
    | .ok v =>
      showViols (goValidate c08Fuel ss pkg obj v) ++ "\tspec " ++ showViols (violations c08Fuel ss (.ref pkg obj {}) v)
    | .err => "decerr"
    | .unsup w => "unsup " ++ w
    | .fuel => "fuel"

def gostrictLine (rest : String) : IO String :=
  withDoc rest fun ss pkg obj j =>
    showVal (goDecodeStrict c08Fuel ss pkg obj j) ++ "\tspec " ++ showFaults (strictFaultsObj c08Fuel ss pkg obj j)

def c08hypLine (rest : String) : IO String := do
  match ← getSchemas rest.trimAscii.toString with
  | none => return "unknown-schemas"
  | some ss =>
    return "noConstrainedAlias=" ++ toString (noConstrainedAlias ss) ++
      " scalarUnionsAreLeaf=" ++ toString (scalarUnionsAreLeaf ss)

end Cog.Drv
