/-
  Driver verb for the model of the generated `Equals` methods (C13).

    goequals <schemas-id> <pkg> <object> <json1-sexp> <json2-sexp>
        → true | false | err | unsup <why> | fuel
      decode both documents into the generated type of `<pkg>.<object>` (two independent
      `json.Unmarshal`s) and evaluate `a.Equals(b)`.

    goequals ?info <schemas-id> <pkg> <object> <json1-sexp> <json2-sexp>
        → eq=<ab>,<ba> refl=<aa>,<bb> ts=<a>,<b> nz=<a>,<b> ua=<0|1> enc=<0|1> encnil=<0|1> wt=<a>,<b>
      the verdicts in both directions plus the decidable hypotheses of the `_partial` theorems
      (`timesShared`, `mapsNonZero`), exact equality of the encodings and equality of the encodings
      up to nil/empty collections; used to classify law failures (`excludedBy`).
-/
import Cog.Sem.GoEquals
import Cog.Drv.SemDrv
namespace Cog.Drv
open Cog Cog.IR Cog.Sem Cog.Sem.GoEq

def bit (b : Bool) : String := if b then "1" else "0"

def decodeBoth (fuel : Nat) (ss : Schemas) (pkg obj : String) (j1 j2 : Json) : DRes (GoVal × GoVal) :=
  (goDecode fuel ss (.ref pkg obj {}) j1).bind fun a =>
    (goDecode fuel ss (.ref pkg obj {}) j2).bind fun b => .ok (a, b)

/-- iterative deepening (see `goRoundTripAuto`): the first fuel 4, 6, 8, … at which both decodes
    answer; returns that fuel too -/
partial def decodeBothAuto (ss : Schemas) (pkg obj : String) (j1 j2 : Json) (f : Nat := 4) :
    DRes (GoVal × GoVal) × Nat :=
  match decodeBoth f ss pkg obj j1 j2 with
  | .fuel => if f ≥ semFuel then (.fuel, f) else decodeBothAuto ss pkg obj j1 j2 (f + 2)
  | r => (r, f)

def goequalsCore (info : Bool) (args : List String) : IO String := do
  match args with
  | id :: pkg :: obj :: js =>
    match ← getSchemas id with
    | none => return "unknown-schemas"
    | some ss =>
      match Sexp.parseMany (" ".intercalate js) with
      | some [s1, s2] =>
        match Json.ofSexp s1, Json.ofSexp s2 with
        | some j1, some j2 =>
          let t : Ty := .ref pkg obj {}
          let (res, fd) := decodeBothAuto ss pkg obj j1 j2
          match res with
          | .err => return "err"
          | .unsup w => return "unsup " ++ w
          | .fuel => return "fuel"
          | .ok (a, b) =>
            -- Equals runs with one more unit of fuel than the decode (see `C13_decode_wt`)
            let fe := fd + 1
            let wa := wt fe ss t a
            let wb := wt fe ss t b
            if !(wa && wb) then
              let why := ((whyUnsup fe ss t a).orElse fun _ => whyUnsup fe ss t b).getD "value outside the modelled fragment"
              return "unsup " ++ why
            if !info then
              return toString (goEquals fe ss t a b)
            else
              let e := fun x y => bit (goEquals fe ss t x y)
              return s!"eq={e a b},{e b a} refl={e a a},{e b b} ts={bit (timesShared a)},{bit (timesShared b)} nz={bit (mapsNonZero fe ss t a)},{bit (mapsNonZero fe ss t b)} ua={bit (unionsAligned fe ss t a b)} enc={bit (Json.beq a.goEncode b.goEncode)} encnil={bit (encSameModNil a b)} wt={bit wa},{bit wb}"
        | _, _ => return "bad-json"
      | _ => return "bad-json"
  | _ => return "bad-request"

def goequalsLine (rest : String) : IO String := do
  match rest.splitOn " " with
  | "?info" :: args => goequalsCore true args
  | args => goequalsCore false args

end Cog.Drv
