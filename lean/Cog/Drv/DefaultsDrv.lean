/-
  Driver verbs for C10 (default constructors of generated Go and Python code).
    godefaults <schemas-id> <pkg> <object>   →  ok <json> | cerr <why> | unsup <why> | fuel
    godefaults <schemas-id> <pkg> *          →  ok | cerr <object>: <why>         (does the package compile?)
    pydefaults <schemas-id> <pkg> <object>   →  ok <json> | synerr <why> | raise <why> | unsup <why> | fuel
    pydefaults <schemas-id> <pkg> *          →  ok | synerr <object>.<field>      (does the module import?)
    godefaults cdd <type-vir>                →  ok <type-vir after DisjunctionWithConstantToDefault.processDisjunction>
    godefaults|pydefaults <schemas-id> <pkg> <object> fits
                                             →  ok nodup=<b> (<field>:<declared|none>:<fits|excluded>)*
                                                (the decidable hypotheses of C10_go_partial / C10_py_partial)
  The schemas are the post-chain IR of the language (`defschemas <id> <vir>` first).
-/
import Cog.Sem.DefaultsPasses
import Cog.Drv.SchemaStore
namespace Cog.Drv
open Cog Cog.IR Cog.Sem Cog.Sem.Defaults

def defaultsFuelMax : Nat := 40

partial def goDefaultsAuto (ss : Schemas) (pkg name : String) (f : Nat := 6) : CRes Json :=
  match goDefaults f ss pkg name with
  | .fuel => if f ≥ defaultsFuelMax then .fuel else goDefaultsAuto ss pkg name (f + 4)
  | r => r

partial def pyDefaultsAuto (ss : Schemas) (pkg name : String) (f : Nat := 6) : PRes Json :=
  match pyDefaults f ss pkg name with
  | .fuel => if f ≥ defaultsFuelMax then .fuel else pyDefaultsAuto ss pkg name (f + 4)
  | r => r

def showCRes : CRes Json → String
  | .ok j => "ok " ++ j.render
  | .cerr w => "cerr " ++ w
  | .unsup w => "unsup " ++ w
  | .fuel => "fuel"

def showPRes : PRes Json → String
  | .ok j => "ok " ++ j.render
  | .synerr w => "synerr " ++ w
  | .raise w => "raise " ++ w
  | .unsup w => "unsup " ++ w
  | .fuel => "fuel"

/-- `godefaults cdd <type-vir>`: the model of DisjunctionWithConstantToDefault on one type -/
def cddLine (ty : String) : String :=
  match (Sexp.parse ty).bind Vir.tyIn with
  | some t => "ok " ++ (Vir.tyOut (cddHook t)).render
  | none => "bad-vir"

def godefaultsLine (rest : String) : IO String := do
  match rest.splitOn " " with
  | "cdd" :: ty => return cddLine (" ".intercalate ty)
  | [id, pkg, obj] =>
    match ← getSchemas id with
    | none => return "unknown-schemas"
    | some ss =>
      if obj == "*" then
        -- every constructor of the package, each at the first sufficient fuel
        match Schemas.locate ss pkg with
        | none => return "ok"
        | some s =>
          let bad := s.objects.findSome? fun (kv : String × Obj) =>
            if kv.2.ty.isStruct then
              match goDefaultsAuto ss pkg kv.1 with
              | .cerr w => some (kv.1, w)
              | _ => none
            else none
          match bad with
          | none => return "ok"
          | some (o, w) => return "cerr " ++ o ++ ": " ++ w
      else return showCRes (goDefaultsAuto ss pkg obj)
  | [id, pkg, obj, "fits"] =>
    match ← getSchemas id with
    | none => return "unknown-schemas"
    | some ss => return goFitsReport ss pkg obj
  | _ => return "bad-request"

def pydefaultsLine (rest : String) : IO String := do
  match rest.splitOn " " with
  | [id, pkg, obj] =>
    match ← getSchemas id with
    | none => return "unknown-schemas"
    | some ss =>
      if obj == "*" then
        match pyModuleImports 24 ss pkg with
        | none => return "ok"
        | some (o, f) => return "synerr " ++ o ++ "." ++ f
      else return showPRes (pyDefaultsAuto ss pkg obj)
  | [id, pkg, obj, "fits"] =>
    match ← getSchemas id with
    | none => return "unknown-schemas"
    | some ss => return pyFitsReport ss pkg obj
  | _ => return "bad-request"

end Cog.Drv
