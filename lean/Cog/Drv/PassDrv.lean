/-
  Line-protocol handlers of property C06 (driver side, core Lean only):
    lpass <GoPassName[:k1,k2]> <schemas-vir>   -> ok <vir> | err | panic
    chain <lang> <schemas-vir>                 -> ok <vir> | err | panic | shared   (shared: cross-pass pointer
                                                  sharing the tree model does not cover, see Chain.chainShared)
    nf <lang> <schemas-vir>                    -> true | false <conjunct>,<conjunct>…
    ucc <"string">                             -> <"UpperCamelCase(string)">
    c06witness list | c06witness <name>        -> ok <names…> | <lang> <conjunct> <schemas-vir>
    c06witness former | c06witness former:<i>  -> ok <n> | lpass <Pass> <vir>   (inputs of the former panics, Passes/PreFix.lean)
-/
import Cog.IR.Vir
import Cog.Passes.Chain
import Cog.NF.Preds
import Cog.NF.Witness
import Cog.Passes.PreFix
import Cog.Gen.Chains
namespace Cog.Drv
open Cog Cog.IR Cog.Passes

def withSchemas (rest : String) (k : String → Schemas → String) : String :=
  match rest.splitOn " " with
  | [] => "bad-request"
  | tag :: more =>
    match Sexp.parse (" ".intercalate more) with
    | none => "bad-sexp"
    | some sx => match Vir.schemasIn sx with
      | none => "bad-vir"
      | some ss => k tag ss

def lpassLine (rest : String) : String :=
  withSchemas rest fun name ss =>
    match PassId.ofName name with
    | none => "unknown-pass"
    | some p =>
      Vir.outcomeOut Vir.schemasOut (p.run ss)

def chainLine (rest : String) : String :=
  withSchemas rest fun lang ss =>
    match Cog.Gen.Chains.chainOf lang with
    | none => "unknown-language"
    | some ps =>
      if chainShared ps ss then "shared"
      else Vir.outcomeOut Vir.schemasOut (runChain ps ss)

def nfLine (rest : String) : String :=
  withSchemas rest fun lang ss =>
    match Cog.NF.failing lang ss with
    | none => "unknown-language"
    | some [] => "true"
    | some fs => "false " ++ ",".intercalate fs

def uccLine (rest : String) : String :=
  match Sexp.parse rest with
  | some (.str s) => Sexp.quote (ucc s)
  | _ => "bad-sexp"

def witnessLine (rest : String) : String :=
  if rest == "former" then "ok " ++ toString Cog.Passes.PreFix.formerPanics.length
  else if rest.startsWith "former:" then
    match (match rest.splitOn ":" with | [_, n] => n.toNat? | _ => none) >>= fun i => Cog.Passes.PreFix.formerPanics[i]? with
    | some (pass, ss) => "lpass " ++ pass ++ " " ++ (Vir.schemasOut ss).render
    | none => "unknown-witness"
  else if rest == "list" then "ok " ++ " ".intercalate (Cog.NF.Witness.all.map (·.1))
  else match Cog.NF.Witness.all.find? (fun w => w.1 == rest) with
    | some (_, lang, conj, ss) => lang ++ " " ++ conj ++ " " ++ (Vir.schemasOut ss).render
    | none => "unknown-witness"

end Cog.Drv
