/-
  Driver-side store of named schema sets, so that streams with many requests per schema send the
  (long) VIR text once:  `defschemas <id> <schemas-vir>`  then handlers resolve `@<id>`.
-/
import Cog.IR.Vir
import Std.Data.HashMap
namespace Cog.Drv
open Cog Cog.IR

initialize schemaStore : IO.Ref (Std.HashMap String Schemas) ← IO.mkRef {}

def defSchemas (rest : String) : IO String := do
  match rest.splitOn " " with
  | id :: vir =>
    match Sexp.parse (" ".intercalate vir) with
    | none => return "bad-sexp"
    | some sx => match Vir.schemasIn sx with
      | none => return "bad-vir"
      | some ss =>
        schemaStore.modify (·.insert id ss)
        return "ok"
  | _ => return "bad-request"

def getSchemas (id : String) : IO (Option Schemas) := do
  return (← schemaStore.get).get? id

end Cog.Drv
