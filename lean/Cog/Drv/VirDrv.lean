import Cog.IR.Vir
namespace Cog.Drv
open Cog Cog.IR

/-- `vir <schemas>`: parse and re-print (round-trip of the interchange format) -/
def virLine (rest : String) : String :=
  match Sexp.parse rest with
  | none => "bad-sexp"
  | some sx => match Vir.schemasIn sx with
    | none => "bad-vir"
    | some ss => (Vir.schemasOut ss).render

end Cog.Drv
