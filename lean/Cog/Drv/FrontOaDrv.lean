/-
  Driver verbs of C01's parser-soundness tie for OpenAPI inputs (core Lean only; stream `c01-front-oa`,
  harness/c01_front_oa.go):

    oafdef <id> (case "<pkg>" (comps ("name" OSR)…))  |  (case "<pkg>" nocomponents)     → ok | bad-…
    oafront <id>                                      → ok <VIR of (schemas S)> | err | panic   (the MODEL `generateAST`)
    oafdoc <id> <real-id> <root> <json-sexp>          → plainS= e2e= valid= strict= modelled= frag= wf= exact= src= msrc= why= notfrag=
        valid / strict : `oaValid` / `oaValidX` of a reference to component <root>;  exact : no integer beyond 2^53 in the
        document (kin-openapi validates float64: other documents are not compared);  the rest as for `jsfdoc`.

  OSR ::= (r "ref" true|false "descr" OS)      OS ::= (os (a ATTR*) (l OSR*) (l OSR*) (l OSR*) (p ("name" OSR)*) OOPT OOPT)
  OOPT ::= none | (some OSR)                    values are VIR values (Cog/IR/Vir.lean)
-/
import Cog.Front.OpenApi
import Cog.Front.OpenApiValid
import Cog.Front.OpenApiFrag
import Cog.Drv.FrontDrv
namespace Cog.Drv
open Cog Cog.IR Cog.Sem Cog.Sem.Src Cog.Front.OpenApi

def f64In (r : String) (i n d : String) : Option F64 := do
  some { repr := r, asInt64 := (← i.toInt?), num := (← n.toInt?), den := (← d.toNat?) }

def oattrIn (a : OAttrs) : Sexp → Option OAttrs
  | .list (.atom "types" :: ts) => (Vir.strsIn ts).map fun ts' => { a with types := some ts' }
  | .list [.atom "format", .str f] => some { a with format := f }
  | .list [.atom "pattern", .str p] => some { a with pattern := p }
  | .list [.atom "nullable"] => some { a with nullable := true }
  | .list [.atom "isEmpty"] => some { a with isEmpty := true }
  | .list [.atom "default", v] => (Vir.valIn v).map fun v' => { a with dflt := v' }
  | .list (.atom "enum" :: vs) => (vs.mapM Vir.valIn).map fun vs' => { a with enum := some vs' }
  | .list [.atom "hasAllOf"] => some { a with hasAllOf := true }
  | .list [.atom "hasAnyOf"] => some { a with hasAnyOf := true }
  | .list [.atom "hasOneOf"] => some { a with hasOneOf := true }
  | .list (.atom "required" :: rs) => (Vir.strsIn rs).map fun rs' => { a with required := rs' }
  | .list [.atom "addlHas", .atom b] => some { a with addlHas := some (b == "true") }
  | .list [.atom "min", .str r, .atom i, .atom n, .atom d] => (f64In r i n d).map fun v => { a with min := some v }
  | .list [.atom "max", .str r, .atom i, .atom n, .atom d] => (f64In r i n d).map fun v => { a with max := some v }
  | .list [.atom "multipleOf", .str r, .atom i, .atom n, .atom d] => (f64In r i n d).map fun v => { a with multipleOf := some v }
  | .list [.atom "exclusiveMin"] => some { a with exclusiveMin := true }
  | .list [.atom "exclusiveMax"] => some { a with exclusiveMax := true }
  | .list [.atom "minLength", .atom n] => n.toNat?.map fun n' => { a with minLength := n' }
  | .list [.atom "maxLength", .atom n] => n.toNat?.map fun n' => { a with maxLength := some n' }
  | .list (.atom "discriminator" :: .str name :: mp) => (Vir.pairsIn mp).map fun m => { a with discriminator := some (name, m) }
  | .list (.atom "unmodelled" :: us) => (Vir.strsIn us).map fun us' => { a with unmodelled := us' }
  | _ => none

mutual
partial def osIn : Sexp → Option OS
  | .list [.atom "os", .list (.atom "a" :: attrs), .list (.atom "l" :: allOf), .list (.atom "l" :: anyOf),
           .list (.atom "l" :: oneOf), .list (.atom "p" :: props), addl, items] => do
    let a ← attrs.foldlM oattrIn {}
    let props' ← props.mapM fun (x : Sexp) => match x with
      | .list [.str k, r] => (osrIn r).map fun r' => (k, r')
      | _ => none
    some (.mk a (← allOf.mapM osrIn) (← anyOf.mapM osrIn) (← oneOf.mapM osrIn) props' (← ooptIn addl) (← ooptIn items))
  | _ => none
partial def osrIn : Sexp → Option OSR
  | .list [.atom "r", .str ref, .atom hv, .str descr, v] => (osIn v).map fun v' => .mk ref (hv == "true") descr v'
  | _ => none
partial def ooptIn : Sexp → Option OOpt
  | .atom "none" => some .none
  | .list [.atom "some", r] => (osrIn r).map OOpt.some
  | _ => none
end

structure FrontOaCase where
  pkg : String
  comps : Option Components
  model : Outcome Schemas
  modelled : Bool
  frag : Bool
  notfrag : String

initialize frontOaStore : IO.Ref (Std.HashMap String FrontOaCase) ← IO.mkRef {}

def oaCaseIn : Sexp → Option (String × Option Components)
  | .list [.atom "case", .str pkg, .atom "nocomponents"] => some (pkg, none)
  | .list [.atom "case", .str pkg, .list (.atom "comps" :: cs)] => do
    let cs' ← cs.mapM fun (x : Sexp) => match x with
      | .list [.str k, r] => (osrIn r).map fun r' => (k, r')
      | _ => none
    some (pkg, some cs')
  | _ => none

def oafdefLine (rest : String) : IO String := do
  match rest.splitOn " " with
  | id :: body =>
    match Sexp.parse (" ".intercalate body) with
    | none => return "bad-sexp"
    | some sx => match oaCaseIn sx with
      | none => return "bad-case"
      | some (pkg, comps) =>
        let cs := comps.getD []
        frontOaStore.modify (·.insert id
          { pkg := pkg, comps := comps,
            model := Cog.Front.JsonSchema.obind (generateAST pkg {} frontFuel comps) fun s => .ok [s],
            modelled := modelledComps cs, frag := FragOA cs, notfrag := fragOAWhy cs })
        return "ok"
  | _ => return "bad-request"

def oafrontLine (rest : String) : IO String := do
  match (← frontOaStore.get).get? rest.trimAscii.toString with
  | none => return "unknown-case"
  | some c => return Vir.outcomeOut Vir.schemasOut c.model

/-- no integer of magnitude > 2^53 (float64-exact documents) -/
partial def floatExact : Json → Bool
  | .num q => q % 4 != 0 || q.natAbs ≤ 36028797018963968
  | .arr xs => xs.all floatExact
  | .obj kvs => kvs.all fun kv => floatExact kv.2
  | _ => true

def oafdocLine (rest : String) : IO String := do
  match rest.splitOn " " with
  | id :: realId :: root :: js =>
    match (← frontOaStore.get).get? id, ← getSchemas realId with
    | some c, some real =>
      match (Sexp.parse (" ".intercalate js)).bind Json.ofSexp with
      | none => return "bad-json"
      | some j =>
        let cs := c.comps.getD []
        let valid := oaValid fmtOracle cs frontFuel (refTo root) j
        let strict := oaValidX fmtOracle cs frontFuel (refTo root) j
        let t : Ty := .ref c.pkg root {}
        let src := srcDen (frontFuel + oaSlack) real t j
        let msrc := match c.model with
          | .ok m => toString (srcDen (frontFuel + oaSlack) m t j)
          | _ => "err"
        let why := if src then "-" else (srcWhy real (frontFuel + oaSlack) t j).getD "unexplained"
        let rootOK := rootFrag cs root
        let prep ← srcPrep realId real
        let e2e :=
          if c.frag && rootOK && prep.plainS && wfDeep j && oaValidX fmtOracle cs e2eFuel (refTo root) j then
            match prep.model with
            | some S' =>
              (match goRoundTrip (e2eFuel + oaSlack + 1) S' c.pkg root j with
               | .ok j' => toString (Json.eqv j' j)
               | _ => "false")
            | none => "chain-err"
          else "n/a"
        return s!"plainS={prep.plainS} e2e={e2e} valid={valid} strict={strict} modelled={c.modelled} frag={c.frag && rootOK} wf={wfDeep j} exact={floatExact j} src={src} msrc={msrc} why={why} notfrag={c.notfrag}"
    | none, _ => return "unknown-case"
    | _, none => return "unknown-schemas"
  | _ => return "bad-request"

end Cog.Drv
