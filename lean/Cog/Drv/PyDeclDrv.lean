/-
  Driver verb of C02 (Python declaration fragment):   pydecl <schemas-id> <pkg>
  reply:  ok - <hyp> <lint> <text> | illformed <first offending declaration> <hyp> <lint> <text>
          | crash <site> <hyp> - - | unmodelled <why> - - -
  <hyp>  = hyp:ok when PyPrintable and wfNamesPy hold for EVERY schema of the set (CPython executes the imported
          sibling modules too), hyp:ok-local when they hold for this schema only, else hyp:<which fail>
  <lint> = lint:ok | lint:dup-names | lint:import-cycle   (outside CPython's verdict / outside the checker)
  <text> = `models/<pkg>.py` as the model prints it (marshaller off), `\`-escaped to one line.
  The verdict covers the module AND the sibling modules it imports (CPython executes those first).
  `Cfg.snake` is instantiated with an ASCII transcription of xstrings.ToSnakeCase (v1.5.0); schemas with a
  non-ASCII name are refused.
-/
import Cog.Sem.PyDeclCheck
import Cog.Sem.PyDeclHyp
import Cog.Drv.SchemaStore
namespace Cog.Drv
open Cog Cog.IR Cog.Sem.PyDecl

namespace Snake
inductive WT where | invalid | number | upper | alphabet | connector | punct | other
  deriving BEq, Inhabited

def isConn (c : Char) : Bool := c == '-' || c == '_' || c == ' ' || c == '\t' || c == '\n' || c == '\r' || c.toNat == 11 || c.toNat == 12
def isPunctA (c : Char) : Bool := "!\"#%&'()*,-./:;?@[\\]_{}".toList.contains c
def isLetter (c : Char) : Bool := c.isAlpha
def isUp (c : Char) : Bool := c.isUpper
def isNum (c : Char) : Bool := c.isDigit

def spanL (p : Char → Bool) (cs : List Char) : List Char × List Char := (cs.takeWhile p, cs.dropWhile p)

/-- `nextWord` on ASCII text -/
def nextWord : List Char → WT × List Char × List Char
  | [] => (.invalid, [], [])
  | c :: rest =>
    if isConn c then let (a, b) := spanL isConn rest; (.connector, c :: a, b)
    else if isPunctA c then let (a, b) := spanL isPunctA rest; (.punct, c :: a, b)
    else if isUp c then
      match rest with
      | [] => (.upper, [c], [])
      | r :: _ =>
        if isUp r then
          let (a, b) := spanL isUp rest
          match b with
          | [] => (.upper, c :: a, [])
          | r2 :: _ => if isLetter r2 then (.upper, c :: a.dropLast, a.getLast?.toList ++ b) else (.upper, c :: a, b)
        else if isLetter r then
          let (a, b) := spanL (fun x => isLetter x && !isUp x) rest
          (.upper, c :: a, b)
        else (.upper, [c], rest)
    else if isLetter c then let (a, b) := spanL (fun x => isLetter x && !isUp x) rest; (.alphabet, c :: a, b)
    else if isNum c then let (a, b) := spanL isNum rest; (.number, c :: a, b)
    else
      let (a, b) := spanL (fun x => !(isConn x || isLetter x || isNum x || isPunctA x)) rest
      (.other, c :: a, b)

def toLowerW (buf : String) (wt : WT) (word : List Char) : String :=
  if wt != .upper && wt != .connector then buf ++ String.ofList word
  else buf ++ String.ofList (word.map fun c => if isConn c then '_' else c.toLower)

partial def absorb (buf : String) (wt : WT) (word rem : List Char) : String × WT × List Char × List Char :=
  if wt == .alphabet || wt == .number then
    let buf := toLowerW buf wt word
    let (wt, word, rem) := nextWord rem
    absorb buf wt word rem
  else (buf, wt, word, rem)

partial def loop (buf : String) (wt : WT) (word rem : List Char) : String :=
  if rem.isEmpty then toLowerW buf wt word
  else
    let buf := if wt != .connector then toLowerW buf wt word else buf
    let prev := wt
    let last := word
    let (wt, word, rem) := nextWord rem
    match prev with
    | .number =>
      let (buf, wt, word, rem) := absorb buf wt word rem
      let buf := if wt != .invalid && wt != .punct && wt != .connector then buf.push '_' else buf
      loop buf wt word rem
    | .connector => loop (toLowerW buf prev last) wt word rem
    | .punct => loop buf wt word rem
    | _ =>
      if wt != .number then
        loop (if wt != .connector && wt != .punct then buf.push '_' else buf) wt word rem
      else if rem.isEmpty then loop buf wt word rem
      else
        let last := word
        let (wt, word, rem) := nextWord rem
        if wt != .alphabet then
          let buf := toLowerW buf .number last
          loop (if wt != .connector && wt != .punct then buf.push '_' else buf) wt word rem
        else
          let buf := toLowerW (buf.push '_') .number last
          let (buf, wt, word, rem) := absorb buf wt word rem
          loop (if wt != .invalid && wt != .connector && wt != .punct then buf.push '_' else buf) wt word rem

/-- `xstrings.ToSnakeCase` on ASCII text -/
def snake (s : String) : String :=
  if s.isEmpty then "" else
  let (wt, word, rem) := nextWord s.toList
  loop "" wt word rem
end Snake

def pyCfg : Cfg := { snake := Snake.snake }

def escLine (s : String) : String :=
  s.foldl (fun acc c =>
    if c == '\\' then acc ++ "\\\\" else if c == '\n' then acc ++ "\\n" else if c == '\t' then acc ++ "\\t"
    else if c == '\r' then acc ++ "\\r" else acc.push c) ""

def noSp (s : String) : String := String.ofList (s.toList.map fun c => if c == ' ' || c == '\t' || c == '\n' || c == '\r' then '_' else c)

mutual
partial def tyNames : Ty → List String
  | .struct fs g _ _ => fs.flatMap (fun f => f.name :: tyNames f.ty) ++ g.flatMap tyNames
  | .enum vs _ => vs.map (·.name)
  | .array e _ => tyNames e
  | .map i v _ => tyNames i ++ tyNames v
  | .disj bs _ _ => bs.flatMap tyNames
  | .inter bs _ => bs.flatMap tyNames
  | .ref p n _ => [p, n]
  | .cref p n _ _ => [p, n]
  | .slot v _ => [v]
  | _ => []
end

def schemaNames (s : Schema) : List String :=
  s.pkg :: s.objects.flatMap fun kv => kv.1 :: kv.2.name :: tyNames kv.2.ty

def asciiNames (ss : Schemas) : Bool :=
  ss.all fun s => (schemaNames s).all fun n => n.toList.all (fun c => c.toNat < 128) && !n.toList.contains '/'

def pyHypText (ss : Schemas) (s : Schema) : String :=
  let a := PyPrintable pyCfg ss s
  let b := wfNamesPy pyCfg s
  let all := ss.all fun s' => PyPrintable pyCfg ss s' && wfNamesPy pyCfg s'
  if a && b then (if all then "hyp:ok" else "hyp:ok-local") else "hyp:" ++ (if a then "" else "not-printable") ++ (if a || b then "" else "+") ++ (if b then "" else "names")

def firstBadDecl (ss : Schemas) : List PyDecl → String
  | [] => "?"
  | d :: ds => if declOk ss d then firstBadDecl ss ds else "decl:" ++ declName d

/-- sibling modules a module imports -/
def siblings (m : PyModule) : List String := (m.imports.filter (fun kv => kv.2.pkg == "..models")).map (·.2.module)

/-- local verdict of every module reachable through imports (fuel = number of schemas) -/
partial def reachOk (ss : Schemas) (fuel : Nat) (seen : List String) (todo : List String) : Option String × Bool :=
  match todo with
  | [] => (none, false)
  | p :: rest =>
    if seen.contains p then
      let (r, cyc) := reachOk ss fuel seen rest
      (r, cyc)
    else match Schemas.locate ss p with
      | none => (some ("missing-module:" ++ p), false)
      | some s =>
        match pyDeclRender pyCfg ss s with
        | .ok m =>
          if !pyDeclCheck ss m then (some ("imported:" ++ p ++ ":" ++ (if !m.imports.all (importOk ss) then "import" else if !importsCover m then "cover" else firstBadDecl ss m.decls)), false)
          else reachOk ss fuel (p :: seen) (siblings m ++ rest)
        | .panic site => (some ("imported:" ++ p ++ ":crash:" ++ site), false)
        | .err e => (some ("imported:" ++ p ++ ":" ++ e), false)

/-- is `target` reachable from `from` through sibling imports (import cycle through the module)? -/
partial def reaches (ss : Schemas) (target : String) (seen todo : List String) : Bool :=
  match todo with
  | [] => false
  | p :: rest =>
    if p == target then true
    else if seen.contains p then reaches ss target seen rest
    else match Schemas.locate ss p with
      | none => reaches ss target (p :: seen) rest
      | some s => match pyDeclRender pyCfg ss s with
        | .ok m => reaches ss target (p :: seen) (siblings m ++ rest)
        | _ => reaches ss target (p :: seen) rest

def pydeclReply (ss : Schemas) (pkg : String) : String :=
  if !asciiNames ss then "unmodelled non-ascii-or-slash-name - - -" else
  match Schemas.locate ss pkg with
  | none => "unknown-package"
  | some s =>
    let hyp := pyHypText ss s
    match pyDeclRender pyCfg ss s with
    | .err e => "unmodelled " ++ noSp e ++ " - - -"
    | .panic site => "crash " ++ noSp site ++ " " ++ hyp ++ " - -"
    | .ok m =>
      let text := escLine (renderModule m)
      let lint := if reaches ss pkg [] (siblings m) then "lint:import-cycle" else if !lintOk m then "lint:dup-names" else "lint:ok"
      if !m.imports.all (importOk ss) then "illformed import " ++ hyp ++ " " ++ lint ++ " " ++ text
      else if !importsCover m then "illformed imports-do-not-cover " ++ hyp ++ " " ++ lint ++ " " ++ text
      else if !declsOk ss m.decls then "illformed " ++ noSp (firstBadDecl ss m.decls) ++ " " ++ hyp ++ " " ++ lint ++ " " ++ text
      else match (reachOk ss ss.length [pkg] (siblings m)).1 with
        | some why => "illformed " ++ noSp why ++ " " ++ hyp ++ " " ++ lint ++ " " ++ text
        | none => "ok - " ++ hyp ++ " " ++ lint ++ " " ++ text

def pydeclLine (rest : String) : IO String := do
  match rest.splitOn " " with
  | [id, pkg] =>
    match ← getSchemas id with
    | none => return "unknown-schemas"
    | some ss => return pydeclReply ss pkg
  | _ => return "bad-request"

end Cog.Drv
