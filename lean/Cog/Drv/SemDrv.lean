/-
  Driver verbs for the semantics of generated Go code.
    godec <schemas-id> <pkg> <object> <json-sexp>   →  ok <json> | err | unsup <why> | fuel
-/
import Cog.Sem.GoCodec
import Cog.Sem.Den
import Cog.Drv.SchemaStore
namespace Cog.Drv
open Cog Cog.IR Cog.Sem

def semFuel : Nat := 64

/-- iterative deepening: the first fuel (4, 6, 8, …) at which the model does not answer `fuel`.
    (compiled Lean is strict, so `wrapPtr`'s discarded argument is still evaluated and a large
    fuel on a recursive schema is exponential; results do not depend on the fuel once it suffices) -/
partial def goRoundTripAuto (ss : Schemas) (pkg name : String) (j : Json) (f : Nat := 4) : DRes Json :=
  match goRoundTrip f ss pkg name j with
  | .fuel => if f ≥ semFuel then .fuel else goRoundTripAuto ss pkg name j (f + 2)
  | r => r

def showDRes : DRes Json → String
  | .ok j => "ok " ++ j.render
  | .err => "err"
  | .unsup w => "unsup " ++ w
  | .fuel => "fuel"

def godecLine (rest : String) : IO String := do
  match rest.splitOn " " with
  | id :: pkg :: obj :: js =>
    match ← getSchemas id with
    | none => return "unknown-schemas"
    | some ss =>
      match (Sexp.parse (" ".intercalate js)).bind Json.ofSexp with
      | none => return "bad-json"
      | some j => return showDRes (goRoundTripAuto ss pkg obj j)
  | _ => return "bad-request"

/-- `goden <schemas-id> <pkg> <object> <json-sexp>` → true|false: is the document in the
    document language `den` (the hypothesis of C01's round-trip theorem) at the fuel where the
    decoder model answers? -/
partial def denAuto (ss : Schemas) (pkg name : String) (j : Json) (f : Nat := 4) : Bool :=
  match goRoundTrip f ss pkg name j with
  | .fuel => if f ≥ semFuel then false else denAuto ss pkg name j (f + 2)
  | _ => den (f + 8) ss (.ref pkg name {}) j || den f ss (.ref pkg name {}) j

def godenLine (rest : String) : IO String := do
  match rest.splitOn " " with
  | id :: pkg :: obj :: js =>
    match ← getSchemas id with
    | none => return "unknown-schemas"
    | some ss =>
      match (Sexp.parse (" ".intercalate js)).bind Json.ofSexp with
      | none => return "bad-json"
      | some j => return toString (denAuto ss pkg obj j)
  | _ => return "bad-request"

end Cog.Drv
