/-
  Driver verbs for the semantics of generated Go code.
    godec <schemas-id> <pkg> <object> <json-sexp>   →  ok <json> | err | unsup <why> | fuel
-/
import Cog.Sem.GoCodec
import Cog.Drv.SchemaStore
namespace Cog.Drv
open Cog Cog.IR Cog.Sem

def semFuel : Nat := 64

def showDRes : DRes Json → String
  | .ok j => "ok " ++ j.render
  | .err => "err"
  | .unsup w => "unsup " ++ w
  | .fuel => "fuel"

def godecLine (rest : String) : IO String := do
  match rest.splitOn " " with
  | id :: pkg :: obj :: js =>
    match ← getSchemas id with
    | none => return "unknown-schemas"
    | some ss =>
      match (Sexp.parse (" ".intercalate js)).bind Json.ofSexp with
      | none => return "bad-json"
      | some j => return showDRes (goRoundTrip semFuel ss pkg obj j)
  | _ => return "bad-request"

end Cog.Drv
