/-
  Driver verb of C02:   godecl <schemas-id> <pkg> <flags>
    flags = six characters 0/1: json marshaller, strict unmarshaller, equal, validate, any_as_interface, skip_runtime
  reply:  welltyped - <hyp> <text>  |  illtyped <first offending declaration:reason> <hyp> <text>  |  crash <site> <hyp> -
  <hyp>  = hyp:ok when the hypotheses of C02_go_decls_partial hold for the schemas, else hyp:<which fail>
  <text> = the declarations of `<pkg>/types_gen.go` as the model prints them, white space removed.
-/
import Cog.Sem.GoDeclCheck
import Cog.Sem.GoDeclHyp
import Cog.Sem.GoDeclRender
import Cog.Drv.SchemaStore
namespace Cog.Drv
open Cog Cog.IR Cog.Sem.GoDecl

def cfgOfFlags (s : String) : Option Cfg :=
  match s.toList with
  | [a, b, c, d, e, f] =>
    if [a, b, c, d, e, f].all (fun x => x == '0' || x == '1') then
      some { jsonMarshaller := a == '1', strictUnmarshaller := b == '1', equal := c == '1', validate := d == '1',
             anyAsInterface := e == '1', skipRuntime := f == '1' }
    else none
  | _ => none

def noSpaces (s : String) : String := String.ofList (s.toList.map fun c => if isSpaceC c then '_' else c)

def clip (s : String) : String := if s.length > 48 then (s.take 48).toString ++ "…" else s

/-- which literal is ill-typed: descends to the innermost value that does not fit its target type -/
partial def whyNot (env : Env) (fuel : Nat) (cur : String) (e : GoExpr) (target : GoTy) : String :=
  let leaf := "cannot-use:" ++ clip (stripWs (renderExpr cur e)) ++ ":as:" ++ clip (stripWs (renderTy cur target))
  match e with
  | .addr e' => (match norm env fuel target with | .ptr t => whyNot env fuel cur e' t | _ => leaf)
  | .composite t fs =>
    (match under env fuel (norm env fuel t) with
      | some (.struct sfs) =>
        (match fs.find? (fun (k, v) => match findGoField k sfs with
            | some f => !assignable env fuel (exprTy env fuel v) f.ty
            | none => true) with
          | some (k, v) => (match findGoField k sfs with
              | some f => k ++ ":" ++ whyNot env fuel cur v f.ty
              | none => k ++ ":unknown-field")
          | none => if firstDup (fs.map (·.1)) |>.isSome then "duplicate-field-in-literal" else leaf)
      | _ => "composite-of-non-struct:" ++ clip (stripWs (renderTy cur t)))
  | .toPtr t e' =>
    if !typeOk env t then "type:" ++ clip (stripWs (renderTy cur t))
    else if !assignable env fuel (exprTy env fuel e') t then whyNot env fuel cur e' t
    else leaf
  | .sliceLit t xs =>
    (match xs.find? (fun x => !assignable env fuel (exprTy env fuel x) t) with
      | some x => whyNot env fuel cur x t
      | none => leaf)
  | _ => leaf

def diagnoseCtor (env : Env) (fuel : Nat) (cur : String) : List GoDecl → Option String
  | [] => none
  | d :: ds =>
    if declOk env fuel cur d then diagnoseCtor env fuel cur ds
    else match d with
      | .ctor n r b => some (n ++ ":literal:" ++ whyNot env fuel cur b (.ptr (.named cur r)))
      | _ => none

def hypText (ss : Schemas) : String :=
  let a := GoPrintable ss
  let b := wfNames ss
  if a && b then "hyp:ok" else "hyp:" ++ (if a then "" else "not-printable") ++ (if a || b then "" else "+") ++ (if b then "" else "names")

def godeclReply (ss : Schemas) (pkg : String) (cfg : Cfg) : String :=
  let env := emitEnv cfg ss
  let cur := fmtPkg pkg
  let ds := pkgDecls cur env
  let hyp := hypText ss
  match declsCrash ds with
  | some site => "crash " ++ noSpaces site ++ " " ++ hyp ++ " -"
  | none =>
    let text := stripWs (renderDecls cur ds)
    let fuel := checkFuel env
    if namesOk ds && declsOk env fuel cur ds then
      -- outside the checker and the theorem: recursive value types (modelled, not proved)
      (match recursiveDecl env cur ds with
        | some n => "illtyped " ++ noSpaces n ++ ":invalid-recursive-type(extra-check-outside-wellTyped) " ++ hyp ++ "+recursive-value-type " ++ text
        | none => "welltyped - " ++ hyp ++ " " ++ text)
    else
      let why := match diagnosePkg env cur with
        | some w => if (w.splitOn ":literal:").length > 1 then
            (match diagnoseCtor env fuel cur ds with | some w' => w' | none => w) else w
        | none => "?"
      "illtyped " ++ noSpaces why ++ " " ++ hyp ++ " " ++ text

def godeclLine (rest : String) : IO String := do
  match rest.splitOn " " with
  | [id, pkg, flags] =>
    match ← getSchemas id with
    | none => return "unknown-schemas"
    | some ss =>
      match cfgOfFlags flags with
      | none => return "bad-flags"
      | some cfg => return godeclReply ss pkg cfg
  | _ => return "bad-request"

end Cog.Drv
