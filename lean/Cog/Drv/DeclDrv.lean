/-
  Driver verb of C02:   godecl <schemas-id> <pkg> <flags>
    flags = six characters 0/1: json marshaller, strict unmarshaller, equal, validate, any_as_interface, skip_runtime
  reply:  welltyped - <text>  |  illtyped <first offending declaration:reason> <text>  |  crash <site> -
  <text> = the declarations of `<pkg>/types_gen.go` as the model prints them, white space removed.
-/
import Cog.Sem.GoDeclCheck
import Cog.Sem.GoDeclRender
import Cog.Drv.SchemaStore
namespace Cog.Drv
open Cog Cog.IR Cog.Sem.GoDecl

def cfgOfFlags (s : String) : Option Cfg :=
  match s.toList with
  | [a, b, c, d, e, f] =>
    if [a, b, c, d, e, f].all (fun x => x == '0' || x == '1') then
      some { jsonMarshaller := a == '1', strictUnmarshaller := b == '1', equal := c == '1', validate := d == '1',
             anyAsInterface := e == '1', skipRuntime := f == '1' }
    else none
  | _ => none

def noSpaces (s : String) : String := String.ofList (s.toList.map fun c => if isSpaceC c then '_' else c)

def godeclReply (ss : Schemas) (pkg : String) (cfg : Cfg) : String :=
  let env := emitEnv cfg ss
  let cur := fmtPkg pkg
  let ds := pkgDecls cur env
  match declsCrash ds with
  | some site => "crash " ++ noSpaces site ++ " -"
  | none =>
    let text := stripWs (renderDecls cur ds)
    let fuel := envDeclCount env + 1
    if namesOk ds && declsOk env fuel cur ds then "welltyped - " ++ text
    else
      let why := match diagnosePkg env cur with | some w => w | none => "?"
      "illtyped " ++ noSpaces why ++ " " ++ text

def godeclLine (rest : String) : IO String := do
  match rest.splitOn " " with
  | [id, pkg, flags] =>
    match ← getSchemas id with
    | none => return "unknown-schemas"
    | some ss =>
      match cfgOfFlags flags with
      | none => return "bad-flags"
      | some cfg => return godeclReply ss pkg cfg
  | _ => return "bad-request"

end Cog.Drv
