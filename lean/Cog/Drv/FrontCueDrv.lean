/-
  Driver verbs of C01's parser-soundness tie for CUE inputs (core Lean only; stream `c01-front-cue`,
  harness/c01_front_cue.go):

    cuefdef <id> (case "<pkg>" (top ("<selector>" "<name>" CV)…))   → ok | bad-…
    cuefront <id>                                                   → ok <VIR of (schemas S)> | err | panic   (the MODEL `cueFront`)
    cuefdoc <id> <real-id> <root> <json-sexp>                       → valid= validF= strict= plainS= e2e= frag= wf= src= msrc= why= notfrag=
        valid / validF : `cueValid` with the permissive / literal reading of CUE's float types; strict : `cueValid` strict;
        frag : FragCue ∧ `agree` on the REAL IR; src / msrc : srcDen of the real / the model's IR

  CV ::= (cv (i ikind kind op nargs enumOK floatish) [(ref "path" "name" "pkg" badSelector)] [(dflt CS "refpath" eqSelf) | (ldflt eqSelf)]
             (conc bool CS) (attrs (at "name" (args ("k" "v")…) LOOK LOOK)…) (docs "text"…) [(pair eq sub "ref0")] (orsplit bool…)
             [(args (arg bool CV)…)] [(andsplit (c op "call" CS "ref" bool CS)…)] [(num "syn" "csyn" bool (lits ("text" VAL)…))]
             [(lst bool none|(some CV))] [(anystr evalop bool bool none|(some CV))] [(fields (f "label" bool bool CV)…)])
  CS ::= (null) | (v VAL) | (err) | (errkind) | (list CS…) | (struct ("k" CS)…) | (bottom none) | (bottom (some CS))
  LOOK ::= (none) | (some "text") | (err)          values are VIR values (Cog/IR/Vir.lean)
-/
import Cog.Front.Cue
import Cog.Front.CueValid
import Cog.Drv.FrontDrv
namespace Cog.Drv
open Cog Cog.IR Cog.Sem Cog.Sem.Src Cog.Front.Cue

partial def csIn : Sexp → Option CS
  | .list [.atom "null"] => some .null
  | .list [.atom "v", x] => (Vir.valIn x).map CS.v
  | .list [.atom "err"] => some .err
  | .list [.atom "errkind"] => some .errkind
  | .list (.atom "list" :: xs) => (xs.mapM csIn).map CS.list
  | .list (.atom "struct" :: kvs) =>
    (kvs.mapM fun (x : Sexp) => match x with
      | .list [.str k, c] => (csIn c).map fun c' => (k, c')
      | _ => none).map CS.struct
  | .list [.atom "bottom", .atom "none"] => some .bottomNone
  | .list [.atom "bottom", .list [.atom "some", d]] => (csIn d).map CS.bottomSome
  | _ => none

def lookIn : Sexp → Option Look
  | .list [.atom "none"] => some .none
  | .list [.atom "some", .str s] => some (.some s)
  | .list [.atom "err"] => some .err
  | _ => none

def cattrIn : Sexp → Option CAttr
  | .list [.atom "at", .str name, .list (.atom "args" :: args), k, m] => do
    some { name := name, args := (← Vir.pairsIn args), kind := (← lookIn k), memberNames := (← lookIn m) }
  | _ => none

def conjIn : Sexp → Option Conj
  | .list [.atom "c", .atom op, .str name, arg, .str ref, .atom conc, sc] => do
    some { op := op, callName := name, arg := (← csIn arg), refPath := ref, concrete := conc == "true", scalar := (← csIn sc) }
  | _ => none

def boolsIn (xs : List Sexp) : Option (List Bool) :=
  xs.mapM fun (x : Sexp) => match x with | .atom b => some (b == "true") | _ => none

structure CVAcc where
  i : CInfo := {}
  args : List (Bool × CV) := []
  elem : List CV := []
  anystr : List CV := []
  fields : List (String × Bool × Bool × CV) := []

mutual
partial def cvItemIn (a : CVAcc) : Sexp → Option CVAcc
  | .list [.atom "i", .atom ik, .atom k, .atom op, .atom n, .atom eok, .atom _fl] => do
    some { a with i := { a.i with ikind := ik, kind := k, op := op, nargs := (← n.toNat?), enumOK := eok == "true" } }
  | .list [.atom "ref", .str p, .str n, .str pkg] => some { a with i := { a.i with refPath := p, refName := n, refPkg := pkg } }
  | .list [.atom "ref", .str p, .str n, .str pkg, .atom bad] =>
    some { a with i := { a.i with refPath := p, refName := n, refPkg := pkg, refBadSel := bad == "true" } }
  | .list [.atom "dflt", d, .str rp, .atom eq] => do
    some { a with i := { a.i with hasDefault := true, dflt := (← csIn d), dfltRefPath := rp, dfltEqSelf := eq == "true" } }
  | .list [.atom "ldflt", .atom eq] => some { a with i := { a.i with dfltEqSelf := eq == "true" } }
  | .list [.atom "conc", .atom c, s] => do some { a with i := { a.i with concrete := c == "true", scalar := (← csIn s) } }
  | .list (.atom "attrs" :: xs) => do some { a with i := { a.i with attrs := (← xs.mapM cattrIn) } }
  | .list (.atom "docs" :: xs) => do some { a with i := { a.i with docs := (← Vir.strsIn xs) } }
  | .list [.atom "pair", .atom eq, .atom sub, .str r0] => some { a with i := { a.i with pairEq := eq == "true", pairSub := sub == "true", pair0Ref := r0 } }
  | .list (.atom "orsplit" :: xs) => do some { a with i := { a.i with orsplit := (← boolsIn xs) } }
  | .list (.atom "andsplit" :: xs) => do some { a with i := { a.i with andsplit := (← xs.mapM conjIn) } }
  | .list [.atom "num", .str syn, .str csyn, .atom cf, .list (.atom "lits" :: ls)] => do
    let lits ← ls.mapM fun (x : Sexp) => match x with
      | .list [.str t, v] => (Vir.valIn v).map fun v' => (t, v')
      | _ => none
    some { a with i := { a.i with syn := syn, csyn := csyn, cFloat := cf == "true", lits := lits } }
  | .list (.atom "args" :: xs) => do
    let args ← xs.mapM fun (x : Sexp) => match x with
      | .list [.atom "arg", .atom b, c] => (cvIn c).map fun c' => (b == "true", c')
      | _ => none
    some { a with args := args }
  | .list [.atom "lst", .atom al, e] => do
    let el ← match e with
      | .atom "none" => some []
      | .list [.atom "some", c] => (cvIn c).map fun c' => [c']
      | _ => none
    some { a with i := { a.i with allowsAny := al == "true" }, elem := el }
  | .list [.atom "anystr", .atom eop, .atom ex, .atom hf, e] => do
    let el ← match e with
      | .atom "none" => some []
      | .list [.atom "some", c] => (cvIn c).map fun c' => [c']
      | _ => none
    some { a with i := { a.i with evalOp := eop, anyExists := ex == "true", evalHasFields := hf == "true" }, anystr := el }
  | .list (.atom "fields" :: xs) => do
    let fs ← xs.mapM fun (x : Sexp) => match x with
      | .list [.atom "f", .str l, .atom d, .atom o, c] => (cvIn c).map fun c' => (l, d == "true", o == "true", c')
      | _ => none
    some { a with fields := fs }
  | _ => none
partial def cvIn : Sexp → Option CV
  | .list (.atom "cv" :: items) => do
    let a ← items.foldlM cvItemIn {}
    some (.mk a.i a.args a.elem a.anystr a.fields)
  | _ => none
end

structure FrontCueCase where
  pkg : String
  top : Top
  model : Outcome Schemas
  frag : Bool
  notfrag : String

initialize frontCueStore : IO.Ref (Std.HashMap String FrontCueCase) ← IO.mkRef {}

def cueCaseIn : Sexp → Option (String × Top)
  | .list [.atom "case", .str pkg, .list (.atom "top" :: ts)] => do
    let ts' ← ts.mapM fun (x : Sexp) => match x with
      | .list [.str sel, .str name, c] => (cvIn c).map fun c' => (sel, name, c')
      | _ => none
    some (pkg, ts')
  | _ => none

def cuefdefLine (rest : String) : IO String := do
  match rest.splitOn " " with
  | id :: body =>
    match Sexp.parse (" ".intercalate body) with
    | none => return "bad-sexp"
    | some sx => match cueCaseIn sx with
      | none => return "bad-case"
      | some (pkg, top) =>
        let c : FrontCueCase := { pkg := pkg, top := top, model := cueFront pkg frontFuel top,
                                  frag := FragCue pkg frontFuel top, notfrag := fragCueWhy pkg frontFuel top }
        frontCueStore.modify (·.insert id c)
        return "ok"
  | _ => return "bad-request"

def cuefrontLine (rest : String) : IO String := do
  match (← frontCueStore.get).get? rest.trimAscii.toString with
  | none => return "unknown-case"
  | some c => return Vir.outcomeOut Vir.schemasOut c.model

def cuefdocLine (rest : String) : IO String := do
  match rest.splitOn " " with
  | id :: realId :: root :: js =>
    match (← frontCueStore.get).get? id, ← getSchemas realId with
    | some c, some real =>
      match (Sexp.parse (" ".intercalate js)).bind Json.ofSexp with
      | none => return "bad-json"
      | some j =>
        let n := frontFuel
        let valid := cueValidDef false false isDateTime c.pkg c.top n root j
        let validF := cueValidDef false true isDateTime c.pkg c.top n root j
        let strict := cueValidDef true false isDateTime c.pkg c.top n root j
        let t : Ty := .ref c.pkg root {}
        let src := srcDen (n + 1) real t j
        let msrc := match c.model with
          | .ok m => toString (srcDen (n + 1) m t j)
          | _ => "err"
        let why := if src then "-" else (srcWhy real (n + 1) t j).getD "unexplained"
        let frag := c.frag && agree c.pkg c.top real
        let prep ← srcPrep realId real
        let e2e :=
          if frag && prep.plainS && cueValidDef true false isDateTime c.pkg c.top e2eFuel root j then
            match prep.model with
            | some S' =>
              (match goRoundTrip (e2eFuel + 1 + 1) S' c.pkg root j with
               | .ok j' => toString (Json.eqv j' j)
               | _ => "false")
            | none => "chain-err"
          else "n/a"
        return s!"valid={valid} validF={validF} strict={strict} plainS={prep.plainS} e2e={e2e} frag={frag} wf={wfDeep j} src={src} msrc={msrc} why={why} notfrag={c.notfrag}"
    | none, _ => return "unknown-case"
    | _, none => return "unknown-schemas"
  | _ => return "bad-request"

end Cog.Drv
