/-
  `consolidate <schemas-vir>` → `ok <schemas-vir, packages in order of first appearance>` | `conflict`
  Object equality is equality of the VIR rendering (what the harness compares as well).
-/
import Cog.Merge.Model
import Cog.IR.Vir
namespace Cog.Drv
open Cog Cog.IR Cog.Merge

def objBeqVir (a b : Obj) : Bool := (Vir.objOut a).render == (Vir.objOut b).render

def insertSortedStr (s : String) : List String → List String
  | [] => [s]
  | x :: xs => if s ≤ x then s :: x :: xs else x :: insertSortedStr s xs

def consolidateLine (rest : String) : String :=
  match (Sexp.parse rest).bind Vir.schemasIn with
  | none => "bad-vir"
  | some ss =>
    let order := packages ss   -- Consolidate walks packages in order of first appearance
    match consolidate objBeqVir ss order with
    | .ok r => "ok " ++ (Vir.schemasOut r).render
    | .conflict => "conflict"

end Cog.Drv
