/-
  Line-protocol driver for the ordered-map model (C19).
  request : `omap <op>;<op>;…`   (keys: ASCII strings without `:;,=`, values: integers)
  reply   : one observation per op, `;`-separated.
-/
import Cog.OMap.Model
namespace Cog.Drv
open Cog.OMap

abbrev OM := OMap String Int

def parseInt? (s : String) : Option Int := s.toInt?

def mapFn : List String → Option (String → Int → Int)
  | ["add", n] => (parseInt? n).map fun d => fun _ v => v + d
  | ["klen"] => some fun k v => v + k.length
  | ["const", n] => (parseInt? n).map fun d => fun _ _ => d
  | _ => none

def filterFn : List String → Option (String → Int → Bool)
  | ["even"] => some fun _ v => v % 2 == 0
  | ["vlt", n] => (parseInt? n).map fun d => fun _ v => decide (v < d)
  | ["keyne", k] => some fun k' _ => k' != k
  | ["none"] => some fun _ _ => false
  | ["all"] => some fun _ _ => true
  | _ => none

def lessFn : List String → Option (String → String → Bool)
  | ["asc"] => some fun a b => decide (a < b)
  | ["desc"] => some fun a b => decide (b < a)
  | ["len"] => some fun a b => decide (a.length < b.length)
  | ["first"] => some fun a b => decide (a.take 1 < b.take 1)
  | _ => none

def parseDoc (s : String) : Option (List (String × Int)) :=
  if s == "" then some [] else
  (s.splitOn ",").mapM fun kv =>
    match kv.splitOn "=" with
    | [k, v] => (parseInt? v).map fun i => (k, i)
    | _ => none

def parseOp (s : String) : Option (Op String Int) :=
  match s.splitOn ":" with
  | ["set", k, v] => (parseInt? v).map fun i => .set k i
  | ["get", k] => some (.get k)
  | ["has", k] => some (.has k)
  | ["remove", k] => some (.remove k)
  | ["len"] => some .len
  | ["iter"] => some .iterate
  | ["values"] => some .values
  | ["at", i] => i.toNat?.map fun n => .at n
  | "map" :: rest => (mapFn rest).map .mapVals
  | "filter" :: rest => (filterFn rest).map .filter
  | "sort" :: rest => (lessFn rest).map .sort
  | ["marshal"] => some .marshal
  | ["unmarshal"] => some (.unmarshal [])
  | ["unmarshal", d] => (parseDoc d).map .unmarshal
  | _ => none

def showPairs (l : List (String × Int)) : String :=
  ",".intercalate (l.map fun (k, v) => s!"{k}={v}")

def showObs : Obs String Int → String
  | .unit => "u"
  | .val v => s!"v:{v}"
  | .bool b => s!"b:{b}"
  | .nat n => s!"n:{n}"
  | .pairs l => s!"p:{showPairs l}"
  | .vals l => "l:" ++ ",".intercalate (l.map toString)
  | .panic => "panic"

def omapLine (rest : String) : String :=
  match (rest.splitOn ";").mapM parseOp with
  | none => "bad-op"
  | some ops =>
    let (_, obs) := (OMap.empty : OM).run ops
    ";".intercalate (obs.map showObs)

end Cog.Drv
