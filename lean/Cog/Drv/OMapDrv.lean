/-
  Line-protocol driver for the ordered-map model (C19).
  request : `omap <op>;<op>;…`   (keys: ASCII strings without `:;,=`, values: integers)
  reply   : one observation per op, `;`-separated.
-/
import Cog.OMap.Model
namespace Cog.Drv
open Cog.OMap

abbrev OM := OMap String Int

def parseInt? (s : String) : Option Int := s.toInt?

def mapFn : List String → Option (String → Int → Int)
  | ["add", n] => (parseInt? n).map fun d => fun _ v => v + d
  | ["klen"] => some fun k v => v + k.length
  | ["const", n] => (parseInt? n).map fun d => fun _ _ => d
  | _ => none

def filterFn : List String → Option (String → Int → Bool)
  | ["even"] => some fun _ v => v % 2 == 0
  | ["vlt", n] => (parseInt? n).map fun d => fun _ v => decide (v < d)
  | ["keyne", k] => some fun k' _ => k' != k
  | ["none"] => some fun _ _ => false
  | ["all"] => some fun _ _ => true
  | _ => none

def lessFn : List String → Option (String → String → Bool)
  | ["asc"] => some fun a b => decide (a < b)
  | ["desc"] => some fun a b => decide (b < a)
  | ["len"] => some fun a b => decide (a.length < b.length)
  | ["first"] => some fun a b => decide (a.take 1 < b.take 1)
  | _ => none

def parseDoc (s : String) : Option (List (String × Int)) :=
  if s == "" then some [] else
  (s.splitOn ",").mapM fun kv =>
    match kv.splitOn "=" with
    | [k, v] => (parseInt? v).map fun i => (k, i)
    | _ => none

def parseOp (s : String) : Option (Op String Int) :=
  match s.splitOn ":" with
  | ["set", k, v] => (parseInt? v).map fun i => .set k i
  | ["get", k] => some (.get k)
  | ["has", k] => some (.has k)
  | ["remove", k] => some (.remove k)
  | ["len"] => some .len
  | ["iter"] => some .iterate
  | ["values"] => some .values
  | ["at", i] => i.toNat?.map fun n => .at n
  | "map" :: rest => (mapFn rest).map .mapVals
  | "filter" :: rest => (filterFn rest).map .filter
  | "sort" :: rest => (lessFn rest).map .sort
  | ["marshal"] => some .marshal
  | ["unmarshal"] => some (.unmarshal [])
  | ["unmarshal", d] => (parseDoc d).map .unmarshal
  | _ => none

def showPairs (l : List (String × Int)) : String :=
  ",".intercalate (l.map fun (k, v) => s!"{k}={v}")

def showObs : Obs String Int → String
  | .unit => "u"
  | .val v => s!"v:{v}"
  | .bool b => s!"b:{b}"
  | .nat n => s!"n:{n}"
  | .pairs l => s!"p:{showPairs l}"
  | .vals l => "l:" ++ ",".intercalate (l.map toString)
  | .panic => "panic"

/-- driver-level commands on top of the op language: the driver keeps the current map and the
    previous one (the receiver of the last `map`/`filter`, which return NEW maps in Go), so that
    sharing between a map and the map derived from it becomes observable:
    `prev` observes the previous map, `swap` exchanges the two. In the model maps are values,
    so the previous map is simply unchanged. -/
inductive Cmd where
  | op (o : Op String Int)
  | prev
  | swap

def parseCmd (s : String) : Option Cmd :=
  if s == "prev" then some .prev
  else if s == "swap" then some .swap
  else (parseOp s).map .op

def runCmds (cur prev : OM) : List Cmd → List String
  | [] => []
  | .prev :: rest => ("p:" ++ showPairs prev.iterate ++ "/" ++ toString prev.len) :: runCmds cur prev rest
  | .swap :: rest => "u" :: runCmds prev cur rest
  | .op o :: rest =>
    let (cur', obs) := cur.step o
    let prev' := match o with
      | .mapVals _ => cur
      | .filter _ => cur
      | _ => prev
    showObs obs :: runCmds cur' prev' rest

def omapLine (rest : String) : String :=
  match (rest.splitOn ";").mapM parseCmd with
  | none => "bad-op"
  | some cmds => ";".intercalate (runCmds OMap.empty OMap.empty cmds)

end Cog.Drv
