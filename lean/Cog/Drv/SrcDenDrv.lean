/-
  Driver verb of C01's pass-widening tie (core Lean only):

    srcden <pre-id> <post-id> <pkg> <object> <json-sexp>
      → plain=<b> plainN=<b> plainS=<b> src=<b> den=<b> mden=<b|err> why=<reason|-> notplain=<reason|-> notplainN=<reason|-> notplainS=<reason|->

  `<pre-id>` / `<post-id>` name schema sets stored with `defschemas`: the PRE-chain IR (front-end
  output) and the REAL post-Go-chain IR of one lab case.  The driver evaluates, at one fuel,
    plain : `Plain pre`                                  (hypothesis of C01_pass_widening_plain_partial)
    plainN: `PlainX pre`                                 (hypothesis of C01_pass_widening_ext_partial: `T | null`
                                                          pairs, anonymous enums with fresh generated names)
    plainS: `PlainS pre`                                 (hypothesis of C01_pass_widening_struct_partial: also
                                                          anonymous structs with fresh generated names)
    src   : `srcDen fuel pre (ref pkg object) doc`       (hypothesis)
    den   : `den (fuel+1) post (ref pkg object) doc`     (conclusion, on the REAL passes' output; for a
                                                          plain `pre` the theorem gives `fuel` and `den` is
                                                          monotone in the fuel, `den_mono`)
    mden  : `den (fuel+1) (runChain goChain pre) …`      (conclusion on the pass MODELS' output)
  `why` explains a `src=false` (diagnostic walk mirroring `xden true`, no theorem depends on it),
  `notplain` names the first construct outside the plain fragment.
-/
import Cog.Sem.SrcDen
import Cog.Sem.WidenChainN
import Cog.Sem.WidenStruct
import Cog.Sem.SrcPy
import Cog.Passes.Chain
import Cog.Gen.Chains
import Cog.Drv.SchemaStore
namespace Cog.Drv
open Cog Cog.IR Cog.Sem Cog.Sem.Src Cog.Passes

def srcFuel : Nat := 64

/-! ### why is a document not in `srcDen`? (mirrors `xden true`, first failure) -/

def firstSome {α} (f : α → Option String) : List α → Option String
  | [] => none
  | x :: xs => match f x with | some r => some r | none => firstSome f xs

def scalarWhy (kind : String) (v : Val) (j : Json) : Option String :=
  if !denScalar kind j then
    some (if knownScalar kind then
            (match j with | .null => "null-for-non-nullable" | _ => "scalar-mismatch:" ++ kind)
          else "scalar-kind:" ++ kind)
  else if !constOK v j then some "const-mismatch" else none

partial def srcWhy (ss : Schemas) (fuel : Nat) (t : Ty) (j : Json) : Option String :=
  if fuel == 0 then some "fuel" else
  let structWhy (nullable : Bool) (fields : List Field) : Option String :=
    if nullable && j.isNull then none else
    match j with
    | .obj members =>
      if !keysNodup members then some "duplicate-keys"
      else if !namesNodup (fields.map (·.name)) then some "duplicate-field-names"
      else match members.find? (fun kv => !(fields.map (·.name)).contains kv.1) with
        | some _ => some "undeclared-member"
        | none =>
          firstSome (fun (f : Field) =>
            match Json.lookup f.name members with
            | some v =>
              match srcWhy ss (fuel - 1) f.ty v with
              | some r => some r
              | none => if xFieldValueOK f v then none else some "empty-optional-collection"
            | none =>
              if f.required then some "missing-required"
              else (srcWhy ss (fuel - 1) (setNullable true f.ty) .null).map ("absent-optional:" ++ ·)) fields
    | .null => some "null-for-non-nullable"
    | _ => some "not-an-object"
  let enumWhy (nullable : Bool) (vs : List EnumVal) : Option String :=
    if nullable && j.isNull then none else
    match vs with
    | [] => some "empty-enum"
    | v0 :: _ =>
      if !denScalar v0.kind j then some (match j with | .null => "null-for-non-nullable" | _ => "enum-kind-mismatch")
      else if !enumHas vs j then some "not-an-enum-member" else none
  match t with
  | .scalar kind v _ m =>
    if kind == "bytes" then some "bytes"
    else if kind == "any" then
      (if !anyExact j then some "any-integer-beyond-2^53" else if !wfDeep j then some "any-duplicate-keys" else none)
    else if hasHint m "string_format_datetime" then
      (if m.nullable && j.isNull then none else
        match j with
        | .str _ => if kind == "string" then none else some "datetime-kind"
        | .null => some "null-for-non-nullable"
        | _ => some "scalar-mismatch:datetime")
    else if m.nullable && j.isNull then none else scalarWhy kind v j
  | .array e m =>
    if isByteElem e then some "array-of-uint8-is-bytes" else
    match j with
    | .null => if m.nullable then none else some "null-for-non-nullable"
    | .arr xs => firstSome (srcWhy ss (fuel - 1) e) xs
    | _ => some "not-an-array"
  | .map idx v m =>
    match idx with
    | .scalar "string" _ _ _ =>
      (match j with
       | .null => if m.nullable then none else some "null-for-non-nullable"
       | .obj kvs => if !keysNodup kvs then some "duplicate-keys" else firstSome (fun kv => srcWhy ss (fuel - 1) v kv.2) kvs
       | _ => some "not-an-object")
    | _ => some "map-index-not-string"
  | .ref pkg name m =>
    match Schemas.locateObject ss pkg name with
    | none => some "dangling-reference"
    | some o =>
      match o.ty with
      | .struct fields _ none _ => structWhy m.nullable fields
      | .struct _ _ (some _) _ => some "generated-union-struct"
      | .enum vs _ => enumWhy m.nullable vs
      | .scalar kind v _ om =>
        if !(match v with | .nil => true | _ => false) then some "reference-to-constant"
        else if kind == "bytes" then some "bytes"
        else if kind == "any" then some "alias-of-any"
        else if hasHint om "string_format_datetime" then some "alias-of-datetime"
        else if m.nullable && j.isNull then none
        else if denScalar kind j then none
        else some (match j with | .null => "null-for-non-nullable" | _ => "scalar-mismatch:" ++ kind)
      | .array .. | .map .. =>
        if isEmptyColl j then some "empty-collection-behind-alias" else srcWhy ss (fuel - 1) o.ty j
      | .ref p n om => srcWhy ss (fuel - 1) (.ref p n { om with nullable := m.nullable }) j
      | .disj .. => some "alias-of-disjunction"
      | _ => some ("object-kind:" ++ o.ty.kind)
  | .struct fields _ none m => structWhy m.nullable fields
  | .struct _ _ (some _) _ => some "generated-union-struct"
  | .enum vs m => enumWhy m.nullable vs
  | .disj bs _ m =>
    if bs.length == 2 && Cog.Passes.hasNullType bs then
      match nonNullTypes bs with
      | t :: _ => srcWhy ss (fuel - 1) (setNullable true t) j
      | [] => some "null-or-null"
    else if m.nullable && j.isNull then none
    else if bs.any (constBranchHas j) then none
    else if bs.all isConcreteScalar then some "not-one-of-the-constants"
    else if hasOnlyRefs bs then some "disjunction-of-refs"
    else some "disjunction-of-scalars"
  | .cref .. => some "constant-reference"
  | .inter .. => some "intersection"
  | t => some ("type-kind:" ++ t.kind)

/-! ### why is a schema set not plain? -/

def plainTyWhy : Ty → Option String
  | .scalar .. => none
  | .ref .. => none
  | .array e _ => plainTyWhy e
  | .map i v _ => if i.isScalar then plainTyWhy v else some "map-index"
  | .struct .. => some "anonymous-struct"
  | .enum .. => some "anonymous-enum"
  | .disj bs _ _ =>
    some (if bs.length == 2 && Cog.Passes.hasNullType bs then "disjunction-with-null"
          else if bs.all isConcreteScalar then "disjunction-of-constants"
          else if hasOnlyRefs bs then "disjunction-of-refs"
          else "disjunction-of-scalars")
  | .cref .. => some "constant-reference"
  | .inter .. => some "intersection"
  | .slot .. => some "composable-slot"
  | .bad .. => some "nil-type"

/-- first construct outside `nrTy` (the fragment with `T | null` pairs) -/
def nrTyWhy : Ty → Option String
  | .array e _ => nrTyWhy e
  | .map i v _ => if i.isScalar then nrTyWhy v else some "map-index"
  | .disj bs i m =>
    if nullPair bs then none
    else if bs.length == 2 && Cog.Passes.hasNullType bs then some "disjunction-with-null-of-non-plain"
    else plainTyWhy (.disj bs i m)
  | .enum (_ :: _) _ => none
  | .enum [] _ => some "empty-enum"
  | t => plainTyWhy t

def nrObjWhy : Ty → Option String
  | .struct fs _ none _ => firstSome (fun (f : Field) => nrTyWhy f.ty) fs
  | .struct _ _ (some _) _ => some "generated-union-struct"
  | .enum .. => none
  | t => nrTyWhy t

def plainNWhy (S : Schemas) : Option String :=
  firstSome (fun (s : Schema) =>
    if !wfObjects s.objects then some "object-map-not-well-formed"
    else if !plainEpt s.entryPointType then some "entry-point-type"
    else firstSome (fun (ko : String × Obj) => nrObjWhy ko.2.ty) s.objects) S

def plainObjWhy : Ty → Option String
  | .struct fs _ none _ => firstSome (fun (f : Field) => plainTyWhy f.ty) fs
  | .struct _ _ (some _) _ => some "generated-union-struct"
  | .enum .. => none
  | t => plainTyWhy t

def plainWhy (S : Schemas) : Option String :=
  firstSome (fun (s : Schema) =>
    if !wfObjects s.objects then some "object-map-not-well-formed"
    else if !plainEpt s.entryPointType then some "entry-point-type"
    else firstSome (fun (ko : String × Obj) => plainObjWhy ko.2.ty) s.objects) S

/-! ### per-case cache: `Plain pre`, its explanation, the model chain's output -/

structure SrcPrep where
  plain : Bool
  plainN : Bool
  plainS : Bool
  notplainS : String
  notplain : String
  notplainN : String
  model : Option Schemas      -- `runChain goChain pre`, none = err / panic

initialize srcPrepStore : IO.Ref (Std.HashMap String SrcPrep) ← IO.mkRef {}

def srcPrep (id : String) (pre : Schemas) : IO SrcPrep := do
  match (← srcPrepStore.get).get? id with
  | some p => return p
  | none =>
    let p : SrcPrep := {
      plain := Plain pre
      plainN := PlainX pre
      plainS := PlainS pre
      notplainS :=
        if !structFresh pre then "struct-names-not-fresh-or-object-map"
        else match plainNWhy (asnS pre) with
          | some r => r
          | none => if enumFresh (nullOptS (nrS (asnS pre))) then "-" else "generated-enum-name-not-fresh"
      notplain := (plainWhy pre).getD "-"
      notplainN := match plainNWhy pre with
        | some r => r
        | none => if enumFresh (nullOptS (nrS pre)) then "-" else "generated-enum-name-not-fresh"
      model := match runChain Cog.Gen.Chains.goChain pre with | .ok s => some s | _ => none }
    srcPrepStore.modify (·.insert id p)
    return p

def srcdenLine (rest : String) : IO String := do
  match rest.splitOn " " with
  | preId :: postId :: pkg :: obj :: js =>
    match ← getSchemas preId, ← getSchemas postId with
    | some pre, some post =>
      match (Sexp.parse (" ".intercalate js)).bind Json.ofSexp with
      | none => return "bad-json"
      | some j =>
        let prep ← srcPrep preId pre
        let t : Ty := .ref pkg obj {}
        let src := srcDen srcFuel pre t j
        let dn := den (srcFuel + 1) post t j
        let mden := match prep.model with
          | some m => toString (den (srcFuel + 1) m t j)
          | none => "err"
        let why := if src then "-" else (srcWhy pre srcFuel t j).getD "unexplained"
        return s!"plain={prep.plain} plainN={prep.plainN} plainS={prep.plainS} src={src} den={dn} mden={mden} why={why} notplain={prep.notplain} notplainN={prep.notplainN} notplainS={prep.notplainS}"
    | _, _ => return "unknown-schemas"
  | _ => return "bad-request"

/-! ### C11: the same for the Python chain

    srcpy <pre-id> <post-go-id> <post-py-id> <pkg> <object> <json-sexp>
      → plainPyS=<b> plainS=<b> src=<b> pyden=<b> mpyden=<b|err> den=<b> notpy=<reason|->

  plainPyS : `PlainPyS pre` (hypothesis of C11_pass_widening_struct_partial), plainS : `PlainS pre`;
  pyden    : `pyDen (fuel+1) <real post-Python-chain IR> (ref pkg object) doc`   (conclusion on REAL data)
  mpyden   : the same on `runChain pythonChain pre` (the pass models' output)
  den      : `den (fuel+1) <real post-Go-chain IR> …` (with pyden: the hypotheses of the agreement theorem) -/

def pyTyWhy : Ty → Option String
  | .scalar .. => none
  | .ref _ _ m => if m.nullable then some "nullable-reference" else none
  | .array e m =>
    match pyTyWhy e with
    | some r => some r
    | none => if (nullOpt e).isScalar || !m.nullable then none else some "nullable-array-of-non-scalars"
  | .map _ v m =>
    match pyTyWhy v with
    | some r => some r
    | none => if (nullOpt v).isScalar || !m.nullable then none else some "nullable-map-of-non-scalars"
  | .enum .. => none
  | .disj bs _ _ =>
    match nullPairOf bs with
    | some t => if nullSafe t then none else some "T|null-over-a-decoded-type"
    | none => some "union"
  | t => some ("type-kind:" ++ t.kind)

def pyFieldWhy (f : Field) : Option String :=
  match pyTyWhy f.ty with
  | some r => some r
  | none =>
    if !isNilVal (nullOpt f.ty).getMeta.dflt then some "member-with-default"
    else match f.ty with
      | .scalar k v _ m =>
        if isNilVal v then none
        else if !f.required then some "optional-constant"
        else if m.nullable then some "nullable-constant"
        else if !pyConst v then some "non-string/bool/int-constant"
        else if k == "bytes" || k == "any" || hasHint m "string_format_datetime" then some "constant-of-special-kind"
        else none
      | t => if (constOf (nullOpt t)).isNone then none else some "constant-under-T|null"

def pyObjWhy : Ty → Option String
  | .struct fs _ _ _ => firstSome pyFieldWhy fs
  | .enum .. => none
  | .array e m => match pyTyWhy (.array e m) with | some r => some r | none => if m.nullable then some "nullable-collection-alias" else none
  | .map i v m => match pyTyWhy (.map i v m) with | some r => some r | none => if m.nullable then some "nullable-collection-alias" else none
  | t => pyTyWhy t

def plainPySWhy (S : Schemas) : String :=
  if !structFresh S then "struct-names-not-fresh-or-object-map"
  else match plainNWhy (asnS S) with
    | some r => r
    | none =>
      (firstSome (fun (s : Schema) => firstSome (fun (ko : String × Obj) => pyObjWhy ko.2.ty) s.objects) (asnS S)).getD "-"

structure PyPrep where
  plainPyS : Bool
  plainS : Bool
  notpy : String
  model : Option Schemas

initialize pyPrepStore : IO.Ref (Std.HashMap String PyPrep) ← IO.mkRef {}

def pyPrep (id : String) (pre : Schemas) : IO PyPrep := do
  match (← pyPrepStore.get).get? id with
  | some p => return p
  | none =>
    let p : PyPrep := {
      plainPyS := PlainPyS pre
      plainS := PlainS pre
      notpy := plainPySWhy pre
      model := match runChain Cog.Gen.Chains.pythonChain pre with | .ok s => some s | _ => none }
    pyPrepStore.modify (·.insert id p)
    return p

def srcpyLine (rest : String) : IO String := do
  match rest.splitOn " " with
  | preId :: goId :: pyId :: pkg :: obj :: js =>
    match ← getSchemas preId, ← getSchemas goId, ← getSchemas pyId with
    | some pre, some postGo, some postPy =>
      match (Sexp.parse (" ".intercalate js)).bind Json.ofSexp with
      | none => return "bad-json"
      | some j =>
        let prep ← pyPrep preId pre
        let t : Ty := .ref pkg obj {}
        let src := srcDen srcFuel pre t j
        let pd := pyDen (srcFuel + 1) postPy t j
        let mpd := match prep.model with
          | some m => toString (pyDen (srcFuel + 1) m t j)
          | none => "err"
        let dn := den (srcFuel + 1) postGo t j
        return s!"plainPyS={prep.plainPyS} plainS={prep.plainS} src={src} pyden={pd} mpyden={mpd} den={dn} notpy={prep.notpy}"
    | _, _, _ => return "unknown-schemas"
  | _ => return "bad-request"

end Cog.Drv
