/-
  Line-protocol handlers of property C05 (driver side, core Lean only):
    closed <schemas-vir>                      -> true | false <site> <kind> <pkg>.<name>
    filter (("pkg" "name") …) <schemas-vir>   -> ok <schemas-vir> | err (diverge) | panic
    reach  (("pkg" "name") …) <schemas-vir>   -> ok ("pkg" "name") … (sorted) | nofix
    nameops (<op> …) <schemas-vir>            -> ok <schemas-vir> | err | panic
        <op> ::= (rename "pkg" "from" "to") | (prefix "p") | (unspec)
               | (duplicate "pkg" "obj" "aspkg" "asobj" ("omitted field" …))
               | (replace "pkg" "obj" "topkg" "toobj")
    namesok (<op> …) <schemas-vir>            -> closed=<b> side=<b> hyp=<b>   (hypotheses of C05_names)
    c05chains                                 -> <lang>=<Pass>+<Pass>…;…  (the chains the theorems are about)
    c05pass InferEntrypoint <schemas-vir>     -> ok <schemas-vir>
    c05prefix <lang> <k> <schemas-vir>        -> outcome of the first k passes of the chain, which must all
                                                 have a proved preservation lemma (else `beyond-proven-prefix`)
    c05witness list | c05witness <name>       -> ok <names…> | <request line of the witness>
-/
import Cog.IR.Vir
import Cog.Closed.FilterSchemas
import Cog.Closed.NameOps
import Cog.Closed.Witness
import Cog.Closed.Seq
import Cog.Closed.InferEntrypoint
import Cog.Gen.Chains
import Cog.Closed.Chains
namespace Cog.Drv
open Cog Cog.IR Cog.Closed

namespace ClosedDrv

def addrsIn (xs : List Sexp) : Option (List Addr) :=
  xs.mapM fun (x : Sexp) => match x with
    | .list [.str p, .str n] => some (p, n)
    | _ => none

def addrsOut (as : List Addr) : String :=
  " ".intercalate (as.map fun a => "(" ++ Sexp.quote a.1 ++ " " ++ Sexp.quote a.2 ++ ")")

def addrLe (a b : Addr) : Bool := a.1 < b.1 || (a.1 == b.1 && (a.2 < b.2 || a.2 == b.2))

def opIn : Sexp → Option NameOp
  | .list [.atom "rename", .str p, .str f, .str t] => some (.rename { from_ := ⟨p, f⟩, to := t })
  | .list [.atom "prefix", .str p] => some (.pfx { pfx := p })
  | .list [.atom "unspec"] => some .unspec
  | .list [.atom "duplicate", .str p, .str o, .str ap, .str ao, .list om] => do
    some (.duplicate { object := ⟨p, o⟩, as_ := ⟨ap, ao⟩, omitFields := (← Vir.strsIn om) })
  | .list [.atom "replace", .str p, .str o, .str tp, .str to] => some (.replace { from_ := ⟨p, o⟩, to := ⟨tp, to⟩ })
  | _ => none

def opOut : NameOp → String
  | .rename p => "(rename " ++ Sexp.quote p.from_.pkg ++ " " ++ Sexp.quote p.from_.obj ++ " " ++ Sexp.quote p.to ++ ")"
  | .pfx p => "(prefix " ++ Sexp.quote p.pfx ++ ")"
  | .unspec => "(unspec)"
  | .duplicate p => "(duplicate " ++ Sexp.quote p.object.pkg ++ " " ++ Sexp.quote p.object.obj ++ " " ++
      Sexp.quote p.as_.pkg ++ " " ++ Sexp.quote p.as_.obj ++ " (" ++ " ".intercalate (p.omitFields.map Sexp.quote) ++ "))"
  | .replace p => "(replace " ++ Sexp.quote p.from_.pkg ++ " " ++ Sexp.quote p.from_.obj ++ " " ++
      Sexp.quote p.to.pkg ++ " " ++ Sexp.quote p.to.obj ++ ")"

/-- nil-`Hints` marks of the C15 models are not printed -/
def strip (S : Schemas) : Schemas :=
  S.map fun s => { Cog.Xform.deepCopySchema s with entryPointType := Cog.Xform.deepCopyTy s.entryPointType }

def reply (o : Outcome Schemas) : String :=
  match o with
  | .ok S => Vir.outcomeOut Vir.schemasOut (.ok (strip S))
  | .err e => Vir.outcomeOut Vir.schemasOut (.err e)
  | .panic s => Vir.outcomeOut Vir.schemasOut (.panic s)

def witnessOut (w : Witness) : String :=
  match w.req with
  | .closed S => "closed " ++ (Vir.schemasOut S).render
  | .nameops ts S => "nameops (" ++ " ".intercalate (ts.map opOut) ++ ") " ++ (Vir.schemasOut S).render
  | .filter A S => "filter (" ++ addrsOut A ++ ") " ++ (Vir.schemasOut S).render
  | .chain l S => "c05chain " ++ l ++ " " ++ (Vir.schemasOut S).render

end ClosedDrv

open ClosedDrv in
def closedLine (rest : String) : String :=
  match Sexp.parse rest with
  | none => "bad-sexp"
  | some sx => match Vir.schemasIn sx with
    | none => "bad-vir"
    | some S => match firstDangling S with
      | none => "true"
      | some x => "false " ++ x

open ClosedDrv in
def filterLine (rest : String) : String :=
  match Sexp.parseMany rest with
  | some [.list as, ss] =>
    match addrsIn as, Vir.schemasIn ss with
    | some A, some S => Vir.outcomeOut Vir.schemasOut (FilterSchemas.run A S)
    | _, _ => "bad-request"
  | _ => "bad-request"

open ClosedDrv in
def reachLine (rest : String) : String :=
  match Sexp.parseMany rest with
  | some [.list as, ss] =>
    match addrsIn as, Vir.schemasIn ss with
    | some A, some S =>
      let r := reachList S A
      if isFix S r then ("ok " ++ addrsOut (r.mergeSort addrLe)).trimAscii.toString else "nofix"
    | _, _ => "bad-request"
  | _ => "bad-request"

open ClosedDrv in
def nameopsLine (rest : String) : String :=
  match Sexp.parseMany rest with
  | some [.list ops, ss] =>
    match ops.mapM opIn, Vir.schemasIn ss with
    | some ts, some S => reply (applyAll ts S)
    | _, _ => "bad-request"
  | _ => "bad-request"

open ClosedDrv in
def namesokLine (rest : String) : String :=
  match Sexp.parseMany rest with
  | some [.list ops, ss] =>
    match ops.mapM opIn, Vir.schemasIn ss with
    | some ts, some S =>
      "closed=" ++ toString (closed S) ++ " side=" ++ toString (seqOK side ts S) ++ " hyp=" ++ toString (seqOK opOK ts S)
    | _, _ => "bad-request"
  | _ => "bad-request"

def passGoName : Cog.Passes.PassId → String
  | .anonymousStructsToNamed => "AnonymousStructsToNamed"
  | .notRequiredFieldAsNullableType => "NotRequiredFieldAsNullableType"
  | .disjunctionWithNullToOptional => "DisjunctionWithNullToOptional"
  | .disjunctionOfConstantsToEnum => "DisjunctionOfConstantsToEnum"
  | .anonymousEnumToExplicitType => "AnonymousEnumToExplicitType"
  | .prefixEnumValues => "PrefixEnumValues"
  | .flattenDisjunctions => "FlattenDisjunctions"
  | .disjunctionOfAnonymousStructsToExplicit => "DisjunctionOfAnonymousStructsToExplicit"
  | .disjunctionInferMapping => "DisjunctionInferMapping"
  | .undiscriminatedDisjunctionToAny => "UndiscriminatedDisjunctionToAny"
  | .disjunctionToType => "DisjunctionToType"
  | .removeIntersections => "RemoveIntersections"
  | .sanitizeEnumMemberNames => "SanitizeEnumMemberNames"
  | .inlineObjectsWithTypes ks => "InlineObjectsWithTypes:" ++ ",".intercalate ks
  | .renameNumericEnumValues => "RenameNumericEnumValues"

/-- the chains the C05 chain theorems speak about: the regenerated five, and `schemaLangChain` -/
def c05chainsLine : String :=
  let five := ["go", "java", "php", "python", "typescript"].map fun l =>
    l ++ "=" ++ "+".intercalate (((Cog.Gen.Chains.chainOf l).getD []).map passGoName)
  let two := ["jsonschema", "openapi"].map fun l => l ++ "=DisjunctionWithNullToOptional+InferEntrypoint"
  ";".intercalate (five ++ two)

def c05prefixLine (rest : String) : String :=
  match rest.splitOn " " with
  | lang :: k :: more =>
    match Cog.Gen.Chains.chainOf lang, k.toNat?, Sexp.parse (" ".intercalate more) with
    | some ps, some k, some sx =>
      if k > (ps.takeWhile Cog.Closed.provenPass).length then "beyond-proven-prefix"
      else match Vir.schemasIn sx with
        | some S =>
          Vir.outcomeOut Vir.schemasOut (Cog.Passes.runChain (ps.take k) S)
        | none => "bad-vir"
    | _, _, _ => "bad-request"
  | _ => "bad-request"

def c05passLine (rest : String) : String :=
  match rest.splitOn " " with
  | "InferEntrypoint" :: more =>
    match Sexp.parse (" ".intercalate more) with
    | some sx => match Vir.schemasIn sx with
      | some S => Vir.outcomeOut Vir.schemasOut (Cog.Closed.InferEntrypoint.run S)
      | none => "bad-vir"
    | none => "bad-sexp"
  | _ => "unknown-pass"

open ClosedDrv in
def c05witnessLine (rest : String) : String :=
  if rest == "list" then "ok " ++ " ".intercalate (Cog.Closed.witnesses.map (·.name))
  else match Cog.Closed.witnesses.find? (fun w => w.name == rest) with
    | some w => witnessOut w
    | none => "unknown-witness"

end Cog.Drv
