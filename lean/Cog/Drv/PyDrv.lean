/-
  Driver verbs for the semantics of generated Python code (C11).
    pyroundtrip <schemas-id> <pkg> <object> <json-sexp>   →  ok <json> | err | unsup <why> | fuel
    c11agree <py-id> <go-id> <pkg> <object> <json-sexp>   →  same|differ|na pyden=<b> goden=<b> accepts=<b>
  `<schemas-id>` names a schema set registered with `defschemas` (`<py-id>`: the post-PYTHON-chain
  IR, `<go-id>`: the post-GO-chain IR of the same source).  `pyden`/`goden` are the decidable
  hypotheses of `C11_roundtrip_partial` / `C11_go_py_agree_partial` evaluated on the document.
-/
import Cog.Sem.PyCodec
import Cog.Sem.PyDen
import Cog.Drv.SchemaStore
import Cog.Drv.SemDrv
namespace Cog.Drv
open Cog Cog.IR Cog.Sem

/-- iterative deepening of the fuel, as for `godec` (results do not depend on the fuel once it
    suffices); returns the fuel that sufficed -/
partial def pyRoundTripAuto (ss : Schemas) (pkg name : String) (j : Json) (f : Nat := 4) : Nat × DRes Json :=
  match pyRoundTrip f ss pkg name j with
  | .fuel => if f ≥ semFuel then (f, .fuel) else pyRoundTripAuto ss pkg name j (f + 2)
  | r => (f, r)

partial def goRoundTripFuel (ss : Schemas) (pkg name : String) (j : Json) (f : Nat := 4) : Nat × DRes Json :=
  match goRoundTrip f ss pkg name j with
  | .fuel => if f ≥ semFuel then (f, .fuel) else goRoundTripFuel ss pkg name j (f + 2)
  | r => (f, r)

def parseReq (js : List String) : Option Json := (Sexp.parse (" ".intercalate js)).bind Json.ofSexp

def pyroundtripLine (rest : String) : IO String := do
  match rest.splitOn " " with
  | id :: pkg :: obj :: js =>
    match ← getSchemas id with
    | none => return "unknown-schemas"
    | some ss =>
      match parseReq js with
      | none => return "bad-json"
      | some j => return showDRes (pyRoundTripAuto ss pkg obj j).2
  | _ => return "bad-request"

def c11agreeLine (rest : String) : IO String := do
  match rest.splitOn " " with
  | pid :: gid :: pkg :: obj :: js =>
    match ← getSchemas pid, ← getSchemas gid with
    | some ssPy, some ssGo =>
      match parseReq js with
      | none => return "bad-json"
      | some j =>
        let (fp, rp) := pyRoundTripAuto ssPy pkg obj j
        let (fg, rg) := goRoundTripFuel ssGo pkg obj j
        let t : Ty := .ref pkg obj {}
        let pyden := wfJson j && (pyDen fp ssPy t j || pyDen (fp + 2) ssPy t j || pyDen (fp + 4) ssPy t j)
        let goden := den fg ssGo t j || den (fg + 2) ssGo t j || den (fg + 4) ssGo t j
        let acc := accepts fp ssPy t j || accepts (fp + 2) ssPy t j || accepts (fp + 4) ssPy t j
        let verdict := match rp, rg with
          | .ok a, .ok b => if Json.eqv a b then "same" else "differ"
          | _, _ => "na"
        return s!"{verdict} pyden={pyden} goden={goden} accepts={acc}"
    | _, _ => return "unknown-schemas"
  | _ => return "bad-request"

end Cog.Drv
