/-
  Driver verbs for the semantics of generated Python code (C11).
    pyroundtrip <schemas-id> <pkg> <object> <json-sexp>   →  ok <json> | err | unsup <why> | fuel
  `<schemas-id>` names a schema set registered with `defschemas` (the post-PYTHON-chain IR).
-/
import Cog.Sem.PyCodec
import Cog.Drv.SchemaStore
import Cog.Drv.SemDrv
namespace Cog.Drv
open Cog Cog.IR Cog.Sem

/-- iterative deepening of the fuel, as for `godec` (results do not depend on the fuel once it suffices) -/
partial def pyRoundTripAuto (ss : Schemas) (pkg name : String) (j : Json) (f : Nat := 4) : DRes Json :=
  match pyRoundTrip f ss pkg name j with
  | .fuel => if f ≥ semFuel then .fuel else pyRoundTripAuto ss pkg name j (f + 2)
  | r => r

def pyroundtripLine (rest : String) : IO String := do
  match rest.splitOn " " with
  | id :: pkg :: obj :: js =>
    match ← getSchemas id with
    | none => return "unknown-schemas"
    | some ss =>
      match (Sexp.parse (" ".intercalate js)).bind Json.ofSexp with
      | none => return "bad-json"
      | some j => return showDRes (pyRoundTripAuto ss pkg obj j)
  | _ => return "bad-request"

end Cog.Drv
