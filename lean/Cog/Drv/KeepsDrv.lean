/-
  Driver verbs of the front-end "keeps" ties (core Lean only): instances of `keeps_property` and of the compositions with C10 / C08
  (Props/C10.lean, Props/C08.lean: blocks of the c01-front builder) evaluated on the REAL front-end IR of the `c01-front` /
  `c01-front-oa` streams.

    jsfkeeps <id> <real-id>        → objs= props= kept= dflt= const= cons= goInst= goHold= pyInst= pyHold= flat= bad=<…|->
        for every object definition of the case that the real front-end declared: every typed scalar property must be a
        field of the real struct with type `scalarOf` (VIR-equal) and the right `required` (kept = props); for every such
        property whose post-chain field `goFits` / `pyFits` and declares a value: the Go / Python constructor model run on
        the pass models' output of the REAL IR must hold it (instances of C10_jsonschema_default_{go,py}_end_to_end_partial);
    jsfc08 <id> <real-id> <doc>    → inst= ok= docinst= docok= bad=<…|->
        for every sub-document of <doc> that sits at a FLAT object definition: decode it with the Go codec model on the pass
        models' output of the real IR, then `Validate()` model = `violations [] (srcStructTy …)` (instance of
        C08_jsonschema_validate_end_to_end_partial) and, when every member is present, = `jsViolations` of the document.
    oafkeeps / oafc08: the same for OpenAPI cases.
-/
import Cog.Drv.FrontOaDrv
import Cog.Front.KeepsConstraints
import Cog.Front.OpenApiKeeps
import Cog.Sem.DefaultsFits
import Cog.Sem.GoValidateSpec
namespace Cog.Drv
open Cog Cog.IR Cog.Sem Cog.Sem.Src Cog.Passes Cog.Sem.Defaults

def keepsFuel : Nat := 16

structure KeepsStat where
  objs : Nat := 0
  props : Nat := 0
  kept : Nat := 0
  dflt : Nat := 0
  const : Nat := 0
  cons : Nat := 0
  goInst : Nat := 0
  goHold : Nat := 0
  pyInst : Nat := 0
  pyHold : Nat := 0
  flat : Nat := 0
  bad : List String := []

def KeepsStat.render (k : KeepsStat) : String :=
  s!"objs={k.objs} props={k.props} kept={k.kept} dflt={k.dflt} const={k.const} cons={k.cons} goInst={k.goInst} goHold={k.goHold} pyInst={k.pyInst} pyHold={k.pyHold} flat={k.flat} bad={if k.bad.isEmpty then "-" else ";".intercalate (k.bad.take 3)}"

def tyText (t : Ty) : String := (Vir.tyOut t).render

/-- one object definition: `fields` = (name, source-side type, required) of its typed scalar properties -/
def keepsObject (real : Schemas) (modelGo modelPy : Option Schemas) (plain plainN sorted isFlat : Bool) (pkg name : String)
    (fields : List (String × Ty × Bool)) (st : KeepsStat) : KeepsStat :=
  match Schemas.locateObject real pkg name with
  | none => st
  | some o =>
    let fs := structFields o.ty
    let st := { st with objs := st.objs + 1, flat := st.flat + (if isFlat then 1 else 0) }
    let jg := match modelGo with | some Sg => (match goDefaults keepsFuel Sg pkg name with | .ok j => some j | _ => none) | none => none
    let jp := match modelPy with | some Sp => (match pyDefaults keepsFuel Sp pkg name with | .ok j => some j | _ => none) | none => none
    fields.foldl (fun st (k, ty, req) =>
      let st := { st with props := st.props + 1 }
      let st := match Defaults.fieldByName k fs with
        | some f => if tyText f.ty == tyText ty && f.required == req then { st with kept := st.kept + 1 }
                    else { st with bad := (name ++ "." ++ k ++ ":type-or-required") :: st.bad }
        | none => { st with bad := (name ++ "." ++ k ++ ":missing-field") :: st.bad }
      let hasD := !ty.getMeta.dflt.isNilV
      let hasC := ty.isConcrete
      let hasK := match ty with | .scalar _ _ cs _ => !cs.isEmpty | _ => false
      let st := { st with dflt := st.dflt + (if hasD then 1 else 0), const := st.const + (if hasC then 1 else 0), cons := st.cons + (if hasK then 1 else 0) }
      let sf := Cog.Front.Keeps.scalarImg k ty req
      match declaredOf sf with
      | none => st
      | some j =>
        let st :=
          if sorted && plain && goFits [] sf then
            -- (hypothesis `goDefaults … = .ok jg`: a constructor the model cannot build / that does not compile is no instance)
            match jg with
            | some enc =>
              let st := { st with goInst := st.goInst + 1 }
              if holds enc k j then { st with goHold := st.goHold + 1 } else { st with bad := (name ++ "." ++ k ++ ":go-not-held") :: st.bad }
            | none => st
          else st
        if sorted && plainN && pyFits [] sf then
          match jp with
          | some enc =>
            let st := { st with pyInst := st.pyInst + 1 }
            if holds enc k j then { st with pyHold := st.pyHold + 1 } else { st with bad := (name ++ "." ++ k ++ ":py-not-held") :: st.bad }
          | none => st
        else st) st

/-! ### JSON Schema cases -/

section JS
open Cog.Front.JsonSchema

def jsScalarFields (s : JS) : List (String × Ty × Bool) :=
  (propsOf s).filterMap fun p => (scalarNode p.2).map fun t => (p.1, scalarOf p.2.attrs t, s.attrs.required.contains p.1)

def jsfkeepsLine (rest : String) : IO String := do
  match rest.splitOn " " with
  | [id, realId] =>
    match (← frontStore.get).get? id, ← getSchemas realId with
    | some c, some real =>
      let prep ← srcPrep realId real
      let plain := Plain real
      let plainN := PlainN real
      let modelPy := match runChain Cog.Gen.Chains.pythonChain real with | .ok s => some s | _ => none
      let st := c.defs.foldl (fun st (d : String × JS) =>
        if isObjectNode d.2 then
          keepsObject real prep.model modelPy plain plainN (sortedKeys (propsOf d.2))
            ((rawFields d.2.attrs.required (propsOf d.2)).isSome) c.pkg d.1 (jsScalarFields d.2) st
        else st) ({} : KeepsStat)
      return st.render
    | none, _ => return "unknown-case"
    | _, none => return "unknown-schemas"
  | _ => return "bad-request"

/-- the sub-documents of `j` with the definition they sit at -/
partial def jsSubDocs (defs : Defs) (fuel : Nat) (s : JS) (j : Json) : List (String × Json) :=
  if fuel == 0 then [] else
  match s with
  | .mk a _ anyOf _ props addl items items2020 =>
    match a.ref with
    | some name =>
      (match lookupDef defs name with
       | some t => (name, j) :: jsSubDocs defs (fuel - 1) t j
       | none => [])
    | none =>
      let viaAny := if a.hasAnyOf then anyOf.flatMap fun b => jsSubDocs defs (fuel - 1) b j else []
      match j with
      | .obj ms =>
        viaAny ++ ms.flatMap fun kv =>
          match props.find? (fun p => p.1 == kv.1) with
          | some p => jsSubDocs defs (fuel - 1) p.2 kv.2
          | none => (match addl with | .schema e => jsSubDocs defs (fuel - 1) e kv.2 | _ => [])
      | .arr xs =>
        viaAny ++ (match items, items2020 with
          | .one e, _ => xs.flatMap fun x => jsSubDocs defs (fuel - 1) e x
          | _, .one e => xs.flatMap fun x => jsSubDocs defs (fuel - 1) e x
          | _, _ => [])
      | _ => viaAny

def okViols : DRes (List Viol) → Option (List Viol)
  | .ok l => some l
  | _ => none

structure C08Stat where
  inst : Nat := 0
  ok : Nat := 0
  docinst : Nat := 0
  docok : Nat := 0
  bad : List String := []

def C08Stat.render (k : C08Stat) : String :=
  s!"inst={k.inst} ok={k.ok} docinst={k.docinst} docok={k.docok} bad={if k.bad.isEmpty then "-" else ";".intercalate (k.bad.take 3)}"

/-- one (flat definition, sub-document) pair -/
def c08Instance (Sg : Schemas) (pkg name : String) (gs : List Field) (docViol : Option (List Viol)) (allPresent : Bool)
    (w : Json) (st : C08Stat) : C08Stat :=
  match goDecode keepsFuel Sg (.ref pkg name {}) w with
  | .ok v =>
    let lc := okViols (goValidate keepsFuel Sg pkg name v)
    let ls := okViols (violations keepsFuel [] (.struct (gs.map Cog.Front.JsonSchema.imgField) [] none {}) v)
    match lc, ls with
    | some lc, some ls =>
      let st := { st with inst := st.inst + 1 }
      let st := if lc == ls then { st with ok := st.ok + 1 } else { st with bad := (name ++ ":validate≠source-spec") :: st.bad }
      if allPresent then
        match docViol with
        | some ld =>
          let st := { st with docinst := st.docinst + 1 }
          if lc == ld then { st with docok := st.docok + 1 } else { st with bad := (name ++ ":validate≠jsViolations") :: st.bad }
        | none => st
      else st
    | _, _ => st
  | _ => st

def jsfc08Line (rest : String) : IO String := do
  match rest.splitOn " " with
  | id :: realId :: js =>
    match (← frontStore.get).get? id, ← getSchemas realId with
    | some c, some real =>
      match (Sexp.parse (" ".intercalate js)).bind Json.ofSexp with
      | none => return "bad-json"
      | some j =>
        let prep ← srcPrep realId real
        match prep.model with
        | none => return ({} : C08Stat).render
        | some Sg =>
          if !(Plain real && noConstrainedAlias Sg) then return ({} : C08Stat).render else
          let pairs := jsSubDocs c.defs 12 c.root j
          let st := pairs.foldl (fun st (nw : String × Json) =>
            match lookupDef c.defs nw.1 with
            | some s =>
              if isObjectNode s && sortedKeys (propsOf s) then
                match rawFields s.attrs.required (propsOf s), nw.2 with
                | some gs, .obj ms =>
                  let allPresent := (propsOf s).all fun p => match Json.lookup p.1 ms with | some w => !w.isNull | none => false
                  c08Instance Sg c.pkg nw.1 gs (jsViolations s nw.2) allPresent nw.2 st
                | _, _ => st
              else st
            | none => st) ({} : C08Stat)
          return st.render
    | none, _ => return "unknown-case"
    | _, none => return "unknown-schemas"
  | _ => return "bad-request"

end JS

/-! ### OpenAPI cases -/

section OA
open Cog.Front.OpenApi

def oaScalarFields (r : OSR) : List (String × Ty × Bool) :=
  (Cog.Front.OpenApi.propsOf r).filterMap fun p =>
    (Cog.Front.OpenApi.scalarNode p.2).map fun t => (p.1, Cog.Front.OpenApi.scalarOf (attrsOf p.2) t, (attrsOf r).required.contains p.1)

def oafkeepsLine (rest : String) : IO String := do
  match rest.splitOn " " with
  | [id, realId] =>
    match (← frontOaStore.get).get? id, ← getSchemas realId with
    | some c, some real =>
      let prep ← srcPrep realId real
      let plain := Plain real
      let plainN := PlainN real
      let modelPy := match runChain Cog.Gen.Chains.pythonChain real with | .ok s => some s | _ => none
      let cs := c.comps.getD []
      let st := cs.foldl (fun st (d : String × OSR) =>
        if Cog.Front.OpenApi.isObjectNode d.2 then
          keepsObject real prep.model modelPy plain plainN (Cog.Front.OpenApi.sortedKeys (Cog.Front.OpenApi.propsOf d.2))
            ((Cog.Front.OpenApi.rawFields (attrsOf d.2).required (Cog.Front.OpenApi.propsOf d.2)).isSome) c.pkg d.1 (oaScalarFields d.2) st
        else st) ({} : KeepsStat)
      return st.render
    | none, _ => return "unknown-case"
    | _, none => return "unknown-schemas"
  | _ => return "bad-request"

/-- the sub-documents of `j` with the component they sit at -/
partial def oaSubDocs (cs : Components) (fuel : Nat) (r : OSR) (j : Json) : List (String × Json) :=
  if fuel == 0 then [] else
  match r with
  | .mk ref _ _ (.mk _ _ _ _ props addl items) =>
    if isRef ref then
      (match lookupComp cs (lastSegment ref) with
       | some t => (lastSegment ref, j) :: oaSubDocs cs (fuel - 1) t j
       | none => [])
    else
      match j with
      | .obj ms =>
        ms.flatMap fun kv =>
          match props.find? (fun p => p.1 == kv.1) with
          | some p => oaSubDocs cs (fuel - 1) p.2 kv.2
          | none => (match addl with | .some e => oaSubDocs cs (fuel - 1) e kv.2 | .none => [])
      | .arr xs => (match items with | .some e => xs.flatMap fun x => oaSubDocs cs (fuel - 1) e x | .none => [])
      | _ => []

def oafc08Line (rest : String) : IO String := do
  match rest.splitOn " " with
  | id :: realId :: root :: js =>
    match (← frontOaStore.get).get? id, ← getSchemas realId with
    | some c, some real =>
      match (Sexp.parse (" ".intercalate js)).bind Json.ofSexp with
      | none => return "bad-json"
      | some j =>
        let prep ← srcPrep realId real
        match prep.model with
        | none => return ({} : C08Stat).render
        | some Sg =>
          if !(Plain real && noConstrainedAlias Sg) then return ({} : C08Stat).render else
          let cs := c.comps.getD []
          let pairs := oaSubDocs cs 12 (Cog.Front.OpenApi.refTo root) j
          let st := pairs.foldl (fun st (nw : String × Json) =>
            match lookupComp cs nw.1 with
            | some r =>
              if Cog.Front.OpenApi.isObjectNode r && Cog.Front.OpenApi.sortedKeys (Cog.Front.OpenApi.propsOf r) then
                match Cog.Front.OpenApi.rawFields (attrsOf r).required (Cog.Front.OpenApi.propsOf r) with
                | some gs => c08Instance Sg c.pkg nw.1 gs none false nw.2 st
                | none => st
              else st
            | none => st) ({} : C08Stat)
          return st.render
    | none, _ => return "unknown-case"
    | _, none => return "unknown-schemas"
  | _ => return "bad-request"

end OA

end Cog.Drv
