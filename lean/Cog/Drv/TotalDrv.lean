/-
  Line-protocol handler of property C04 (driver side, core Lean only):
    c04pred <schemas-vir>  ->  wf=… acyL=… acyG=… … p:<GoPassName>=… chain:<lang>=… fromast=… ctx:<lang>=…
                               m:<GoPassName>=ok|err|panic  mchain:<lang>=ok|err|panic  mfromast=ok|err|panic
  i.e. the decidable hypotheses of the `C04_*_partial` theorems evaluated on one IR: the check uses
  them to decide whether a panic of the REAL code on that IR contradicts a theorem (hypotheses
  hold), is outside the property (`wf=false`: malformed IR), or must be a recorded finding.
-/
import Cog.IR.Vir
import Cog.Total.PassTotal
import Cog.Total.BuilderTotal
import Cog.Gen.Chains
namespace Cog.Drv
open Cog Cog.IR Cog.Passes Cog.Total

namespace TotalDrv

def b (x : Bool) : String := if x then "true" else "false"

def passes : List (String × PassId) := [
  ("AnonymousStructsToNamed", .anonymousStructsToNamed),
  ("NotRequiredFieldAsNullableType", .notRequiredFieldAsNullableType),
  ("DisjunctionWithNullToOptional", .disjunctionWithNullToOptional),
  ("DisjunctionOfConstantsToEnum", .disjunctionOfConstantsToEnum),
  ("AnonymousEnumToExplicitType", .anonymousEnumToExplicitType),
  ("PrefixEnumValues", .prefixEnumValues),
  ("FlattenDisjunctions", .flattenDisjunctions),
  ("DisjunctionOfAnonymousStructsToExplicit", .disjunctionOfAnonymousStructsToExplicit),
  ("DisjunctionInferMapping", .disjunctionInferMapping),
  ("UndiscriminatedDisjunctionToAny", .undiscriminatedDisjunctionToAny),
  ("DisjunctionToType", .disjunctionToType),
  ("RemoveIntersections", .removeIntersections),
  ("SanitizeEnumMemberNames", .sanitizeEnumMemberNames),
  ("InlineObjectsWithTypes", .inlineObjectsWithTypes ["scalar", "array", "map", "disjunction"]),
  ("RenameNumericEnumValues", .renameNumericEnumValues)]

def langs : List String := ["go", "java", "php", "python", "typescript"]

/-- chain condition and, when the chain succeeds, `Safe` of its result (what `FromAST` then sees) -/
def ctxCond (ps : List PassId) (S : Schemas) : Bool :=
  chainCond ps S && (match runChain ps S with
    | .ok S' => Cog.Builder.Safe S'
    | _ => true)

def oc {α : Type} : Outcome α → String
  | .ok _ => "ok"
  | .err _ => "err"
  | .panic _ => "panic"

def line (S : Schemas) : String :=
  let w := wfIR S
  let base := ["wf=" ++ b w, "acyL=" ++ b (LocalAliasAcyclic S), "acyG=" ++ b (GlobalAliasAcyclic S),
    "enumOk=" ++ b (EnumMembersOk S), "nullOk=" ++ b (NoNullOnlyUnion S), "inferOk=" ++ b (InferMappingSafe S),
    "flatUnions=" ++ b (allSchemas docteNode S), "variantOk=" ++ b (VariantHintsAreStrings S),
    "fromast=" ++ b (w && Cog.Builder.Safe S)]
  let ps := passes.map fun (n, p) => "p:" ++ n ++ "=" ++ b (w && passCond p S)
  let cs := langs.filterMap fun l => (Cog.Gen.Chains.chainOf l).map fun c => "chain:" ++ l ++ "=" ++ b (w && chainCond c S)
  let xs := langs.filterMap fun l => (Cog.Gen.Chains.chainOf l).map fun c => "ctx:" ++ l ++ "=" ++ b (w && ctxCond c S)
  -- what the MODELS do on this IR (a panic of the real code where the model does not panic means the
  -- model no longer describes the code, whatever the hypotheses say)
  let ms := passes.map fun (n, p) => "m:" ++ n ++ "=" ++ oc (p.run S)
  let mcs := langs.filterMap fun l => (Cog.Gen.Chains.chainOf l).map fun c => "mchain:" ++ l ++ "=" ++ oc (runChain c S)
  let mf := ["mfromast=" ++ oc (Cog.Builder.fromAST S)]
  " ".intercalate (base ++ ps ++ cs ++ xs ++ ms ++ mcs ++ mf)

end TotalDrv

def c04predLine (rest : String) : String :=
  match Sexp.parse rest with
  | none => "bad-sexp"
  | some sx =>
    match Vir.schemasIn sx with
    | none => "bad-vir"
    | some S => TotalDrv.line S

end Cog.Drv
