/-
  C08, helper lemmas for `Validate()`: the interpreter of the generated code (`tvc`) computes
  the specification (`violations`) wherever `resolvesToConstraints` holds, and the
  specification is empty wherever it does not — provided no constraint hides behind an alias.
-/
import Cog.Sem.GoValidateSpec
namespace Cog.Sem.C08
open Cog.IR

/-! ### DRes -/

theorem DRes.bind_eq_ok {α β} {x : DRes α} {f : α → DRes β} {b : β} :
    x.bind f = .ok b ↔ ∃ a, x = .ok a ∧ f a = .ok b := by
  cases x <;> simp [DRes.bind]

/-! ### resolution -/

theorem resolveRefs_nonref (ss : Schemas) {t : Ty} (h : t.isRef = false) : resolveRefs ss t = some t := by
  cases t <;> simp_all [resolveRefs, resolveFuel, Schemas.resolveToType, Ty.isRef]

theorem resolveRefs_ref_located (ss : Schemas) {p n : String} (m : Meta) {o : Obj}
    (h : Schemas.locateObject ss p n = some o) :
    resolveRefs ss (.ref p n m) = Schemas.resolveToType ss (ss.objectCount + 1) o.ty := by
  simp [resolveRefs, resolveFuel, Schemas.resolveToType, h]

theorem resolveRefs_ref_dangling (ss : Schemas) {p n : String} (m : Meta)
    (h : Schemas.locateObject ss p n = none) :
    resolveRefs ss (.ref p n m) = some (.ref p n m) := by
  simp [resolveRefs, resolveFuel, Schemas.resolveToType, h]

theorem resolveToType_struct (ss : Schemas) (k : Nat) {t : Ty} (h : t.isStruct = true) :
    Schemas.resolveToType ss (k + 1) t = some t := by
  cases t <;> simp_all [Schemas.resolveToType, Ty.isStruct]

/-! ### locating objects -/

theorem rget_mem {K V : Type} [DecidableEq K] {k : K} {v : V} :
    ∀ {l : List (K × V)}, Cog.OMap.rget k l = some v → (k, v) ∈ l
  | [], h => by simp [Cog.OMap.rget] at h
  | (k', v') :: t, h => by
    simp only [Cog.OMap.rget] at h
    by_cases hk : k' = k
    · simp [hk] at h; subst hk; subst h; exact List.mem_cons_self
    · simp [hk] at h; exact List.mem_cons_of_mem _ (rget_mem h)

theorem locate_mem : ∀ {ss : Schemas} {p : String} {s : Schema},
    Schemas.locate ss p = some s → s ∈ ss ∧ s.pkg = p
  | [], _, _, h => by simp [Schemas.locate] at h
  | s' :: rest, p, s, h => by
    simp only [Schemas.locate] at h
    by_cases hp : s'.pkg = p
    · simp [hp] at h; subst h; exact ⟨List.mem_cons_self, hp⟩
    · simp [hp] at h
      obtain ⟨h1, h2⟩ := locate_mem h
      exact ⟨List.mem_cons_of_mem _ h1, h2⟩

theorem locateObject_mem {ss : Schemas} {p n : String} {o : Obj}
    (h : Schemas.locateObject ss p n = some o) :
    ∃ s, s ∈ ss ∧ s.pkg = p ∧ (n, o) ∈ s.objects := by
  simp only [Schemas.locateObject] at h
  cases hl : Schemas.locate ss p with
  | none => simp [hl] at h
  | some s =>
    simp [hl, Schema.locateObject] at h
    obtain ⟨h1, h2⟩ := locate_mem hl
    exact ⟨s, h1, h2, rget_mem h⟩

/-- what `noConstrainedAlias` says about one located object -/
theorem alias_plain {ss : Schemas} (hs : noConstrainedAlias ss = true) {p n : String} {o : Obj}
    (h : Schemas.locateObject ss p n = some o) :
    (o.ty.isStruct = true ∨ resolvesToStructTy ss (.ref p n {}) = true) ∨ plainTy plainFuel ss (.ref p n {}) = true := by
  obtain ⟨s, h1, h2, h3⟩ := locateObject_mem h
  simp only [noConstrainedAlias, List.all_eq_true] at hs
  have := hs s h1 (n, o) h3
  simp only [Bool.or_eq_true] at this
  subst h2
  exact this

/-! ### loops -/

theorem loopIdx_nil_of {f : GoVal → DRes (List Viol)} (hf : ∀ v l, f v = .ok l → l = []) :
    ∀ (vs : List GoVal) (i : Nat) (l : List Viol), loopIdx f i vs = .ok l → l = []
  | [], _, l, h => by simp [loopIdx] at h; exact h
  | v :: vs, i, l, h => by
    simp only [loopIdx, DRes.bind_eq_ok] at h
    obtain ⟨a, ha, b, hb, hl⟩ := h
    have h1 := hf v a ha
    have h2 := loopIdx_nil_of hf vs (i + 1) b hb
    simp at hl; subst h1; subst h2; simp [preAll] at hl; exact hl

theorem loopKey_nil_of {f : GoVal → DRes (List Viol)} (hf : ∀ v l, f v = .ok l → l = []) :
    ∀ (kvs : List (String × GoVal)) (l : List Viol), loopKey f kvs = .ok l → l = []
  | [], l, h => by simp [loopKey] at h; exact h
  | (k, v) :: kvs, l, h => by
    simp only [loopKey, DRes.bind_eq_ok] at h
    obtain ⟨a, ha, b, hb, hl⟩ := h
    have h1 := hf v a ha
    have h2 := loopKey_nil_of hf kvs b hb
    simp at hl; subst h1; subst h2; simp [preAll] at hl; exact hl

theorem specFields_nil_of {f : Ty → GoVal → DRes (List Viol)} :
    ∀ (fds : List Field) (fvs : List (String × GoVal)) (l : List Viol),
      (∀ fd, fd ∈ fds → ∀ v l, f fd.ty v = .ok l → l = []) →
      specFields f fds fvs = .ok l → l = []
  | [], [], l, _, h => by simp [specFields] at h; exact h
  | [], _ :: _, l, _, h => by simp [specFields] at h
  | _ :: _, [], l, _, h => by simp [specFields] at h
  | fd :: fds, (n, v) :: fvs, l, hf, h => by
    simp only [specFields] at h
    split at h
    · simp at h
    · simp only [DRes.bind_eq_ok] at h
      obtain ⟨a, ha, b, hb, hl⟩ := h
      have h1 := hf fd List.mem_cons_self v a ha
      have h2 := specFields_nil_of fds fvs b (fun fd' hm => hf fd' (List.mem_cons_of_mem _ hm)) hb
      simp at hl; subst h1; subst h2; simp [preAll] at hl; exact hl

theorem loopIdx_congr {f g : GoVal → DRes (List Viol)}
    (hfg : ∀ v l l', f v = .ok l → g v = .ok l' → l = l') :
    ∀ (vs : List GoVal) (i : Nat) (l l' : List Viol),
      loopIdx f i vs = .ok l → loopIdx g i vs = .ok l' → l = l'
  | [], _, l, l', h, h' => by simp [loopIdx] at h h'; rw [h, h']
  | v :: vs, i, l, l', h, h' => by
    simp only [loopIdx, DRes.bind_eq_ok] at h h'
    obtain ⟨a, ha, b, hb, hl⟩ := h
    obtain ⟨a', ha', b', hb', hl'⟩ := h'
    have h1 := hfg v a a' ha ha'
    have h2 := loopIdx_congr hfg vs (i + 1) b b' hb hb'
    simp at hl hl'; rw [← hl, ← hl', h1, h2]

theorem loopKey_congr {f g : GoVal → DRes (List Viol)}
    (hfg : ∀ v l l', f v = .ok l → g v = .ok l' → l = l') :
    ∀ (kvs : List (String × GoVal)) (l l' : List Viol),
      loopKey f kvs = .ok l → loopKey g kvs = .ok l' → l = l'
  | [], l, l', h, h' => by simp [loopKey] at h h'; rw [h, h']
  | (k, v) :: kvs, l, l', h, h' => by
    simp only [loopKey, DRes.bind_eq_ok] at h h'
    obtain ⟨a, ha, b, hb, hl⟩ := h
    obtain ⟨a', ha', b', hb', hl'⟩ := h'
    have h1 := hfg v a a' ha ha'
    have h2 := loopKey_congr hfg kvs b b' hb hb'
    simp at hl hl'; rw [← hl, ← hl', h1, h2]

/-- the guarded field loop of the code against the unguarded one of the specification -/
theorem loopFields_spec {guard : Ty → Bool} {f : Ty → Bool → GoVal → DRes (List Viol)}
    {g : Ty → GoVal → DRes (List Viol)} :
    ∀ (fds : List Field) (fvs : List (String × GoVal)) (lc ls : List Viol),
      (∀ fd, fd ∈ fds → guard fd.ty = true → ∀ v lc ls,
          f fd.ty fd.ty.getMeta.nullable v = .ok lc → g fd.ty v = .ok ls → lc = ls) →
      (∀ fd, fd ∈ fds → guard fd.ty = false → ∀ v ls, g fd.ty v = .ok ls → ls = []) →
      loopFields guard f fds fvs = .ok lc → specFields g fds fvs = .ok ls → lc = ls
  | [], [], lc, ls, _, _, h, h' => by simp [loopFields, specFields] at h h'; rw [h, h']
  | [], _ :: _, _, _, _, _, h, _ => by simp [loopFields] at h
  | _ :: _, [], _, _, _, _, h, _ => by simp [loopFields] at h
  | fd :: fds, (n, v) :: fvs, lc, ls, ht, hfalse, h, h' => by
    simp only [loopFields, specFields] at h h'
    split at h
    · simp at h
    · rename_i hn
      simp only [hn, if_false, DRes.bind_eq_ok] at h h'
      obtain ⟨a, ha, b, hb, hl⟩ := h
      obtain ⟨a', ha', b', hb', hl'⟩ := h'
      have h2 := loopFields_spec fds fvs b b'
        (fun fd' hm => ht fd' (List.mem_cons_of_mem _ hm))
        (fun fd' hm => hfalse fd' (List.mem_cons_of_mem _ hm)) hb hb'
      have h1 : a = a' := by
        cases hg : guard fd.ty with
        | true =>
          simp [hg] at ha
          exact ht fd List.mem_cons_self hg v a a' ha ha'
        | false =>
          simp [hg] at ha
          have := hfalse fd List.mem_cons_self hg v a' ha'
          rw [ha, this]
      simp at hl hl'; rw [← hl, ← hl', h1, h2]

/-! ### scalar constraints: the printed checks are the constraints -/

theorem satisfies_eq (c : Constraint) (v : GoVal) (r : Int)
    (hb : c.args.head?.bind valQuarters = some r) :
    satisfies c v = (operandQuarters c.op v).bind fun l => cmpOp (goOperator c.op) l r := by
  simp only [satisfies, hb, operandQuarters, goOperator]
  by_cases h1 : c.op = "minLength"
  · cases v <;> simp [h1, cmpOp]
  · by_cases h2 : c.op = "maxLength"
    · cases v <;> simp [h2, cmpOp]
    · cases v <;> simp [h1, h2]

theorem check_eq_violated (v : GoVal) : ∀ cs, checkConstraints v cs = violatedConstraints v cs
  | [] => rfl
  | c :: cs => by
    simp only [checkConstraints, violatedConstraints, check_eq_violated v cs]
    cases hb : c.args.head?.bind valQuarters with
    | none => simp
    | some r =>
      simp only [satisfies_eq c v r hb]
      cases operandQuarters c.op v with
      | none => simp
      | some l =>
        simp only [Option.bind]
        cases cmpOp (goOperator c.op) l r with
        | none => cases violatedConstraints v cs <;> rfl
        | some b => cases b <;> cases violatedConstraints v cs <;> rfl

/-! ### value projections -/

theorem elems_unptr {v : GoVal} {vs} (h : v.elems? = some vs) : v.unptr = none ∧ v.isNil = false := by
  cases v <;> simp_all [GoVal.elems?, GoVal.unptr, GoVal.isNil]
theorem entries_unptr {v : GoVal} {kvs} (h : v.entries? = some kvs) : v.unptr = none ∧ v.isNil = false := by
  cases v <;> simp_all [GoVal.entries?, GoVal.unptr, GoVal.isNil]
theorem fieldVals_unptr {v : GoVal} {fvs} (h : fieldVals v = some fvs) : v.unptr = none ∧ v.isNil = false := by
  cases v <;> simp_all [fieldVals, GoVal.unptr, GoVal.isNil]

/-! ### L0: a plain type has no violations -/

theorem plain_no_violations (ss : Schemas) :
    ∀ (fuel k : Nat) (t : Ty) (v : GoVal) (ls : List Viol),
      plainTy k ss t = true → violations fuel ss t v = .ok ls → ls = []
  | 0, _, _, _, _, _, h => by simp [violations] at h
  | fuel + 1, k, t, v, ls, hp, h => by
    simp only [violations] at h
    split at h
    · simp at h; exact h
    · cases hu : v.unptr with
      | some v' => simp only [hu] at h; exact plain_no_violations ss fuel k t v' ls hp h
      | none =>
        simp only [hu] at h
        cases k with
        | zero => simp [plainTy] at hp
        | succ k =>
          simp only [plainTy] at hp
          cases hr : resolveRefs ss t with
          | none => simp [hr] at h
          | some rt =>
            simp only [hr] at h hp
            cases rt with
            | scalar kd val cs m =>
              simp only [specAt] at h
              simp only [Bool.or_eq_true] at hp
              split at h
              · simp at h; exact h
              · rename_i hk
                have hcs : cs = [] := by
                  cases hp with
                  | inl h1 => exact absurd h1 hk
                  | inr h1 => simpa using h1
                subst hcs
                simp [violatedConstraints] at h
                exact h
            | enum => simp [specAt] at h; exact h
            | array e m =>
              simp only [specAt] at h
              cases he : v.elems? with
              | none => simp [he] at h
              | some vs =>
                simp only [he] at h
                exact loopIdx_nil_of (fun v l hv => plain_no_violations ss fuel k e v l hp hv) vs 0 ls h
            | map i e m =>
              simp only [specAt] at h
              cases he : v.entries? with
              | none => simp [he] at h
              | some kvs =>
                simp only [he] at h
                exact loopKey_nil_of (fun v l hv => plain_no_violations ss fuel k e v l hp hv) kvs ls h
            | _ => simp at hp

/-! ### L1: where `resolvesToConstraints` is false there is nothing to report -/

theorem rtcFields_false_mem (ss : Schemas) :
    ∀ (fs : List Field), rtcFields ss fs = false → ∀ fd, fd ∈ fs → rtc ss fd.ty = false
  | [], _, _, hm => by simp at hm
  | f :: fs, h, fd, hm => by
    simp only [rtcFields, Bool.or_eq_false_iff] at h
    cases hm with
    | head => exact h.1
    | tail _ hm' => exact rtcFields_false_mem ss fs h.2 fd hm'

theorem rtc_false_no_violations (ss : Schemas) (hs : noConstrainedAlias ss = true) :
    ∀ (fuel : Nat) (t : Ty) (v : GoVal) (ls : List Viol),
      rtc ss t = false → violations fuel ss t v = .ok ls → ls = []
  | 0, _, _, _, _, h => by simp [violations] at h
  | fuel + 1, t, v, ls, hr, h => by
    have hall := h
    simp only [violations] at h
    split at h
    · simp at h; exact h
    · rename_i hnil
      cases hu : v.unptr with
      | some v' => simp only [hu] at h; exact rtc_false_no_violations ss hs fuel t v' ls hr h
      | none =>
        simp only [hu] at h
        cases t with
        | scalar kd val cs m =>
          rw [resolveRefs_nonref ss (by simp [Ty.isRef])] at h
          simp only [specAt] at h
          simp only [rtc, Bool.and_eq_false_iff] at hr
          split at h
          · simp at h; exact h
          · rename_i hk
            have hcs : cs = [] := by
              cases hr with
              | inl h1 => simp at h1; simp [h1] at hk
              | inr h1 => simpa using h1
            subst hcs
            simp [violatedConstraints] at h
            exact h
        | ref p n m =>
          cases hl : Schemas.locateObject ss p n with
          | none =>
            rw [resolveRefs_ref_dangling ss m hl] at h
            simp [specAt] at h
          | some o =>
            cases alias_plain hs hl with
            | inl hst =>
              cases hst with
              | inl hst =>
                have : resolveRefs ss (.ref p n m) = some o.ty := by
                  rw [resolveRefs_ref_located ss m hl]; exact resolveToType_struct ss _ hst
                cases hty : o.ty <;> simp_all [rtc, Ty.isStruct]
              | inr hst =>
                simp only [resolvesToStructTy] at hst
                rw [resolveRefs_ref_located ss _ hl, ← resolveRefs_ref_located ss m hl] at hst
                simp only [rtc] at hr
                cases hrr : resolveRefs ss (.ref p n m) with
                | none => simp [hrr] at hst
                | some rt => cases rt <;> simp_all
            | inr hp =>
              have hv : violations (fuel + 1) ss (.ref p n {}) v = .ok ls := by
                simp only [violations, hu]
                rw [resolveRefs_ref_located ss _ hl, ← resolveRefs_ref_located ss m hl]
                simp only [hnil]
                exact h
              exact plain_no_violations ss (fuel + 1) plainFuel _ v ls hp hv
        | array e m =>
          rw [resolveRefs_nonref ss (by simp [Ty.isRef])] at h
          simp only [specAt] at h
          simp only [rtc] at hr
          cases he : v.elems? with
          | none => simp [he] at h
          | some vs =>
            simp only [he] at h
            exact loopIdx_nil_of (fun v l hv => rtc_false_no_violations ss hs fuel e v l hr hv) vs 0 ls h
        | map i e m =>
          rw [resolveRefs_nonref ss (by simp [Ty.isRef])] at h
          simp only [specAt] at h
          simp only [rtc] at hr
          cases he : v.entries? with
          | none => simp [he] at h
          | some kvs =>
            simp only [he] at h
            exact loopKey_nil_of (fun v l hv => rtc_false_no_violations ss hs fuel e v l hr hv) kvs ls h
        | struct fs g gi m =>
          rw [resolveRefs_nonref ss (by simp [Ty.isRef])] at h
          simp only [specAt] at h
          simp only [rtc] at hr
          cases hf : fieldVals v with
          | none => simp [hf] at h
          | some fvs =>
            simp only [hf] at h
            exact specFields_nil_of fs fvs ls
              (fun fd hm v l hv =>
                rtc_false_no_violations ss hs fuel fd.ty v l (rtcFields_false_mem ss fs hr fd hm) hv) h
        | enum vs m =>
          rw [resolveRefs_nonref ss (by simp [Ty.isRef])] at h
          simp [specAt] at h; exact h
        | cref p n val m => rw [resolveRefs_nonref ss (by simp [Ty.isRef])] at h; simp [specAt] at h
        | disj bs i m => rw [resolveRefs_nonref ss (by simp [Ty.isRef])] at h; simp [specAt] at h
        | inter bs m => rw [resolveRefs_nonref ss (by simp [Ty.isRef])] at h; simp [specAt] at h
        | slot vr m => rw [resolveRefs_nonref ss (by simp [Ty.isRef])] at h; simp [specAt] at h
        | bad k m => rw [resolveRefs_nonref ss (by simp [Ty.isRef])] at h; simp [specAt] at h

/-! ### main lemma: on `resolvesToConstraints` types the generated checks compute the specification -/

/-- the `{{ else if .Nullable }}` step, common to every non-collection type -/
theorem nullable_step {fuel : Nat} {ss : Schemas} {t : Ty} {v : GoVal} {lc ls : List Viol}
    {X : DRes (List Viol)}
    (ih : ∀ v' lc ls, tvc fuel ss t false v' = .ok lc → violations fuel ss t v' = .ok ls → lc = ls)
    (hc : (if v.isNil = true then DRes.ok [] else
            match v.unptr with
            | some v' => tvc fuel ss t false v'
            | none => .unsup "ill-typed value (nullable)") = .ok lc)
    (hsp : (if v.isNil = true then DRes.ok [] else
            match v.unptr with
            | some v' => violations fuel ss t v'
            | none => X) = .ok ls) : lc = ls := by
  by_cases hnil : v.isNil = true
  · simp [hnil] at hc hsp; rw [hc, hsp]
  · simp only [hnil] at hc hsp
    cases hu : v.unptr with
    | none => simp [hu] at hc
    | some v' => simp only [hu] at hc hsp; exact ih v' lc ls hc hsp

theorem checkConstraints_nil_ptr {v : GoVal} (h : v.isNil = true ∨ v.unptr.isSome = true) :
    ∀ {c : Constraint} {cs : List Constraint}, checkConstraints v (c :: cs) = none := by
  intro c cs
  have : operandQuarters c.op v = none := by
    cases v <;> simp_all [operandQuarters, GoVal.isNil, GoVal.unptr]
  simp only [checkConstraints, this]
  cases c.args.head?.bind valQuarters <;> simp

theorem tvc_eq_violations (ss : Schemas) (hs : noConstrainedAlias ss = true) :
    ∀ (fuel : Nat) (t : Ty) (nb : Bool) (v : GoVal) (lc ls : List Viol),
      rtc ss t = true → tvc fuel ss t nb v = .ok lc → violations fuel ss t v = .ok ls → lc = ls
  | 0, _, _, _, _, _, _, h, _ => by simp [tvc] at h
  | fuel + 1, t, nb, v, lc, ls, hr, hc, hsp => by
    have ih := tvc_eq_violations ss hs fuel
    simp only [tvc] at hc
    simp only [violations] at hsp
    split at hc
    · cases t <;> simp_all [isAnyTy, rtc]
    · cases t with
      | scalar kd val cs m =>
        rw [resolveRefs_nonref ss (by simp [Ty.isRef])] at hc hsp
        simp only [Ty.isRef] at hc
        cases nb with
        | true => simp only [if_true] at hc; exact nullable_step (fun v' lc ls => ih _ false v' lc ls hr) hc hsp
        | false =>
          simp only [Bool.false_eq_true, if_false] at hc
          have hcs : cs ≠ [] := by
            intro h0; subst h0; simp [rtc] at hr
          obtain ⟨c, cs', rfl⟩ := List.exists_cons_of_ne_nil hcs
          by_cases hnil : v.isNil = true
          · simp [checkConstraints_nil_ptr (Or.inl hnil)] at hc
            split at hc <;> simp at hc
          · simp only [hnil] at hsp
            cases hu : v.unptr with
            | some v' =>
              have hp : v.unptr.isSome = true := by simp [hu]
              simp [checkConstraints_nil_ptr (Or.inr hp)] at hc
              split at hc <;> simp at hc
            | none =>
              simp only [hu, specAt] at hsp
              have hk : (kd == "any") = false := by
                simp only [rtc, Bool.and_eq_true] at hr
                simpa using hr.1
              simp only [hk] at hsp
              split at hc
              · simp at hc
              · rename_i hdt
                simp only [hdt, Bool.false_eq_true, if_false] at hsp
                rw [check_eq_violated] at hc
                cases hvc : violatedConstraints v (c :: cs') with
                | none => simp [hvc] at hc
                | some l =>
                  simp [hvc] at hc hsp
                  rw [← hc, ← hsp]
      | ref p n m =>
        cases hres : resolveRefs ss (.ref p n m) with
        | none => simp [hres] at hc
        | some rt =>
          simp only [hres] at hc hsp
          simp only [rtc, hres] at hr
          cases rt with
          | struct fs g gi sm =>
            simp only [Ty.isRef, if_true] at hc
            cases nb with
            | true =>
              simp only [if_true] at hc
              refine nullable_step (X := specAt (violations fuel ss) (.struct fs g gi sm) v)
                (fun v' lc ls => ih _ false v' lc ls (by simp [rtc, hres])) hc ?_
              exact hsp
            | false =>
              simp only [Bool.false_eq_true, if_false] at hc
              by_cases hrf : rtcFields ss fs = true
              · simp only [hrf, if_true] at hc
                cases hf : fieldVals v with
                | none => simp [hf] at hc
                | some fvs =>
                  obtain ⟨hu, hnil⟩ := fieldVals_unptr hf
                  simp only [hf] at hc
                  simp only [hnil, Bool.false_eq_true, if_false, hu, specAt, hf] at hsp
                  exact loopFields_spec fs fvs lc ls
                    (fun fd _ hg v lc ls h1 h2 => ih fd.ty _ v lc ls hg h1 h2)
                    (fun fd _ hg v ls h2 => rtc_false_no_violations ss hs fuel fd.ty v ls hg h2) hc hsp
              · simp only [hrf] at hc
                simp at hc
                subst hc
                have hrf' : rtcFields ss fs = false := by simpa using hrf
                -- the specification finds nothing either: no field resolves to constraints
                have key : ∀ (k : Nat) (w : GoVal) (l : List Viol),
                    violations k ss (.ref p n m) w = .ok l → l = [] := by
                  intro k
                  induction k with
                  | zero => intro w l h; simp [violations] at h
                  | succ k ihk =>
                    intro w l h
                    simp only [violations] at h
                    split at h
                    · simp at h; exact h
                    · cases hu : w.unptr with
                      | some w' => simp only [hu] at h; exact ihk w' l h
                      | none =>
                        simp only [hu, hres, specAt] at h
                        cases hf : fieldVals w with
                        | none => simp [hf] at h
                        | some fvs =>
                          simp only [hf] at h
                          exact specFields_nil_of fs fvs l
                            (fun fd hm v l hv => rtc_false_no_violations ss hs k fd.ty v l
                              (rtcFields_false_mem ss fs hrf' fd hm) hv) h
                have hv : violations (fuel + 1) ss (.ref p n m) v = .ok ls := by
                  simp only [violations, hres]; exact hsp
                exact (key (fuel + 1) v ls hv).symm
          | _ => simp at hr
      | array e m =>
        rw [resolveRefs_nonref ss (by simp [Ty.isRef])] at hc hsp
        simp only at hc
        simp only [rtc] at hr
        by_cases hnil : v.isNil = true
        · simp [hnil] at hc hsp; rw [hc, hsp]
        · simp only [hnil] at hc hsp
          cases he : v.elems? with
          | none => simp [he] at hc
          | some vs =>
            obtain ⟨hu, _⟩ := elems_unptr he
            simp only [he] at hc
            simp only [hu, specAt, he] at hsp
            exact loopIdx_congr (fun v l l' h1 h2 => ih e _ v l l' hr h1 h2) vs 0 lc ls hc hsp
      | map i e m =>
        rw [resolveRefs_nonref ss (by simp [Ty.isRef])] at hc hsp
        simp only at hc
        simp only [rtc] at hr
        by_cases hnil : v.isNil = true
        · simp [hnil] at hc hsp; rw [hc, hsp]
        · simp only [hnil] at hc hsp
          cases he : v.entries? with
          | none => simp [he] at hc
          | some kvs =>
            obtain ⟨hu, _⟩ := entries_unptr he
            simp only [he] at hc
            simp only [hu, specAt, he] at hsp
            exact loopKey_congr (fun v l l' h1 h2 => ih e _ v l l' hr h1 h2) kvs lc ls hc hsp
      | struct fs g gi m =>
        rw [resolveRefs_nonref ss (by simp [Ty.isRef])] at hc hsp
        simp only [Ty.isRef] at hc
        cases nb with
        | true => simp only [if_true] at hc; exact nullable_step (fun v' lc ls => ih _ false v' lc ls hr) hc hsp
        | false =>
          simp only [Bool.false_eq_true, if_false] at hc
          cases hf : fieldVals v with
          | none => simp [hf] at hc
          | some fvs =>
            obtain ⟨hu, hnil⟩ := fieldVals_unptr hf
            simp only [hf] at hc
            simp only [hnil, Bool.false_eq_true, if_false, hu, specAt, hf] at hsp
            exact loopFields_spec fs fvs lc ls
              (fun fd _ hg v lc ls h1 h2 => ih fd.ty _ v lc ls hg h1 h2)
              (fun fd _ hg v ls h2 => rtc_false_no_violations ss hs fuel fd.ty v ls hg h2) hc hsp
      | cref p n val m =>
        rw [resolveRefs_nonref ss (by simp [Ty.isRef])] at hc hsp
        simp only [Ty.isRef] at hc
        cases nb with
        | true => simp only [if_true] at hc; exact nullable_step (fun v' lc ls => ih _ false v' lc ls hr) hc hsp
        | false => simp at hc
      | disj bs i m =>
        rw [resolveRefs_nonref ss (by simp [Ty.isRef])] at hc hsp
        simp only [Ty.isRef] at hc
        cases nb with
        | true => simp only [if_true] at hc; exact nullable_step (fun v' lc ls => ih _ false v' lc ls hr) hc hsp
        | false => simp at hc
      | inter bs m =>
        rw [resolveRefs_nonref ss (by simp [Ty.isRef])] at hc hsp
        simp only [Ty.isRef] at hc
        cases nb with
        | true => simp only [if_true] at hc; exact nullable_step (fun v' lc ls => ih _ false v' lc ls hr) hc hsp
        | false => simp at hc
      | slot vr m =>
        rw [resolveRefs_nonref ss (by simp [Ty.isRef])] at hc hsp
        simp only [Ty.isRef] at hc
        cases nb with
        | true => simp only [if_true] at hc; exact nullable_step (fun v' lc ls => ih _ false v' lc ls hr) hc hsp
        | false => simp at hc
      | enum vs m => simp [rtc] at hr
      | bad k m => simp [rtc] at hr

end Cog.Sem.C08
