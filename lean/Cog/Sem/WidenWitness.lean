/-
  C01 (c) pass widening — the FULL statement is false on the current tree: AnonymousStructsToNamed
  names the object it creates for an anonymous struct after the path (`<Pkg><Object><Field>`) and
  adds it with `Objects.Set`; when the schema already defines an object of that name, the user's
  definition is OVERWRITTEN.  Documents of the overwritten object are source-valid but no longer
  belong to `den` of the post-chain IR.  Helper lemmas for the witness in Props/C01.lean (the same
  schema is replayed on the real front-end + passes by the `c01-src` stream, row `pinned-collide`).
-/
import Cog.Sem.SrcDen
namespace Cog.Sem.Src
open Cog.IR Cog.Passes

/-- a struct object does not admit an object with an undeclared member, at any fuel -/
theorem den_undeclared_member (S : Schemas) (pkg name : String) (o : Obj) (fields : List Field) (g : List Ty) (sm : Meta)
    (ho : Schemas.locateObject S pkg name = some o) (hty : o.ty = .struct fields g none sm)
    (k : String) (v : Json) (rest : List (String × Json)) (hnot : (fields.map (·.name)).contains k = false) :
    ∀ n, den n S (.ref pkg name {}) (.obj ((k, v) :: rest)) = false := by
  intro n
  cases n with
  | zero => rfl
  | succ n =>
    have hc : ((k, v) :: rest).all (fun kv => (fields.map (·.name)).contains kv.1) = false := by
      simp only [List.all_cons, hnot, Bool.false_and]
    simp only [den, ho, hty, Json.isNull, Bool.and_false, Bool.false_or, hc, Bool.false_and]

/-- the object `pkg.name` is a plain struct without a field `k` -/
def lacksMember (S : Schemas) (pkg name k : String) : Bool :=
  match Schemas.locateObject S pkg name with
  | some o =>
    (match o.ty with
     | .struct fields _ none _ => !(fields.map (·.name)).contains k
     | _ => false)
  | none => false

theorem lacksMember_den (S : Schemas) (pkg name k : String) (h : lacksMember S pkg name k = true)
    (v : Json) (rest : List (String × Json)) (n : Nat) :
    den n S (.ref pkg name {}) (.obj ((k, v) :: rest)) = false := by
  simp only [lacksMember] at h
  cases ho : Schemas.locateObject S pkg name with
  | none => simp [ho] at h
  | some o =>
    simp only [ho] at h
    cases hty : o.ty with
    | struct fields g gi sm =>
      cases gi with
      | none =>
        simp only [hty, Bool.not_eq_true'] at h
        exact den_undeclared_member S pkg name o fields g sm ho hty k v rest h n
      | some x => simp [hty] at h
    | _ => simp [hty] at h

end Cog.Sem.Src
