/-
  C08, helper lemmas for the strict decoder: the interpreter of the generated
  `UnmarshalJSONStrict` (`sd`) fails exactly when the specification (`strictFaults`) finds a
  fault, for documents without `null` at element positions and schemas whose scalar unions have
  leaf alternatives only.
-/
import Cog.Sem.GoStrictSpec
import Cog.Sem.GoValidateLemmas
set_option linter.unusedSimpArgs false
namespace Cog.Sem.C08
open Cog.IR

/-- agreement of a decoder result with a fault list: an error implies a fault; success implies
    that there is no fault, provided the list carries no `nullElem` -/
def Agree {α : Type} (c : DRes α) (fs : List Fault) : Prop :=
  (c = .err → fs ≠ []) ∧ (∀ v, c = .ok v → nullElemFree fs = true → fs = [])

theorem agree_unsup {α} (w : String) (fs : List Fault) : Agree (DRes.unsup w : DRes α) fs :=
  ⟨fun h => by simp at h, fun v h => by simp at h⟩
theorem agree_fuel {α} (fs : List Fault) : Agree (DRes.fuel : DRes α) fs :=
  ⟨fun h => by simp at h, fun v h => by simp at h⟩
theorem agree_err {α} {fs : List Fault} (h : fs ≠ []) : Agree (DRes.err : DRes α) fs :=
  ⟨fun _ => h, fun v h => by simp at h⟩
theorem agree_ok_nil {α} (v : α) : Agree (DRes.ok v) [] :=
  ⟨fun h => by simp at h, fun _ _ _ => rfl⟩

theorem agree_map {α β} {c : DRes α} {fs : List Fault} (f : α → β) (h : Agree c fs) : Agree (c.map f) fs := by
  cases c <;> simp_all [Agree, DRes.map, DRes.bind] <;> exact h

theorem agree_not_err {α} {c : DRes α} (h : c ≠ .err) : Agree c [] :=
  ⟨fun h' => absurd h' h, fun _ _ _ => rfl⟩

/-! ### prefixes keep emptiness and `nullElem`-freeness -/

theorem preFaults_eq_nil {s : Seg} {l : List Fault} : preFaults s l = [] ↔ l = [] := by
  simp [preFaults]

theorem nullElemFree_pre (s : Seg) (l : List Fault) : nullElemFree (preFaults s l) = nullElemFree l := by
  simp [nullElemFree, preFaults, List.all_map, Fault.isNullElem]
  rfl

theorem nullElemFree_append (a b : List Fault) :
    nullElemFree (a ++ b) = (nullElemFree a && nullElemFree b) := by
  simp [nullElemFree, List.all_append]

theorem agree_pre {α} {c : DRes α} {l : List Fault} (s : Seg) (h : Agree c l) : Agree c (preFaults s l) := by
  obtain ⟨h1, h2⟩ := h
  refine ⟨fun he => ?_, fun v hv hn => ?_⟩
  · rw [Ne, preFaults_eq_nil]; exact h1 he
  · rw [nullElemFree_pre] at hn; rw [preFaults_eq_nil]; exact h2 v hv hn

/-- two steps in sequence, faults concatenated -/
theorem agree_bind2 {α β γ} {c1 : DRes α} {c2 : DRes β} {l1 l2 : List Fault} (g : α → β → γ)
    (h1 : Agree c1 l1) (h2 : Agree c2 l2) :
    Agree (c1.bind fun a => c2.bind fun b => .ok (g a b)) (l1 ++ l2) := by
  obtain ⟨a1, b1⟩ := h1
  obtain ⟨a2, b2⟩ := h2
  refine ⟨fun he => ?_, fun v hv hn => ?_⟩
  · cases c1 with
    | err => simp [a1 rfl]
    | ok x =>
      cases c2 with
      | err => simp [a2 rfl]
      | _ => simp [DRes.bind] at he
    | _ => simp [DRes.bind] at he
  · rw [nullElemFree_append, Bool.and_eq_true] at hn
    cases c1 with
    | ok x =>
      cases c2 with
      | ok y => simp [b1 x rfl hn.1, b2 y rfl hn.2]
      | _ => simp [DRes.bind] at hv
    | _ => simp [DRes.bind] at hv

/-! ### list traversals -/

theorem mapRes_idx_agree {β} {f : Json → DRes β} {g : Json → DRes (List Fault)}
    (hfg : ∀ x l, g x = .ok l → Agree (f x) l) :
    ∀ (xs : List Json) (i : Nat) (fs : List Fault),
      faultsIdx g i xs = .ok fs → Agree (mapRes f xs) fs
  | [], _, fs, h => by
    simp [faultsIdx] at h; subst h; exact agree_ok_nil _
  | x :: xs, i, fs, h => by
    simp only [faultsIdx, DRes.bind_eq_ok] at h
    obtain ⟨l, hl, r, hr, hfs⟩ := h
    simp at hfs; subst hfs
    exact agree_bind2 (fun y ys => y :: ys) (agree_pre _ (hfg x l hl)) (mapRes_idx_agree hfg xs (i + 1) r hr)

theorem mapRes_key_agree {β} {f : Json → DRes β} {g : Json → DRes (List Fault)}
    (hfg : ∀ x l, g x = .ok l → Agree (f x) l) :
    ∀ (kvs : List (String × Json)) (fs : List Fault),
      faultsKey g kvs = .ok fs →
      Agree (mapRes (fun (kv : String × Json) => (f kv.2).map fun x => (kv.1, x)) kvs) fs
  | [], fs, h => by
    simp [faultsKey] at h; subst h; exact agree_ok_nil _
  | (k, x) :: kvs, fs, h => by
    simp only [faultsKey, DRes.bind_eq_ok] at h
    obtain ⟨l, hl, r, hr, hfs⟩ := h
    simp at hfs; subst hfs
    exact agree_bind2 (fun y ys => y :: ys) (agree_pre _ (agree_map _ (hfg x l hl)))
      (mapRes_key_agree hfg kvs r hr)

/-- an element position: `null` is either the `nullElem` fault or outside the fragment -/
theorem elem_agree {β} {ss : Schemas} {rec : Ty → Json → DRes (List Fault)} {e : Ty} {f : Json → DRes β}
    (h : ∀ x l, x.isNull = false → rec e x = .ok l → Agree (f x) l) :
    ∀ x l, elemFaults ss rec e x = .ok l → Agree (f x) l := by
  intro x l hl
  simp only [elemFaults] at hl
  by_cases hn : x.isNull = true
  · simp only [hn, if_true] at hl
    split at hl
    · simp at hl
    · simp at hl; subst hl
      exact ⟨fun _ => by simp, fun v _ hf => by simp [nullElemFree, Fault.isNullElem] at hf⟩
  · simp only [hn] at hl
    exact h x l (by simpa using hn) hl

/-! ### scalars -/

theorem decodeScalar_agree {kind : String} {dt : Bool} {j : Json} {fs : List Fault}
    (hj : j.isNull = false) (h : scalarFaults kind j = .ok fs) : Agree (decodeScalar kind dt j) fs := by
  simp only [scalarFaults] at h
  split at h
  · simp at h
  · rename_i hb
    simp only [jsonTypeOK] at h
    unfold decodeScalar
    by_cases h1 : kind = "string"
    · simp only [h1, if_true] at h ⊢
      cases j <;> cases dt <;> simp_all [Agree, nullElemFree, Fault.isNullElem, Json.isNull] <;> (try (subst h; simp))
    · simp only [h1, if_false] at h ⊢
      by_cases h2 : kind = "bool"
      · simp only [h2, if_true] at h ⊢
        cases j <;> simp_all [Agree, nullElemFree, Fault.isNullElem, Json.isNull] <;> (try (subst h; simp))
      · simp only [h2, if_false] at h ⊢
        by_cases h3 : kind = "any"
        · simp only [h3, if_true] at h ⊢
          cases j <;> simp_all [Agree, nullElemFree, Fault.isNullElem, Json.isNull] <;>
            (split at h <;> simp_all) <;> (try (subst h; simp))
        · simp only [h3, if_false] at h ⊢
          by_cases h4 : kind = "float32" ∨ kind = "float64"
          · simp only [h4, if_true] at h ⊢
            cases j <;> simp_all [Agree, nullElemFree, Fault.isNullElem, Json.isNull] <;> (try (subst h; simp))
          · simp only [h4, if_false] at h ⊢
            cases hr : intRange kind with
            | none => simp [hr] at h
            | some r =>
              obtain ⟨lo, hi⟩ := r
              simp only [hr] at h ⊢
              cases j with
              | num q =>
                by_cases hq : q % 4 = 0 ∧ lo ≤ q / 4 ∧ q / 4 ≤ hi
                · simp only [hq, and_self, decide_true, if_true] at h ⊢
                  simp at h; subst h; exact agree_ok_nil _
                · simp only [hq, decide_false, if_false] at h ⊢
                  simp at h; subst h; exact agree_err (by simp)
              | _ => simp_all [Agree, nullElemFree, Fault.isNullElem, Json.isNull] <;> (try (subst h; simp))

theorem wrapPtr_agree {nb : Bool} {j : Json} {r : DRes GoVal} {fs : List Fault}
    (hj : j.isNull = false) (h : Agree r fs) : Agree (wrapPtr nb j r) fs := by
  simp only [wrapPtr, hj]
  cases nb
  · simpa using h
  · simpa using agree_map _ h

/-! ### more on resolution -/

theorem resolveToType_nonref (ss : Schemas) (k : Nat) {t : Ty} (h : t.isRef = false) :
    Schemas.resolveToType ss (k + 1) t = some t := by
  cases t <;> simp_all [Schemas.resolveToType, Ty.isRef]

theorem resolveToType_mono (ss : Schemas) : ∀ (k : Nat) (t r : Ty),
    Schemas.resolveToType ss k t = some r → Schemas.resolveToType ss (k + 1) t = some r
  | 0, _, _, h => by simp [Schemas.resolveToType] at h
  | k + 1, t, r, h => by
    cases t with
    | ref p n m =>
      simp only [Schemas.resolveToType] at h ⊢
      cases hl : Schemas.locateObject ss p n with
      | none => simpa [hl] using h
      | some o =>
        simp only [hl] at h ⊢
        exact resolveToType_mono ss k o.ty r h
    | _ => simpa [Schemas.resolveToType] using h

/-- a reference that resolves to a non-reference resolves to the type of some object -/
theorem resolveToType_obj (ss : Schemas) : ∀ (k : Nat) (p n : String) (m : Meta) (rt : Ty),
    Schemas.resolveToType ss k (.ref p n m) = some rt → rt.isRef = false →
    ∃ p' n' o, Schemas.locateObject ss p' n' = some o ∧ o.ty = rt
  | 0, _, _, _, _, h, _ => by simp [Schemas.resolveToType] at h
  | k + 1, p, n, m, rt, h, hr => by
    simp only [Schemas.resolveToType] at h
    cases hl : Schemas.locateObject ss p n with
    | none => simp [hl] at h; subst h; simp [Ty.isRef] at hr
    | some o =>
      simp only [hl] at h
      cases hty : o.ty with
      | ref p2 n2 m2 =>
        rw [hty] at h
        exact resolveToType_obj ss k p2 n2 m2 rt h hr
      | _ =>
        rw [hty] at h
        cases k with
        | zero => simp [Schemas.resolveToType] at h
        | succ k =>
          rw [resolveToType_nonref ss k (by simp [Ty.isRef])] at h
          exact ⟨p, n, o, hl, by rw [hty]; exact Option.some.inj h⟩

/-- the resolution of a located reference, seen from the referred object's type -/
theorem resolveRefs_of_located (ss : Schemas) {p n : String} (m : Meta) {o : Obj} {rt : Ty}
    (hl : Schemas.locateObject ss p n = some o) (h : resolveRefs ss (.ref p n m) = some rt) :
    resolveRefs ss o.ty = some rt := by
  rw [resolveRefs_ref_located ss m hl] at h
  exact resolveToType_mono ss _ _ _ h

theorem leafTy_congr (ss : Schemas) {t t' : Ty} (h : resolveRefs ss t = resolveRefs ss t') (k : Nat) :
    leafTy k ss t = leafTy k ss t' := by
  cases k <;> simp [leafTy, h]

theorem leafTy_resolves {ss : Schemas} {k : Nat} {t : Ty} (h : leafTy k ss t = true) :
    ∃ rt, resolveRefs ss t = some rt := by
  cases k with
  | zero => simp [leafTy] at h
  | succ k =>
    simp only [leafTy] at h
    cases hr : resolveRefs ss t with
    | none => simp [hr] at h
    | some rt => exact ⟨rt, rfl⟩

theorem strictFaults_ok_inv {fuel : Nat} {ss : Schemas} {t : Ty} {j : Json} {fs : List Fault}
    (h : strictFaults fuel ss t j = .ok fs) :
    ∃ fuel' rt, fuel = fuel' + 1 ∧ resolveRefs ss t = some rt ∧
      faultsAt (strictFaults fuel' ss) ss (refPkg t) rt j = .ok fs := by
  cases fuel with
  | zero => simp [strictFaults] at h
  | succ fuel' =>
    simp only [strictFaults] at h
    cases hr : resolveRefs ss t with
    | none => simp [hr] at h
    | some rt => simp only [hr] at h; exact ⟨fuel', rt, rfl, rfl, h⟩

/-! ### LL: on leaf types plain `json.Unmarshal` agrees with the specification -/

theorem wrongType_agree_err {α} : Agree (DRes.err : DRes α) [{ path := [], kind := FaultKind.wrongType }] :=
  agree_err (by simp)

theorem leaf_agree (ss : Schemas) :
    ∀ (n : Nat) (t rt : Ty) (k fuel : Nat) (pkg : String) (j : Json) (fs : List Fault),
      leafTy k ss t = true → resolveRefs ss t = some rt → j.isNull = false →
      faultsAt (strictFaults fuel ss) ss pkg rt j = .ok fs → Agree (goDecode n ss t j) fs
  | 0, _, _, _, _, _, _, _, _, _, _, _ => by simp only [goDecode]; exact agree_fuel _
  | n + 1, t, rt, k, fuel, pkg, j, fs, hleaf, hres, hj, hf => by
    have ih := leaf_agree ss n
    cases k with
    | zero => simp [leafTy] at hleaf
    | succ k =>
    cases t with
    | scalar kind val cs m =>
      rw [resolveRefs_nonref ss (by simp [Ty.isRef])] at hres
      cases hres
      simp only [faultsAt] at hf
      simp only [goDecode]
      split
      · exact agree_unsup _ _
      · split
        · exact decodeScalar_agree hj hf
        · exact wrapPtr_agree hj (decodeScalar_agree hj hf)
    | array e m =>
      rw [resolveRefs_nonref ss (by simp [Ty.isRef])] at hres
      cases hres
      simp only [leafTy, resolveRefs_nonref ss (t := Ty.array e m) (by simp [Ty.isRef])] at hleaf
      simp only [faultsAt] at hf
      simp only [goDecode]
      split
      · exact agree_unsup _ _
      · cases j with
        | null => simp [Json.isNull] at hj
        | arr xs =>
          simp only at hf ⊢
          refine agree_map _ (mapRes_idx_agree (elem_agree ?_) xs 0 fs hf)
          intro x l hx hl
          obtain ⟨fuel', rt', _, hr', hf'⟩ := strictFaults_ok_inv hl
          exact ih e rt' k fuel' _ x l hleaf hr' hx hf'
        | _ => simp at hf; subst hf; exact wrongType_agree_err
    | map idx e m =>
      rw [resolveRefs_nonref ss (by simp [Ty.isRef])] at hres
      cases hres
      simp only [leafTy, resolveRefs_nonref ss (t := Ty.map idx e m) (by simp [Ty.isRef])] at hleaf
      simp only [goDecode]
      split
      · rename_i kd v0 c0 m0
        simp only [faultsAt] at hf
        cases j with
        | null => simp [Json.isNull] at hj
        | obj kvs =>
          simp only at hf ⊢
          refine agree_map _ (mapRes_key_agree (elem_agree ?_) kvs fs hf)
          intro x l hx hl
          obtain ⟨fuel', rt', _, hr', hf'⟩ := strictFaults_ok_inv hl
          exact ih e rt' k fuel' _ x l hleaf hr' hx hf'
        | _ => simp at hf; subst hf; exact wrongType_agree_err
      · exact agree_unsup _ _
    | ref p nm m =>
      simp only [goDecode]
      cases hl : Schemas.locateObject ss p nm with
      | none => exact agree_unsup _ _
      | some o =>
        simp only []
        have hres' := resolveRefs_of_located ss m hl hres
        have hleaf' : leafTy (k + 1) ss o.ty = true := by
          rw [leafTy_congr ss (hres'.trans hres.symm)]; exact hleaf
        cases hty : o.ty with
        | struct fields g gi sm =>
          rw [hty, resolveRefs_nonref ss (by simp [Ty.isRef])] at hres'
          cases hres'
          simp [leafTy, hres] at hleaf
        | enum vs em =>
          rw [hty, resolveRefs_nonref ss (by simp [Ty.isRef])] at hres'
          cases hres'
          cases vs with
          | nil => simp only []; exact agree_unsup _ _
          | cons v0 rest =>
            simp only [faultsAt] at hf
            simp only []
            exact wrapPtr_agree hj (decodeScalar_agree hj hf)
        | scalar kind val cs om =>
          rw [hty, resolveRefs_nonref ss (by simp [Ty.isRef])] at hres'
          cases hres'
          simp only [faultsAt] at hf
          simp only []
          split
          · exact agree_unsup _ _
          · exact wrapPtr_agree hj (decodeScalar_agree hj hf)
        | array e am =>
          simp only []
          rw [← hty]
          exact ih o.ty rt (k + 1) fuel pkg j fs hleaf' hres' hj hf
        | map idx e mm =>
          simp only []
          rw [← hty]
          exact ih o.ty rt (k + 1) fuel pkg j fs hleaf' hres' hj hf
        | ref p2 n2 om =>
          simp only []
          have hr2 : resolveRefs ss (.ref p2 n2 { om with nullable := m.nullable }) = some rt := by
            rw [hty] at hres'
            cases hl2 : Schemas.locateObject ss p2 n2 with
            | none =>
              rw [resolveRefs_ref_dangling ss _ hl2] at hres'
              cases hres'
              simp [leafTy, hres] at hleaf
            | some o2 =>
              rw [resolveRefs_ref_located ss _ hl2] at hres' ⊢
              exact hres'
          refine ih _ rt (k + 1) fuel pkg j fs ?_ hr2 hj hf
          rw [leafTy_congr ss (hr2.trans hres.symm)]; exact hleaf
        | _ => simp only []; exact agree_unsup _ _
    | cref p nm val m =>
      rw [resolveRefs_nonref ss (by simp [Ty.isRef])] at hres
      cases hres
      simp [leafTy, resolveRefs_nonref ss (t := Ty.cref p nm val m) (by simp [Ty.isRef])] at hleaf
    | struct fs' g gi m =>
      simp [leafTy, resolveRefs_nonref ss (t := Ty.struct fs' g gi m) (by simp [Ty.isRef])] at hleaf
    | enum vs m => simp only [goDecode]; exact agree_unsup _ _
    | disj bs i m => simp only [goDecode]; exact agree_unsup _ _
    | inter bs m => simp only [goDecode]; exact agree_unsup _ _
    | slot vr m => simp only [goDecode]; exact agree_unsup _ _
    | bad kd m => simp only [goDecode]; exact agree_unsup _ _

/-! ### `IsArrayOfKinds` / `IsMapOfKinds` types are leaf types -/

theorem isScalarOrEnum_leaf {ss : Schemas} {t rt : Ty} (hr : resolveRefs ss t = some rt)
    (h : isScalarOrEnum rt = true) (k : Nat) : leafTy (k + 1) ss t = true := by
  cases rt <;> simp_all [leafTy, isScalarOrEnum]

theorem arrayOfKinds_leaf (ss : Schemas) : ∀ (n : Nat) (t : Ty),
    isArrayOfKinds n ss t = true → leafTy (n + 1) ss t = true
  | 0, _, h => by simp [isArrayOfKinds] at h
  | n + 1, t, h => by
    simp only [isArrayOfKinds] at h
    cases hr : resolveRefs ss t with
    | none => simp [hr] at h
    | some rt =>
      cases rt with
      | array e m =>
        simp only [hr] at h
        simp only [leafTy, hr]
        cases hre : resolveRefs ss e with
        | none => simp [hre] at h
        | some re =>
          simp only [hre] at h
          cases re with
          | array e' m' =>
            simp only at h
            have := arrayOfKinds_leaf ss n (.array e' m') h
            cases n with
            | zero => simp [isArrayOfKinds] at h
            | succ n =>
              simp only [leafTy, resolveRefs_nonref ss (t := Ty.array e' m') (by simp [Ty.isRef])] at this
              simp only [leafTy, hre]
              exact this
          | scalar kd v c m2 => cases n <;> simp [leafTy, hre]
          | enum vs m2 => cases n <;> simp [leafTy, hre]
          | _ => simp [isScalarOrEnum] at h
      | _ => simp [hr] at h

theorem mapOfKinds_leaf (ss : Schemas) : ∀ (n : Nat) (t : Ty),
    isMapOfKinds n ss t = true → leafTy (n + 1) ss t = true
  | 0, _, h => by simp [isMapOfKinds] at h
  | n + 1, t, h => by
    simp only [isMapOfKinds] at h
    cases hr : resolveRefs ss t with
    | none => simp [hr] at h
    | some rt =>
      cases rt with
      | map i e m =>
        simp only [hr] at h
        simp only [leafTy, hr]
        cases hre : resolveRefs ss e with
        | none => simp [hre] at h
        | some re =>
          simp only [hre] at h
          cases re with
          | map i' e' m' =>
            simp only at h
            have := mapOfKinds_leaf ss n (.map i' e' m') h
            cases n with
            | zero => simp [isMapOfKinds] at h
            | succ n =>
              simp only [leafTy, resolveRefs_nonref ss (t := Ty.map i' e' m') (by simp [Ty.isRef])] at this
              simp only [leafTy, hre]
              exact this
          | scalar kd v c m2 => cases n <;> simp [leafTy, hre]
          | enum vs m2 => cases n <;> simp [leafTy, hre]
          | _ => simp [isScalarOrEnum] at h
      | _ => simp [hr] at h

/-! ### zero values never fail -/

theorem decodeScalar_null_ne_err (kind : String) (dt : Bool) : decodeScalar kind dt .null ≠ .err := by
  unfold decodeScalar
  split
  · split <;> simp
  · split
    · simp
    · split
      · simp
      · split
        · simp
        · split <;> simp

theorem mapRes_ne_err {α β} {f : α → DRes β} (h : ∀ x, f x ≠ .err) : ∀ xs : List α, mapRes f xs ≠ .err
  | [] => by simp [mapRes]
  | x :: xs => by
    simp only [mapRes]
    have h1 := h x
    have h2 := mapRes_ne_err h xs
    cases hx : f x with
    | err => exact absurd hx h1
    | ok y =>
      cases hm : mapRes f xs with
      | err => exact absurd hm h2
      | _ => simp [DRes.bind]
    | _ => simp [DRes.bind]

theorem map_ne_err {α β} {c : DRes α} (f : α → β) (h : c ≠ .err) : c.map f ≠ .err := by
  cases c <;> simp_all [DRes.map, DRes.bind]

theorem strictZero_ne_err (ss : Schemas) : ∀ (n : Nat) (t : Ty), strictZero n ss t ≠ .err
  | 0, _ => by simp [strictZero]
  | n + 1, t => by
    have ih := strictZero_ne_err ss n
    cases t with
    | scalar kind v cs m =>
      simp only [strictZero]
      split
      · simp
      · split
        · simp
        · exact decodeScalar_null_ne_err _ _
    | ref p nm m =>
      simp only [strictZero]
      cases Schemas.locateObject ss p nm with
      | none => simp
      | some o =>
        simp only []
        cases o.ty with
        | struct fields g gi sm =>
          cases gi with
          | none =>
            simp only []
            split
            · simp
            · exact map_ne_err _ (mapRes_ne_err (fun f => map_ne_err _ (ih f.ty)) fields)
          | some hi => simp only []; split <;> simp
        | enum vs em =>
          cases vs with
          | nil => simp
          | cons v0 rest =>
            simp only []
            split
            · simp
            · exact decodeScalar_null_ne_err _ _
        | scalar kind v cs om =>
          simp only []
          split
          · simp
          · split
            · simp
            · exact decodeScalar_null_ne_err _ _
        | ref p2 n2 om => simp only []; exact ih _
        | array e am => simp
        | map i e mm => simp
        | _ => simp
    | cref p nm v m => simp only [strictZero]; exact ih _
    | array e m => simp [strictZero]
    | map i e m => simp [strictZero]
    | _ => simp [strictZero]

/-! ### the struct template -/

theorem fields_agree {sdf : Ty → Json → DRes GoVal} {zero : Ty → DRes GoVal}
    {rec : Ty → Json → DRes (List Fault)} {ms : List (String × Json)}
    (hz : ∀ t, zero t ≠ .err) :
    ∀ (fields : List Field) (fs : List Fault),
      (∀ f, f ∈ fields → ∀ mv l, mv.isNull = false → rec f.ty mv = .ok l → Agree (sdf f.ty mv) l) →
      fieldFaults rec ms fields = .ok fs → Agree (strictFieldsWith sdf zero ms fields) fs
  | [], fs, _, h => by
    simp [fieldFaults] at h; subst h; exact agree_ok_nil _
  | f :: rest, fs, hsd, h => by
    simp only [fieldFaults, DRes.bind_eq_ok] at h
    obtain ⟨a, ha, b, hb, hfs⟩ := h
    simp at hfs; subst hfs
    simp only [strictFieldsWith]
    refine agree_bind2 (fun v r => (f.name, !f.required, v) :: r) ?_
      (fields_agree hz rest b (fun f' hm => hsd f' (List.mem_cons_of_mem _ hm)) hb)
    cases hlk : lookupLast f.name ms with
    | none =>
      simp only [hlk] at ha ⊢
      split
      · rename_i hc; simp [hc] at ha; subst ha; exact agree_err (by simp)
      · rename_i hc; simp [hc] at ha; subst ha; exact agree_not_err (hz _)
    | some mv =>
      simp only [hlk] at ha ⊢
      by_cases hn : mv.isNull = true
      · simp only [hn, if_true] at ha ⊢
        split
        · rename_i hc; simp [hc] at ha; subst ha; exact agree_err (by simp)
        · rename_i hc; simp [hc] at ha; subst ha; exact agree_not_err (hz _)
      · have hn' : mv.isNull = false := by simpa using hn
        simp only [hn', Bool.false_eq_true, if_false] at ha ⊢
        simp only [DRes.map, DRes.bind_eq_ok] at ha
        obtain ⟨l, hl, ha⟩ := ha
        simp at ha; subst ha
        exact agree_pre _ (hsd f List.mem_cons_self mv l hn' hl)

theorem undeclared_iff (fields : List Field) (ms : List (String × Json)) :
    hasUndeclared fields ms = true ↔ undeclaredFaults fields ms ≠ [] := by
  simp only [hasUndeclared, undeclaredFaults, ne_eq, List.map_eq_nil_iff, List.filter_eq_nil_iff,
    List.any_eq_true]
  constructor
  · rintro ⟨x, hx, h⟩ hall; exact absurd h (by simpa using hall x hx)
  · intro h
    by_cases hex : ∃ x, x ∈ ms ∧ (!(fields.map (·.name)).contains x.1) = true
    · exact hex
    · exact absurd (fun x hx hc => hex ⟨x, hx, hc⟩) h

theorem undeclared_nullElemFree (fields : List Field) (ms : List (String × Json)) :
    nullElemFree (undeclaredFaults fields ms) = true := by
  simp [nullElemFree, undeclaredFaults, Fault.isNullElem]

theorem struct_agree {sdf : Ty → Json → DRes GoVal} {zero : Ty → DRes GoVal}
    {rec : Ty → Json → DRes (List Fault)} (hz : ∀ t, zero t ≠ .err)
    (fields : List Field) (j : Json) (fs : List Fault) (hj : j.isNull = false)
    (hsd : ∀ f, f ∈ fields → ∀ mv l, mv.isNull = false → rec f.ty mv = .ok l → Agree (sdf f.ty mv) l)
    (h : (match j with
          | .obj ms => (fieldFaults rec ms fields).bind fun l => .ok (l ++ undeclaredFaults fields ms)
          | _ => DRes.ok [{ path := [], kind := FaultKind.wrongType }]) = .ok fs) :
    Agree (strictStruct sdf zero fields j) fs := by
  cases j with
  | null => simp [Json.isNull] at hj
  | obj ms =>
    simp only [DRes.bind_eq_ok] at h
    obtain ⟨l, hl, hfs⟩ := h
    simp at hfs; subst hfs
    have hfa := fields_agree (ms := ms) hz fields l hsd hl
    simp only [strictStruct]
    refine ⟨fun he => ?_, fun v hv hn => ?_⟩
    · cases hc : strictFieldsWith sdf zero ms fields with
      | err => simp [hfa.1 hc]
      | ok fvs =>
        simp only [hc, DRes.bind] at he
        split at he
        · rename_i hu
          have := (undeclared_iff fields ms).1 hu
          simp [this]
        · simp at he
      | unsup w => simp [hc, DRes.bind] at he
      | fuel => simp [hc, DRes.bind] at he
    · rw [nullElemFree_append, Bool.and_eq_true] at hn
      cases hc : strictFieldsWith sdf zero ms fields with
      | ok fvs =>
        simp only [hc, DRes.bind] at hv
        split at hv
        · simp at hv
        · rename_i hu
          have hl0 := hfa.2 fvs hc hn.1
          have hu0 : undeclaredFaults fields ms = [] := by
            by_cases hne : undeclaredFaults fields ms = []
            · exact hne
            · exact absurd ((undeclared_iff fields ms).2 hne) hu
          simp [hl0, hu0]
      | err => simp [hc, DRes.bind] at hv
      | unsup w => simp [hc, DRes.bind] at hv
      | fuel => simp [hc, DRes.bind] at hv
  | bool b => simp at h; subst h; simp only [strictStruct]; exact wrongType_agree_err
  | num q => simp at h; subst h; simp only [strictStruct]; exact wrongType_agree_err
  | str s0 => simp at h; subst h; simp only [strictStruct]; exact wrongType_agree_err
  | arr xs => simp at h; subst h; simp only [strictStruct]; exact wrongType_agree_err

/-! ### union of scalars -/

def unionFinal : Option (List Fault) → List Fault
  | none => []
  | some ls => { path := [], kind := FaultKind.wrongType } :: ls

theorem union_agree (ss : Schemas) (fuel n : Nat) (j : Json) (hj : j.isNull = false) :
    ∀ (fields : List Field) (before : List (String × GoVal)) (r : Option (List Fault)),
      allBranchesLeaf ss fields = true →
      altFaults (fun b => strictFaults fuel ss b j) fields = .ok r →
      Agree (decodeScalarUnionWith (goDecode n ss) j fields before) (unionFinal r)
  | [], before, r, _, h => by
    simp [altFaults] at h; subst h
    simp only [decodeScalarUnionWith, unionFinal]
    exact agree_err (by simp)
  | f :: rest, before, r, hleaf, h => by
    simp only [allBranchesLeaf, Bool.and_eq_true] at hleaf
    simp only [altFaults, DRes.bind_eq_ok] at h
    obtain ⟨l, hl, h⟩ := h
    obtain ⟨fuel', rt', _, hr', hf'⟩ := strictFaults_ok_inv hl
    have hb := leaf_agree ss n _ rt' _ fuel' _ j l hleaf.1 hr' hj hf'
    simp only [decodeScalarUnionWith]
    cases hd : goDecode n ss (f.ty.setMeta { f.ty.getMeta with nullable := false }) j with
    | ok v =>
      simp only []
      refine ⟨fun he => by simp at he, fun w _ hn => ?_⟩
      by_cases hle : l.isEmpty = true
      · simp [hle] at h; subst h; rfl
      · simp only [hle] at h
        simp only [Bool.false_eq_true, if_false, DRes.bind_eq_ok] at h
        obtain ⟨r', _, h⟩ := h
        simp at h; subst h
        cases r' with
        | none => rfl
        | some ls' =>
          simp only [Option.map, unionFinal] at hn ⊢
          have hnl : nullElemFree l = true := by
            have : nullElemFree ({ path := [], kind := FaultKind.wrongType } :: (l ++ ls')) = true := hn
            simp only [nullElemFree, List.all_cons, List.all_append, Bool.and_eq_true] at this ⊢
            exact this.2.1
          have := hb.2 v hd hnl
          simp [this] at hle
    | err =>
      simp only []
      have hl0 : l ≠ [] := hb.1 hd
      have hle : l.isEmpty = false := by cases l <;> simp_all
      simp only [hle, Bool.false_eq_true, if_false, DRes.bind_eq_ok] at h
      obtain ⟨r', hr', h⟩ := h
      simp at h; subst h
      have ihr := union_agree ss fuel n j hj rest (before ++ [(f.name, .nil)]) r' hleaf.2 hr'
      refine ⟨fun he => ?_, fun w hw hn => ?_⟩
      · cases r' with
        | none => exact absurd rfl (ihr.1 he)
        | some ls' => simp [unionFinal, Option.map]
      · cases r' with
        | none => rfl
        | some ls' =>
          simp only [Option.map, unionFinal] at hn ⊢
          have hn' : nullElemFree (unionFinal (some ls')) = true := by
            simp only [unionFinal, nullElemFree, List.all_cons, List.all_append, Bool.and_eq_true] at hn ⊢
            exact ⟨hn.1, hn.2.2⟩
          have := ihr.2 w hw hn'
          simp [unionFinal] at this
    | unsup w => simp only []; exact agree_unsup _ _
    | fuel => simp only []; exact agree_fuel _

/-! ### main lemma -/

theorem unions_leaf {ss : Schemas} (hU : scalarUnionsAreLeaf ss = true) {p n : String} {o : Obj}
    (hl : Schemas.locateObject ss p n = some o) {fields : List Field} {g : List Ty} {info : DisjInfo} {m : Meta}
    (hty : o.ty = .struct fields g (some ("disjunction_of_scalars", info)) m) :
    allBranchesLeaf ss fields = true := by
  obtain ⟨s, h1, _, h3⟩ := locateObject_mem hl
  simp only [scalarUnionsAreLeaf, List.all_eq_true] at hU
  have := hU s h1 (n, o) h3
  simp only [hty] at this
  simpa using this

theorem sd_agree (ss : Schemas) (hU : scalarUnionsAreLeaf ss = true) :
    ∀ (fuel : Nat) (t : Ty) (j : Json) (fs : List Fault),
      j.isNull = false → strictFaults fuel ss t j = .ok fs → Agree (sd fuel ss t j) fs
  | 0, _, _, _, _, h => by simp [strictFaults] at h
  | fuel + 1, t, j, fs, hj, h => by
    have ih := sd_agree ss hU fuel
    simp only [strictFaults] at h
    simp only [sd]
    cases hres : resolveRefs ss t with
    | none => simp [hres] at h
    | some rt =>
      simp only [hres] at h ⊢
      by_cases hse : (isScalarOrEnum rt || isCrefTy t) = true
      · simp only [hse, if_true]
        rw [Bool.or_eq_true] at hse
        cases hse with
        | inl h1 => exact leaf_agree ss _ t rt 1 fuel _ j fs (isScalarOrEnum_leaf hres h1 0) hres hj h
        | inr h2 =>
          cases t <;> simp [isCrefTy] at h2
          rw [resolveRefs_nonref ss (by simp [Ty.isRef])] at hres
          cases hres
          simp [faultsAt] at h
      · simp only [hse, Bool.false_eq_true, if_false]
        have hse' : isScalarOrEnum rt = false := by
          cases hx : isScalarOrEnum rt <;> simp_all
        cases rt with
        | scalar kd v cs m => simp [isScalarOrEnum] at hse'
        | enum vs m => simp [isScalarOrEnum] at hse'
        | array e m =>
          simp only []
          split
          · rename_i hk
            exact leaf_agree ss _ t _ _ fuel _ j fs (arrayOfKinds_leaf ss _ t hk) hres hj h
          · simp only [faultsAt] at h
            cases j with
            | null => simp [Json.isNull] at hj
            | arr xs =>
              simp only at h ⊢
              split
              · exact agree_unsup _ _
              · refine agree_map _ (mapRes_idx_agree (elem_agree ?_) xs 0 fs h)
                intro x l hx hl
                exact ih e x l hx hl
            | _ => simp at h; subst h; exact wrongType_agree_err
        | map idx e m =>
          simp only []
          split
          · rename_i hk
            exact leaf_agree ss _ t _ _ fuel _ j fs (mapOfKinds_leaf ss _ t hk) hres hj h
          · split
            · simp only [faultsAt] at h
              cases j with
              | null => simp [Json.isNull] at hj
              | obj kvs =>
                simp only at h ⊢
                refine agree_map _ (mapRes_key_agree (elem_agree ?_) kvs fs h)
                intro x l hx hl
                exact ih e x l hx hl
              | _ => simp at h; subst h; exact wrongType_agree_err
            · exact agree_unsup _ _
        | struct fields g gi sm =>
          simp only []
          split
          · exact agree_unsup _ _
          · rename_i hisref
            refine agree_map _ ?_
            cases gi with
            | none =>
              simp only [faultsAt] at h ⊢
              exact struct_agree (strictZero_ne_err ss _) fields j fs hj
                (fun f _ mv l hmv hl => ih f.ty mv l hmv hl) h
            | some hi =>
              obtain ⟨hint, info⟩ := hi
              simp only [faultsAt] at h ⊢
              by_cases hh : hint = "disjunction_of_scalars"
              · simp only [hh, if_true, DRes.bind_eq_ok] at h ⊢
                obtain ⟨r, hr, hfs⟩ := h
                have hfs' : fs = unionFinal r := by
                  cases r <;> simp at hfs <;> simp [unionFinal, hfs]
                subst hfs'
                refine agree_map _ ?_
                -- the struct is the type of some object, whose alternatives are leaf types
                cases t with
                | ref p n m =>
                  have hrt : Schemas.resolveToType ss (resolveFuel ss) (.ref p n m)
                      = some (.struct fields g (some (hint, info)) sm) := hres
                  obtain ⟨p', n', o, hl, hty⟩ := resolveToType_obj ss _ p n m _ hrt (by simp [Ty.isRef])
                  subst hh
                  exact union_agree ss fuel fuel j hj fields [] r (unions_leaf hU hl hty) hr
                | _ => simp [Ty.isRef] at hisref
              · simp only [hh, if_false] at h ⊢
                cases j with
                | null => simp [Json.isNull] at hj
                | obj ms =>
                  simp only at h ⊢
                  cases hd : lookupLast info.discriminator ms with
                  | none => simp [hd] at h; subst h; exact agree_err (by simp)
                  | some d =>
                    simp only [hd] at h ⊢
                    cases hu : unionTarget info d with
                    | none => simp [hu] at h; subst h; exact agree_err (by simp)
                    | some tn =>
                      simp only [hu] at h ⊢
                      cases hfb : fieldByRefName fields tn with
                      | none => exact agree_unsup _ _
                      | some bf =>
                        simp only [hfb] at h ⊢
                        exact agree_map _ (ih _ _ fs hj h)
                | _ => simp at h; subst h; exact wrongType_agree_err
        | _ => simp only []; exact agree_unsup _ _

end Cog.Sem.C08
