/-
  C02 — where cog's placeholders come from, stated on the IR (core Lean only), and the proof that the
  emitted declarations contain a placeholder exactly for these shapes.

    `unhandled type def kind: K`   an OBJECT whose kind is constant_ref, disjunction, composable_slot or a
                                   kind name the printer does not know                         (`objUnhandled`)
    `unknown`                      a TYPE POSITION printed by doFormatType holding an enum, a disjunction or an
                                   unknown kind: array element, map index / value, struct field, non-reference
                                   branch of an intersection (`tyUnknown`); also as the type hint of the
                                   pointer helper and of empty slice / map literals in a constructor
    `unsupported default value case`  a field that needs an explicit default, has no override from an enclosing
                                   struct default, and is an inline struct / enum / disjunction / intersection /
                                   slot, or a reference that resolves to none of scalar, map, array, struct, enum
                                   (or to scalar / map / array without carrying a default)      (`ownLitPh`)
-/
import Cog.Sem.GoDeclCheck
namespace Cog.Sem.GoDecl
open Cog.IR
open Cog.Passes (ucc cleanupNames)

mutual
/-- doFormatType prints `unknown` somewhere below this type -/
def tyUnknown : Ty → Bool
  | .enum .. => true
  | .disj .. => true
  | .bad k _ => !derefKinds.contains k
  | .array e _ => tyUnknown e
  | .map i v _ => tyUnknown i || tyUnknown v
  | .struct fs _ _ _ => fieldsUnknown fs
  | .inter bs _ => interUnknown bs
  | _ => false
def fieldsUnknown : List Field → Bool
  | [] => false
  | f :: fs => tyUnknown f.ty || fieldsUnknown fs
def interUnknown : List Ty → Bool
  | [] => false
  | b :: bs =>
    let u := tyUnknown b
    (match b with
      | .struct fs _ _ _ => fieldsUnknown fs
      | _ => if isRefKind b then false else u) || interUnknown bs
end

def nonEmpty (l : List String) : Bool := !l.isEmpty

@[simp] theorem nonEmpty_nil : nonEmpty [] = false := rfl
@[simp] theorem nonEmpty_cons (a : String) (l : List String) : nonEmpty (a :: l) = true := rfl

theorem nonEmpty_append (a b : List String) : nonEmpty (a ++ b) = (nonEmpty a || nonEmpty b) := by
  cases a <;> cases b <;> simp [nonEmpty]

theorem fieldsPlaceholders_append (a b : List GoField) :
    fieldsPlaceholders (a ++ b) = fieldsPlaceholders a ++ fieldsPlaceholders b := by
  induction a with
  | nil => simp [fieldsPlaceholders]
  | cons f fs ih => simp [fieldsPlaceholders, ih, List.append_assoc]

theorem fmtScalarTy_noPh (cfg : Cfg) (k : String) (m : Meta) : tyPlaceholders (fmtScalarTy cfg k m) = [] := by
  unfold fmtScalarTy
  repeat' split
  all_goals simp [tyPlaceholders]

theorem fieldGoTy_nonref' (c : Ctx) (t : Ty) (plain : GoTy) (h : t.isRef = false) : fieldGoTy c t plain = plain := by
  unfold fieldGoTy
  cases t <;> simp [Ty.isRef] at h <;> rfl

theorem fieldGoTy_ref_noPh (c : Ctx) (p n : String) (m : Meta) (plain : GoTy) (h : tyPlaceholders plain = []) :
    tyPlaceholders (fieldGoTy c (.ref p n m) plain) = [] := by
  unfold fieldGoTy
  simp only []
  split
  · simp [tyPlaceholders]
  · split
    · exact fmtScalarTy_noPh _ _ _
    · exact h
  · exact h

mutual
theorem tyPh_iff (c : Ctx) : ∀ t : Ty, nonEmpty (tyPlaceholders (fmtTy c t)) = tyUnknown t
  | .scalar k v cs m => by simp [fmtTy, fmtScalarTy_noPh, tyUnknown, nonEmpty]
  | .slot v m => by simp [fmtTy, tyPlaceholders, tyUnknown, nonEmpty]
  | .array e m => by simpa [fmtTy, tyPlaceholders, tyUnknown] using tyPh_iff c e
  | .map i v m => by
    simp only [fmtTy, tyPlaceholders, tyUnknown, nonEmpty_append, tyPh_iff c i, tyPh_iff c v]
  | .ref p n m => by
    simp only [fmtTy, tyUnknown]; split <;> simp [tyPlaceholders, nonEmpty]
  | .cref p n v m => by simp [fmtTy, tyPlaceholders, tyUnknown, nonEmpty]
  | .struct fs g gi m => by
    simp only [fmtTy, tyUnknown]
    split <;> simpa [tyPlaceholders] using fieldsPh_iff c fs
  | .inter bs m => by
    simp only [fmtTy, tyPlaceholders, tyUnknown]
    rw [show fieldsPlaceholders (fmtInterRefs c bs ++ fmtInterRest c bs)
        = fieldsPlaceholders (fmtInterRefs c bs) ++ fieldsPlaceholders (fmtInterRest c bs) from fieldsPlaceholders_append _ _]
    rw [nonEmpty_append, interRefsPh c bs, Bool.false_or, interRestPh_iff c bs]
  | .enum vs m => by simp [fmtTy, tyPlaceholders, tyUnknown, nonEmpty]
  | .disj bs i m => by simp [fmtTy, tyPlaceholders, tyUnknown, nonEmpty]
  | .bad k m => by
    simp only [fmtTy, tyUnknown]
    split <;> simp_all [tyPlaceholders, nonEmpty]
theorem fieldsPh_iff (c : Ctx) : ∀ fs : List Field, nonEmpty (fieldsPlaceholders (fmtFields c fs)) = fieldsUnknown fs
  | [] => by simp [fmtFields, fieldsPlaceholders, fieldsUnknown, nonEmpty]
  | f :: fs => by
    simp only [fmtFields, fieldsPlaceholders, fieldsUnknown, nonEmpty_append, fieldsPh_iff c fs]
    congr 1
    have hplain := tyPh_iff c f.ty
    cases hf : f.ty with
    | ref p n m =>
      have h0 : tyPlaceholders (fmtTy c (.ref p n m)) = [] := by
        simp only [fmtTy]; split <;> simp [tyPlaceholders]
      simp [fieldGoTy_ref_noPh c p n m _ h0, nonEmpty, tyUnknown]
    | _ =>
      rw [hf] at hplain
      rw [fieldGoTy_nonref' c _ _ (by rfl)]
      exact hplain
theorem interRefsPh (c : Ctx) : ∀ bs : List Ty, nonEmpty (fieldsPlaceholders (fmtInterRefs c bs)) = false
  | [] => by simp [fmtInterRefs, fieldsPlaceholders, nonEmpty]
  | b :: bs => by
    have hb := tyPh_iff c b
    have ih := interRefsPh c bs
    simp only [fmtInterRefs]
    rw [fieldsPlaceholders_append, nonEmpty_append, ih, Bool.or_false]
    split
    · rename_i hk
      have hu : tyUnknown b = false := by
        cases b <;> simp [isRefKind, Ty.kind] at hk <;> simp [tyUnknown]
        subst hk; simp [derefKinds]
      rw [hu] at hb
      simpa [fieldsPlaceholders] using hb
    · simp [fieldsPlaceholders, nonEmpty]
theorem interRestPh_iff (c : Ctx) : ∀ bs : List Ty, nonEmpty (fieldsPlaceholders (fmtInterRest c bs)) = interUnknown bs
  | [] => by simp [fmtInterRest, fieldsPlaceholders, interUnknown, nonEmpty]
  | .struct fs g gi m :: bs => by
    have ih := interRestPh_iff c bs
    have hf := fieldsPh_iff c fs
    simp only [fmtInterRest, interUnknown]
    rw [fieldsPlaceholders_append, nonEmpty_append, ih, hf]
  | .scalar k v cs m :: bs => by
    have ih := interRestPh_iff c bs
    have hb := tyPh_iff c (.scalar k v cs m)
    simp only [fmtInterRest, interUnknown]
    rw [fieldsPlaceholders_append, nonEmpty_append, ih]
    first
      | (congr 1; simpa [isRefKind, Ty.kind, fieldsPlaceholders] using hb)
      | (congr 1)
  | .ref p n m :: bs => by
    have ih := interRestPh_iff c bs
    simp only [fmtInterRest, interUnknown]
    rw [fieldsPlaceholders_append, nonEmpty_append, ih]
    simp [isRefKind, Ty.kind, fieldsPlaceholders, nonEmpty]
  | .cref p n v m :: bs => by
    have ih := interRestPh_iff c bs
    have hb := tyPh_iff c (.cref p n v m)
    simp only [fmtInterRest, interUnknown]
    rw [fieldsPlaceholders_append, nonEmpty_append, ih]
    first
      | (congr 1; simpa [isRefKind, Ty.kind, fieldsPlaceholders] using hb)
      | (congr 1)
  | .array e m :: bs => by
    have ih := interRestPh_iff c bs
    have hb := tyPh_iff c (.array e m)
    simp only [fmtInterRest, interUnknown]
    rw [fieldsPlaceholders_append, nonEmpty_append, ih]
    first
      | (congr 1; simpa [isRefKind, Ty.kind, fieldsPlaceholders] using hb)
      | (congr 1)
  | .map i v m :: bs => by
    have ih := interRestPh_iff c bs
    have hb := tyPh_iff c (.map i v m)
    simp only [fmtInterRest, interUnknown]
    rw [fieldsPlaceholders_append, nonEmpty_append, ih]
    first
      | (congr 1; simpa [isRefKind, Ty.kind, fieldsPlaceholders] using hb)
      | (congr 1)
  | .enum vs m :: bs => by
    have ih := interRestPh_iff c bs
    have hb := tyPh_iff c (.enum vs m)
    simp only [fmtInterRest, interUnknown]
    rw [fieldsPlaceholders_append, nonEmpty_append, ih]
    first
      | (congr 1; simpa [isRefKind, Ty.kind, fieldsPlaceholders] using hb)
      | (congr 1)
  | .disj bs' i m :: bs => by
    have ih := interRestPh_iff c bs
    have hb := tyPh_iff c (.disj bs' i m)
    simp only [fmtInterRest, interUnknown]
    rw [fieldsPlaceholders_append, nonEmpty_append, ih]
    first
      | (congr 1; simpa [isRefKind, Ty.kind, fieldsPlaceholders] using hb)
      | (congr 1)
  | .inter bs' m :: bs => by
    have ih := interRestPh_iff c bs
    have hb := tyPh_iff c (.inter bs' m)
    simp only [fmtInterRest, interUnknown]
    rw [fieldsPlaceholders_append, nonEmpty_append, ih]
    first
      | (congr 1; simpa [isRefKind, Ty.kind, fieldsPlaceholders] using hb)
      | (congr 1)
  | .slot v m :: bs => by
    have ih := interRestPh_iff c bs
    have hb := tyPh_iff c (.slot v m)
    simp only [fmtInterRest, interUnknown]
    rw [fieldsPlaceholders_append, nonEmpty_append, ih]
    first
      | (congr 1; simpa [isRefKind, Ty.kind, fieldsPlaceholders] using hb)
      | (congr 1)
  | .bad k m :: bs => by
    have ih := interRestPh_iff c bs
    have hb := tyPh_iff c (.bad k m)
    simp only [fmtInterRest, interUnknown]
    rw [fieldsPlaceholders_append, nonEmpty_append, ih]
    congr 1
    by_cases hk : k = "ref"
    · subst hk; simp [isRefKind, Ty.kind, fieldsPlaceholders, nonEmpty]
    · simpa [isRefKind, Ty.kind, hk, fieldsPlaceholders] using hb
end

/-! ## constructor bodies -/

mutual
theorem sharpV_noPh : ∀ v : Val, exprPlaceholders (sharpV v) = []
  | .nil => by simp [sharpV, exprPlaceholders]
  | .bool _ => by simp [sharpV, exprPlaceholders]
  | .int _ _ => by simp [sharpV, exprPlaceholders]
  | .float _ _ => by simp [sharpV, exprPlaceholders]
  | .jnum _ => by simp [sharpV, exprPlaceholders]
  | .str _ => by simp [sharpV, exprPlaceholders]
  | .list xs => by simp [sharpV, exprPlaceholders, sharpVIface, tyPlaceholders, sharpVList_noPh xs]
  | .map kvs => by simp [sharpV, exprPlaceholders, sharpVIface, tyPlaceholders, sharpVMap_noPh kvs]
  | .other _ _ => by simp [sharpV, exprPlaceholders]
theorem sharpVList_noPh : ∀ xs : List Val, exprsPlaceholders (sharpVList xs) = []
  | [] => by simp [sharpVList, exprsPlaceholders]
  | v :: vs => by simp [sharpVList, exprsPlaceholders, sharpV_noPh v, sharpVList_noPh vs]
theorem sharpVMap_noPh : ∀ kvs : List (String × Val), kvsPlaceholders (sharpVMap kvs) = []
  | [] => by simp [sharpVMap, kvsPlaceholders]
  | (k, v) :: kvs => by simp [sharpVMap, kvsPlaceholders, sharpV_noPh v, sharpVMap_noPh kvs]
end

mutual
theorem formatScalar_noPh : ∀ v : Val, exprPlaceholders (formatScalar v) = []
  | .nil => by simp [formatScalar, exprPlaceholders]
  | .list xs => by simp [formatScalar, exprPlaceholders, tyPlaceholders, formatScalarList_noPh xs]
  | .bool b => by simpa [formatScalar] using sharpV_noPh (.bool b)
  | .int t n => by simpa [formatScalar] using sharpV_noPh (.int t n)
  | .float t r => by simpa [formatScalar] using sharpV_noPh (.float t r)
  | .jnum x => by simpa [formatScalar] using sharpV_noPh (.jnum x)
  | .str x => by simpa [formatScalar] using sharpV_noPh (.str x)
  | .map kvs => by simpa [formatScalar] using sharpV_noPh (.map kvs)
  | .other a b => by simpa [formatScalar] using sharpV_noPh (.other a b)
theorem formatScalarList_noPh : ∀ xs : List Val, exprsPlaceholders (formatScalarList xs) = []
  | [] => by simp [formatScalarList, exprsPlaceholders]
  | v :: vs => by simp [formatScalarList, exprsPlaceholders, formatScalar_noPh v, formatScalarList_noPh vs]
end

/-- the pointer helper's type hint prints `unknown` -/
def maybePtrPh (nullable : Bool) (typeDef : Ty) : Bool :=
  nullable && !(typeDef.isArray || typeDef.isMap) && tyUnknown (setNullable false typeDef)

theorem maybePtr_ph (c : Ctx) (v : GoExpr) (nullable : Bool) (td : Ty) (hv : exprPlaceholders v = []) :
    nonEmpty (exprPlaceholders (maybePtr c v nullable td)) = maybePtrPh nullable td := by
  unfold maybePtr maybePtrPh
  cases nullable
  · simp [hv, nonEmpty]
  · cases hk : (td.isArray || td.isMap)
    · simp only [Bool.not_true, Bool.false_eq_true, if_false, hk, Bool.not_false, Bool.true_and, exprPlaceholders, hv,
        List.append_nil]
      exact tyPh_iff c _
    · simp [hk, hv, nonEmpty]

/-- what one field contributes, with everything but the placeholders erased -/
inductive PhLit where
  | skip
  | stop
  | emit (ph : Bool)
  deriving DecidableEq

def phOf : FieldLit → PhLit
  | .skip => .skip
  | .stop => .stop
  | .emit e => .emit (nonEmpty (exprPlaceholders e))

/-- override from an enclosing struct default: only the pointer helper's type hint can be `unknown`
    (KB08: the resolved type is an enum) -/
def extraLitPh (f : Field) (resolved : Ty) (ev : Val) : Bool :=
  if f.ty.isRef && isGenStruct resolved then
    (match resolved, f.ty with
      | .struct rfs _ _ _, .ref _ _ _ =>
        let bn := ucc (branchNameOf ev)
        let bty := match fieldByName bn rfs with
          | some bf => bf.ty
          | none => (match fieldByName "Any" rfs with | some bf => bf.ty | none => Ty.bad "" {})
        maybePtrPh true bty
      | _, _ => false)
  else maybePtrPh f.ty.getMeta.nullable resolved

/-- the shapes for which `defaultsForStruct` has no case (`emit true`), and where a type hint can be `unknown` -/
def ownLitPh (ss : Schemas) (f : Field) (resolved : Ty) (nestedPh : List Field → Val → Bool) : PhLit :=
  let m := f.ty.getMeta
  match f.ty with
  | .scalar _ v _ _ =>
    if !Cog.Passes.Val.isNil v then .emit (maybePtrPh m.nullable resolved)
    else if !Cog.Passes.Val.isNil m.dflt then .emit (maybePtrPh m.nullable resolved)
    else .emit true
  | .ref _ _ _ =>
    (match resolved with
      | .scalar .. | .map .. | .array .. =>
        if !Cog.Passes.Val.isNil m.dflt then .emit (maybePtrPh m.nullable resolved) else .emit true
      | .struct rfs _ _ _ => if !Cog.Passes.Val.isNil m.dflt then .emit (nestedPh rfs m.dflt) else .emit false
      | .enum _ _ => .emit false
      | _ => .emit true)
  | .cref p n _ _ =>
    (match ss.resolveToType (ss.objectCount + 2) (.ref p n {}) with
      | none => .emit false
      | some (.enum _ _) => .emit false
      | some _ => .stop)
  | .array e _ => if !Cog.Passes.Val.isNil m.dflt then .emit (maybePtrPh m.nullable resolved) else .emit (tyUnknown e)
  | .map i v _ => if !Cog.Passes.Val.isNil m.dflt then .emit (maybePtrPh m.nullable resolved) else .emit (tyUnknown i || tyUnknown v)
  | _ => .emit true

def fieldLitPh (ss : Schemas) (f : Field) (resolved : Ty) (extras : List (String × Val)) (nestedPh : List Field → Val → Bool) : PhLit :=
  if !needsDefault f resolved extras then .skip else
  match lookupKV f.name extras with
  | some ev => .emit (extraLitPh f resolved ev)
  | none => ownLitPh ss f resolved nestedPh

theorem composite_ph (t : GoTy) (fs : List (String × GoExpr)) (ht : tyPlaceholders t = []) :
    exprPlaceholders (.composite t fs) = kvsPlaceholders fs := by simp [exprPlaceholders, ht]

theorem extraLit_ph (c : Ctx) (f : Field) (resolved : Ty) (ev : Val) :
    nonEmpty (exprPlaceholders (extraLit c f resolved ev)) = extraLitPh f resolved ev := by
  have hm : ∀ nullable bty, nonEmpty (exprPlaceholders (maybePtr c (formatScalar ev) nullable bty)) = maybePtrPh nullable bty :=
    fun nullable bty => maybePtr_ph c _ nullable bty (formatScalar_noPh ev)
  unfold extraLit extraLitPh
  simp only []
  cases hc : (f.ty.isRef && isGenStruct resolved)
  · simp only [Bool.false_eq_true, if_false]; exact hm _ _
  · simp only [if_true]
    cases resolved with
    | struct rfs g gi om =>
      cases hf : f.ty with
      | ref p n m =>
        simp only []
        cases hb : fieldByName (ucc (branchNameOf ev)) rfs with
        | some bf =>
          simp only []
          split <;> simp [exprPlaceholders, tyPlaceholders, kvsPlaceholders, hm]
        | none =>
          simp only []
          split <;> simp [exprPlaceholders, tyPlaceholders, kvsPlaceholders, hm] <;> rfl
      | _ => simp [exprPlaceholders]
    | _ => simp [exprPlaceholders]

theorem ownLit_ph (c : Ctx) (f : Field) (resolved : Ty) (nested : String → String → List Field → Val → GoExpr)
    (nestedPh : List Field → Val → Bool)
    (hn : ∀ p n rfs d, nonEmpty (exprPlaceholders (nested p n rfs d)) = nestedPh rfs d) :
    phOf (ownLit c f resolved nested) = ownLitPh c.ss f resolved nestedPh := by
  have hm : ∀ v nullable td, nonEmpty (exprPlaceholders (maybePtr c (formatScalar v) nullable td)) = maybePtrPh nullable td :=
    fun v nullable td => maybePtr_ph c _ nullable td (formatScalar_noPh v)
  unfold ownLit ownLitPh
  simp only []
  cases hf : f.ty with
  | scalar k v cs m =>
    simp only []
    split
    · simp [phOf, hm]
    · split <;> simp [phOf, hm, exprPlaceholders]
  | ref p n m =>
    simp only []
    cases resolved with
    | scalar => simp only []; split <;> simp [phOf, hm, exprPlaceholders]
    | map => simp only []; split <;> simp [phOf, hm, exprPlaceholders]
    | array => simp only []; split <;> simp [phOf, hm, exprPlaceholders]
    | struct rfs g gi om =>
      simp only []
      split
      · split <;> simp [phOf, exprPlaceholders, hn]
      · split <;> simp [phOf, exprPlaceholders]
    | enum vs om =>
      simp only []
      cases vs with
      | nil => simp [phOf, exprPlaceholders]
      | cons v0 vs' =>
        simp only [phOf]
        rw [maybePtr_ph c _ _ _ (by simp [exprPlaceholders])]
        simp [maybePtrPh, setNullable, Ty.setMeta, tyUnknown]
    | _ => simp [phOf, exprPlaceholders]
  | cref p n v m =>
    simp only [Ctx.resolve, Ctx.fuel]
    cases hr : c.ss.resolveToType (c.ss.objectCount + 2) (.ref p n {}) with
    | none => simp [phOf, exprPlaceholders]
    | some r =>
      cases r with
      | enum vs om => simp only []; split <;> simp [phOf, exprPlaceholders]
      | _ => simp [phOf]
  | array e m =>
    simp only []
    split
    · simp [phOf, hm]
    · simp [phOf, exprPlaceholders, exprsPlaceholders, tyPh_iff]
  | map i v m =>
    simp only []
    split
    · simp [phOf, hm]
    · simp [phOf, exprPlaceholders, kvsPlaceholders, nonEmpty_append, tyPh_iff]
  | _ => simp [phOf, exprPlaceholders]

theorem fieldLit_ph (c : Ctx) (f : Field) (resolved : Ty) (extras : List (String × Val))
    (nested : String → String → List Field → Val → GoExpr) (nestedPh : List Field → Val → Bool)
    (hn : ∀ p n rfs d, nonEmpty (exprPlaceholders (nested p n rfs d)) = nestedPh rfs d) :
    phOf (fieldLit c f resolved extras nested) = fieldLitPh c.ss f resolved extras nestedPh := by
  unfold fieldLit fieldLitPh
  cases hnd : needsDefault f resolved extras
  · simp [phOf]
  · simp only [Bool.not_true, Bool.false_eq_true, if_false]
    cases hl : lookupKV f.name extras with
    | some ev => simp [phOf, extraLit_ph]
    | none => simpa using ownLit_ph c f resolved nested nestedPh hn

/-! ## nesting, objects, schemas -/

def fieldsPhWith (g : Field → PhLit) : List Field → Bool
  | [] => false
  | f :: fs =>
    match g f with
    | .skip => fieldsPhWith g fs
    | .emit b => b || fieldsPhWith g fs
    | .stop => false

def fieldPhAt (ss : Schemas) (f : Field) (extras : List (String × Val)) (nestedPh : List Field → Val → Bool) : PhLit :=
  if isBad f.ty then .emit false else
  match ss.resolveToType (ss.objectCount + 2) f.ty with
  | none => .emit false
  | some r => fieldLitPh ss f r extras nestedPh

/-- the literal of a struct (at nesting budget `fuel`) contains a placeholder -/
def structPh (ss : Schemas) : Nat → List Field → Val → Bool
  | 0, _, _ => false
  | fuel + 1, fs, extra => fieldsPhWith (fun f => fieldPhAt ss f (extrasOf extra) (fun rfs d => structPh ss fuel rfs d)) fs

def fieldPh (ss : Schemas) (fuel : Nat) (f : Field) (extras : List (String × Val)) : PhLit :=
  fieldPhAt ss f extras (fun rfs d => structPh ss fuel rfs d)

def fieldsPh (ss : Schemas) (fuel : Nat) (fs : List Field) (extras : List (String × Val)) : Bool :=
  fieldsPhWith (fun f => fieldPh ss fuel f extras) fs

theorem structPh_succ (ss : Schemas) (fuel : Nat) (fs : List Field) (extra : Val) :
    structPh ss (fuel + 1) fs extra = fieldsPh ss fuel fs (extrasOf extra) := rfl
theorem fieldsPh_cons (ss : Schemas) (fuel : Nat) (f : Field) (fs : List Field) (extras : List (String × Val)) :
    fieldsPh ss fuel (f :: fs) extras =
      (match fieldPh ss fuel f extras with
        | .skip => fieldsPh ss fuel fs extras
        | .emit b => b || fieldsPh ss fuel fs extras
        | .stop => false) := rfl
theorem fieldPh_eq (ss : Schemas) (fuel : Nat) (f : Field) (extras : List (String × Val)) :
    fieldPh ss fuel f extras =
      (if isBad f.ty then .emit false else
        match ss.resolveToType (ss.objectCount + 2) f.ty with
        | none => .emit false
        | some r => fieldLitPh ss f r extras (fun rfs d => structPh ss fuel rfs d)) := rfl

theorem field_ph (c : Ctx) (fuel : Nat)
    (ih : ∀ p n fs extra, nonEmpty (exprPlaceholders (defaultsForStruct c fuel p n fs extra)) = structPh c.ss fuel fs extra)
    (f : Field) (extras : List (String × Val)) : phOf (defaultsField c fuel f extras) = fieldPh c.ss fuel f extras := by
  rw [defaultsField_eq, fieldPh_eq]
  split
  · simp [phOf, exprPlaceholders]
  · simp only [Ctx.resolve, Ctx.fuel]
    cases hr : c.ss.resolveToType (c.ss.objectCount + 2) f.ty with
    | none => simp [phOf, exprPlaceholders]
    | some r => exact fieldLit_ph c f r extras _ _ (fun p n rfs d => ih p n rfs d)

theorem fields_ph (c : Ctx) (fuel : Nat)
    (ih : ∀ p n fs extra, nonEmpty (exprPlaceholders (defaultsForStruct c fuel p n fs extra)) = structPh c.ss fuel fs extra)
    (extras : List (String × Val)) : ∀ fs : List Field,
    nonEmpty (kvsPlaceholders (defaultsFields c fuel fs extras)) = fieldsPh c.ss fuel fs extras
  | [] => by simp [defaultsFields_nil, fieldsPh, fieldsPhWith, kvsPlaceholders]
  | f :: fs => by
    have hf := field_ph c fuel ih f extras
    have ihs := fields_ph c fuel ih extras fs
    rw [defaultsFields_cons, fieldsPh_cons, ← hf]
    cases hd : defaultsField c fuel f extras with
    | skip => simpa [phOf] using ihs
    | stop => simp [phOf, kvsPlaceholders]
    | emit e => simp [phOf, kvsPlaceholders, nonEmpty_append, ihs]

theorem struct_ph (c : Ctx) : ∀ (fuel : Nat) (p n : String) (fs : List Field) (extra : Val),
    nonEmpty (exprPlaceholders (defaultsForStruct c fuel p n fs extra)) = structPh c.ss fuel fs extra := by
  intro fuel
  induction fuel with
  | zero => intro p n fs extra; simp [defaultsForStruct_zero, structPh, exprPlaceholders]
  | succ k ih =>
    intro p n fs extra
    rw [defaultsForStruct_succ, structPh_succ, composite_ph _ _ (by simp [tyPlaceholders])]
    exact fields_ph c k ih (extrasOf extra) fs

/-- the declarations of this object contain a placeholder -/
def objPh (ss : Schemas) (o : Obj) : Bool :=
  match o.ty with
  | .map .. | .array .. | .inter .. => tyUnknown o.ty
  | .struct fs _ _ _ => tyUnknown o.ty || structPh ss (ss.objectCount + 2) fs .nil
  | .cref .. | .disj .. | .slot .. => true
  | .bad k _ => !["enum", "scalar", "ref", "map", "array", "struct", "intersection"].contains k
  | _ => false

theorem enumMembers_noPh (en : String) : ∀ vs : List EnumVal, kvsPlaceholders (enumMembers en vs) = []
  | [] => by simp [enumMembers, kvsPlaceholders]
  | v :: vs => by simp [enumMembers, kvsPlaceholders, sharpV_noPh, enumMembers_noPh en vs]

theorem fmtEnumUnder_noPh (c : Ctx) (k : String) : tyPlaceholders (fmtEnumUnder c k) = [] := by
  unfold fmtEnumUnder; split <;> simp [tyPlaceholders, fmtScalarTy_noPh]

theorem obj_ph (c : Ctx) (o : Obj) : nonEmpty (declsPlaceholders (emitObj c o)) = objPh c.ss o := by
  unfold emitObj emitTypeDecl emitCtor objPh
  cases ho : o.ty with
  | enum vs m =>
    cases vs <;> simp [declsPlaceholders, declPlaceholders, fmtEnumUnder_noPh, enumMembers_noPh]
  | scalar k v cs m =>
    simp only []
    split
    · simp [declsPlaceholders, declPlaceholders, formatScalar_noPh]
    · split <;> simp [declsPlaceholders, declPlaceholders, tyPlaceholders, fmtTy, fmtScalarTy_noPh]
  | ref p n m =>
    have h0 : tyPlaceholders (fmtTy c (.ref p n m)) = [] := by
      simp only [fmtTy]; split <;> simp [tyPlaceholders]
    simp only []
    split
    · split <;> simp [declsPlaceholders, declPlaceholders, h0, exprPlaceholders]
    · simp [declsPlaceholders, declPlaceholders, h0]
  | map i v m => simpa [declsPlaceholders, declPlaceholders] using tyPh_iff c (.map i v m)
  | array e m => simpa [declsPlaceholders, declPlaceholders] using tyPh_iff c (.array e m)
  | inter bs m => simpa [declsPlaceholders, declPlaceholders] using tyPh_iff c (.inter bs m)
  | struct fs g gi m =>
    simp only [declsPlaceholders, declPlaceholders, List.append_nil, nonEmpty_append, exprPlaceholders,
      tyPh_iff c (.struct fs g gi m), struct_ph, Ctx.fuel]
  | cref p n v m => simp [declsPlaceholders, declPlaceholders]
  | disj bs i m => simp [declsPlaceholders, declPlaceholders]
  | slot v m => simp [declsPlaceholders, declPlaceholders]
  | bad k m =>
    simp only []
    split <;> simp_all [declsPlaceholders, declPlaceholders]

def objsPh (ss : Schemas) : List (String × Obj) → Bool
  | [] => false
  | (_, o) :: rest => objPh ss o || objsPh ss rest

def schemasPh (ss : Schemas) : List Schema → Bool
  | [] => false
  | s :: rest => objsPh ss s.objects || schemasPh ss rest

/-- the IR contains a construct of one of the listed shapes -/
def placeholderShape (ss : Schemas) : Bool := schemasPh ss ss

theorem declsPlaceholders_append (a b : List GoDecl) : declsPlaceholders (a ++ b) = declsPlaceholders a ++ declsPlaceholders b := by
  induction a with
  | nil => simp [declsPlaceholders]
  | cons d ds ih => simp [declsPlaceholders, ih, List.append_assoc]

theorem objs_ph (c : Ctx) : ∀ objs : List (String × Obj), nonEmpty (declsPlaceholders (emitObjs c objs)) = objsPh c.ss objs
  | [] => by simp [emitObjs, declsPlaceholders, objsPh]
  | (k, o) :: rest => by
    simp only [emitObjs, objsPh, declsPlaceholders_append, nonEmpty_append, obj_ph c o, objs_ph c rest]

theorem schemas_ph (cfg : Cfg) (ss0 : Schemas) : ∀ ss : List Schema,
    nonEmpty (envPlaceholders (emitSchemasAux cfg ss0 ss)) = schemasPh ss0 ss
  | [] => by simp [emitSchemasAux, envPlaceholders, schemasPh]
  | s :: rest => by
    have := objs_ph { cfg := cfg, ss := ss0 } s.objects
    simp only [emitSchemasAux, emitSchema, envPlaceholders, schemasPh, nonEmpty_append, this, schemas_ph cfg ss0 rest]

/-- the emitted declarations contain a placeholder exactly when the IR has one of the listed shapes -/
theorem placeholder_iff (cfg : Cfg) (ss : Schemas) :
    envPlaceholders (emitEnv cfg ss) ≠ [] ↔ placeholderShape ss = true := by
  have := schemas_ph cfg ss ss
  unfold placeholderShape emitEnv
  rw [← this]
  cases envPlaceholders (emitSchemasAux cfg ss ss) <;> simp

end Cog.Sem.GoDecl
