/-
  C02 helper lemmas, part 2: the checker's lookups on the emitted environment (types, constructors,
  enum members) and well-formedness of every printed type.
-/
import Cog.Sem.GoDeclLemmas1
namespace Cog.Sem.GoDecl
open Cog.IR Cog.OMap
open Cog.Passes (ucc cleanupNames)

theorem declaresType_emitTypeDecl (c : Ctx) (o : Obj) (h : declaresTy o = true) :
    declaresType (ucc o.name) (emitTypeDecl c o) = true := by
  unfold declaresTy at h
  unfold emitTypeDecl
  cases hty : o.ty with
  | scalar k v cs m =>
    simp only [hty] at h
    by_cases hb : (k == "bytes") = true <;> simp [h, hb, declaresType, declTypeName]
  | enum vs m =>
    cases vs with
    | nil => simp [hty] at h
    | cons v0 vs' => simp [declaresType, declTypeName]
  | ref p n m => simp [declaresType, declTypeName]
  | map i v m => simp [declaresType, declTypeName]
  | array e m => simp [declaresType, declTypeName]
  | struct fs g gi m => simp [declaresType, declTypeName]
  | cref p n v m => simp [hty] at h
  | disj bs i m => simp [hty] at h
  | inter bs m => simp [hty] at h
  | slot v m => simp [hty] at h
  | bad k m => simp [hty] at h

namespace EnvFacts
variable {cfg : Cfg} {ss : Schemas}

/-- E1: a reference that resolves to a type-declaring object finds that object's declaration -/
theorem lookupType_eq (h : EnvFacts cfg ss) {p n : String} {o : Obj} (hl : ss.locateObject p n = some o)
    (hd : declaresTy o = true) :
    lookupType (emitEnv cfg ss) (fmtPkg p) (ucc n) = some (emitTypeDecl (ctxOf cfg ss) o) := by
  obtain ⟨s, _, _, hmem, hname, _, _, _, hpk, hnd⟩ := h.located hl
  unfold lookupType findType
  rw [hpk]
  have hd' := declaresType_emitTypeDecl (ctxOf cfg ss) o hd
  rw [hname] at hd'
  exact findDecl_unique declaresType_idents hnd (mem_emitObjs hmem (by simp [emitObj])) hd'

/-- E2: the constructor of an object that has one -/
theorem findCtor_eq (h : EnvFacts cfg ss) {p n : String} {o : Obj} (hl : ss.locateObject p n = some o)
    (hc : hasCtor ss o = true) :
    findCtor ("New" ++ ucc n) (pkgDecls (fmtPkg p) (emitEnv cfg ss)) = some (ucc n) := by
  obtain ⟨s, _, _, hmem, hname, _, _, _, hpk, hnd⟩ := h.located hl
  rw [hpk]
  have : ∃ body, GoDecl.ctor ("New" ++ ucc n) (ucc n) body ∈ emitObj (ctxOf cfg ss) o := by
    unfold hasCtor at hc
    unfold emitObj emitCtor
    cases hty : o.ty with
    | struct fs g gi m =>
      exact ⟨(defaultsForStruct (ctxOf cfg ss) (ctxOf cfg ss).fuel o.selfPkg o.selfName fs .nil).addr, by simp [hname]⟩
    | ref p' n' m =>
      simp only [hty] at hc
      cases hl' : ss.locateObject p' n' with
      | none => simp [hl'] at hc
      | some ro =>
        simp only [hl'] at hc
        exact ⟨GoExpr.call ((ctxOf cfg ss).mapPkg ro.selfPkg) ("New" ++ ucc ro.name), by simp [ctxOf, hl', hc, hname]⟩
    | scalar k v cs m => simp [hty] at hc
    | enum vs m => simp [hty] at hc
    | map i v m => simp [hty] at hc
    | array e m => simp [hty] at hc
    | cref p n v m => simp [hty] at hc
    | disj bs i m => simp [hty] at hc
    | inter bs m => simp [hty] at hc
    | slot v m => simp [hty] at hc
    | bad k m => simp [hty] at hc
  obtain ⟨body, hb⟩ := this
  unfold findCtor
  rw [findDecl_unique isCtorNamed_idents hnd (mem_emitObjs hmem hb) (by simp [isCtorNamed])]

/-- E3: a member of an enum object, by the identifier its declaration gives it -/
theorem findValue_eq (h : EnvFacts cfg ss) {p n : String} {o : Obj} (hl : ss.locateObject p n = some o)
    {vs : List EnumVal} {m : Meta} (hty : o.ty = .enum vs m) {v : EnumVal} (hv : v ∈ vs) :
    findValue (cleanupNames (ucc v.name)) (pkgDecls (fmtPkg p) (emitEnv cfg ss)) = some (.member (ucc n)) := by
  obtain ⟨s, _, _, hmem, hname, _, _, _, hpk, hnd⟩ := h.located hl
  rw [hpk]
  cases vs with
  | nil => cases hv
  | cons v0 vs' =>
    have hd : emitTypeDecl (ctxOf cfg ss) o
        = .enumDef (ucc n) (fmtEnumUnder (ctxOf cfg ss) v0.kind) (enumMembers (ucc n) (v0 :: vs')) := by
      simp [emitTypeDecl, hty, hname]
    have hin : emitTypeDecl (ctxOf cfg ss) o ∈ emitObjs (ctxOf cfg ss) s.objects :=
      mem_emitObjs hmem (by simp [emitObj])
    have hP : declaresValue (cleanupNames (ucc v.name)) (emitTypeDecl (ctxOf cfg ss) o) = true := by
      rw [hd]
      simp only [declaresValue, List.any_eq_true]
      have : cleanupNames (ucc v.name) ∈ (enumMembers (ucc n) (v0 :: vs')).map (·.1) := by
        rw [enumMembers_names]; exact List.mem_map.mpr ⟨v, hv, rfl⟩
      obtain ⟨x, hx, hxe⟩ := List.mem_map.mp this
      exact ⟨x, hx, by simp [hxe]⟩
    unfold findValue
    rw [findDecl_unique declaresValue_idents hnd hin hP, hd]

end EnvFacts

/-! ### printed types are well-formed -/

theorem typeOk_fmtScalarTy (env : Env) (cfg : Cfg) (k : String) (m : Meta) (h : goKinds.contains k = true) :
    typeOk env (fmtScalarTy cfg k m) = true := by
  simp only [goKinds, plainKinds, List.cons_append, List.nil_append, List.contains_eq_mem, List.mem_cons,
    List.not_mem_nil, or_false, decide_eq_true_eq] at h
  unfold fmtScalarTy
  rcases h with rfl | rfl | rfl | rfl | rfl | rfl | rfl | rfl | rfl | rfl | rfl | rfl | rfl | rfl <;>
    cases cfg.anyAsInterface <;> cases (hasHint m "string_format_datetime") <;> cases m.nullable <;>
    simp [typeOk, knownPrims]

theorem fieldIdents_fmtFields (c : Ctx) : ∀ fs : List Field, fieldIdents (fmtFields c fs) = fieldNames fs
  | [] => rfl
  | f :: fs => by
    have ih := fieldIdents_fmtFields c fs
    simp only [fieldNames] at ih ⊢
    simp [fmtFields, fieldIdents, fieldIdent, ih]

theorem embedsOk_fmtFields (c : Ctx) : ∀ fs : List Field, embedsOk (fmtFields c fs) = true
  | [] => rfl
  | f :: fs => by
    simp [fmtFields, embedsOk, embedShapeOk, embedsOk_fmtFields c fs]

/-- the Go field `formatField` prints for an IR field -/
def goFieldOf (c : Ctx) (f : Field) : GoField :=
  { name := ucc f.name, ty := fieldGoTy c f.ty (fmtTy c f.ty), jsonName := f.name, omitEmpty := !f.required }

theorem fmtFields_cons (c : Ctx) (f : Field) (fs : List Field) :
    fmtFields c (f :: fs) = goFieldOf c f :: fmtFields c fs := by
  simp [fmtFields, goFieldOf]

theorem fieldGoTy_ok (env : Env) (c : Ctx) (f : Field) (hr : fieldResolveOk c.ss f = true)
    (hp : typeOk env (fmtTy c f.ty) = true) : typeOk env (fieldGoTy c f.ty (fmtTy c f.ty)) = true := by
  unfold fieldGoTy
  unfold fieldResolveOk at hr
  cases hty : f.ty with
  | ref p n m =>
    simp only [hty] at hr hp ⊢
    simp only [Ctx.resolve, Ctx.fuel]
    cases hres : c.ss.resolveToType (c.ss.objectCount + 2) (.ref p n m) with
    | none => simp [hres] at hr
    | some r =>
      simp only [hres] at hr
      cases r with
      | scalar k v cs m' =>
        simp only [Bool.or_eq_true] at hr
        by_cases hv : Cog.Passes.Val.isNil v = true
        · simp [hv, hp]
        · have hk : goKinds.contains k = true := by
            rcases hr with h1 | h2
            · exact absurd h1 hv
            · exact h2
          simp [hv, typeOk_fmtScalarTy env c.cfg k m' hk]
      | _ => simpa using hp
  | _ => simpa [hty] using hp

mutual
/-- every printed type is well-formed in the emitted environment -/
theorem typeOk_fmtTy {cfg : Cfg} {ss : Schemas} (h : EnvFacts cfg ss) :
    ∀ t : Ty, tyOk ss t = true → typeOk (emitEnv cfg ss) (fmtTy (ctxOf cfg ss) t) = true
  | .scalar k v cs m, ht => by
    simp only [tyOk] at ht
    simpa [fmtTy, ctxOf] using typeOk_fmtScalarTy (emitEnv cfg ss) cfg k m ht
  | .ref p n m, ht => by
    simp only [tyOk] at ht
    cases hl : ss.locateObject p n with
    | none => simp [hl] at ht
    | some o =>
      simp only [hl] at ht
      have := h.lookupType_eq hl ht
      by_cases hn : m.nullable = true <;> simp [fmtTy, hn, typeOk, Ctx.mapPkg, this]
  | .array e m, ht => by
    simp only [tyOk] at ht
    simpa [fmtTy, typeOk] using typeOk_fmtTy h e ht
  | .map i v m, ht => by
    simp only [tyOk, Bool.and_eq_true] at ht
    simp [fmtTy, typeOk, typeOk_fmtTy h i ht.1, typeOk_fmtTy h v ht.2]
  | .struct fs g gi m, ht => by
    simp only [tyOk, fieldNamesOk, Bool.and_eq_true] at ht
    have hf := fieldsOk_fmtFields h fs ht.2
    have hb : typeOk (emitEnv cfg ss) (.struct (fmtFields (ctxOf cfg ss) fs)) = true := by
      simp only [typeOk, fieldIdents_fmtFields, embedsOk_fmtFields, Bool.and_eq_true]
      exact ⟨⟨⟨ht.1.1, ht.1.2⟩, trivial⟩, hf⟩
    by_cases hn : m.nullable = true
    · simpa [fmtTy, hn, typeOk] using hb
    · simpa [fmtTy, hn] using hb
  | .cref .., ht => by simp [tyOk] at ht
  | .enum .., ht => by simp [tyOk] at ht
  | .disj .., ht => by simp [tyOk] at ht
  | .inter .., ht => by simp [tyOk] at ht
  | .slot .., ht => by simp [tyOk] at ht
  | .bad .., ht => by simp [tyOk] at ht
theorem fieldsOk_fmtFields {cfg : Cfg} {ss : Schemas} (h : EnvFacts cfg ss) :
    ∀ fs : List Field, fieldsTyOk ss fs = true → fieldsOk (emitEnv cfg ss) (fmtFields (ctxOf cfg ss) fs) = true
  | [], _ => by simp [fmtFields, fieldsOk]
  | f :: fs, ht => by
    simp only [fieldsTyOk, Bool.and_eq_true] at ht
    rw [fmtFields_cons]
    simp only [fieldsOk, Bool.and_eq_true]
    refine ⟨?_, fieldsOk_fmtFields h fs ht.2⟩
    exact fieldGoTy_ok (emitEnv cfg ss) (ctxOf cfg ss) f (by simpa [ctxOf] using ht.1.2) (typeOk_fmtTy h f.ty ht.1.1)
end

end Cog.Sem.GoDecl
