/-
  C10, Python side: a field whose default fits (`pyFits`) holds its declared value in the JSON of
  `X()` — own defaults and constants (scalars, lists, inline enums, unions), enum members through a
  reference, struct defaults with partial overrides — assembled in `py_field_holds`.
-/
import Cog.Sem.DefaultsPyLemmas
import Cog.Sem.DefaultsGoHolds
namespace Cog.Sem.Defaults
open Cog.Sem Cog.IR
open PyVal (pyEncode encRequired encOptional isNone encList encDict)

theorem pyNew_inv {fuel : Nat} {ss : Schemas} {pkg name : String} {kw : List (String × PyVal)} {v : PyVal}
    {o : Obj} {fs : List Field} {g : List Ty} {gi : Option (String × DisjInfo)} {m : Meta}
    (h : pyNew fuel ss pkg name kw = .ok v) (hloc : Schemas.locateObject ss pkg name = some o)
    (hty : o.ty = .struct fs g gi m) :
    ∃ k l, fuel = k + 1 ∧ mapPRes (pyInitField (pyNew k ss) k ss kw) fs = .ok l ∧ v = .inst l := by
  cases fuel with
  | zero => simp [pyNew] at h
  | succ k =>
    simp only [pyNew, hloc, hty] at h
    split at h
    · simp at h
    · obtain ⟨l, hl, rfl⟩ := PRes.map_eq_ok.mp h
      exact ⟨k, l, rfl, hl, rfl⟩

theorem mapPRes_mem {α β} {F : α → PRes β} : ∀ {xs : List α} {l : List β}, mapPRes F xs = .ok l →
    ∀ a ∈ xs, ∃ b, F a = .ok b
  | [], _, _, a, ha => by cases ha
  | x :: rest, l, h, a, ha => by
    unfold mapPRes at h
    obtain ⟨y, hy, h2⟩ := PRes.bind_eq_ok.mp h
    obtain ⟨ys, hys, _⟩ := PRes.bind_eq_ok.mp h2
    rcases List.mem_cons.mp ha with rfl | hm
    · exact ⟨y, hy⟩
    · exact mapPRes_mem hys a hm

theorem py_holds_of_lookup {l : List (String × Bool × PyVal)} {name : String} {pv : PyVal} {j : Json}
    (hlk : Json.lookup name (encRequired l ++ encOptional l) = some (pyEncode pv))
    (hsub : Json.sub j (pyEncode pv) = true) : holds (pyEncode (.inst l)) name j = true := by
  simp [holds, pyEncode, hlk, hsub]

theorem pyScalar_plain {v : Val} (h : pyScalarVal? v = true) : pyPlainVal v = true := by
  cases v <;> simp [pyScalarVal?] at h <;> simp [pyPlainVal, pyScalarVal?, h]

theorem pyPlain_nonnil {v : Val} (h : pyPlainVal v = true) : v.isNilV = false := by
  cases v <;> simp [pyPlainVal, pyScalarVal?, Val.isNilV] at h ⊢

section top
variable {k : Nat} {ss : Schemas} {fs : List Field} {l : List (String × Bool × PyVal)}

/-- own defaults and constants: scalars, lists, inline enums, unions -/
theorem py_own_holds {f : Field} {j : Json}
    (hl : mapPRes (pyInitField (pyNew k ss) k ss []) fs = .ok l) (hn : namesNodup fs = true) (hf : f ∈ fs)
    (hnr : f.ty.isRef = false) (hnc : isCRef f.ty = false)
    (hp : pyPlainVal (if f.ty.isConcrete then scalarValue f.ty else f.ty.getMeta.dflt) = true)
    (hj : declaredOf f = some j) :
    holds (pyEncode (.inst l)) f.name j = true := by
  obtain ⟨x, hx⟩ := mapPRes_mem hl f hf
  have hvn := pyPlain_nonnil hp
  obtain ⟨pv, rfl, hpv⟩ := pyInitField_own hx hnr hnc rfl hvn
  obtain ⟨a1, a2, a3⟩ := pyEval_plain hp hpv
  have hlk := mapPRes_lookup pyInitField_shaped hl hn f hf pv hx
  simp [a3] at hlk
  have hjj : j = pyEncode pv := by
    unfold declaredOf at hj
    by_cases hc : f.ty.isConcrete = true
    · simp only [hc, if_true] at hj a1
      rw [a1] at hj; exact (Option.some.inj hj).symm
    · have hc0 : f.ty.isConcrete = false := by simpa using hc
      simp only [hc0, Bool.false_eq_true, if_false] at hj a1 hvn
      simp only [hvn, Bool.not_false, if_true] at hj
      rw [a1] at hj; exact (Option.some.inj hj).symm
  subst hjj
  exact py_holds_of_lookup hlk (sub_refl_flat _ a2)

/-! ### enum members through a reference -/

theorem memberPyVal_ok {m' : EnumVal} (hok : pyMemberOk m' = true) :
    ∃ pv, memberPyVal m' = .ok pv ∧ valJson m'.value = some (pyEncode pv) ∧ flat (pyEncode pv) = true ∧
      isNone pv = false := by
  unfold pyMemberOk at hok
  cases hv : m'.value <;> simp [hv] at hok
  · rename_i t n
    exact ⟨.num (n * 4), by simp [memberPyVal, hv], by simp [valJson, pyEncode], by simp [pyEncode, flat], by simp [isNone]⟩
  · rename_i t r
    cases hq : numQuarters r with
    | none => simp [hq] at hok
    | some q =>
      exact ⟨.num q, by simp [memberPyVal, hv, hq], by simp [valJson, hq, pyEncode], by simp [pyEncode, flat], by simp [isNone]⟩
  · rename_i s
    exact ⟨.str s, by simp [memberPyVal, hv], by simp [valJson, pyEncode], by simp [pyEncode, flat], by simp [isNone]⟩

/-- what `__init__` does for a reference field with a default -/
theorem pyInitField_ref {f : Field} {x : String × Bool × PyVal} {p n : String} {m : Meta}
    (h : pyInitField (pyNew k ss) k ss [] f = .ok x) (hty : f.ty = .ref p n m) (hdn : m.dflt.isNilV = false) :
    ∃ dv, pyDefaultExpr k ss (.ref p n m) (extraOf m.dflt) = .ok dv ∧
      (match dv with
       | some e => ∃ pv, x = (f.name, f.required, pv) ∧ pyEval (pyNew k ss) ss e = .ok pv
       | none => x = (f.name, f.required, PyVal.none)) := by
  unfold pyInitField at h
  obtain ⟨pf, hpf, h2⟩ := PRes.bind_eq_ok.mp h
  unfold pyField at hpf
  simp only [hty, isCRef, Ty.getMeta, Ty.isConcrete, isOptionalKind, hdn, Bool.false_eq_true, if_false,
    Bool.not_false, Bool.or_true, if_true] at hpf
  obtain ⟨dv, hdv, h3⟩ := PRes.bind_eq_ok.mp hpf
  cases h3
  refine ⟨dv, hdv, ?_⟩
  cases dv with
  | none => simp only [lookupPV] at h2; cases h2; rfl
  | some e =>
    simp only [lookupPV] at h2
    obtain ⟨pv, hpv, rfl⟩ := PRes.map_eq_ok.mp h2
    exact ⟨pv, rfl, hpv⟩

theorem py_enum_holds {f : Field} {j : Json} {p n : String} {m : Meta} {o : Obj} {vs : List EnumVal} {em : Meta}
    (hl : mapPRes (pyInitField (pyNew k ss) k ss []) fs = .ok l) (hn : namesNodup fs = true) (hf : f ∈ fs)
    (hty : f.ty = .ref p n m) (hloc : Schemas.locateObject ss p n = some o) (hoty : o.ty = .enum vs em)
    (hfit : pyFits ss f = true) (hj : declaredOf f = some j) :
    holds (pyEncode (.inst l)) f.name j = true := by
  unfold pyFits at hfit
  simp only [hty, Ty.getMeta, hloc, hoty, Bool.and_eq_true] at hfit
  obtain ⟨hdn, hfit⟩ := hfit
  have hdn' : m.dflt.isNilV = false := by simpa using hdn
  cases hpm : pickMember m.dflt vs vs.head? with
  | none => simp [hpm] at hfit
  | some mem =>
    simp only [hpm] at hfit
    cases hfm : findMember mem.name vs with
    | none => simp [hfm] at hfit
    | some m' =>
      simp only [hfm, Bool.and_eq_true] at hfit
      obtain ⟨heq, hok⟩ := hfit
      have hdm : m'.value = m.dflt := goEq_true_eq (by simpa using heq)
      obtain ⟨x, hx⟩ := mapPRes_mem hl f hf
      obtain ⟨dv, hdv, hmatch⟩ := pyInitField_ref hx hty hdn'
      have hdve : dv = some (.enumMember p n mem.name) := by
        cases k with
        | zero => simp [pyDefaultExpr] at hdv
        | succ k0 =>
          simp [pyDefaultExpr, Ty.isRef, hloc, hoty, hpm] at hdv
          exact hdv.symm
      subst hdve
      obtain ⟨pv, rfl, hpv⟩ := hmatch
      obtain ⟨pv0, hmv, a1, a2, a3⟩ := memberPyVal_ok hok
      simp [pyEval, hloc, hoty, enumValues, hfm, hmv] at hpv
      subst hpv
      have hlk := mapPRes_lookup pyInitField_shaped hl hn f hf pv0 hx
      simp [a3] at hlk
      have hjj : j = pyEncode pv0 := by
        have h1 : valJson m.dflt = some j := by simpa [declaredOf, hty, Ty.isConcrete, Ty.getMeta, hdn'] using hj
        rw [← hdm, a1] at h1
        exact (Option.some.inj h1).symm
      subst hjj
      exact py_holds_of_lookup hlk (sub_refl_flat _ a2)

/-! ### struct defaults with partial overrides -/

theorem pyOverridesFit_mem {sfs : List Field} : ∀ {kvs : List (String × Val)}, pyOverridesFit sfs kvs = true →
    ∀ kv ∈ kvs, ∃ g, fieldByName kv.1 sfs = some g ∧ g.ty.isRef = false ∧ isCRef g.ty = false ∧
      g.ty.isConcrete = false ∧ pyPlainVal kv.2 = true
  | [], _, kv, h => by cases h
  | (key, v) :: t, h, kv, hkv => by
    unfold pyOverridesFit at h
    simp only [Bool.and_eq_true] at h
    rcases List.mem_cons.mp hkv with rfl | hm
    · cases hg : fieldByName key sfs with
      | none => simp [hg] at h
      | some g =>
        simp [hg] at h
        exact ⟨g, rfl, h.1.1.1.1, h.1.1.1.2, h.1.1.2, h.1.2⟩
    · exact pyOverridesFit_mem h.2 kv hm

theorem pyKwargs_lookup {dvt : Ty → List (String × Val) → PRes (Option PyExpr)} {sfs : List Field} :
    ∀ {kvs : List (String × Val)} {kw : List (String × PyExpr)}, pyKwargs dvt sfs kvs = .ok kw →
    pyOverridesFit sfs kvs = true → keysNodup kvs = true →
    ∀ kv ∈ kvs, alookup kv.1 kw = some (pyOfVal kv.2)
  | [], _, _, _, _, kv, h => by cases h
  | (key, v) :: t, kw, h, hfit, hnd, kv, hkv => by
    obtain ⟨g, hg, hgnr, _, _, _⟩ := pyOverridesFit_mem hfit (key, v) List.mem_cons_self
    simp only at hg
    simp [keysNodup] at hnd
    unfold pyKwargs at h
    simp only [hg, hgnr, Bool.false_eq_true, if_false] at h
    obtain ⟨e, he, h2⟩ := PRes.bind_eq_ok.mp h
    cases he
    obtain ⟨l, hl, rfl⟩ := PRes.map_eq_ok.mp h2
    rcases List.mem_cons.mp hkv with rfl | hm
    · simp [alookup]
    · have hne : key ≠ kv.1 := fun e => (lookupVal_none hnd.1 kv hm) e.symm
      have hfit' : pyOverridesFit sfs t = true := by
        unfold pyOverridesFit at hfit
        simp only [Bool.and_eq_true] at hfit
        exact hfit.2
      simp [alookup, hne]
      exact pyKwargs_lookup hl hfit' hnd.2 kv hm

theorem pyEvalKw_lookup {new : String → String → List (String × PyVal) → PRes PyVal} :
    ∀ {kw : List (String × PyExpr)} {kwv : List (String × PyVal)}, pyEvalKw new ss kw = .ok kwv →
    ∀ key e, alookup key kw = some e → ∃ pv, lookupPV key kwv = some pv ∧ pyEval new ss e = .ok pv
  | [], _, _, key, e, h => by simp [alookup] at h
  | (k', e') :: rest, kwv, h, key, e, hk => by
    unfold pyEvalKw at h
    obtain ⟨v', hv', h2⟩ := PRes.bind_eq_ok.mp h
    obtain ⟨vs, hvs, rfl⟩ := PRes.map_eq_ok.mp h2
    by_cases hkk : k' = key
    · subst hkk
      simp [alookup] at hk; subst hk
      exact ⟨v', by simp [lookupPV], hv'⟩
    · simp [alookup, hkk] at hk
      obtain ⟨pv, h1, h2'⟩ := pyEvalKw_lookup hvs key e hk
      exact ⟨pv, by simp [lookupPV, hkk, h1], h2'⟩

/-- a member passed as a keyword argument keeps the argument's value -/
theorem pyInitField_kw {new : String → String → List (String × PyVal) → PRes PyVal} {kwv : List (String × PyVal)}
    {g : Field} {x : String × Bool × PyVal} {pvo : PyVal}
    (h : pyInitField new k ss kwv g = .ok x) (hnc : isCRef g.ty = false) (hc : g.ty.isConcrete = false)
    (hlk : lookupPV g.name kwv = some pvo) (hnn : isNone pvo = false) : x = (g.name, g.required, pvo) := by
  unfold pyInitField at h
  obtain ⟨pf, hpf, h2⟩ := PRes.bind_eq_ok.mp h
  unfold pyField at hpf
  simp only [hnc, Bool.false_eq_true, if_false, hc] at hpf
  obtain ⟨dv, _, h3⟩ := PRes.bind_eq_ok.mp hpf
  by_cases ho : isOptionalKind g.ty = true
  · simp only [ho, if_true] at h3
    cases h3
    simp only [hlk] at h2
    cases dv with
    | none => cases h2; rfl
    | some e => simp [hnn] at h2; exact h2.symm
  · simp only [ho, if_false] at h3
    cases h3
    simp only [hlk] at h2
    obtain ⟨d, _, h4⟩ := PRes.bind_eq_ok.mp h2
    cases h4; rfl

theorem py_struct_holds {f : Field} {j : Json} {p n : String} {m : Meta} {o : Obj} {sfs : List Field}
    {sg : List Ty} {sgi : Option (String × DisjInfo)} {sm : Meta}
    (hl : mapPRes (pyInitField (pyNew k ss) k ss []) fs = .ok l) (hn : namesNodup fs = true) (hf : f ∈ fs)
    (hty : f.ty = .ref p n m) (hloc : Schemas.locateObject ss p n = some o) (hoty : o.ty = .struct sfs sg sgi sm)
    (hfit : pyFits ss f = true) (hj : declaredOf f = some j) :
    holds (pyEncode (.inst l)) f.name j = true := by
  unfold pyFits at hfit
  simp only [hty, Ty.getMeta, hloc, hoty, Bool.and_eq_true] at hfit
  obtain ⟨hdn, hfit⟩ := hfit
  have hdn' : m.dflt.isNilV = false := by simpa using hdn
  cases hdv : m.dflt with
  | map kvs =>
    simp only [hdv, Bool.and_eq_true] at hfit
    obtain ⟨⟨hkn, hsn⟩, hof⟩ := hfit
    obtain ⟨x, hx⟩ := mapPRes_mem hl f hf
    obtain ⟨dv, hdvx, hmatch⟩ := pyInitField_ref hx hty hdn'
    -- the printed constructor call
    obtain ⟨kw, hkw, rfl⟩ : ∃ kw, (∃ k0, k = k0 + 1 ∧ pyKwargs (pyDefaultExpr k0 ss) sfs kvs = .ok kw) ∧
        dv = some (.call p n kw) := by
      cases k with
      | zero => simp [pyDefaultExpr] at hdvx
      | succ k0 =>
        simp only [pyDefaultExpr, Ty.isRef, Bool.not_true, Bool.false_and, Bool.false_eq_true, if_false,
          hloc, hoty, hdv, extraOf] at hdvx
        obtain ⟨kw, hkw, rfl⟩ := PRes.map_eq_ok.mp hdvx
        exact ⟨kw, ⟨k0, rfl, hkw⟩, rfl⟩
    obtain ⟨k0, _, hkw⟩ := hkw
    obtain ⟨pv, rfl, hpv⟩ := hmatch
    simp only [pyEval] at hpv
    obtain ⟨kwv, hkwv, hnew⟩ := PRes.bind_eq_ok.mp hpv
    obtain ⟨k1, l', _, hl', rfl⟩ := pyNew_inv hnew hloc hoty
    have hlk := mapPRes_lookup pyInitField_shaped hl hn f hf _ hx
    simp [isNone] at hlk
    obtain ⟨js, hjs, hjj⟩ : ∃ js, valJsonMembers kvs = some js ∧ j = .obj js := by
      have h1 : valJson (.map kvs) = some j := by
        simpa [declaredOf, hty, Ty.isConcrete, Ty.getMeta, hdv, Val.isNilV] using hj
      simp only [valJson] at h1
      cases hm : valJsonMembers kvs with
      | none => simp [hm] at h1
      | some js => simp [hm] at h1; exact ⟨js, rfl, h1.symm⟩
    subst hjj
    refine py_holds_of_lookup hlk ?_
    simp only [pyEncode, Json.sub]
    refine subMembers_of_forall fun kj hkj => ?_
    obtain ⟨ov, hmem, hvj⟩ := valJsonMembers_mem hjs kj hkj
    obtain ⟨g, hg, _, hgnc, hgc, hplain⟩ := pyOverridesFit_mem hof (kj.1, ov) hmem
    obtain ⟨hgname, hgmem⟩ := fieldByName_name hg
    have hal := pyKwargs_lookup hkw hof hkn (kj.1, ov) hmem
    obtain ⟨pvo, hlkv, hevo⟩ := pyEvalKw_lookup hkwv kj.1 _ hal
    obtain ⟨a1, a2, a3⟩ := pyEval_plain hplain hevo
    obtain ⟨xg, hxg⟩ := mapPRes_mem hl' g hgmem
    have hxg' := pyInitField_kw hxg hgnc hgc (by rw [hgname]; exact hlkv) a3
    subst hxg'
    have hlk2 := mapPRes_lookup pyInitField_shaped hl' hsn g hgmem pvo hxg
    simp [a3] at hlk2
    rw [hgname] at hlk2
    refine ⟨pyEncode pvo, hlk2, ?_⟩
    rw [a1] at hvj
    have hkj : kj.2 = pyEncode pvo := (Option.some.inj hvj).symm
    rw [hkj]
    exact sub_refl_flat _ a2
  | _ => simp [hdv] at hfit

end top

/-! ### all value types together -/

theorem py_field_holds {fuel : Nat} {ss : Schemas} {pkg name : String} {o : Obj} {fs : List Field}
    {g : List Ty} {gi : Option (String × DisjInfo)} {m : Meta} {v : PyVal} {f : Field} {j : Json}
    (hnew : pyNew fuel ss pkg name [] = .ok v) (hloc : Schemas.locateObject ss pkg name = some o)
    (hty : o.ty = .struct fs g gi m) (hn : namesNodup fs = true) (hf : f ∈ fs)
    (hfit : pyFits ss f = true) (hj : declaredOf f = some j) :
    holds (pyEncode v) f.name j = true := by
  obtain ⟨k, l, _, hl, rfl⟩ := pyNew_inv hnew hloc hty
  cases hfty : f.ty with
  | scalar kind value cs fm =>
    have hp : pyPlainVal (if f.ty.isConcrete then scalarValue f.ty else f.ty.getMeta.dflt) = true := by
      rw [hfty]
      unfold pyFits at hfit
      simp only [hfty] at hfit
      by_cases hc : (Ty.scalar kind value cs fm).isConcrete = true
      · simp only [hc, if_true] at hfit ⊢
        simpa [scalarValue] using pyScalar_plain hfit
      · simp only [hc, if_false] at hfit ⊢
        simpa [Ty.getMeta] using pyScalar_plain hfit
    exact py_own_holds hl hn hf (by simp [hfty, Ty.isRef]) (by simp [hfty, isCRef]) hp hj
  | array e fm =>
    exact py_own_holds hl hn hf (by simp [hfty, Ty.isRef]) (by simp [hfty, isCRef])
      (by simpa [pyFits, hfty, Ty.isConcrete, Ty.getMeta] using hfit) hj
  | enum vs fm =>
    exact py_own_holds hl hn hf (by simp [hfty, Ty.isRef]) (by simp [hfty, isCRef])
      (by simpa [pyFits, hfty, Ty.isConcrete, Ty.getMeta] using hfit) hj
  | disj bs info fm =>
    exact py_own_holds hl hn hf (by simp [hfty, Ty.isRef]) (by simp [hfty, isCRef])
      (by simpa [pyFits, hfty, Ty.isConcrete, Ty.getMeta] using hfit) hj
  | ref p n fm =>
    have hfit' := hfit
    unfold pyFits at hfit'
    simp only [hfty, Bool.and_eq_true] at hfit'
    cases hlo : Schemas.locateObject ss p n with
    | none => simp [hlo] at hfit'
    | some o' =>
      cases hoty : o'.ty with
      | enum vs em => exact py_enum_holds hl hn hf hfty hlo hoty hfit hj
      | struct sfs sg sgi sm => exact py_struct_holds hl hn hf hfty hlo hoty hfit hj
      | _ => simp [hlo, hoty] at hfit'
  | _ => simp [pyFits, hfty] at hfit

/-! ### instance independence -/

theorem pyOfVal_scalar_immutable {v : Val} (h : pyScalarVal? v = true) : pyMutableExpr (pyOfVal v) = false := by
  cases v <;> simp [pyScalarVal?] at h <;> simp [pyOfVal, pyMutableExpr]

/-- a member of a collection / reference / enum / union type never gets its default in the
    signature: the printed expression is evaluated anew by every call of the constructor -/
theorem pyField_optional_kind {fuel : Nat} {ss : Schemas} {f : Field} {pf : PyField}
    (h : pyField fuel ss f = .ok pf) (hk : isOptionalKind f.ty = true) : pySharedDefault pf = false := by
  have hc : f.ty.isConcrete = false := by
    cases hty : f.ty <;> simp [hty, isOptionalKind] at hk <;> simp [Ty.isConcrete]
  unfold pyField at h
  split at h
  · simp at h
  · obtain ⟨dv, _, h3⟩ := PRes.bind_eq_ok.mp h
    simp only [hc, Bool.false_eq_true, if_false, hk, if_true] at h3
    cases h3
    rfl

/-- no fitting member shares a mutable default between instances -/
theorem py_fits_not_shared {fuel : Nat} {ss : Schemas} {f : Field} {pf : PyField}
    (h : pyField fuel ss f = .ok pf) (hfit : pyFits ss f = true) : pySharedDefault pf = false := by
  cases hty : f.ty with
  | scalar kind value cs m =>
    unfold pyField at h
    simp only [hty, isCRef, Bool.false_eq_true, if_false] at h
    obtain ⟨dv, hdv, h3⟩ := PRes.bind_eq_ok.mp h
    unfold pyFits at hfit
    simp only [hty] at hfit
    by_cases hc : (Ty.scalar kind value cs m).isConcrete = true
    · simp only [hc, if_true] at h3
      cases h3; rfl
    · simp only [hc, if_false, isOptionalKind, Bool.false_eq_true] at h3 hfit
      cases h3
      have hsc : pyScalarVal? m.dflt = true := by simpa [Ty.getMeta] using hfit
      have hnn : m.dflt.isNilV = false := pyPlain_nonnil (pyScalar_plain hsc)
      simp only [Ty.getMeta, hnn, Bool.not_false, Bool.or_true, if_true] at hdv
      have := pyDefaultExpr_own hdv (by simp [Ty.isRef]) (by simpa [Ty.getMeta] using hnn)
      subst this
      simp [pySharedDefault, optExpr, Ty.getMeta, pyOfVal_scalar_immutable hsc]
  | array e m => exact pyField_optional_kind h (by simp [hty, isOptionalKind])
  | enum vs m => exact pyField_optional_kind h (by simp [hty, isOptionalKind])
  | disj bs i m => exact pyField_optional_kind h (by simp [hty, isOptionalKind])
  | ref p n m => exact pyField_optional_kind h (by simp [hty, isOptionalKind])
  | _ => simp [pyFits, hty] at hfit

end Cog.Sem.Defaults
