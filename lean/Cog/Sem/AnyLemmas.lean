/-
  `any`: generic decoding keeps the document, re-encoding sorts object keys — equivalent (`eqv`)
  for documents without duplicate keys.
-/
import Cog.Sem.CodecLemmas
namespace Cog.Sem
open GoVal

theorem keysNodup0_eq (l : List (String × Json)) : keysNodup0 l = keysNodup l := by
  induction l with
  | nil => rfl
  | cons e t ih => obtain ⟨k, v⟩ := e; simp [keysNodup0, keysNodup, ih]

theorem lookup_ifaceEncMembers (k : String) (l : List (String × Json)) :
    Json.lookup k (ifaceEncMembers l) = (Json.lookup k l).map ifaceEnc := by
  induction l with
  | nil => simp [ifaceEncMembers, Json.lookup]
  | cons e t ih =>
    obtain ⟨a, b⟩ := e
    simp only [ifaceEncMembers, lookup_insertSorted, Json.lookup]
    by_cases c : a = k <;> simp [c, ih]

theorem mem_ifaceEncMembers {k : String} {x : Json} {l : List (String × Json)}
    (h : (k, x) ∈ ifaceEncMembers l) : ∃ v, (k, v) ∈ l ∧ x = ifaceEnc v := by
  induction l with
  | nil => simp [ifaceEncMembers] at h
  | cons e t ih =>
    obtain ⟨a, b⟩ := e
    simp only [ifaceEncMembers] at h
    cases mem_insertSorted h with
    | inl c => cases c; exact ⟨b, by simp, rfl⟩
    | inr c => obtain ⟨v, h1, h2⟩ := ih c; exact ⟨v, by simp [h1], h2⟩

mutual
theorem iface_sub : ∀ j : Json, wfDeep j = true →
    Json.sub (ifaceEnc j) j = true ∧ Json.sub j (ifaceEnc j) = true
  | .null, _ | .bool _, _ | .num _, _ | .str _, _ => by simp [ifaceEnc, Json.sub]
  | .arr xs, h => by
    simp only [wfDeep] at h
    have := iface_subList xs h
    simp [ifaceEnc, Json.sub, this.1, this.2]
  | .obj kvs, h => by
    simp only [wfDeep, Bool.and_eq_true] at h
    have nd : keysNodup kvs = true := by rw [← keysNodup0_eq]; exact h.1
    have hm := iface_subMembers kvs h.2
    simp only [ifaceEnc, Json.sub]
    constructor
    · rw [subMembers_iff]
      rintro ⟨k, x⟩ hx
      obtain ⟨v, hv, rfl⟩ := mem_ifaceEncMembers hx
      right
      exact ⟨v, lookup_of_mem_nodup nd hv, (hm (k, v) hv).1⟩
    · rw [subMembers_iff]
      rintro ⟨k, v⟩ hx
      right
      refine ⟨ifaceEnc v, ?_, (hm (k, v) hx).2⟩
      rw [lookup_ifaceEncMembers, lookup_of_mem_nodup nd hx]
      rfl
theorem iface_subList : ∀ xs : List Json, wfDeepList xs = true →
    Json.subList (ifaceEncList xs) xs = true ∧ Json.subList xs (ifaceEncList xs) = true
  | [], _ => by simp [ifaceEncList, Json.subList]
  | x :: xs, h => by
    simp only [wfDeepList, Bool.and_eq_true] at h
    have h1 := iface_sub x h.1
    have h2 := iface_subList xs h.2
    simp [ifaceEncList, Json.subList, h1.1, h1.2, h2.1, h2.2]
theorem iface_subMembers : ∀ kvs : List (String × Json), wfDeepMembers kvs = true →
    ∀ kv ∈ kvs, Json.sub (ifaceEnc kv.2) kv.2 = true ∧ Json.sub kv.2 (ifaceEnc kv.2) = true
  | [], _ => by simp
  | (k, v) :: t, h => by
    simp only [wfDeepMembers, Bool.and_eq_true] at h
    intro kv hkv
    cases List.mem_cons.1 hkv with
    | inl c => subst c; exact iface_sub v h.1
    | inr c => exact iface_subMembers t h.2 kv c
end

end Cog.Sem
