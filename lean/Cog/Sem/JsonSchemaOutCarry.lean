/-
  C12 — an object keeps its own definition when names do not clash; what the emitter carries over
  from the IR (required list, constraints, enum values, constants, defaults).
-/
import Cog.Sem.JsonSchemaOutLemmas
namespace Cog.Sem.JSOut
open Cog.IR Cog.Sem
open Cog.OMap (rget rset rget_rset)

/-! ### own definition -/

theorem rget_runObjs_other (S : Schemas) (pkg : String) (objs : List Obj) (st : Def × Pending) (k : String)
    (h : k ∉ onames objs) : rget k (runObjs S pkg objs st).1 = rget k st.1 := by
  induction objs generalizing st with
  | nil => rfl
  | cons o rest ih =>
    simp only [onames, List.map_cons, List.mem_cons, not_or] at h
    simp only [runObjs, List.foldl_cons]
    have := ih (stepObj S pkg st o) (by simpa [onames] using h.2)
    simp only [runObjs] at this
    rw [this]
    simp only [stepObj, rget_rset]
    have hne : ¬ o.name = k := fun e => h.1 e.symm
    simp [hne]

theorem namesNodupB_iff (l : List String) : namesNodupB l = true ↔ l.Nodup := by
  induction l with
  | nil => simp [namesNodupB]
  | cons a t ih => simp [namesNodupB, ih]

theorem rget_runObjs_own (S : Schemas) (pkg : String) (objs : List Obj) (st : Def × Pending)
    (nd : (onames objs).Nodup) : ∀ o ∈ objs, rget o.name (runObjs S pkg objs st).1 = some (.obj (emitObj o)) := by
  induction objs generalizing st with
  | nil => simp
  | cons o rest ih =>
    simp only [onames, List.map_cons, List.nodup_cons] at nd
    intro o' ho'
    simp only [runObjs, List.foldl_cons]
    rcases List.mem_cons.1 ho' with h | h
    · subst h
      have := rget_runObjs_other S pkg rest (stepObj S pkg st o') o'.name (by simpa [onames] using nd.1)
      simp only [runObjs] at this
      rw [this]
      simp [stepObj, rget_rset]
    · have := ih (stepObj S pkg st o) (by simpa [onames] using nd.2) o' h
      simpa [runObjs] using this

/-- the queued objects come from other packages -/
def Foreign (S : Schemas) (s : Schema) (q : Pending) : Prop :=
  ∀ e ∈ q, ∃ s', s' ∈ S ∧ s'.pkg ≠ s.pkg ∧ e.2 ∈ schemaObjs s'

theorem foreign_rset {S : Schemas} {s : Schema} {q : Pending} (hq : Foreign S s q) {k : String} {o : Obj}
    (ho : ∃ s', s' ∈ S ∧ s'.pkg ≠ s.pkg ∧ o ∈ schemaObjs s') : Foreign S s (rset k o q) := by
  induction q with
  | nil => intro e he; simp [rset] at he; subst he; exact ho
  | cons a t ih =>
    obtain ⟨k', v⟩ := a
    have ht : Foreign S s t := fun e he => hq e (List.mem_cons_of_mem _ he)
    simp only [rset]
    split
    · intro e he
      rcases List.mem_cons.1 he with h | h
      · subst h; exact ho
      · exact hq e (List.mem_cons_of_mem _ h)
    · intro e he
      rcases List.mem_cons.1 he with h | h
      · subst h; exact hq _ (by simp)
      · exact ih ht e h

theorem pushForeign_foreign {S : Schemas} {s : Schema} {q : Pending} (hq : Foreign S s q) (r : String × String) :
    Foreign S s (pushForeign S s.pkg q r) := by
  unfold pushForeign
  split
  · exact hq
  · rename_i hpk
    split
    · rename_i o hl
      obtain ⟨s', hs', hp, hmem⟩ := locateObject_some hl
      apply foreign_rset hq
      refine ⟨s', hs', by rw [hp]; exact hpk, ?_⟩
      simp only [schemaObjs, List.mem_map]
      exact ⟨(r.2, o), hmem, rfl⟩
    · exact hq

theorem foldPush_foreign {S : Schemas} {s : Schema} (rs : List (String × String)) {q : Pending}
    (hq : Foreign S s q) : Foreign S s (rs.foldl (pushForeign S s.pkg) q) := by
  induction rs generalizing q with
  | nil => exact hq
  | cons r rs ih => exact ih (pushForeign_foreign hq r)

theorem runObjs_foreign {S : Schemas} {s : Schema} (objs : List Obj) {st : Def × Pending}
    (hq : Foreign S s st.2) : Foreign S s (runObjs S s.pkg objs st).2 := by
  induction objs generalizing st with
  | nil => exact hq
  | cons o rest ih =>
    simp only [runObjs, List.foldl_cons]
    exact ih (st := stepObj S s.pkg st o) (foldPush_foreign _ hq)

def NoClash (S : Schemas) (s : Schema) : Prop :=
  (onames (schemaObjs s)).Nodup ∧
  ∀ s' ∈ S, s'.pkg ≠ s.pkg → ∀ o ∈ schemaObjs s', localHas s o.name = false

theorem noClash_of {S : Schemas} {s : Schema} (h : noClash S s = true) : NoClash S s := by
  simp only [noClash, Bool.and_eq_true, List.all_eq_true, Bool.or_eq_true, beq_iff_eq,
    Bool.not_eq_true'] at h
  refine ⟨(namesNodupB_iff _).1 h.1, ?_⟩
  intro s' hs' hp o ho
  rcases h.2 s' hs' with h1 | h1
  · exact absurd h1 hp
  · exact h1 o ho

theorem stepObj_foreign {S : Schemas} {s : Schema} {st : Def × Pending} (hq : Foreign S s st.2) (o : Obj) :
    Foreign S s (stepObj S s.pkg st o).2 := foldPush_foreign _ hq

/-- a round writes only under names of queued (foreign) objects, and queues only foreign objects -/
theorem runForeign_keeps {S : Schemas} {s : Schema} (k : String) (l : Pending) (hk : k ∉ onames (l.map (·.2)))
    (st : Def × Pending × List String) (hq : Foreign S s st.2.1) :
    rget k (runForeign S s.pkg l st).1 = rget k st.1 ∧ Foreign S s (runForeign S s.pkg l st).2.1 := by
  induction l generalizing st with
  | nil => exact ⟨rfl, hq⟩
  | cons e rest ih =>
    simp only [List.map_cons, onames, List.mem_cons, not_or] at hk
    simp only [runForeign, List.foldl_cons]
    have hstep : rget k (stepForeign S s.pkg st e).1 = rget k st.1 ∧ Foreign S s (stepForeign S s.pkg st e).2.1 := by
      unfold stepForeign
      split
      · exact ⟨rfl, hq⟩
      · refine ⟨?_, stepObj_foreign (st := (st.1, st.2.1)) hq e.2⟩
        simp only [stepObj, rget_rset]
        have hne : ¬ e.2.name = k := fun c => hk.1 c.symm
        simp [hne]
    obtain ⟨g1, g2⟩ := ih (by simpa [onames] using hk.2) (stepForeign S s.pkg st e) hstep.2
    simp only [runForeign] at g1 g2
    exact ⟨by rw [g1, hstep.1], g2⟩

theorem closure_keeps {S : Schemas} {s : Schema} (hc : NoClash S s) (k : String) (hk : localHas s k = true) :
    ∀ (fuel : Nat) (d : Def) (q : Pending) (em : List String) (D : Def), Foreign S s q →
      closure S s.pkg fuel d q em = some D → rget k D = rget k d := by
  intro fuel
  induction fuel with
  | zero => intro d q em D _ h; simp [closure] at h
  | succ n ih =>
    intro d q em D hq h
    simp only [closure] at h
    split at h
    · cases h; rfl
    · have hnot : k ∉ onames (q.map (·.2)) := by
        intro hin
        obtain ⟨o, ho, hn⟩ := List.mem_map.1 hin
        obtain ⟨e, he, rfl⟩ := List.mem_map.1 ho
        obtain ⟨s', hs', hp, hmem⟩ := hq e he
        have := hc.2 s' hs' hp e.2 hmem
        rw [hn, hk] at this
        exact Bool.noConfusion this
      obtain ⟨g1, g2⟩ := runForeign_keeps (S := S) (s := s) k q hnot (d, [], em) (by intro e he; simp at he)
      rw [ih _ _ _ D g2 h]
      exact g1

/-- when names do not clash every object of the schema keeps its own definition -/
theorem emitDefs_own {S : Schemas} {s : Schema} (hc : noClash S s = true) {fuel : Nat} {D : Def}
    (he : emitDefs fuel S s = some D) : ∀ o ∈ schemaObjs s, rget o.name D = some (.obj (emitObj o)) := by
  intro o ho
  have hc' := noClash_of hc
  have hk : localHas s o.name = true := localHas_iff.2 (List.mem_map.2 ⟨o, ho, rfl⟩)
  have hf : Foreign S s (firstRound S s).2 :=
    runObjs_foreign (st := ([], [])) _ (by intro e he; simp at he)
  rw [closure_keeps hc' o.name hk fuel _ _ _ D hf he]
  exact rget_runObjs_own S s.pkg (schemaObjs s) ([], []) hc'.1 o ho

/-! ### fields: a field keeps its own property when field names are distinct -/

def fnames (fs : List Field) : List String := fs.map (·.name)

theorem emitFields_other : ∀ (fs : List Field) (acc : Def) (k : String), k ∉ fnames fs →
    rget k (emitFields fs acc) = rget k acc
  | [], _, _, _ => rfl
  | f :: fs, acc, k, h => by
    simp only [fnames, List.map_cons, List.mem_cons, not_or] at h
    simp only [emitFields]
    rw [emitFields_other fs _ k (by simpa [fnames] using h.2), rget_rset]
    have : ¬ f.name = k := fun e => h.1 e.symm
    simp [this]

theorem emitFields_own : ∀ (fs : List Field) (acc : Def), (fnames fs).Nodup →
    ∀ f ∈ fs, rget f.name (emitFields fs acc) = some (.obj (fieldDef f))
  | [], _, _ => by simp
  | f :: fs, acc, nd => by
    simp only [fnames, List.map_cons, List.nodup_cons] at nd
    intro f' hf'
    simp only [emitFields]
    rcases List.mem_cons.1 hf' with h | h
    · subst h
      rw [emitFields_other fs _ f'.name (by simpa [fnames] using nd.1), rget_rset]
      simp [fieldDef]
    · exact emitFields_own fs _ (by simpa [fnames] using nd.2) f' h

/-! ### carried over -/

theorem rget_rset_ne {k k' : String} {v : JS} {d : Def} (h : k ≠ k') : rget k' (rset k v d) = rget k' d := by
  rw [rget_rset]; simp [h]

theorem rget_withDesc {k : String} (c : List String) (d : Def) (h : k ≠ "description") :
    rget k (withDesc c d) = rget k d := by
  unfold withDesc
  split
  · rfl
  · exact rget_rset_ne (fun e => h e.symm)

theorem rget_withDefault_other {k : String} (v : Val) (d : Def) (h : k ≠ "default") :
    rget k (withDefault v d) = rget k d := by
  unfold withDefault
  split
  · rfl
  · exact rget_rset_ne (fun e => h e.symm)

/-- the default of a field's type is written raw, whatever the type -/
theorem default_carried (f : Field) (h : isNilVal f.ty.getMeta.dflt = false) :
    rget "default" (fieldDef f) = some (.raw f.ty.getMeta.dflt) := by
  simp only [fieldDef, withDefault, h, Bool.false_eq_true, if_false, rget_rset, if_true]

theorem default_absent (f : Field) (h : isNilVal f.ty.getMeta.dflt = true) :
    rget "default" (fieldDef f) = rget "default" (emitTy f.ty) := by
  simp only [fieldDef, withDefault, h, if_true]
  exact rget_withDesc _ _ (by decide)

/-- the keyword of a field's type survives description and default -/
theorem fieldDef_keeps (f : Field) (k : String) (h1 : k ≠ "description") (h2 : k ≠ "default") :
    rget k (fieldDef f) = rget k (emitTy f.ty) := by
  simp only [fieldDef]
  rw [rget_withDefault_other _ _ h2, rget_withDesc _ _ h1]

theorem enum_carried (vs : List EnumVal) (m : Meta) :
    rget "enum" (emitTy (.enum vs m)) = some (.arr (enumValues vs)) := by
  simp [emitTy, rget]

theorem enumValues_eq (vs : List EnumVal) : enumValues vs = vs.map (fun v => JS.raw v.value) := by
  induction vs with
  | nil => rfl
  | cons a t ih => simp [enumValues, ih]

theorem const_carried (kind : String) (v : Val) (cs : List Constraint) (dt : Bool) (h : isNilVal v = false) :
    rget "const" (emitScalar kind v cs dt) = some (.raw v) := by
  simp only [emitScalar, h, Bool.false_eq_true, if_false, rget_rset, if_true]

/-- the last constraint with a recognised operator decides the keyword's value -/
def lastArg (table : List (String × String)) (kw : String) : List Constraint → Option Val
  | [] => none
  | c :: cs =>
    match lastArg table kw cs with
    | some v => some v
    | none => if rget c.op table = some kw then some (c.args.headD .nil) else none

theorem rget_addConstraints (table : List (String × String)) (kw : String) (cs : List Constraint) (d : Def) :
    rget kw (addConstraints table cs d) =
      match lastArg table kw cs with
      | some v => some (.raw v)
      | none => rget kw d := by
  induction cs generalizing d with
  | nil => rfl
  | cons c cs ih =>
    simp only [addConstraints, lastArg]
    cases ho : rget c.op table with
    | none =>
      simp only [ih]
      cases lastArg table kw cs <;> simp
    | some kw' =>
      simp only [ih]
      cases hl : lastArg table kw cs with
      | some v => rfl
      | none =>
        simp only [rget_rset]
        by_cases hk : kw' = kw
        · subst hk; simp
        · have : ¬ (some kw' = some kw) := by simpa using hk
          simp [hk]

/-- a numeric constraint `op arg` of an integer or float scalar is the keyword the table assigns
    to `op`, with the argument unchanged (`<=` ↦ `maximum`, `<` ↦ `exclusiveMaximum`, …) -/
theorem number_constraint_carried (kind : String) (v : Val) (cs : List Constraint) (dt : Bool) (kw : String)
    (hk : kind = "float32" ∨ kind = "float64" ∨ isIntKind kind = true) (hkw : kw ≠ "const")
    (arg : Val) (hl : lastArg numberOps kw cs = some arg) :
    rget kw (emitScalar kind v cs dt) = some (.raw arg) := by
  have hbase : rget kw (scalarBase kind cs dt) = some (.raw arg) := by
    have hne : ∀ s, isIntKind s = true ∨ s = "float32" ∨ s = "float64" →
        s ≠ "null" ∧ s ≠ "any" ∧ s ≠ "bytes" ∧ s ≠ "string" ∧ s ≠ "bool" := by
      intro s hs
      refine ⟨?_, ?_, ?_, ?_, ?_⟩ <;> (intro e; subst e; simp [isIntKind] at hs)
    obtain ⟨n1, n2, n3, n4, n5⟩ := hne kind (by
      rcases hk with h | h | h
      · exact Or.inr (Or.inl h)
      · exact Or.inr (Or.inr h)
      · exact Or.inl h)
    unfold scalarBase
    simp only [n1, n2, n3, n4, n5, if_false]
    split
    · rw [rget_addConstraints, hl]
    · split
      · rw [rget_addConstraints, hl]
      · rename_i h1 h2
        rcases hk with h | h | h
        · exact absurd (Or.inl h) h1
        · exact absurd (Or.inr h) h1
        · exact absurd h h2
  unfold emitScalar
  split
  · exact hbase
  · rw [rget_rset_ne (fun e => hkw e.symm)]; exact hbase

theorem string_constraint_carried (v : Val) (cs : List Constraint) (dt : Bool) (kw : String)
    (hkw : kw ≠ "const") (hf : kw ≠ "format") (arg : Val) (hl : lastArg stringOps kw cs = some arg) :
    rget kw (emitScalar "string" v cs dt) = some (.raw arg) := by
  have hbase : rget kw (scalarBase "string" cs dt) = some (.raw arg) := by
    unfold scalarBase
    simp only [show ("string" : String) ≠ "null" by decide, show ("string" : String) ≠ "any" by decide,
      show ("string" : String) ≠ "bytes" by decide, if_false, if_true]
    split
    · rw [rget_rset_ne (fun e => hf e.symm), rget_addConstraints, hl]
    · rw [rget_addConstraints, hl]
  unfold emitScalar
  split
  · exact hbase
  · rw [rget_rset_ne (fun e => hkw e.symm)]; exact hbase

end Cog.Sem.JSOut
