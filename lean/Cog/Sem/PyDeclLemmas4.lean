/-
  C02, Python declaration fragment — lemmas, part 4: objects, the object list, the module.
-/
import Cog.Sem.PyDeclLemmas3
namespace Cog.Sem.PyDecl
open Cog Cog.IR Cog.OMap

theorem enumMembers_names (cfg : Cfg) : ∀ vs : List EnumVal,
    (enumMembers cfg vs).map (·.1) = vs.map fun v => upperSnake cfg v.name
  | [] => rfl
  | v :: vs => by simp [enumMembers, enumMembers_names cfg vs]

theorem enumMembers_idents (cfg : Cfg) : ∀ vs : List EnumVal, vs.all (fun v => pyIdent (upperSnake cfg v.name)) = true →
    (enumMembers cfg vs).all (fun kv => pyIdent kv.1) = true
  | [], _ => by simp [enumMembers]
  | v :: vs, h => by
    simp only [List.all_cons, Bool.and_eq_true] at h
    simp [enumMembers, h.1, enumMembers_idents cfg vs h.2]

theorem enumMembers_fit (cfg : Cfg) (kind : String) : ∀ vs : List EnumVal, vs.all (enumFits kind) = true →
    (enumMembers cfg vs).all (fun kv => if (if kind == "string" then "StrEnum" else "IntEnum") == "StrEnum"
      then isStrLit kv.2 else isIntLike kv.2) = true
  | [], _ => by simp [enumMembers]
  | v :: vs, h => by
    simp only [List.all_cons, Bool.and_eq_true] at h
    have ih := enumMembers_fit cfg kind vs h.2
    have h1 := h.1
    simp only [enumFits] at h1
    simp only [enumMembers, List.all_cons, Bool.and_eq_true]
    refine ⟨?_, ih⟩
    by_cases hk : (kind == "string") = true
    · simp only [hk, if_true] at h1 ⊢; simpa using h1
    · simp only [hk] at h1 ⊢
      have : (("IntEnum" : String) == "StrEnum") = false := by decide
      simp only [Bool.false_eq_true, if_false, this] at h1 ⊢; exact h1

theorem initBody_isEmpty (cfg : Cfg) (ss : Schemas) (cur : String) : ∀ fs : List Field,
    (initBody cfg ss cur fs).isEmpty = fs.isEmpty
  | [] => rfl
  | _ :: _ => rfl

theorem enumMembers_isEmpty (cfg : Cfg) : ∀ vs : List EnumVal, (enumMembers cfg vs).isEmpty = vs.isEmpty
  | [] => rfl
  | _ :: _ => rfl

/-- one object: the printers finish, the declaration is accepted, the aliases of its body are importable -/
theorem objDecl_ok (cfg : Cfg) (ss : Schemas) (cur : String) (hc : cur ≠ "typing") (he : cur ≠ "enum") (o : Obj)
    (hp : objPrintable cfg ss cur o = true) (hn : objNamesOk cfg o = true) :
    ∃ d, objDecl cfg ss cur o = .ok d ∧ declOk ss d = true ∧
      (∀ st ∈ bodyOf d, ∀ a ∈ stmtAliases st, aliasOk ss a = true) := by
  have htyping : pkgAlias cur "typing" = "typing" := by simp [pkgAlias, Ne.symm hc]
  have henum : pkgAlias cur "enum" = "enum" := by simp [pkgAlias, Ne.symm he]
  obtain ⟨name, comments, ty, sp, sn⟩ := o
  simp only [objNamesOk, Bool.and_eq_true] at hn
  cases ty with
  | scalar k v c m =>
    simp only [objPrintable, Bool.and_eq_true] at hp
    by_cases hv : Val.isNil v = true
    · refine ⟨_, by simp only [objDecl, hv]; rfl, ?_, by simp [bodyOf]⟩
      simp only [declOk, htyping, Bool.and_eq_true, beq_self_eq_true, and_true]
      exact ⟨⟨hp.1.1, hn.1⟩, evalOk_fmtTy ss cur hc _ hp.1.2⟩
    · refine ⟨_, by simp only [objDecl, hv]; rfl, ?_, by simp [bodyOf]⟩
      simp only [declOk, Bool.and_eq_true]
      exact ⟨⟨⟨hp.1.1, hn.1⟩, evalOk_fmtTy ss cur hc _ hp.1.2⟩, evalOk_fmtValue ss v hp.2⟩
  | enum vs m =>
    cases vs with
    | nil => simp [objPrintable] at hp
    | cons v vs =>
      simp only [objPrintable, Bool.and_eq_true] at hp
      simp only [Bool.and_eq_true] at hn
      refine ⟨_, by simp only [objDecl]; rfl, ?_, by simp [bodyOf]⟩
      simp only [declOk, henum, Bool.and_eq_true, beq_self_eq_true, and_true]
      refine ⟨⟨⟨⟨⟨⟨hn.1, ?_⟩, hp.1⟩, by simp [enumMembers]⟩, enumMembers_idents cfg _ hn.2.1⟩, ?_⟩, enumMembers_fit cfg v.kind _ hp.2⟩
      · by_cases hk : (v.kind == "string") = true <;> simp [hk, enumBases]
      · rw [enumMembers_names]; exact hn.2.2
  | struct fs g gi m =>
    simp only [objPrintable, Bool.and_eq_true, Bool.not_eq_true'] at hp
    simp only [Bool.and_eq_true] at hn
    have hnames : fs.all (fieldNameOk cfg) = true := by simpa [fieldNameOk] using hn.2.1
    have hunm : unmodelledFields fs = none := by
      have : ∀ fs : List Field, fieldsPrintable cfg ss cur fs = true → unmodelledFields fs = none := by
        intro fs; induction fs with
        | nil => intro _; rfl
        | cons f fs ih =>
          intro h
          simp only [fieldsPrintable, fieldPrintable, Bool.and_eq_true, Option.isNone_iff_eq_none] at h
          simp [unmodelledFields, h.1.1.2, ih h.2]
      exact this fs hp.2
    have hF := structFields_ok cfg ss cur hc fs hp.2 hnames
    have hP := initParams_ok cfg ss cur hc fs hp.2 hnames
    have hB := initBody_ok cfg ss cur fs hp.2 hnames
    refine ⟨_, by simp only [objDecl, hp.1.1.2, hunm]; rfl, ?_, ?_⟩
    · simp only [declOk, Bool.and_eq_true, Bool.not_eq_true']
      refine ⟨⟨⟨⟨⟨⟨hn.1, hp.1.1.1⟩, hF⟩, hP.1⟩, ?_⟩, ?_⟩, hB.1⟩
      · rw [hP.2]; exact hn.2.2
      · rw [initBody_isEmpty]; exact hp.1.2
    · exact hB.2
  | ref p n m =>
    simp only [objPrintable, Bool.and_eq_true] at hp
    refine ⟨_, by simp only [objDecl]; rfl, ?_, by simp [bodyOf]⟩
    simp only [declOk, htyping, Bool.and_eq_true, beq_self_eq_true, and_true]
    exact ⟨⟨hp.1, hn.1⟩, evalOk_fmtTy ss cur hc _ hp.2⟩
  | cref p n v m =>
    simp only [objPrintable, Bool.and_eq_true] at hp
    refine ⟨_, by simp only [objDecl]; rfl, ?_, by simp [bodyOf]⟩
    simp only [declOk, htyping, Bool.and_eq_true, beq_self_eq_true, and_true]
    exact ⟨⟨hp.1, hn.1⟩, evalOk_fmtTy ss cur hc _ hp.2⟩
  | array e m =>
    simp only [objPrintable, Bool.and_eq_true] at hp
    refine ⟨_, by simp only [objDecl]; rfl, ?_, by simp [bodyOf]⟩
    simp only [declOk, htyping, Bool.and_eq_true, beq_self_eq_true, and_true]
    exact ⟨⟨hp.1, hn.1⟩, evalOk_fmtTy ss cur hc _ hp.2⟩
  | map i v m =>
    simp only [objPrintable, Bool.and_eq_true] at hp
    refine ⟨_, by simp only [objDecl]; rfl, ?_, by simp [bodyOf]⟩
    simp only [declOk, htyping, Bool.and_eq_true, beq_self_eq_true, and_true]
    exact ⟨⟨hp.1, hn.1⟩, evalOk_fmtTy ss cur hc _ hp.2⟩
  | disj bs i m =>
    simp only [objPrintable, Bool.and_eq_true] at hp
    refine ⟨_, by simp only [objDecl]; rfl, ?_, by simp [bodyOf]⟩
    simp only [declOk, htyping, Bool.and_eq_true, beq_self_eq_true, and_true]
    exact ⟨⟨hp.1, hn.1⟩, evalOk_fmtTy ss cur hc _ hp.2⟩
  | inter bs m => simp [objPrintable, tyOk] at hp
  | slot v m => simp [objPrintable, tyOk] at hp
  | bad k m => simp [objPrintable, tyOk] at hp

/-- the object list -/
theorem objDecls_ok (cfg : Cfg) (ss : Schemas) (cur : String) (hc : cur ≠ "typing") (he : cur ≠ "enum") :
    ∀ os : List (String × Obj), objsPrintable cfg ss cur os = true → objsNamesOk cfg os = true →
      ∃ ds, objDecls cfg ss cur os = .ok ds ∧ declsOk ss ds = true ∧
        (∀ d ∈ ds, declOk ss d = true ∧ ∀ st ∈ bodyOf d, ∀ a ∈ stmtAliases st, aliasOk ss a = true)
  | [], _, _ => ⟨[], rfl, rfl, by simp⟩
  | (k, o) :: os, hp, hn => by
    simp only [objsPrintable, Bool.and_eq_true] at hp
    simp only [objsNamesOk, Bool.and_eq_true] at hn
    obtain ⟨d, hd, hdok, hdb⟩ := objDecl_ok cfg ss cur hc he o hp.1 hn.1
    obtain ⟨ds, hds, hdsok, hall⟩ := objDecls_ok cfg ss cur hc he os hp.2 hn.2
    refine ⟨d :: ds, by simp only [objDecls, hd, hds], by simp [declsOk, hdok, hdsok], ?_⟩
    intro x hx
    simp only [List.mem_cons] at hx
    rcases hx with hx | hx
    · subst hx; exact ⟨hdok, hdb⟩
    · exact hall x hx

theorem declsCrash_none (ss : Schemas) : ∀ ds : List PyDecl, (∀ d ∈ ds, declOk ss d = true) → declsCrash ds = none
  | [], _ => rfl
  | d :: ds, h => by
    have hd := declOk_noCrash ss d (h d (List.mem_cons_self ..))
    have ih := declsCrash_none ss ds (fun x hx => h x (List.mem_cons_of_mem _ hx))
    cases d with
    | crash s => exact absurd rfl (hd.2 s)
    | _ => simp [declsCrash, hd.1, ih]

theorem declsAliases_ok (ss : Schemas) : ∀ ds : List PyDecl,
    (∀ d ∈ ds, declOk ss d = true ∧ ∀ st ∈ bodyOf d, ∀ a ∈ stmtAliases st, aliasOk ss a = true) →
    ∀ a ∈ declsAliases ds, aliasOk ss a = true
  | [], _ => by simp [declsAliases]
  | d :: ds, h => by
    intro a ha
    simp only [declsAliases, List.mem_append] at ha
    rcases ha with ha | ha
    · have := h d (List.mem_cons_self ..)
      exact declOk_aliases ss d this.1 this.2 a ha
    · exact declsAliases_ok ss ds (fun x hx => h x (List.mem_cons_of_mem _ hx)) a ha

/-- the module: the printers finish and the checker accepts what they print -/
theorem pyDecl_wellformed (cfg : Cfg) (ss : Schemas) (s : Schema)
    (hp : PyPrintable cfg ss s = true) (hn : wfNamesPy cfg s = true) :
    ∃ m, pyDeclRender cfg ss s = .ok m ∧ pyDeclCheck ss m = true := by
  simp only [PyPrintable, Bool.and_eq_true, Bool.not_eq_true', reservedPkgs] at hp
  have hc : s.pkg ≠ "typing" := by intro h; rw [h] at hp; exact absurd hp.1 (by decide)
  have he : s.pkg ≠ "enum" := by intro h; rw [h] at hp; exact absurd hp.1 (by decide)
  obtain ⟨ds, hds, hdsok, hall⟩ := objDecls_ok cfg ss s.pkg hc he s.objects hp.2 hn
  have hcr := declsCrash_none ss ds (fun d hd => (hall d hd).1)
  have hal := declsAliases_ok ss ds hall
  have him := imports_ok ss s.pkg ds hal
  refine ⟨_, by simp only [pyDeclRender, hds, hcr]; rfl, ?_⟩
  simp only [pyDeclCheck, Bool.and_eq_true]
  exact ⟨⟨him.1, him.2⟩, hdsok⟩

end Cog.Sem.PyDecl
