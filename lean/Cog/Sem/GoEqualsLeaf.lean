/-
  C13 helper lemmas, part 4: two well-typed values that differ in exactly one leaf (at any
  depth) are never `Equals`.
-/
import Cog.Sem.GoEqualsLaws
namespace Cog.Sem.GoEq
open Cog.IR Cog.Sem.GoVal

/-- `LeafDiff a b`: `b` is `a` with exactly one leaf changed — a scalar with another payload, an
    `any` holding another generic value, or an optional position switched between absent (nil)
    and present; everything around that leaf is identical. -/
inductive LeafDiff : GoVal → GoVal → Prop
  | bool {a b : Bool} : a ≠ b → LeafDiff (.bool a) (.bool b)
  | int {a b : Int} : a ≠ b → LeafDiff (.int a) (.int b)
  | float {a b : Int} : a ≠ b → LeafDiff (.float a) (.float b)
  | str {a b : String} : a ≠ b → LeafDiff (.str a) (.str b)
  | time {a b : String} : a ≠ b → LeafDiff (.time a) (.time b)
  | iface {a b : Json} : ifaceEnc a ≠ ifaceEnc b → LeafDiff (.iface a) (.iface b)
  | nilPtr (v : GoVal) : LeafDiff .nil (.ptr v)
  | ptrNil (v : GoVal) : LeafDiff (.ptr v) .nil
  | nilIface (j : Json) : LeafDiff .nil (.iface j)
  | ifaceNil (j : Json) : LeafDiff (.iface j) .nil
  | ptr {v w : GoVal} : LeafDiff v w → LeafDiff (.ptr v) (.ptr w)
  | slice (pre post : List GoVal) {x y : GoVal} : LeafDiff x y →
      LeafDiff (.slice (pre ++ x :: post)) (.slice (pre ++ y :: post))
  | gomap (pre post : List (String × GoVal)) (k : String) {x y : GoVal} : LeafDiff x y →
      LeafDiff (.gomap (pre ++ (k, x) :: post)) (.gomap (pre ++ (k, y) :: post))
  | struct (pre post : List (String × Bool × GoVal)) (k : String) (om : Bool) {x y : GoVal} :
      LeafDiff x y → LeafDiff (.struct (pre ++ (k, om, x) :: post)) (.struct (pre ++ (k, om, y) :: post))
  | union (pre post : List (String × GoVal)) (k : String) {x y : GoVal} : LeafDiff x y →
      LeafDiff (.union (pre ++ (k, x) :: post)) (.union (pre ++ (k, y) :: post))

theorem leafEq_false_of_diff {x y : GoVal} (hx : isLeafVal x = true) (hy : isLeafVal y = true)
    (hd : LeafDiff x y) : leafEq x y = false := by
  cases hd <;> simp_all [isLeafVal, leafEq]

theorem ptrEq_false_of_diff {nullable : Bool} {eq : GoVal → GoVal → Bool} {ok : GoVal → Bool}
    {a b : GoVal} (ha : ptrOk nullable ok a = true) (hb : ptrOk nullable ok b = true)
    (hd : LeafDiff a b)
    (ih : ∀ x y, ok x = true → ok y = true → LeafDiff x y → eq x y = false) :
    ptrEq nullable eq a b = false := by
  cases nullable
  · simp only [ptrOk, ptrEq, Bool.false_eq_true, if_false] at *
    exact ih a b ha hb hd
  · cases a <;> simp [ptrOk] at ha <;> cases b <;> simp [ptrOk] at hb <;> simp only [ptrEq, if_true]
    case nil.nil => cases hd
    case ptr.ptr x y =>
      cases hd with
      | ptr h => exact ih x y ha hb h

theorem allList_append {p : GoVal → Bool} : ∀ (l₁ l₂ : List GoVal),
    allList p (l₁ ++ l₂) = (allList p l₁ && allList p l₂)
  | [], l₂ => by simp [allList]
  | x :: l₁, l₂ => by simp [allList, allList_append l₁ l₂, Bool.and_assoc]

theorem eqList_false_mid {f : GoVal → GoVal → Bool} {x y : GoVal} (h : f x y = false)
    (post : List GoVal) : ∀ pre : List GoVal, eqList f (pre ++ x :: post) (pre ++ y :: post) = false
  | [] => by simp [eqList, h]
  | p :: pre => by simp [eqList, eqList_false_mid h post pre]

theorem keysOf_append {α} : ∀ (l₁ l₂ : List (String × α)), keysOf (l₁ ++ l₂) = keysOf l₁ ++ keysOf l₂
  | [], _ => rfl
  | (k, _) :: l₁, l₂ => by simp [keysOf, keysOf_append l₁ l₂]

theorem allVals_append {p : GoVal → Bool} : ∀ (l₁ l₂ : List (String × GoVal)),
    allVals p (l₁ ++ l₂) = (allVals p l₁ && allVals p l₂)
  | [], l₂ => by simp [allVals]
  | (k, x) :: l₁, l₂ => by simp [allVals, allVals_append l₁ l₂, Bool.and_assoc]

theorem eqFields_false_mid {f : Ty → GoVal → GoVal → Bool} {w : Ty → GoVal → Bool}
    {k : String} {om : Bool} {x y : GoVal} (post : List (String × Bool × GoVal))
    (ih : ∀ t, w t x = true → w t y = true → f t x y = false) :
    ∀ (pre : List (String × Bool × GoVal)) (fields : List Field),
      wtFields w fields (pre ++ (k, om, x) :: post) = true →
      wtFields w fields (pre ++ (k, om, y) :: post) = true →
      eqFields f fields (pre ++ (k, om, x) :: post) (pre ++ (k, om, y) :: post) = false
  | [], [], h, _ => by simp [wtFields] at h
  | [], fd :: fds, hx, hy => by
    simp only [List.nil_append, wtFields, Bool.and_eq_true] at hx hy
    simp [eqFields, ih _ hx.1.2 hy.1.2]
  | _ :: _, [], h, _ => by simp [wtFields] at h
  | (pk, po, pv) :: pre, fd :: fds, hx, hy => by
    simp only [List.cons_append, wtFields, Bool.and_eq_true] at hx hy
    simp [eqFields, eqFields_false_mid post ih pre fds hx.2 hy.2]

theorem eqBranches_false_mid {f : Ty → GoVal → GoVal → Bool} {w : Ty → GoVal → Bool}
    {k : String} {x y : GoVal} (post : List (String × GoVal))
    (ih : ∀ t, w t x = true → w t y = true → f t x y = false) :
    ∀ (pre : List (String × GoVal)) (fields : List Field),
      wtBranches w fields (pre ++ (k, x) :: post) = true →
      wtBranches w fields (pre ++ (k, y) :: post) = true →
      eqBranches f fields (pre ++ (k, x) :: post) (pre ++ (k, y) :: post) = false
  | [], [], h, _ => by simp [wtBranches] at h
  | [], fd :: fds, hx, hy => by
    simp only [List.nil_append, wtBranches, Bool.and_eq_true] at hx hy
    simp [eqBranches, ih _ hx.1.2 hy.1.2]
  | _ :: _, [], h, _ => by simp [wtBranches] at h
  | (pk, pv) :: pre, fd :: fds, hx, hy => by
    simp only [List.cons_append, wtBranches, Bool.and_eq_true] at hx hy
    simp [eqBranches, eqBranches_false_mid post ih pre fds hx.2 hy.2]

theorem goEquals_false_of_leafDiff : ∀ (fuel : Nat) (ss : Schemas) (t : Ty) (a b : GoVal),
    wt fuel ss t a = true → wt fuel ss t b = true → LeafDiff a b → goEquals fuel ss t a b = false
  | 0, _, _, _, _, h, _, _ => by simp [wt] at h
  | fuel + 1, ss, t, a, b, ha, hb, hd => by
    have ih := goEquals_false_of_leafDiff fuel ss
    unfold wt at ha hb
    unfold goEquals
    cases hcl : classify ss t <;> simp only [hcl] at ha hb ⊢
    case any =>
      cases a <;> simp at ha <;> cases b <;> simp at hb <;> simp only [deepEqual]
      case nil.nil => cases hd
      case iface.iface j1 j2 =>
        cases hd with
        | iface h => exact jbeq_false_of_ne h
    case leaf kind dt nullable =>
      exact ptrEq_false_of_diff ha hb hd fun x y hx hy h =>
        leafEq_false_of_diff (leafOk_isLeaf hx) (leafOk_isLeaf hy) h
    case arr e =>
      cases a <;> simp at ha <;> cases b <;> simp at hb <;> simp only [elems]
      case nil.nil => cases hd
      case nil.slice => cases hd
      case slice.nil => cases hd
      case slice.slice xs ys =>
        cases hd with
        | slice pre post h =>
          simp only [allList_append, allList, Bool.and_eq_true] at ha hb
          exact eqList_false_mid (ih e _ _ ha.2.1 hb.2.1 h) post pre
    case map e =>
      cases a <;> simp at ha <;> cases b <;> simp at hb <;> simp only [entries]
      case nil.nil => cases hd
      case nil.gomap => cases hd
      case gomap.nil => cases hd
      case gomap.gomap xs ys =>
        cases hd with
        | gomap pre post k h =>
          rename_i x y
          have dy := (nodupKeys_iff _).1 hb.1
          simp only [allVals_append, allVals, Bool.and_eq_true] at ha hb
          have fx := ih e x y ha.2.2.1 hb.2.2.1 h
          cases hres : (pre ++ (k, x) :: post).length == (pre ++ (k, y) :: post).length &&
              eqEntries (goEquals fuel ss e) (goZero fuel ss e) (pre ++ (k, y) :: post)
                (pre ++ (k, x) :: post) with
          | false => rfl
          | true =>
            simp only [Bool.and_eq_true] at hres
            have := (eqEntries_iff.1 hres.2) k x (by simp)
            rw [lookupV_of_mem (v := y) dy (by simp)] at this
            simp only [Option.getD_some] at this
            rw [fx] at this
            cases this
    case struct fields nullable =>
      refine ptrEq_false_of_diff ha hb hd fun x y hx hy h => ?_
      cases x <;> simp at hx; cases y <;> simp at hy
      simp only [structEq]
      cases h with
      | struct pre post k om h' =>
        exact eqFields_false_mid post (fun t wx wy => ih t _ _ wx wy h') pre fields hx.2 hy.2
    case union fields nullable =>
      refine ptrEq_false_of_diff ha hb hd fun x y hx hy h => ?_
      cases x <;> simp at hx; cases y <;> simp at hy
      simp only [unionEq]
      cases h with
      | union pre post k h' =>
        exact eqBranches_false_mid post (fun t wx wy => ih t _ _ wx wy h') pre fields hx.1 hy.1
    case alias t' => exact ih t' a b ha hb hd
    case collPtr t' => simp [ih t' a b ha hb hd]

end Cog.Sem.GoEq
