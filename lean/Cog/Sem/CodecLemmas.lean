/-
  Helper lemmas for the C01 round-trip theorem (Cog/Props/C01.lean).
-/
import Cog.Sem.Den
import Cog.Basic.All2
namespace Cog.Sem
open Cog.IR

/-! ### `sub` -/

theorem sub_null_right {x : Json} (h : Json.sub x .null = true) : x = .null := by
  cases x <;> simp_all [Json.sub]

theorem sub_nonnull {a b : Json} (h : Json.sub a b = true) (ha : a.isNull = false) : b.isNull = false := by
  cases a <;> cases b <;> simp_all [Json.sub, Json.isNull]

theorem subMembers_iff (ms ms' : List (String × Json)) :
    Json.subMembers ms ms' = true ↔
      ∀ kv ∈ ms, kv.2.isNull = true ∨ ∃ v', Json.lookup kv.1 ms' = some v' ∧ Json.sub kv.2 v' = true := by
  induction ms with
  | nil => simp [Json.subMembers]
  | cons e t ih =>
    obtain ⟨k, v⟩ := e
    simp only [Json.subMembers, Bool.and_eq_true, Bool.or_eq_true, ih, List.mem_cons, forall_eq_or_imp]
    constructor
    · rintro ⟨h1, h2⟩
      refine ⟨?_, h2⟩
      cases h1 with
      | inl h => exact Or.inl h
      | inr h =>
        right
        cases hl : Json.lookup k ms' with
        | none => simp [hl] at h
        | some v' => simp [hl] at h; exact ⟨v', rfl, h⟩
    · rintro ⟨h1, h2⟩
      refine ⟨?_, h2⟩
      cases h1 with
      | inl h => exact Or.inl h
      | inr h =>
        right
        obtain ⟨v', hl, hs⟩ := h
        simp [hl, hs]

theorem subList_iff (xs ys : List Json) :
    Json.subList xs ys = true ↔ All2 (fun x y => Json.sub x y = true) xs ys := by
  induction xs generalizing ys with
  | nil => cases ys <;> simp [Json.subList]
  | cons x xs ih =>
    cases ys with
    | nil => simp [Json.subList]
    | cons y ys => simp [Json.subList, ih]

/-! ### lookup -/

theorem lookup_of_mem_nodup {k : String} {v : Json} {l : List (String × Json)}
    (nd : keysNodup l = true) (h : (k, v) ∈ l) : Json.lookup k l = some v := by
  induction l with
  | nil => simp at h
  | cons e t ih =>
    obtain ⟨k', v'⟩ := e
    simp only [keysNodup, Bool.and_eq_true, Bool.not_eq_true', List.any_eq_false] at nd
    cases List.mem_cons.1 h with
    | inl e => cases e; simp [Json.lookup]
    | inr ht =>
      have hne : ¬ k' = k := by
        intro c; subst c
        have := nd.1 (k', v) ht
        simp at this
      simp [Json.lookup, hne, ih nd.2 ht]

theorem mem_of_lookup {k : String} {v : Json} {l : List (String × Json)}
    (h : Json.lookup k l = some v) : (k, v) ∈ l := by
  induction l with
  | nil => simp [Json.lookup] at h
  | cons e t ih =>
    obtain ⟨k', v'⟩ := e
    by_cases c : k' = k
    · subst c; simp [Json.lookup] at h; subst h; simp
    · simp [Json.lookup, c] at h; exact List.mem_cons_of_mem _ (ih h)

theorem lookup_insertSorted (k k' : String) (v : Json) (l : List (String × Json)) :
    Json.lookup k' (Json.insertSorted k v l) = if k = k' then some v else Json.lookup k' l := by
  induction l with
  | nil => by_cases c : k = k' <;> simp [Json.insertSorted, Json.lookup, c]
  | cons e t ih =>
    obtain ⟨a, b⟩ := e
    simp only [Json.insertSorted]
    split
    · by_cases c : k = k' <;> simp [Json.lookup, c]
    · split
      · rename_i h1 h2
        subst h2
        by_cases c : k = k' <;> simp [Json.lookup, c]
      · rename_i h1 h2
        by_cases c : k = k'
        · subst c
          have : ¬ a = k := fun e => h2 e.symm
          simp [Json.lookup, this, ih]
        · by_cases d : a = k' <;> simp [Json.lookup, d, ih, c]

theorem mem_insertSorted {k : String} {v : Json} {l : List (String × Json)} {e : String × Json}
    (h : e ∈ Json.insertSorted k v l) : e = (k, v) ∨ e ∈ l := by
  induction l with
  | nil => simp [Json.insertSorted] at h; exact Or.inl h
  | cons a t ih =>
    obtain ⟨a1, a2⟩ := a
    simp only [Json.insertSorted] at h
    split at h
    · cases List.mem_cons.1 h with
      | inl c => exact Or.inl c
      | inr c => exact Or.inr c
    · split at h
      · cases List.mem_cons.1 h with
        | inl c => exact Or.inl c
        | inr c => exact Or.inr (List.mem_cons_of_mem _ c)
      · cases List.mem_cons.1 h with
        | inl c => exact Or.inr (by simp [c])
        | inr c =>
          cases ih c with
          | inl d => exact Or.inl d
          | inr d => exact Or.inr (List.mem_cons_of_mem _ d)

/-! ### mapRes -/

theorem mapRes_ok {α β} (f : α → DRes β) (xs : List α) (ys : List β) :
    mapRes f xs = .ok ys ↔ All2 (fun x y => f x = .ok y) xs ys := by
  induction xs generalizing ys with
  | nil => cases ys <;> simp [mapRes]
  | cons x xs ih =>
    simp only [mapRes]
    cases hx : f x with
    | ok y =>
      simp only [DRes.bind]
      cases hr : mapRes f xs with
      | ok ys' =>
        simp only [DRes.bind]
        cases ys with
        | nil => simp
        | cons y' ys'' =>
          simp only [DRes.ok.injEq, List.cons.injEq, All2.cons_cons]
          constructor
          · rintro ⟨rfl, rfl⟩; exact ⟨hx, (ih _).1 hr⟩
          · rintro ⟨h1, h2⟩
            have e1 : y = y' := by rw [hx] at h1; cases h1; rfl
            have := (ih _).2 h2
            rw [hr] at this; cases this
            exact ⟨e1, rfl⟩
      | err | unsup _ | fuel =>
        simp only [DRes.bind]
        constructor
        · intro h; cases h
        · intro h
          cases ys with
          | nil => cases h
          | cons y' ys'' =>
            have := (ih _).2 (All2.cons_cons.1 h).2
            rw [hr] at this; cases this
    | err | unsup _ | fuel =>
      simp only [DRes.bind]
      constructor
      · intro h; cases h
      · intro h
        cases ys with
        | nil => cases h
        | cons y' ys'' =>
          have := (All2.cons_cons.1 h).1
          rw [hx] at this; cases this

theorem mapRes_exists {α β} (f : α → DRes β) (xs : List α)
    (h : ∀ x ∈ xs, ∃ y, f x = .ok y) : ∃ ys, mapRes f xs = .ok ys := by
  induction xs with
  | nil => exact ⟨[], rfl⟩
  | cons x xs ih =>
    obtain ⟨y, hy⟩ := h x (by simp)
    obtain ⟨ys, hys⟩ := ih (fun x hx => h x (by simp [hx]))
    exact ⟨y :: ys, by simp [mapRes, hy, hys, DRes.bind]⟩

end Cog.Sem
