/-
  C13 helper lemmas, part 3: `Equals` versus `json.Marshal`.
    * `goEquals_enc`     : equal values encode to the same JSON once nil/empty collections are
                           identified (given no zero-equal map entries on the receiver's side);
    * `goEquals_of_enc`  : values with the same encoding are equal (given shared time locations
                           and the same active union branches).
  Key facts about `encoding/json`'s key-sorted map encoding (`encMap` = insertion sort): the
  result is strictly sorted, and a strictly sorted member list is determined by its lookups.
-/
import Cog.Sem.GoEqualsLaws
namespace Cog.Sem
open Cog.IR Cog.Sem.GoVal

/-! ### sorted member lists -/

/-- strictly increasing keys -/
def SortedKeys : List (String × Json) → Prop
  | [] => True
  | (k, _) :: t => (∀ k' v', (k', v') ∈ t → k < k') ∧ SortedKeys t

theorem jlookup_insertSorted (k k' : String) (v : Json) :
    ∀ l : List (String × Json),
      Json.lookup k' (Json.insertSorted k v l) = if k = k' then some v else Json.lookup k' l
  | [] => by simp [Json.insertSorted, Json.lookup]
  | (k1, v1) :: t => by
    simp only [Json.insertSorted]
    by_cases h1 : k < k1
    · simp [h1, Json.lookup]
    · by_cases h2 : k = k1
      · subst h2
        simp only [String.lt_irrefl, if_false, if_true, Json.lookup]
        by_cases h3 : k = k' <;> simp [h3]
      · simp only [h1, h2, if_false, Json.lookup, jlookup_insertSorted k k' v t]
        by_cases h3 : k1 = k'
        · have : ¬ k = k' := fun e => h2 (e.trans h3.symm)
          simp [h3, this]
        · simp [h3]

theorem mem_insertSorted {k : String} {v : Json} {e : String × Json} :
    ∀ {l : List (String × Json)}, e ∈ Json.insertSorted k v l → e = (k, v) ∨ e ∈ l
  | [], h => by simpa [Json.insertSorted] using h
  | (k1, v1) :: t, h => by
    simp only [Json.insertSorted] at h
    by_cases h1 : k < k1
    · simp only [h1, if_true, List.mem_cons] at h
      rcases h with h | h | h
      · exact Or.inl h
      · exact Or.inr (by simp [h])
      · exact Or.inr (List.mem_cons_of_mem _ h)
    · by_cases h2 : k = k1
      · subst h2
        simp only [String.lt_irrefl, if_false, if_true, List.mem_cons] at h
        rcases h with h | h
        · exact Or.inl h
        · exact Or.inr (List.mem_cons_of_mem _ h)
      · simp only [h1, h2, if_false, List.mem_cons] at h
        rcases h with h | h
        · exact Or.inr (by simp [h])
        · rcases mem_insertSorted h with h | h
          · exact Or.inl h
          · exact Or.inr (List.mem_cons_of_mem _ h)

theorem insertSorted_sorted (k : String) (v : Json) :
    ∀ l : List (String × Json), SortedKeys l → SortedKeys (Json.insertSorted k v l)
  | [], _ => by simp [Json.insertSorted, SortedKeys]
  | (k1, v1) :: t, hs => by
    simp only [Json.insertSorted]
    obtain ⟨h1s, hts⟩ := hs
    by_cases h1 : k < k1
    · simp only [h1, if_true, SortedKeys]
      refine ⟨?_, h1s, hts⟩
      intro k' v' hm
      cases List.mem_cons.1 hm with
      | inl e => cases e; exact h1
      | inr e => exact String.lt_trans h1 (h1s k' v' e)
    · by_cases h2 : k = k1
      · subst h2
        simp only [String.lt_irrefl, if_false, if_true, SortedKeys]
        exact ⟨h1s, hts⟩
      · simp only [h1, h2, if_false, SortedKeys]
        have hlt : k1 < k := by
          rcases String.le_total k k1 with h | h
          · exact absurd (String.le_antisymm h (String.not_lt.1 h1)) h2
          · rcases Decidable.em (k1 < k) with h' | h'
            · exact h'
            · exact absurd (String.le_antisymm (String.not_lt.1 h') h) h2
        refine ⟨?_, insertSorted_sorted k v t hts⟩
        intro k' v' hm
        rcases mem_insertSorted hm with e | e
        · cases e; exact hlt
        · exact h1s k' v' e

theorem jlookup_none_of_lt {k : String} :
    ∀ {l : List (String × Json)}, (∀ k' v', (k', v') ∈ l → k < k') → Json.lookup k l = none
  | [], _ => rfl
  | (k1, v1) :: t, h => by
    have h1 : k < k1 := h k1 v1 (by simp)
    have : ¬ k1 = k := fun e => String.lt_irrefl k (e ▸ h1)
    simp only [Json.lookup, this, if_false]
    exact jlookup_none_of_lt fun k' v' hm => h k' v' (List.mem_cons_of_mem _ hm)

/-- a strictly sorted member list is determined by its lookups -/
theorem sorted_ext : ∀ (l₁ l₂ : List (String × Json)), SortedKeys l₁ → SortedKeys l₂ →
    (∀ k, Json.lookup k l₁ = Json.lookup k l₂) → l₁ = l₂
  | [], [], _, _, _ => rfl
  | [], (k2, v2) :: t2, _, _, h => by have := h k2; simp [Json.lookup] at this
  | (k1, v1) :: t1, [], _, _, h => by have := h k1; simp [Json.lookup] at this
  | (k1, v1) :: t1, (k2, v2) :: t2, s1, s2, h => by
    obtain ⟨a1, b1⟩ := s1
    obtain ⟨a2, b2⟩ := s2
    have hk : k1 = k2 := by
      rcases Decidable.em (k1 = k2) with e | ne
      · exact e
      · exfalso
        rcases Decidable.em (k1 < k2) with lt | nlt
        · have := h k1
          have ne' : ¬ k2 = k1 := fun e => ne e.symm
          simp only [Json.lookup, if_true, ne', if_false] at this
          rw [jlookup_none_of_lt fun k' v' hm => String.lt_trans lt (a2 k' v' hm)] at this
          cases this
        · have lt : k2 < k1 := by
            rcases Decidable.em (k2 < k1) with h' | h'
            · exact h'
            · exact absurd (String.le_antisymm (String.not_lt.1 h') (String.not_lt.1 nlt)) ne
          have := h k2
          simp only [Json.lookup, if_true, ne, if_false] at this
          rw [jlookup_none_of_lt fun k' v' hm => String.lt_trans lt (a1 k' v' hm)] at this
          cases this
    subst hk
    have hv : v1 = v2 := by have := h k1; simpa [Json.lookup] using this
    subst hv
    have ht : t1 = t2 := by
      refine sorted_ext t1 t2 b1 b2 fun k => ?_
      by_cases e : k1 = k
      · subst e; rw [jlookup_none_of_lt a1, jlookup_none_of_lt a2]
      · have := h k; simpa [Json.lookup, e] using this
    rw [ht]

/-! ### the encoding of maps -/

theorem encMap_sorted : ∀ l : List (String × GoVal), SortedKeys (encMap l)
  | [] => by simp [encMap, SortedKeys]
  | (k, v) :: t => by simp only [encMap]; exact insertSorted_sorted _ _ _ (encMap_sorted t)

theorem jlookup_encMap (k : String) :
    ∀ l : List (String × GoVal), Json.lookup k (encMap l) = (lookupV k l).map goEncode
  | [] => by simp [encMap, Json.lookup, lookupV]
  | (k1, v1) :: t => by
    simp only [encMap, jlookup_insertSorted, lookupV, jlookup_encMap k t]
    by_cases e : k1 = k <;> simp [e]

/-- maps with the same lookups (after encoding) have the same encoding -/
theorem encMap_ext {l₁ l₂ : List (String × GoVal)}
    (h : ∀ k, (lookupV k l₁).map goEncode = (lookupV k l₂).map goEncode) : encMap l₁ = encMap l₂ :=
  sorted_ext _ _ (encMap_sorted _) (encMap_sorted _) fun k => by
    rw [jlookup_encMap, jlookup_encMap, h k]

theorem encMap_lookup_eq {l₁ l₂ : List (String × GoVal)} (h : encMap l₁ = encMap l₂) (k : String) :
    (lookupV k l₁).map goEncode = (lookupV k l₂).map goEncode := by
  rw [← jlookup_encMap, ← jlookup_encMap, h]

/-! ### `canonNil` -/

theorem canonNil_slice (xs : List GoVal) :
    canonNil (.slice xs) = if xs = [] then .nil else .slice (canonNilList xs) := by
  cases xs <;> simp [canonNil, canonNilList]

theorem canonNil_gomap (kvs : List (String × GoVal)) :
    canonNil (.gomap kvs) = if kvs = [] then .nil else .gomap (canonNilKvs kvs) := by
  cases kvs with
  | nil => simp [canonNil]
  | cons kv t => obtain ⟨k, v⟩ := kv; simp [canonNil, canonNilKvs]

theorem lookupV_canonNilKvs (k : String) :
    ∀ l : List (String × GoVal), lookupV k (canonNilKvs l) = (lookupV k l).map canonNil
  | [] => by simp [canonNilKvs, lookupV]
  | (k1, v1) :: t => by
    simp only [canonNilKvs, lookupV, lookupV_canonNilKvs k t]
    by_cases e : k1 = k <;> simp [e]

theorem enc_canon_of_elems {a : GoVal} {xs : List GoVal} (h : elems a = some xs) :
    goEncode (canonNil a) = if xs = [] then Json.null else .arr (encList (canonNilList xs)) := by
  cases a <;> simp [elems] at h
  case nil => subst h; rfl
  case slice vs =>
    subst h
    rw [canonNil_slice]
    by_cases hx : vs = [] <;> simp [hx, goEncode]

theorem enc_canon_of_entries {a : GoVal} {kvs : List (String × GoVal)} (h : entries a = some kvs) :
    goEncode (canonNil a) = if kvs = [] then Json.null else .obj (encMap (canonNilKvs kvs)) := by
  cases a <;> simp [entries] at h
  case nil => subst h; rfl
  case gomap vs =>
    subst h
    rw [canonNil_gomap]
    by_cases hx : vs = [] <;> simp [hx, goEncode]

/-- same emptiness (`omitempty`) and nil-ness (union branch selection) after `canonNil` -/
def ShapeEq (a b : GoVal) : Prop :=
  isEmpty (canonNil a) = isEmpty (canonNil b) ∧ isNil (canonNil a) = isNil (canonNil b)

theorem ptrEq_shape {nullable : Bool} {eq : GoVal → GoVal → Bool} {a b : GoVal}
    (h : ptrEq nullable eq a b = true) (ih : ∀ x y, eq x y = true → ShapeEq x y) : ShapeEq a b := by
  cases nullable
  · simp only [ptrEq, Bool.false_eq_true, if_false] at h; exact ih a b h
  · cases a <;> cases b <;> simp [ptrEq] at h <;> simp [ShapeEq, canonNil, isEmpty, isNil]

theorem eqList_length {f : GoVal → GoVal → Bool} :
    ∀ {xs ys : List GoVal}, eqList f xs ys = true → xs.length = ys.length
  | [], [], _ => rfl
  | [], _ :: _, h => by simp [eqList] at h
  | _ :: _, [], h => by simp [eqList] at h
  | _ :: xs, _ :: ys, h => by
    simp only [eqList, Bool.and_eq_true] at h
    simp [eqList_length h.2]

theorem shape_of_equals : ∀ (fuel : Nat) (ss : Schemas) (t : Ty) (a b : GoVal),
    goEquals fuel ss t a b = true → ShapeEq a b
  | 0, _, _, _, _, h => by simp [goEquals] at h
  | fuel + 1, ss, t, a, b, h => by
    unfold goEquals at h
    cases hcl : classify ss t <;> simp only [hcl] at h
    case unsup => cases h
    case any =>
      cases a <;> cases b <;> simp [deepEqual] at h <;> simp [ShapeEq, canonNil, isEmpty, isNil]
    case leaf kind dt nullable =>
      refine ptrEq_shape h fun x y hxy => ?_
      rw [leafEq_eq hxy]; exact ⟨rfl, rfl⟩
    case arr e =>
      cases a <;> cases b <;> simp [elems] at h
      case nil.nil => exact ⟨rfl, rfl⟩
      case nil.slice ys =>
        have := eqList_length h
        cases ys <;> simp_all [ShapeEq, canonNil, isEmpty, isNil]
      case slice.nil xs =>
        have := eqList_length h
        cases xs <;> simp_all [ShapeEq, canonNil, isEmpty, isNil]
      case slice.slice xs ys =>
        have := eqList_length h
        cases xs <;> cases ys <;> simp_all [ShapeEq, canonNil, isEmpty, isNil]
    case map e =>
      cases a <;> cases b <;> simp [entries] at h
      case nil.nil => exact ⟨rfl, rfl⟩
      case nil.gomap ys =>
        cases ys <;> simp_all [ShapeEq, canonNil, isEmpty, isNil]
      case gomap.nil xs =>
        cases xs <;> simp_all [ShapeEq, canonNil, isEmpty, isNil]
      case gomap.gomap xs ys =>
        have hl := h.1
        rcases xs with _ | ⟨⟨kx, vx⟩, xs⟩ <;> rcases ys with _ | ⟨⟨ky, vy⟩, ys⟩ <;>
          simp_all [ShapeEq, canonNil, isEmpty, isNil]
    case struct fields nullable =>
      refine ptrEq_shape h fun x y hxy => ?_
      cases x <;> cases y <;> simp [structEq] at hxy
      simp [ShapeEq, canonNil, isEmpty, isNil]
    case union fields nullable =>
      refine ptrEq_shape h fun x y hxy => ?_
      cases x <;> cases y <;> simp [unionEq] at hxy
      simp [ShapeEq, canonNil, isEmpty, isNil]
    case alias t' => exact shape_of_equals fuel ss t' a b h

/-! ### equal values have the same encoding up to nil/empty collections -/

theorem ptrEq_enc {nullable : Bool} {eq : GoVal → GoVal → Bool} {oka okb nza : GoVal → Bool}
    {a b : GoVal}
    (ha : ptrOk nullable oka a = true) (hb : ptrOk nullable okb b = true)
    (na : ptrAll nullable nza a = true)
    (ih : ∀ x y, oka x = true → okb y = true → nza x = true → eq x y = true →
      goEncode (canonNil x) = goEncode (canonNil y))
    (hab : ptrEq nullable eq a b = true) : goEncode (canonNil a) = goEncode (canonNil b) := by
  cases nullable
  · simp only [ptrOk, ptrAll, ptrEq, Bool.false_eq_true, if_false] at *
    exact ih a b ha hb na hab
  · cases a <;> cases b <;> simp [ptrEq] at hab
    case nil.nil => rfl
    case ptr.ptr x y =>
      simp only [ptrOk, ptrAll, if_true] at ha hb na
      simp only [canonNil, goEncode]
      exact ih x y ha hb na hab

theorem encList_canon {f : GoVal → GoVal → Bool} {w n : GoVal → Bool}
    (ih : ∀ x y, w x = true → w y = true → n x = true → f x y = true →
      goEncode (canonNil x) = goEncode (canonNil y)) :
    ∀ xs ys, allList w xs = true → allList w ys = true → allList n xs = true →
      eqList f xs ys = true → encList (canonNilList xs) = encList (canonNilList ys)
  | [], [], _, _, _, _ => rfl
  | [], _ :: _, _, _, _, h => by simp [eqList] at h
  | _ :: _, [], _, _, _, h => by simp [eqList] at h
  | x :: xs, y :: ys, wx, wy, nx, h => by
    simp only [allList, eqList, Bool.and_eq_true] at *
    simp only [canonNilList, encList]
    rw [ih x y wx.1 wy.1 nx.1 h.1, encList_canon ih xs ys wx.2 wy.2 nx.2 h.2]

theorem encFields_canon {f : Ty → GoVal → GoVal → Bool} {w n : Ty → GoVal → Bool}
    (ih : ∀ t x y, w t x = true → w t y = true → n t x = true → f t x y = true →
      goEncode (canonNil x) = goEncode (canonNil y))
    (sh : ∀ t x y, f t x y = true → ShapeEq x y) :
    ∀ fields xs ys, wtFields w fields xs = true → wtFields w fields ys = true →
      nzFields n fields xs = true → eqFields f fields xs ys = true →
      encFields (canonNilFields xs) = encFields (canonNilFields ys)
  | [], [], [], _, _, _, _ => rfl
  | [], _ :: _, _, h, _, _, _ => by simp [wtFields] at h
  | [], [], _ :: _, _, h, _, _ => by simp [wtFields] at h
  | _ :: _, [], _, h, _, _, _ => by simp [wtFields] at h
  | _ :: _, _ :: _, [], _, h, _, _ => by simp [wtFields] at h
  | fd :: fds, (kx, ox, x) :: xs, (ky, oy, y) :: ys, wx, wy, nx, h => by
    simp only [wtFields, nzFields, eqFields, Bool.and_eq_true, beq_iff_eq] at *
    simp only [canonNilFields, encFields]
    rw [ih _ x y wx.1.2 wy.1.2 nx.1 h.1, (sh _ x y h.1).1,
      encFields_canon ih sh fds xs ys wx.2 wy.2 nx.2 h.2, wx.1.1.1, wx.1.1.2, wy.1.1.1, wy.1.1.2]

theorem encUnion_canon {f : Ty → GoVal → GoVal → Bool} {w n : Ty → GoVal → Bool}
    (ih : ∀ t x y, w t x = true → w t y = true → n t x = true → f t x y = true →
      goEncode (canonNil x) = goEncode (canonNil y))
    (sh : ∀ t x y, f t x y = true → ShapeEq x y) :
    ∀ fields xs ys, wtBranches w fields xs = true → wtBranches w fields ys = true →
      nzBranches n fields xs = true → eqBranches f fields xs ys = true →
      encUnion (canonNilKvs xs) = encUnion (canonNilKvs ys)
  | [], [], [], _, _, _, _ => rfl
  | [], _ :: _, _, h, _, _, _ => by simp [wtBranches] at h
  | [], [], _ :: _, _, h, _, _ => by simp [wtBranches] at h
  | _ :: _, [], _, h, _, _, _ => by simp [wtBranches] at h
  | _ :: _, _ :: _, [], _, h, _, _ => by simp [wtBranches] at h
  | fd :: fds, (kx, x) :: xs, (ky, y) :: ys, wx, wy, nx, h => by
    simp only [wtBranches, nzBranches, eqBranches, Bool.and_eq_true, beq_iff_eq] at *
    simp only [canonNilKvs, encUnion]
    rw [ih _ x y wx.1.2 wy.1.2 nx.1 h.1, (sh _ x y h.1).2,
      encUnion_canon ih sh fds xs ys wx.2 wy.2 nx.2 h.2]

/-- with no zero-equal value on the receiver's side, the map loop forces equal key sets -/
theorem eqEntries_keys {f : GoVal → GoVal → Bool} {z : GoVal} {xs ys : List (String × GoVal)}
    (dx : (keysOf xs).Nodup) (hl : xs.length = ys.length)
    (nz : ∀ k v, (k, v) ∈ xs → f v z = false)
    (h : eqEntries f z ys xs = true) : keysOf ys ⊆ keysOf xs := by
  rw [eqEntries_iff] at h
  have sub : keysOf xs ⊆ keysOf ys := by
    intro k hk
    obtain ⟨v, lv⟩ := lookupV_some_of_key hk
    have hm := mem_of_lookupV lv
    obtain ⟨v', lv', _⟩ := entry_present (nz k v hm) (h k v hm)
    exact mem_keysOf (mem_of_lookupV lv')
  exact subset_of_nodup_subset_length_le dx sub
    (by rw [keysOf_length, keysOf_length, hl]; exact Nat.le_refl _)

theorem goEquals_enc : ∀ (fuel : Nat) (ss : Schemas) (t : Ty) (a b : GoVal),
    wt fuel ss t a = true → wt fuel ss t b = true → mapsNonZero fuel ss t a = true →
    goEquals fuel ss t a b = true → goEncode (canonNil a) = goEncode (canonNil b)
  | 0, _, _, _, _, h, _, _, _ => by simp [wt] at h
  | fuel + 1, ss, t, a, b, ha, hb, na, hab => by
    have ih := goEquals_enc fuel ss
    have sh := shape_of_equals fuel ss
    unfold wt at ha hb
    unfold mapsNonZero at na
    unfold goEquals at hab
    cases hcl : classify ss t <;> simp only [hcl] at ha hb na hab
    case unsup => cases ha
    case any =>
      cases a <;> cases b <;> simp [deepEqual] at hab
      case nil.nil => rfl
      case iface.iface j1 j2 => simp only [canonNil, goEncode]; exact jbeq_eq _ _ hab
    case leaf kind dt nullable =>
      refine ptrEq_enc (nza := fun _ => true) ha hb (ptrAll_true _ _) ?_ hab
      intro x y _ _ _ h
      rw [leafEq_eq h]
    case arr e =>
      obtain ⟨xs, ex, wx⟩ := wt_arr_elems ha
      obtain ⟨ys, ey, wy⟩ := wt_arr_elems hb
      have nx := nz_arr_elems na ex
      simp only [ex, ey] at hab
      have hl := eqList_length hab
      have he := encList_canon (ih e) xs ys wx wy nx hab
      rw [enc_canon_of_elems ex, enc_canon_of_elems ey, he]
      by_cases hx : xs = []
      · have : ys = [] := List.eq_nil_of_length_eq_zero (by rw [← hl, hx]; rfl)
        simp [hx, this]
      · have hy : ys ≠ [] := fun c => hx (List.eq_nil_of_length_eq_zero (by rw [hl, c]; rfl))
        simp [hx, hy]
    case map e =>
      obtain ⟨xs, ex, dx, wx⟩ := wt_map_entries ha
      obtain ⟨ys, ey, dy, wy⟩ := wt_map_entries hb
      have nx := nz_map_entries na ex
      simp only [ex, ey, Bool.and_eq_true, beq_iff_eq] at hab
      have hl := hab.1
      have nzv : ∀ k v, (k, v) ∈ xs → goEquals fuel ss e v (goZero fuel ss e) = false := by
        intro k v hm
        have nv := allVals_mem nx hm
        simp only [Bool.and_eq_true, Bool.not_eq_true'] at nv
        exact nv.1
      have sub' := eqEntries_keys dx hl nzv hab.2
      have hent := (eqEntries_iff.1 hab.2)
      have he : encMap (canonNilKvs xs) = encMap (canonNilKvs ys) := by
        refine encMap_ext fun k => ?_
        rw [lookupV_canonNilKvs, lookupV_canonNilKvs]
        cases lx : lookupV k xs with
        | none =>
          have : lookupV k ys = none :=
            lookupV_none_iff.2 fun c => (lookupV_none_iff.1 lx) (sub' c)
          rw [this]
        | some v =>
          have hm := mem_of_lookupV lx
          obtain ⟨v', lv', fv⟩ := entry_present (nzv k v hm) (hent k v hm)
          rw [lv']
          have nv := allVals_mem nx hm
          simp only [Bool.and_eq_true] at nv
          simp only [Option.map_some, Option.some.injEq]
          exact ih e v v' (allVals_mem wx hm) (allVals_mem wy (mem_of_lookupV lv')) nv.2 fv
      rw [enc_canon_of_entries ex, enc_canon_of_entries ey, he]
      by_cases hx : xs = []
      · have : ys = [] := List.eq_nil_of_length_eq_zero (by rw [← hl, hx]; rfl)
        simp [hx, this]
      · have hy : ys ≠ [] := fun c => hx (List.eq_nil_of_length_eq_zero (by rw [hl, c]; rfl))
        simp [hx, hy]
    case struct fields nullable =>
      refine ptrEq_enc ha hb na ?_ hab
      intro x y wx wy nx h
      cases x <;> cases y <;> simp [structEq] at h
      simp only [Bool.and_eq_true] at wx wy
      simp only [canonNil, goEncode]
      rw [encFields_canon ih sh fields _ _ wx.2 wy.2 nx h]
    case union fields nullable =>
      refine ptrEq_enc ha hb na ?_ hab
      intro x y wx wy nx h
      cases x <;> cases y <;> simp [unionEq] at h
      simp only [Bool.and_eq_true] at wx wy
      simp only [canonNil, goEncode]
      exact encUnion_canon ih sh fields _ _ wx.1 wy.1 nx h
    case alias t' => exact ih t' a b ha hb na hab

end Cog.Sem
