/-
  C13 helper lemmas, part 3: `Equals` versus `json.Marshal`.
    * `goEquals_enc`     : equal values encode to the same JSON once nil/empty collections are
                           identified (given no zero-equal map entries on the receiver's side);
    * `goEquals_of_enc`  : values with the same encoding are equal (given shared time locations
                           and the same active union branches).
  Key facts about `encoding/json`'s key-sorted map encoding (`encMap` = insertion sort): the
  result is strictly sorted, and a strictly sorted member list is determined by its lookups.
-/
import Cog.Sem.GoEqualsLaws
namespace Cog.Sem.GoEq
open Cog.IR Cog.Sem.GoVal

/-! ### sorted member lists -/

/-- strictly increasing keys -/
def SortedKeys : List (String × Json) → Prop
  | [] => True
  | (k, _) :: t => (∀ k' v', (k', v') ∈ t → k < k') ∧ SortedKeys t

theorem jlookup_insertSorted (k k' : String) (v : Json) :
    ∀ l : List (String × Json),
      Json.lookup k' (Json.insertSorted k v l) = if k = k' then some v else Json.lookup k' l
  | [] => by simp [Json.insertSorted, Json.lookup]
  | (k1, v1) :: t => by
    simp only [Json.insertSorted]
    by_cases h1 : k < k1
    · simp [h1, Json.lookup]
    · by_cases h2 : k = k1
      · subst h2
        simp only [String.lt_irrefl, if_false, if_true, Json.lookup]
        by_cases h3 : k = k' <;> simp [h3]
      · simp only [h1, h2, if_false, Json.lookup, jlookup_insertSorted k k' v t]
        by_cases h3 : k1 = k'
        · have : ¬ k = k' := fun e => h2 (e.trans h3.symm)
          simp [h3, this]
        · simp [h3]

theorem mem_insertSorted {k : String} {v : Json} {e : String × Json} :
    ∀ {l : List (String × Json)}, e ∈ Json.insertSorted k v l → e = (k, v) ∨ e ∈ l
  | [], h => by simpa [Json.insertSorted] using h
  | (k1, v1) :: t, h => by
    simp only [Json.insertSorted] at h
    by_cases h1 : k < k1
    · simp only [h1, if_true, List.mem_cons] at h
      rcases h with h | h | h
      · exact Or.inl h
      · exact Or.inr (by simp [h])
      · exact Or.inr (List.mem_cons_of_mem _ h)
    · by_cases h2 : k = k1
      · subst h2
        simp only [String.lt_irrefl, if_false, if_true, List.mem_cons] at h
        rcases h with h | h
        · exact Or.inl h
        · exact Or.inr (List.mem_cons_of_mem _ h)
      · simp only [h1, h2, if_false, List.mem_cons] at h
        rcases h with h | h
        · exact Or.inr (by simp [h])
        · rcases mem_insertSorted h with h | h
          · exact Or.inl h
          · exact Or.inr (List.mem_cons_of_mem _ h)

theorem insertSorted_sorted (k : String) (v : Json) :
    ∀ l : List (String × Json), SortedKeys l → SortedKeys (Json.insertSorted k v l)
  | [], _ => by simp [Json.insertSorted, SortedKeys]
  | (k1, v1) :: t, hs => by
    simp only [Json.insertSorted]
    obtain ⟨h1s, hts⟩ := hs
    by_cases h1 : k < k1
    · simp only [h1, if_true, SortedKeys]
      refine ⟨?_, h1s, hts⟩
      intro k' v' hm
      cases List.mem_cons.1 hm with
      | inl e => cases e; exact h1
      | inr e => exact String.lt_trans h1 (h1s k' v' e)
    · by_cases h2 : k = k1
      · subst h2
        simp only [String.lt_irrefl, if_false, if_true, SortedKeys]
        exact ⟨h1s, hts⟩
      · simp only [h1, h2, if_false, SortedKeys]
        have hlt : k1 < k := by
          rcases String.le_total k k1 with h | h
          · exact absurd (String.le_antisymm h (String.not_lt.1 h1)) h2
          · rcases Decidable.em (k1 < k) with h' | h'
            · exact h'
            · exact absurd (String.le_antisymm (String.not_lt.1 h') h) h2
        refine ⟨?_, insertSorted_sorted k v t hts⟩
        intro k' v' hm
        rcases mem_insertSorted hm with e | e
        · cases e; exact hlt
        · exact h1s k' v' e

theorem jlookup_none_of_lt {k : String} :
    ∀ {l : List (String × Json)}, (∀ k' v', (k', v') ∈ l → k < k') → Json.lookup k l = none
  | [], _ => rfl
  | (k1, v1) :: t, h => by
    have h1 : k < k1 := h k1 v1 (by simp)
    have : ¬ k1 = k := fun e => String.lt_irrefl k (e ▸ h1)
    simp only [Json.lookup, this, if_false]
    exact jlookup_none_of_lt fun k' v' hm => h k' v' (List.mem_cons_of_mem _ hm)

/-- a strictly sorted member list is determined by its lookups -/
theorem sorted_ext : ∀ (l₁ l₂ : List (String × Json)), SortedKeys l₁ → SortedKeys l₂ →
    (∀ k, Json.lookup k l₁ = Json.lookup k l₂) → l₁ = l₂
  | [], [], _, _, _ => rfl
  | [], (k2, v2) :: t2, _, _, h => by have := h k2; simp [Json.lookup] at this
  | (k1, v1) :: t1, [], _, _, h => by have := h k1; simp [Json.lookup] at this
  | (k1, v1) :: t1, (k2, v2) :: t2, s1, s2, h => by
    obtain ⟨a1, b1⟩ := s1
    obtain ⟨a2, b2⟩ := s2
    have hk : k1 = k2 := by
      rcases Decidable.em (k1 = k2) with e | ne
      · exact e
      · exfalso
        rcases Decidable.em (k1 < k2) with lt | nlt
        · have := h k1
          have ne' : ¬ k2 = k1 := fun e => ne e.symm
          simp only [Json.lookup, if_true, ne', if_false] at this
          rw [jlookup_none_of_lt fun k' v' hm => String.lt_trans lt (a2 k' v' hm)] at this
          cases this
        · have lt : k2 < k1 := by
            rcases Decidable.em (k2 < k1) with h' | h'
            · exact h'
            · exact absurd (String.le_antisymm (String.not_lt.1 h') (String.not_lt.1 nlt)) ne
          have := h k2
          simp only [Json.lookup, if_true, ne, if_false] at this
          rw [jlookup_none_of_lt fun k' v' hm => String.lt_trans lt (a1 k' v' hm)] at this
          cases this
    subst hk
    have hv : v1 = v2 := by have := h k1; simpa [Json.lookup] using this
    subst hv
    have ht : t1 = t2 := by
      refine sorted_ext t1 t2 b1 b2 fun k => ?_
      by_cases e : k1 = k
      · subst e; rw [jlookup_none_of_lt a1, jlookup_none_of_lt a2]
      · have := h k; simpa [Json.lookup, e] using this
    rw [ht]

/-! ### the encoding of maps -/

theorem encMap_sorted : ∀ l : List (String × GoVal), SortedKeys (encMap l)
  | [] => by simp [encMap, SortedKeys]
  | (k, v) :: t => by simp only [encMap]; exact insertSorted_sorted _ _ _ (encMap_sorted t)

theorem jlookup_encMap (k : String) :
    ∀ l : List (String × GoVal), Json.lookup k (encMap l) = (lookupV k l).map goEncode
  | [] => by simp [encMap, Json.lookup, lookupV]
  | (k1, v1) :: t => by
    simp only [encMap, jlookup_insertSorted, lookupV, jlookup_encMap k t]
    by_cases e : k1 = k <;> simp [e]

/-- maps with the same lookups (after encoding) have the same encoding -/
theorem encMap_ext {l₁ l₂ : List (String × GoVal)}
    (h : ∀ k, (lookupV k l₁).map goEncode = (lookupV k l₂).map goEncode) : encMap l₁ = encMap l₂ :=
  sorted_ext _ _ (encMap_sorted _) (encMap_sorted _) fun k => by
    rw [jlookup_encMap, jlookup_encMap, h k]

theorem encMap_lookup_eq {l₁ l₂ : List (String × GoVal)} (h : encMap l₁ = encMap l₂) (k : String) :
    (lookupV k l₁).map goEncode = (lookupV k l₂).map goEncode := by
  rw [← jlookup_encMap, ← jlookup_encMap, h]

/-! ### `canonNil` -/

theorem canonNil_slice (xs : List GoVal) :
    canonNil (.slice xs) = if xs = [] then .nil else .slice (canonNilList xs) := by
  cases xs <;> simp [canonNil, canonNilList]

theorem canonNil_gomap (kvs : List (String × GoVal)) :
    canonNil (.gomap kvs) = if kvs = [] then .nil else .gomap (canonNilKvs kvs) := by
  cases kvs with
  | nil => simp [canonNil]
  | cons kv t => obtain ⟨k, v⟩ := kv; simp [canonNil, canonNilKvs]

theorem lookupV_canonNilKvs (k : String) :
    ∀ l : List (String × GoVal), lookupV k (canonNilKvs l) = (lookupV k l).map canonNil
  | [] => by simp [canonNilKvs, lookupV]
  | (k1, v1) :: t => by
    simp only [canonNilKvs, lookupV, lookupV_canonNilKvs k t]
    by_cases e : k1 = k <;> simp [e]

theorem enc_canon_of_elems {a : GoVal} {xs : List GoVal} (h : elems a = some xs) :
    goEncode (canonNil a) = if xs = [] then Json.null else .arr (encList (canonNilList xs)) := by
  cases a <;> simp [elems] at h
  case nil => subst h; rfl
  case slice vs =>
    subst h
    rw [canonNil_slice]
    by_cases hx : vs = [] <;> simp [hx, goEncode]

theorem enc_canon_of_entries {a : GoVal} {kvs : List (String × GoVal)} (h : entries a = some kvs) :
    goEncode (canonNil a) = if kvs = [] then Json.null else .obj (encMap (canonNilKvs kvs)) := by
  cases a <;> simp [entries] at h
  case nil => subst h; rfl
  case gomap vs =>
    subst h
    rw [canonNil_gomap]
    by_cases hx : vs = [] <;> simp [hx, goEncode]

/-- same emptiness (`omitempty`) and nil-ness (union branch selection) after `canonNil` -/
def ShapeEq (a b : GoVal) : Prop :=
  isEmpty (canonNil a) = isEmpty (canonNil b) ∧ isNil (canonNil a) = isNil (canonNil b)

theorem ptrEq_shape {nullable : Bool} {eq : GoVal → GoVal → Bool} {a b : GoVal}
    (h : ptrEq nullable eq a b = true) (ih : ∀ x y, eq x y = true → ShapeEq x y) : ShapeEq a b := by
  cases nullable
  · simp only [ptrEq, Bool.false_eq_true, if_false] at h; exact ih a b h
  · cases a <;> cases b <;> simp [ptrEq] at h <;> simp [ShapeEq, canonNil, isEmpty, isNil]

theorem eqList_length {f : GoVal → GoVal → Bool} :
    ∀ {xs ys : List GoVal}, eqList f xs ys = true → xs.length = ys.length
  | [], [], _ => rfl
  | [], _ :: _, h => by simp [eqList] at h
  | _ :: _, [], h => by simp [eqList] at h
  | _ :: xs, _ :: ys, h => by
    simp only [eqList, Bool.and_eq_true] at h
    simp [eqList_length h.2]

theorem shape_of_equals : ∀ (fuel : Nat) (ss : Schemas) (t : Ty) (a b : GoVal),
    goEquals fuel ss t a b = true → ShapeEq a b
  | 0, _, _, _, _, h => by simp [goEquals] at h
  | fuel + 1, ss, t, a, b, h => by
    unfold goEquals at h
    cases hcl : classify ss t <;> simp only [hcl] at h
    case unsup => cases h
    case any =>
      cases a <;> cases b <;> simp [deepEqual] at h <;> simp [ShapeEq, canonNil, isEmpty, isNil]
    case leaf kind dt nullable =>
      refine ptrEq_shape h fun x y hxy => ?_
      rw [leafEq_eq hxy]; exact ⟨rfl, rfl⟩
    case arr e =>
      cases a <;> cases b <;> simp [elems] at h
      case nil.nil => exact ⟨rfl, rfl⟩
      case nil.slice ys =>
        have := eqList_length h
        cases ys <;> simp_all [ShapeEq, canonNil, isEmpty, isNil]
      case slice.nil xs =>
        have := eqList_length h
        cases xs <;> simp_all [ShapeEq, canonNil, isEmpty, isNil]
      case slice.slice xs ys =>
        have := eqList_length h
        cases xs <;> cases ys <;> simp_all [ShapeEq, canonNil, isEmpty, isNil]
    case map e =>
      cases a <;> cases b <;> simp [entries] at h
      case nil.nil => exact ⟨rfl, rfl⟩
      case nil.gomap ys =>
        cases ys <;> simp_all [ShapeEq, canonNil, isEmpty, isNil]
      case gomap.nil xs =>
        cases xs <;> simp_all [ShapeEq, canonNil, isEmpty, isNil]
      case gomap.gomap xs ys =>
        have hl := h.1
        rcases xs with _ | ⟨⟨kx, vx⟩, xs⟩ <;> rcases ys with _ | ⟨⟨ky, vy⟩, ys⟩ <;>
          simp_all [ShapeEq, canonNil, isEmpty, isNil]
    case struct fields nullable =>
      refine ptrEq_shape h fun x y hxy => ?_
      cases x <;> cases y <;> simp [structEq] at hxy
      simp [ShapeEq, canonNil, isEmpty, isNil]
    case union fields nullable =>
      refine ptrEq_shape h fun x y hxy => ?_
      cases x <;> cases y <;> simp [unionEq] at hxy
      simp [ShapeEq, canonNil, isEmpty, isNil]
    case alias t' => exact shape_of_equals fuel ss t' a b h
    case collPtr t' =>
      simp only [Bool.and_eq_true] at h
      exact shape_of_equals fuel ss t' a b h.2

/-! ### equal values have the same encoding up to nil/empty collections -/

theorem ptrEq_enc {nullable : Bool} {eq : GoVal → GoVal → Bool} {oka okb nza : GoVal → Bool}
    {a b : GoVal}
    (ha : ptrOk nullable oka a = true) (hb : ptrOk nullable okb b = true)
    (na : ptrAll nullable nza a = true)
    (ih : ∀ x y, oka x = true → okb y = true → nza x = true → eq x y = true →
      goEncode (canonNil x) = goEncode (canonNil y))
    (hab : ptrEq nullable eq a b = true) : goEncode (canonNil a) = goEncode (canonNil b) := by
  cases nullable
  · simp only [ptrOk, ptrAll, ptrEq, Bool.false_eq_true, if_false] at *
    exact ih a b ha hb na hab
  · cases a <;> cases b <;> simp [ptrEq] at hab
    case nil.nil => rfl
    case ptr.ptr x y =>
      simp only [ptrOk, ptrAll, if_true] at ha hb na
      simp only [canonNil, goEncode]
      exact ih x y ha hb na hab

theorem encList_canon {f : GoVal → GoVal → Bool} {w n : GoVal → Bool}
    (ih : ∀ x y, w x = true → w y = true → n x = true → f x y = true →
      goEncode (canonNil x) = goEncode (canonNil y)) :
    ∀ xs ys, allList w xs = true → allList w ys = true → allList n xs = true →
      eqList f xs ys = true → encList (canonNilList xs) = encList (canonNilList ys)
  | [], [], _, _, _, _ => rfl
  | [], _ :: _, _, _, _, h => by simp [eqList] at h
  | _ :: _, [], _, _, _, h => by simp [eqList] at h
  | x :: xs, y :: ys, wx, wy, nx, h => by
    simp only [allList, eqList, Bool.and_eq_true] at *
    simp only [canonNilList, encList]
    rw [ih x y wx.1 wy.1 nx.1 h.1, encList_canon ih xs ys wx.2 wy.2 nx.2 h.2]

theorem encFields_canon {f : Ty → GoVal → GoVal → Bool} {w n : Ty → GoVal → Bool}
    (ih : ∀ t x y, w t x = true → w t y = true → n t x = true → f t x y = true →
      goEncode (canonNil x) = goEncode (canonNil y))
    (sh : ∀ t x y, f t x y = true → ShapeEq x y) :
    ∀ fields xs ys, wtFields w fields xs = true → wtFields w fields ys = true →
      nzFields n fields xs = true → eqFields f fields xs ys = true →
      encFields (canonNilFields xs) = encFields (canonNilFields ys)
  | [], [], [], _, _, _, _ => rfl
  | [], _ :: _, _, h, _, _, _ => by simp [wtFields] at h
  | [], [], _ :: _, _, h, _, _ => by simp [wtFields] at h
  | _ :: _, [], _, h, _, _, _ => by simp [wtFields] at h
  | _ :: _, _ :: _, [], _, h, _, _ => by simp [wtFields] at h
  | fd :: fds, (kx, ox, x) :: xs, (ky, oy, y) :: ys, wx, wy, nx, h => by
    simp only [wtFields, nzFields, eqFields, Bool.and_eq_true, beq_iff_eq] at *
    simp only [canonNilFields, encFields]
    rw [ih _ x y wx.1.2 wy.1.2 nx.1 h.1, (sh _ x y h.1).1,
      encFields_canon ih sh fds xs ys wx.2 wy.2 nx.2 h.2, wx.1.1.1, wx.1.1.2, wy.1.1.1, wy.1.1.2]

theorem encUnion_canon {f : Ty → GoVal → GoVal → Bool} {w n : Ty → GoVal → Bool}
    (ih : ∀ t x y, w t x = true → w t y = true → n t x = true → f t x y = true →
      goEncode (canonNil x) = goEncode (canonNil y))
    (sh : ∀ t x y, f t x y = true → ShapeEq x y) :
    ∀ fields xs ys, wtBranches w fields xs = true → wtBranches w fields ys = true →
      nzBranches n fields xs = true → eqBranches f fields xs ys = true →
      encUnion (canonNilKvs xs) = encUnion (canonNilKvs ys)
  | [], [], [], _, _, _, _ => rfl
  | [], _ :: _, _, h, _, _, _ => by simp [wtBranches] at h
  | [], [], _ :: _, _, h, _, _ => by simp [wtBranches] at h
  | _ :: _, [], _, h, _, _, _ => by simp [wtBranches] at h
  | _ :: _, _ :: _, [], _, h, _, _ => by simp [wtBranches] at h
  | fd :: fds, (kx, x) :: xs, (ky, y) :: ys, wx, wy, nx, h => by
    simp only [wtBranches, nzBranches, eqBranches, Bool.and_eq_true, beq_iff_eq] at *
    simp only [canonNilKvs, encUnion]
    rw [ih _ x y wx.1.2 wy.1.2 nx.1 h.1, (sh _ x y h.1).2,
      encUnion_canon ih sh fds xs ys wx.2 wy.2 nx.2 h.2]

/-- with no zero-equal value on the receiver's side, the map loop forces equal key sets -/
theorem eqEntries_keys {f : GoVal → GoVal → Bool} {z : GoVal} {xs ys : List (String × GoVal)}
    (dx : (keysOf xs).Nodup) (hl : xs.length = ys.length)
    (nz : ∀ k v, (k, v) ∈ xs → f v z = false)
    (h : eqEntries f z ys xs = true) : keysOf ys ⊆ keysOf xs := by
  rw [eqEntries_iff] at h
  have sub : keysOf xs ⊆ keysOf ys := by
    intro k hk
    obtain ⟨v, lv⟩ := lookupV_some_of_key hk
    have hm := mem_of_lookupV lv
    obtain ⟨v', lv', _⟩ := entry_present (nz k v hm) (h k v hm)
    exact mem_keysOf (mem_of_lookupV lv')
  exact subset_of_nodup_subset_length_le dx sub
    (by rw [keysOf_length, keysOf_length, hl]; exact Nat.le_refl _)

theorem goEquals_enc : ∀ (fuel : Nat) (ss : Schemas) (t : Ty) (a b : GoVal),
    wt fuel ss t a = true → wt fuel ss t b = true → mapsNonZero fuel ss t a = true →
    goEquals fuel ss t a b = true → goEncode (canonNil a) = goEncode (canonNil b)
  | 0, _, _, _, _, h, _, _, _ => by simp [wt] at h
  | fuel + 1, ss, t, a, b, ha, hb, na, hab => by
    have ih := goEquals_enc fuel ss
    have sh := shape_of_equals fuel ss
    unfold wt at ha hb
    unfold mapsNonZero at na
    unfold goEquals at hab
    cases hcl : classify ss t <;> simp only [hcl] at ha hb na hab
    case unsup => cases ha
    case any =>
      cases a <;> cases b <;> simp [deepEqual] at hab
      case nil.nil => rfl
      case iface.iface j1 j2 => simp only [canonNil, goEncode]; exact jbeq_eq _ _ hab
    case leaf kind dt nullable =>
      refine ptrEq_enc (nza := fun _ => true) ha hb (ptrAll_true _ _) ?_ hab
      intro x y _ _ _ h
      rw [leafEq_eq h]
    case arr e =>
      obtain ⟨xs, ex, wx⟩ := wt_arr_elems ha
      obtain ⟨ys, ey, wy⟩ := wt_arr_elems hb
      have nx := nz_arr_elems na ex
      simp only [ex, ey] at hab
      have hl := eqList_length hab
      have he := encList_canon (ih e) xs ys wx wy nx hab
      rw [enc_canon_of_elems ex, enc_canon_of_elems ey, he]
      by_cases hx : xs = []
      · have : ys = [] := List.eq_nil_of_length_eq_zero (by rw [← hl, hx]; rfl)
        simp [hx, this]
      · have hy : ys ≠ [] := fun c => hx (List.eq_nil_of_length_eq_zero (by rw [hl, c]; rfl))
        simp [hx, hy]
    case map e =>
      obtain ⟨xs, ex, dx, wx⟩ := wt_map_entries ha
      obtain ⟨ys, ey, dy, wy⟩ := wt_map_entries hb
      have nx := nz_map_entries na ex
      simp only [ex, ey, Bool.and_eq_true, beq_iff_eq] at hab
      have hl := hab.1
      have nzv : ∀ k v, (k, v) ∈ xs → goEquals fuel ss e v (goZero fuel ss e) = false := by
        intro k v hm
        have nv := allVals_mem nx hm
        simp only [Bool.and_eq_true, Bool.not_eq_true'] at nv
        exact nv.1
      have sub' := eqEntries_keys dx hl nzv hab.2
      have hent := (eqEntries_iff.1 hab.2)
      have he : encMap (canonNilKvs xs) = encMap (canonNilKvs ys) := by
        refine encMap_ext fun k => ?_
        rw [lookupV_canonNilKvs, lookupV_canonNilKvs]
        cases lx : lookupV k xs with
        | none =>
          have : lookupV k ys = none :=
            lookupV_none_iff.2 fun c => (lookupV_none_iff.1 lx) (sub' c)
          rw [this]
        | some v =>
          have hm := mem_of_lookupV lx
          obtain ⟨v', lv', fv⟩ := entry_present (nzv k v hm) (hent k v hm)
          rw [lv']
          have nv := allVals_mem nx hm
          simp only [Bool.and_eq_true] at nv
          simp only [Option.map_some, Option.some.injEq]
          exact ih e v v' (allVals_mem wx hm) (allVals_mem wy (mem_of_lookupV lv')) nv.2 fv
      rw [enc_canon_of_entries ex, enc_canon_of_entries ey, he]
      by_cases hx : xs = []
      · have : ys = [] := List.eq_nil_of_length_eq_zero (by rw [← hl, hx]; rfl)
        simp [hx, this]
      · have hy : ys ≠ [] := fun c => hx (List.eq_nil_of_length_eq_zero (by rw [hl, c]; rfl))
        simp [hx, hy]
    case struct fields nullable =>
      refine ptrEq_enc ha hb na ?_ hab
      intro x y wx wy nx h
      cases x <;> cases y <;> simp [structEq] at h
      simp only [Bool.and_eq_true] at wx wy
      simp only [canonNil, goEncode]
      rw [encFields_canon ih sh fields _ _ wx.2 wy.2 nx h]
    case union fields nullable =>
      refine ptrEq_enc ha hb na ?_ hab
      intro x y wx wy nx h
      cases x <;> cases y <;> simp [unionEq] at h
      simp only [Bool.and_eq_true] at wx wy
      simp only [canonNil, goEncode]
      exact encUnion_canon ih sh fields _ _ wx.1 wy.1 nx h
    case alias t' => exact ih t' a b ha hb na hab
    case collPtr t' =>
      simp only [Bool.and_eq_true] at hab
      exact ih t' a b ha hb na hab.2

/-! ### values with the same encoding are equal -/

theorem leafEq_of_enc {k : String} {dt : Bool} {x y : GoVal} (hx : leafOk k dt x = true)
    (hy : leafOk k dt y = true) (ht : timesShared x = true) (he : goEncode x = goEncode y) :
    leafEq x y = true := by
  unfold leafOk at hx hy
  repeat' split at hx
  all_goals (first | (cases hx; done) | skip)
  all_goals (cases y <;> simp_all [leafEq, goEncode, timesShared])
  all_goals omega

theorem leaf_enc_ne_null {x : GoVal} (h : isLeafVal x = true) : goEncode x ≠ .null := by
  cases x <;> simp_all [isLeafVal, goEncode]

theorem ifaceEnc_null {j : Json} (h : ifaceEnc j = .null) : j = .null := by
  cases j <;> simp_all [ifaceEnc]

theorem ptrEq_of_enc {nullable : Bool} {eq al : GoVal → GoVal → Bool} {oka okb : GoVal → Bool}
    {a b : GoVal}
    (ha : ptrOk nullable oka a = true) (hb : ptrOk nullable okb b = true)
    (hta : timesShared a = true) (hal : ptrBoth nullable al a b = true)
    (nna : ∀ x, oka x = true → goEncode x ≠ .null) (nnb : ∀ y, okb y = true → goEncode y ≠ .null)
    (ih : ∀ x y, oka x = true → okb y = true → timesShared x = true → al x y = true →
      goEncode x = goEncode y → eq x y = true)
    (he : goEncode a = goEncode b) : ptrEq nullable eq a b = true := by
  cases nullable
  · simp only [ptrOk, ptrBoth, ptrEq, Bool.false_eq_true, if_false] at *
    exact ih a b ha hb hta hal he
  · cases a <;> simp [ptrOk] at ha <;> cases b <;> simp [ptrOk] at hb <;> simp only [ptrEq, if_true]
    case nil.ptr y => exact absurd he.symm (nnb y hb)
    case ptr.nil x => exact absurd he (nna x ha)
    case ptr.ptr x y =>
      simp only [ptrBoth, if_true] at hal
      exact ih x y ha hb (by simpa [timesShared] using hta) hal he

theorem eqList_of_enc {f al : GoVal → GoVal → Bool} {w : GoVal → Bool}
    (ih : ∀ x y, w x = true → w y = true → timesShared x = true → al x y = true →
      goEncode x = goEncode y → f x y = true) :
    ∀ xs ys, allList w xs = true → allList w ys = true → timesSharedList xs = true →
      alignedList al xs ys = true → encList xs = encList ys → eqList f xs ys = true
  | [], [], _, _, _, _, _ => rfl
  | [], _ :: _, _, _, _, _, h => by simp [encList] at h
  | _ :: _, [], _, _, _, _, h => by simp [encList] at h
  | x :: xs, y :: ys, wx, wy, tx, al', h => by
    simp only [allList, timesSharedList, alignedList, encList, List.cons.injEq,
      Bool.and_eq_true] at *
    simp only [eqList, Bool.and_eq_true]
    exact ⟨ih x y wx.1 wy.1 tx.1 al'.1 h.1, eqList_of_enc ih xs ys wx.2 wy.2 tx.2 al'.2 h.2⟩

theorem wtFields_key {w : Ty → GoVal → Bool} {k : String} {om : Bool} {v : GoVal} :
    ∀ {fields : List Field} {xs : List (String × Bool × GoVal)}, wtFields w fields xs = true →
      (k, om, v) ∈ xs → k ∈ fields.map (·.name)
  | [], [], _, h => by simp at h
  | [], _ :: _, h, _ => by simp [wtFields] at h
  | _ :: _, [], _, h => by simp at h
  | fd :: fds, (k1, o1, x1) :: xs, hw, h => by
    simp only [wtFields, Bool.and_eq_true, beq_iff_eq] at hw
    cases List.mem_cons.1 h with
    | inl e => cases e; simp [hw.1.1.1]
    | inr e => exact List.mem_cons_of_mem _ (wtFields_key hw.2 e)

theorem mem_encFields {k : String} {j : Json} :
    ∀ {fs : List (String × Bool × GoVal)}, (k, j) ∈ encFields fs → ∃ om v, (k, om, v) ∈ fs
  | [], h => by simp [encFields] at h
  | (k1, o1, x1) :: t, h => by
    simp only [encFields] at h
    split at h
    · obtain ⟨om, v, hm⟩ := mem_encFields h
      exact ⟨om, v, List.mem_cons_of_mem _ hm⟩
    · cases List.mem_cons.1 h with
      | inl e => cases e; exact ⟨o1, x1, by simp⟩
      | inr e =>
        obtain ⟨om, v, hm⟩ := mem_encFields e
        exact ⟨om, v, List.mem_cons_of_mem _ hm⟩

theorem eqFields_of_enc {f al : Ty → GoVal → GoVal → Bool} {w : Ty → GoVal → Bool}
    (ih : ∀ t x y, w t x = true → w t y = true → timesShared x = true → al t x y = true →
      goEncode x = goEncode y → f t x y = true)
    (emp : ∀ t x y, w t x = true → w t y = true → al t x y = true → isEmpty x = true →
      isEmpty y = true → f t x y = true) :
    ∀ fields xs ys, (fields.map (·.name)).Nodup →
      wtFields w fields xs = true → wtFields w fields ys = true →
      timesSharedFields xs = true → alignedFields al fields xs ys = true →
      encFields xs = encFields ys → eqFields f fields xs ys = true
  | [], [], [], _, _, _, _, _, _ => rfl
  | [], _ :: _, _, _, h, _, _, _, _ => by simp [wtFields] at h
  | [], [], _ :: _, _, _, h, _, _, _ => by simp [wtFields] at h
  | _ :: _, [], _, _, h, _, _, _, _ => by simp [wtFields] at h
  | _ :: _, _ :: _, [], _, _, h, _, _, _ => by simp [wtFields] at h
  | fd :: fds, (kx, ox, x) :: xs, (ky, oy, y) :: ys, nd, wx, wy, tx, al', h => by
    simp only [wtFields, timesSharedFields, alignedFields, Bool.and_eq_true, beq_iff_eq,
      List.map_cons, List.nodup_cons] at nd wx wy tx al'
    obtain ⟨⟨⟨ekx, eox⟩, wx1⟩, wx2⟩ := wx
    obtain ⟨⟨⟨eky, eoy⟩, wy1⟩, wy2⟩ := wy
    subst ekx; subst eky
    rw [eoy] at h; rw [eox] at h
    simp only [eqFields, Bool.and_eq_true]
    have rec_ := eqFields_of_enc ih emp fds xs ys nd.2 wx2 wy2 tx.2 al'.2
    simp only [encFields] at h
    by_cases c1 : (!fd.required && isEmpty x) = true <;> by_cases c2 : (!fd.required && isEmpty y) = true
    · simp only [c1, c2, if_true] at h
      simp only [Bool.and_eq_true] at c1 c2
      exact ⟨emp _ x y wx1 wy1 al'.1 c1.2 c2.2, rec_ h⟩
    · simp only [c1, c2, if_true] at h
      exfalso
      have : (fd.name, goEncode y) ∈ encFields xs := by rw [h]; simp
      obtain ⟨om, v, hm⟩ := mem_encFields this
      exact nd.1 (wtFields_key wx2 hm)
    · simp only [c1, c2, if_true] at h
      exfalso
      have : (fd.name, goEncode x) ∈ encFields ys := by rw [← h]; simp
      obtain ⟨om, v, hm⟩ := mem_encFields this
      exact nd.1 (wtFields_key wy2 hm)
    · simp only [c1, c2, Bool.false_eq_true, if_false, List.cons.injEq, Prod.mk.injEq, true_and] at h
      exact ⟨ih _ x y wx1 wy1 tx.1 al'.1 h.1, rec_ h.2⟩

theorem eqBranches_all_nil {f : Ty → GoVal → GoVal → Bool} {w : Ty → GoVal → Bool}
    (nilrefl : ∀ t, w t .nil = true → f t .nil .nil = true) :
    ∀ fields xs ys, wtBranches w fields xs = true → wtBranches w fields ys = true →
      liveBranches xs = 0 → liveBranches ys = 0 → eqBranches f fields xs ys = true
  | [], [], [], _, _, _, _ => rfl
  | [], _ :: _, _, h, _, _, _ => by simp [wtBranches] at h
  | [], [], _ :: _, _, h, _, _ => by simp [wtBranches] at h
  | _ :: _, [], _, h, _, _, _ => by simp [wtBranches] at h
  | _ :: _, _ :: _, [], _, h, _, _ => by simp [wtBranches] at h
  | fd :: fds, (kx, x) :: xs, (ky, y) :: ys, wx, wy, lx, ly => by
    simp only [wtBranches, Bool.and_eq_true] at wx wy
    simp only [liveBranches] at lx ly
    have hx : x = .nil := by cases x <;> simp_all [isNil]
    have hy : y = .nil := by cases y <;> simp_all [isNil]
    subst hx; subst hy
    simp only [eqBranches, Bool.and_eq_true]
    exact ⟨nilrefl _ wx.1.2, eqBranches_all_nil nilrefl fds xs ys wx.2 wy.2
      (by simpa [isNil] using lx) (by simpa [isNil] using ly)⟩

theorem eqBranches_of_enc {f al : Ty → GoVal → GoVal → Bool} {w : Ty → GoVal → Bool}
    (ih : ∀ t x y, w t x = true → w t y = true → timesShared x = true → al t x y = true →
      goEncode x = goEncode y → f t x y = true)
    (nilrefl : ∀ t, w t .nil = true → f t .nil .nil = true) :
    ∀ fields xs ys, wtBranches w fields xs = true → wtBranches w fields ys = true →
      liveBranches xs ≤ 1 → liveBranches ys ≤ 1 →
      timesSharedKvs xs = true → alignedBranches al fields xs ys = true →
      encUnion xs = encUnion ys → eqBranches f fields xs ys = true
  | [], [], [], _, _, _, _, _, _, _ => rfl
  | [], _ :: _, _, h, _, _, _, _, _, _ => by simp [wtBranches] at h
  | [], [], _ :: _, _, h, _, _, _, _, _ => by simp [wtBranches] at h
  | _ :: _, [], _, h, _, _, _, _, _, _ => by simp [wtBranches] at h
  | _ :: _, _ :: _, [], _, h, _, _, _, _, _ => by simp [wtBranches] at h
  | fd :: fds, (kx, x) :: xs, (ky, y) :: ys, wx, wy, lx, ly, tx, al', h => by
    simp only [wtBranches, timesSharedKvs, alignedBranches, Bool.and_eq_true, beq_iff_eq] at wx wy tx al'
    simp only [liveBranches] at lx ly
    simp only [encUnion] at h
    simp only [eqBranches, Bool.and_eq_true]
    by_cases hx : x.isNil = true
    · have hy : y.isNil = true := by rw [← al'.1.1]; exact hx
      have ex : x = .nil := by cases x <;> simp_all [isNil]
      have ey : y = .nil := by cases y <;> simp_all [isNil]
      subst ex; subst ey
      simp only [isNil, if_true] at h lx ly
      exact ⟨nilrefl _ wx.1.2, eqBranches_of_enc ih nilrefl fds xs ys wx.2 wy.2
        (by omega) (by omega) tx.2 al'.2 h⟩
    · have hy : ¬ y.isNil = true := by rw [← al'.1.1]; exact hx
      simp only [hx, hy, Bool.false_eq_true, if_false] at h lx ly
      exact ⟨ih _ x y wx.1.2 wy.1.2 tx.1 al'.1.2 h,
        eqBranches_all_nil nilrefl fds xs ys wx.2 wy.2 (by omega) (by omega)⟩

theorem alignedEntries_mem {f : GoVal → GoVal → Bool} {other : List (String × GoVal)} {k : String}
    {x y : GoVal} : ∀ {l : List (String × GoVal)}, alignedEntries f other l = true → (k, x) ∈ l →
      lookupV k other = some y → f x y = true
  | [], _, h, _ => by simp at h
  | (k1, x1) :: t, ha, h, hl => by
    simp only [alignedEntries, Bool.and_eq_true] at ha
    cases List.mem_cons.1 h with
    | inl e => cases e; rw [hl] at ha; exact ha.1
    | inr e => exact alignedEntries_mem ha.2 e hl

/-- two empty (`omitempty`) values of the same type are equal (alignment: same nil-ness of
    pointers to named collections, which the codec model also counts as empty) -/
theorem goEquals_of_isEmpty : ∀ (fuel : Nat) (ss : Schemas) (t : Ty) (a b : GoVal),
    wt fuel ss t a = true → wt fuel ss t b = true → unionsAligned fuel ss t a b = true →
    isEmpty a = true → isEmpty b = true → goEquals fuel ss t a b = true
  | 0, _, _, _, _, h, _, _, _, _ => by simp [wt] at h
  | fuel + 1, ss, t, a, b, ha, hb, al, ea, eb => by
    unfold wt at ha hb
    unfold unionsAligned at al
    unfold goEquals
    cases hcl : classify ss t <;> simp only [hcl] at ha hb al ⊢
    case unsup => cases ha
    case any => cases a <;> simp_all [isEmpty] <;> cases b <;> simp_all [deepEqual]
    case leaf kind dt nullable =>
      cases nullable
      · simp only [ptrOk, ptrEq, Bool.false_eq_true, if_false] at *
        unfold leafOk at ha hb
        repeat' split at ha
        all_goals (first | (cases ha; done) | skip)
        all_goals (cases b <;> simp_all [leafEq, isEmpty])
      · cases a <;> simp_all [isEmpty, ptrOk] <;> cases b <;> simp_all [ptrEq]
    case arr e =>
      cases a <;> simp_all [isEmpty] <;> cases b <;> simp_all [elems, eqList]
    case map e =>
      cases a <;> simp_all [isEmpty] <;> cases b <;> simp_all [entries, eqEntries]
    case struct fields nullable =>
      cases nullable
      · simp only [ptrOk, Bool.false_eq_true, if_false] at ha
        cases a <;> simp_all [isEmpty]
      · cases a <;> simp_all [isEmpty, ptrOk] <;> cases b <;> simp_all [ptrEq]
    case union fields nullable =>
      cases nullable
      · simp only [ptrOk, Bool.false_eq_true, if_false] at ha
        cases a <;> simp_all [isEmpty]
      · cases a <;> simp_all [isEmpty, ptrOk] <;> cases b <;> simp_all [ptrEq]
    case alias t' => exact goEquals_of_isEmpty fuel ss t' a b ha hb al ea eb
    case collPtr t' =>
      simp only [Bool.and_eq_true] at al ⊢
      exact ⟨al.1, goEquals_of_isEmpty fuel ss t' a b ha hb al.2 ea eb⟩

theorem goEquals_of_enc : ∀ (fuel : Nat) (ss : Schemas) (t : Ty) (a b : GoVal),
    wt fuel ss t a = true → wt fuel ss t b = true → timesShared a = true →
    unionsAligned fuel ss t a b = true → goEncode a = goEncode b → goEquals fuel ss t a b = true
  | 0, _, _, _, _, h, _, _, _, _ => by simp [wt] at h
  | fuel + 1, ss, t, a, b, ha, hb, ta, al, he => by
    have ih := goEquals_of_enc fuel ss
    have emp := goEquals_of_isEmpty fuel ss
    have nilrefl : ∀ t, wt fuel ss t .nil = true → goEquals fuel ss t .nil .nil = true :=
      fun t h => goEquals_refl fuel ss t .nil h rfl
    unfold wt at ha hb
    unfold unionsAligned at al
    unfold goEquals
    cases hcl : classify ss t <;> simp only [hcl] at ha hb al ⊢
    case unsup => cases ha
    case any =>
      cases a <;> simp at ha <;> cases b <;> simp at hb <;> simp only [deepEqual]
      case nil.iface j => simp only [goEncode] at he; exact absurd (ifaceEnc_null he.symm) (by intro c; subst c; simp [Json.isNull] at hb)
      case iface.nil j => simp only [goEncode] at he; exact absurd (ifaceEnc_null he) (by intro c; subst c; simp [Json.isNull] at ha)
      case iface.iface j1 j2 => simp only [goEncode] at he; rw [he]; exact jbeq_refl _
    case leaf kind dt nullable =>
      refine ptrEq_of_enc (al := fun _ _ => true) ha hb ta ?_ ?_ ?_ ?_ he
      · cases nullable <;> cases a <;> cases b <;> simp [ptrBoth]
      · exact fun x hx => leaf_enc_ne_null (leafOk_isLeaf hx)
      · exact fun x hx => leaf_enc_ne_null (leafOk_isLeaf hx)
      · exact fun x y hx hy tx _ h => leafEq_of_enc hx hy tx h
    case arr e =>
      cases a <;> simp at ha <;> cases b <;> simp at hb <;> simp only [elems]
      case nil.nil => rfl
      case nil.slice ys => simp [goEncode] at he
      case slice.nil xs => simp [goEncode] at he
      case slice.slice xs ys =>
        simp only [goEncode, Json.arr.injEq] at he
        exact eqList_of_enc (ih e) xs ys ha hb (by simpa [timesShared] using ta) al he
    case map e =>
      cases a <;> simp at ha <;> cases b <;> simp at hb <;> simp only [entries]
      case nil.nil => rfl
      case nil.gomap ys => simp [goEncode] at he
      case gomap.nil xs => simp [goEncode] at he
      case gomap.gomap xs ys =>
        simp only [goEncode, Json.obj.injEq] at he
        have dx := (nodupKeys_iff _).1 ha.1
        have dy := (nodupKeys_iff _).1 hb.1
        have look := encMap_lookup_eq he
        have sub : keysOf xs ⊆ keysOf ys := by
          intro k hk
          obtain ⟨v, lv⟩ := lookupV_some_of_key hk
          have := look k
          rw [lv] at this
          cases ly : lookupV k ys with
          | none => rw [ly] at this; simp at this
          | some v' => exact mem_keysOf (mem_of_lookupV ly)
        have sub' : keysOf ys ⊆ keysOf xs := by
          intro k hk
          obtain ⟨v, lv⟩ := lookupV_some_of_key hk
          have := look k
          rw [lv] at this
          cases lx : lookupV k xs with
          | none => rw [lx] at this; simp at this
          | some v' => exact mem_keysOf (mem_of_lookupV lx)
        have hlen : xs.length = ys.length := by
          have h1 := List.Nodup.length_le_of_subset dx sub
          have h2 := List.Nodup.length_le_of_subset dy sub'
          rw [keysOf_length, keysOf_length] at h1 h2
          omega
        simp only [Bool.and_eq_true, beq_iff_eq]
        refine ⟨hlen, eqEntries_iff.2 fun k v hm => ?_⟩
        have lv := lookupV_of_mem dx hm
        have := look k
        rw [lv] at this
        cases ly : lookupV k ys with
        | none => rw [ly] at this; simp at this
        | some v' =>
          rw [ly] at this
          simp only [Option.map_some, Option.some.injEq] at this
          simp only [Option.getD_some]
          exact ih e v v' (allVals_mem ha.2 hm) (allVals_mem hb.2 (mem_of_lookupV ly))
            (timesSharedKvs_mem (by simpa [timesShared] using ta) hm)
            (alignedEntries_mem al hm ly) this
    case struct fields nullable =>
      refine ptrEq_of_enc ha hb ta al ?_ ?_ ?_ he
      · intro x hx; cases x <;> simp at hx; simp [goEncode]
      · intro x hx; cases x <;> simp at hx; simp [goEncode]
      · intro x y hx hy tx hal h
        cases x <;> simp at hx; cases y <;> simp at hy
        simp only [goEncode, Json.obj.injEq] at h
        simp only [structEq]
        exact eqFields_of_enc ih emp fields _ _ ((nodupKeys_iff _).1 hx.1) hx.2 hy.2
          (by simpa [timesShared] using tx) hal h
    case union fields nullable =>
      simp only [Bool.and_eq_true, beq_iff_eq] at al
      cases nullable
      · simp only [ptrOk, ptrBoth, ptrEq, Bool.false_eq_true, if_false] at *
        cases a <;> simp at ha; cases b <;> simp at hb
        simp only [goEncode] at he
        simp only [unionEq]
        exact eqBranches_of_enc ih nilrefl fields _ _ ha.1 hb.1 ha.2 hb.2
          (by simpa [timesShared] using ta) al.2 he
      · cases a <;> simp [ptrOk] at ha <;> cases b <;> simp [ptrOk] at hb <;>
          simp only [ptrEq, if_true]
        case nil.ptr y => simp [isNil] at al
        case ptr.nil x => simp [isNil] at al
        case ptr.ptr x y =>
          simp only [ptrBoth, if_true] at al
          cases x <;> simp at ha; cases y <;> simp at hb
          simp only [goEncode] at he
          simp only [unionEq]
          exact eqBranches_of_enc ih nilrefl fields _ _ ha.1 hb.1 ha.2 hb.2
            (by simpa [timesShared] using ta) al.2 he
    case alias t' => exact ih t' a b ha hb ta al he
    case collPtr t' =>
      simp only [Bool.and_eq_true] at al ⊢
      exact ⟨al.1, ih t' a b ha hb ta al.2 he⟩

end Cog.Sem.GoEq
