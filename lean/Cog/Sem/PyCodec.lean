/-
  Semantics of the Python classes cog generates (post PYTHON-chain IR: unions stay unions, inline
  enums stay inline), transcribed from internal/jennies/python/rawtypes.go:

  * `pyFromJson`  = `generateFromJSONMethod` + `fromJSONForType` + `disjunctionFromJSON`:
      - a reference that resolves to a struct calls `X.from_json(value)`;
      - an array / map whose element kind is `scalar` is passed through untouched, any other array
        is `[<elem> for item in value]`, any other map `{key: <elem> for key in value.keys()}`;
      - a union with a discriminator and a mapping dispatches through a decoding map
        (`decoding_map[value["disc"]].from_json(value)`, `.get(…, Default)` with a catch-all),
        any other union is passed through untouched (a dict stays a dict);
      - everything else (scalars, enums, `any`) is passed through: enum members are NOT built;
      - `X.from_json(data)`: for every field that is not a constant, `if "k" in data:
        args[k] = <decode data["k"]>`, then `cls(**args)`.  The decode is applied to whatever is
        under the key — an explicit `null` under a struct / union / array-of-non-scalars /
        map-of-non-scalars raises (`.err`).
  * `initFieldWith` = `generateInitMethod`: constants are assigned, never read from the arguments;
      a field of kind struct/ref/enum/map/array/disjunction is `x if x is not None else <default>`
      when a default value exists, otherwise `x`; scalar fields take the default only as the
      argument's default (an explicit `None` stays `None`).  A default value exists when the field
      is not nullable or carries a `Default`.
  * `pyDefault` = tools.go `defaultValueForType` / `defaultValueForScalar` / `formatValue`.

  Outside the model (→ `unsup`): dangling references, composable slots, intersections, inline
  structs, defaults whose Go `%#v` text is not a Python literal (maps: `map[string]interface {}{…}`),
  float defaults that are not multiples of 0.25, iteration over a str/dict where a list is expected,
  two fields whose Python identifiers collide.
-/
import Cog.Sem.PyVal
import Cog.Sem.Den
namespace Cog.Sem
open Cog.IR

/-! ### documents without duplicate keys at any depth (what the model's `json.loads` is exact on) -/

mutual
def wfJson : Json → Bool
  | .arr xs => wfJsonList xs
  | .obj kvs => keysNodup kvs && wfJsonMembers kvs
  | _ => true
def wfJsonList : List Json → Bool
  | [] => true
  | x :: xs => wfJson x && wfJsonList xs
def wfJsonMembers : List (String × Json) → Bool
  | [] => true
  | (_, v) :: t => wfJson v && wfJsonMembers t
end

/-! ### Go values printed as Python literals (`formatValue`) -/

def isNilVal : Val → Bool | .nil => true | _ => false

/-- Go `strconv.FormatFloat(x, 'g', -1, 64)` / `%#v` text (`-2.5`, `9.9990915e+08`, `1e-02`) → quarters,
    when the value is a multiple of 0.25 -/
def parseGoFloat (s : String) : Option Int :=
  let (neg, body) := if s.startsWith "-" then (true, (s.drop 1).toString) else (false, s)
  let (mant, exp) : String × Option Int := match body.splitOn "e" with
    | [m] => (m, some 0)
    | [m, e] => (m, (if e.startsWith "+" then (e.drop 1).toString else e).toInt?)
    | _ => (body, none)
  let (digits, fracLen) : String × Nat := match mant.splitOn "." with
    | [w] => (w, 0)
    | [w, f] => (w ++ f, f.length)
    | _ => ("x", 0)
  match digits.toNat?, exp with
  | some m, some e =>
    let sh : Int := e - fracLen
    let q : Option Int :=
      if sh ≥ 0 then some (Int.ofNat (m * 4 * 10 ^ sh.toNat))
      else
        let d := 10 ^ (-sh).toNat
        if (m * 4) % d = 0 then some (Int.ofNat (m * 4 / d)) else none
    q.map fun x => if neg then -x else x
  | _, _ => none

mutual
def valToPy : Val → Option PyVal
  | .nil => some .none
  | .bool b => some (.bool b)
  | .int _ n => some (.num (n * 4))
  | .float _ r => (parseGoFloat r).map .num       -- `%#v` of a float64
  | .jnum s => some (.str s)                     -- `%#v` of a json.Number is a quoted string
  | .str s => some (.str s)
  | .list xs => (valsToPy xs).map .list
  | .map _ => none                               -- Go map literal: not Python
  | .other _ _ => none
def valsToPy : List Val → Option (List PyVal)
  | [] => some []
  | x :: xs => match valToPy x, valsToPy xs with
    | some a, some b => some (a :: b)
    | _, _ => none
end

/-- Go `==` on two `any` values holding scalars (same dynamic type and same value); used by the Python
    jenny's own `enumValue.Value == typeDef.Default` (tools.go) -/
def valScalarEq : Val → Val → Bool
  | .nil, .nil => true
  | .bool a, .bool b => a == b
  | .int t n, .int t' n' => t == t' && n == n'
  | .float t r, .float t' r' => t == t' && r == r'
  | .jnum a, .jnum b => a == b
  | .str a, .str b => a == b
  | _, _ => false

/- `reflect.DeepEqual` on two `any` values of the IR (same dynamic type and structurally equal;
   agrees with `==` on everything `==` can compare) -/
mutual
def valDeepEq : Val → Val → Bool
  | .nil, .nil => true
  | .bool a, .bool b => a == b
  | .int t n, .int t' n' => t == t' && n == n'
  | .float t r, .float t' r' => t == t' && r == r'
  | .jnum a, .jnum b => a == b
  | .str a, .str b => a == b
  | .list xs, .list ys => valDeepEqList xs ys
  | .map kvs, .map kvs' => valDeepEqMap kvs kvs'        -- key-sorted on both sides
  | .other t r, .other t' r' => t == t' && r == r'
  | _, _ => false
def valDeepEqList : List Val → List Val → Bool
  | [], [] => true
  | x :: xs, y :: ys => valDeepEq x y && valDeepEqList xs ys
  | _, _ => false
def valDeepEqMap : List (String × Val) → List (String × Val) → Bool
  | [], [] => true
  | (k, x) :: xs, (k', y) :: ys => k == k' && valDeepEq x y && valDeepEqMap xs ys
  | _, _ => false
end

def ofOpt {α} (why : String) : Option α → DRes α
  | some a => .ok a
  | none => .unsup why

/-! ### field classification used by `__init__`, `to_json`, `from_json` -/

/-- `IsConcreteScalar`: a scalar carrying a value -/
def constOf : Ty → Option Val
  | .scalar _ v _ _ => if isNilVal v then none else some v
  | _ => none

/-- value of a constant reference (an enum member) -/
def crefVal : Ty → Option Val | .cref _ _ v _ => some v | _ => none
def isCref (t : Ty) : Bool := (crefVal t).isSome
def isSlot : Ty → Bool | .slot .. => true | _ => false

/-- fields `from_json` skips ("they're set in the object's constructor") -/
def isConstField (f : Field) : Bool := isCref f.ty || (constOf f.ty).isSome

/-- `IsAnyOf(KindStruct, KindRef, KindEnum, KindMap, KindArray, KindDisjunction)` -/
def isRefLike : Ty → Bool
  | .struct .. | .ref .. | .enum .. | .map .. | .array .. | .disj .. => true
  | _ => false

/-- `!field.Type.Nullable || field.Type.Default != nil` -/
def needsDefault (t : Ty) : Bool := !t.getMeta.nullable || !isNilVal t.getMeta.dflt

def hasNullType (bs : List Ty) : Bool :=
  bs.any fun b => match b with | .scalar "null" _ _ _ => true | _ => false

def overridesOf (t : Ty) : Option (List (String × Val)) :=
  match t.getMeta.dflt with
  | .map kvs => some kvs
  | _ => none

/-- `defaultValueForScalar` -/
def scalarDefault (kind : String) (v : Val) : DRes PyVal :=
  if !isNilVal v then ofOpt "constant literal" (valToPy v)
  else if kind = "null" ∨ kind = "any" then .ok .none
  else if kind = "bytes" ∨ kind = "string" then .ok (.str "")
  else if kind = "float32" ∨ kind = "float64" then .ok (.num 0)
  else if (intRange kind).isSome then .ok (.num 0)
  else if kind = "bool" then .ok (.bool false)
  else .ok (.str "unknown")

/-- `tools.AnyToInt64` on the dynamic types it converts (anything else: the type assertion panics) -/
def anyToInt64 : Val → Option Int
  | .int t n => if t == "i" || t == "i8" || t == "i16" || t == "i32" || t == "i64" then some n else none
  | .float _ r => (parseGoFloat r).map fun q => Int.tdiv q 4
  | _ => none

/-- `ast.EnumType.MemberForValue` (IR-level code shared by all jennies): the first member whose value
    equals the given one — `reflect.DeepEqual` of the two `any` for string enums (since /repo 182b25c;
    `==` before, which panicked on list/object values), `AnyToInt64` of both otherwise —, the FIRST
    member when there is none -/
def memberForValue (vals : List EnumVal) (v : Val) : DRes EnumVal :=
  match vals with
  | [] => .unsup "empty enum"
  | v0 :: _ =>
    if isNilVal v then .ok v0
    else if v0.kind == "string" then .ok ((vals.find? fun ev => valDeepEq ev.value v).getD v0)
    else
      match anyToInt64 v with
      | none => .unsup "AnyToInt64 panics"
      | some n =>
        if vals.all (fun ev => (anyToInt64 ev.value).isSome) then
          .ok ((vals.find? fun ev => anyToInt64 ev.value == some n).getD v0)
        else .unsup "AnyToInt64 panics"

/-- `formatConstantReference(ref, true)` = `formatEnumValue`: the member `Enum.NAME` the constructor
    assigns, as the value it prints as -/
def crefPy (ss : Schemas) (pkg name : String) (v : Val) : DRes PyVal :=
  match Schemas.locateObject ss pkg name with
  | none => .unsup "constant reference to an unknown object"
  | some o =>
    match o.ty with
    | .enum vals _ => (memberForValue vals v).bind fun ev => ofOpt "enum member literal" (valToPy ev.value)
    | _ => .unsup "constant reference to a non-enum"

/-- what `__init__` assigns to a member it does not take from its arguments: constant references
    (checked first) and concrete scalars -/
def fixedValue (ss : Schemas) (t : Ty) : Option (DRes PyVal) :=
  match t with
  | .cref p n v _ => some (crefPy ss p n v)
  | _ =>
    match constOf t with
    | some c => some (ofOpt "constant literal" (valToPy c))
    | none => none

theorem fixedValue_isSome (ss : Schemas) (t : Ty) :
    (fixedValue ss t).isSome = (isCref t || (constOf t).isSome) := by
  cases t with
  | scalar k v cs m =>
    simp only [fixedValue, isCref, crefVal, constOf, Option.isSome_none, Bool.false_or]
    cases h : isNilVal v <;> simp
  | _ => simp [fixedValue, isCref, crefVal, constOf]

/-- one attribute of `__init__`: `arg` is what `from_json` (or a default expression) passed for it -/
def initFieldWith (ss : Schemas) (dfl : Ty → DRes PyVal) (f : Field) (arg : Option PyVal) : DRes PyVal :=
  match fixedValue ss f.ty with
  | some r => r
  | none =>
    if isSlot f.ty then .unsup "composable slot" else
    (
      if isRefLike f.ty then
        match arg with
        | some v => if v.isNone && needsDefault f.ty then dfl f.ty else .ok v
        | none => if needsDefault f.ty then dfl f.ty else .ok .none
      else
        match arg with
        | some v => .ok v
        | none => if needsDefault f.ty then dfl f.ty else .ok .none)

def lookupArg (k : String) : List (String × PyVal) → Option PyVal
  | [] => none
  | (k', v) :: t => if k' = k then some v else lookupArg k t

/-- `Cls(**args)`; `args` keyed by the JSON field name -/
def initWith (ss : Schemas) (dfl : Ty → DRes PyVal) (fields : List Field) (args : List (String × PyVal)) : DRes PyVal :=
  (mapRes (fun (f : Field) =>
    (initFieldWith ss dfl f (lookupArg f.name args)).map fun v => (f.name, f.required, v)) fields).map .obj

/-- `defaultValueForType(schemas, typeDef, importModule, defaultsOverrides)` as the Python value the
    printed expression evaluates to -/
def pyDefault : Nat → Schemas → Ty → Option (List (String × Val)) → DRes PyVal
  | 0, _, _, _ => .fuel
  | fuel + 1, ss, t, ov =>
    if !t.isRef && !isNilVal t.getMeta.dflt then ofOpt "default literal" (valToPy t.getMeta.dflt)
    else match t with
    | .disj bs _ _ =>
      if hasNullType bs then .ok .none
      else match bs with
        | b :: _ => pyDefault fuel ss b none
        | [] => .unsup "empty disjunction"
    | .ref pkg name m =>
      match Schemas.locateObject ss pkg name with
      | none => .unsup "dangling reference"
      | some o =>
        match o.ty with
        | .enum vals _ =>
          match vals.find? (fun ev => valScalarEq ev.value m.dflt), vals with
          | some ev, _ => ofOpt "enum member literal" (valToPy ev.value)
          | none, v0 :: _ => ofOpt "enum member literal" (valToPy v0.value)
          | none, [] => .unsup "empty enum"
        | .disj .. => pyDefault fuel ss o.ty none
        | .struct fields _ _ _ =>
          -- `Name(k=v, …)`: the overrides that name a field; an override of a reference-typed field is
          -- replaced by that field's own default expression (with the override as ITS overrides)
          let named := (ov.getD []).filter fun kv => fields.any fun f => f.name == kv.1
          if named.any (fun kv => fields.any fun f => f.name == kv.1 && isConstField f) then
            .err      -- TypeError: __init__() got an unexpected keyword argument (constants are no parameters)
          else
          (mapRes (fun (kv : String × Val) =>
              match fields.find? (fun f => f.name == kv.1) with
              | none => .unsup "unreachable"
              | some f =>
                if f.ty.isRef then
                  (pyDefault fuel ss f.ty (match kv.2 with | .map m' => some m' | _ => none)).map fun v => (kv.1, v)
                else (ofOpt "override literal" (valToPy kv.2)).map fun v => (kv.1, v)) named).bind fun args =>
            initWith ss (fun t' => pyDefault fuel ss t' (overridesOf t')) fields args
        | .scalar _ v _ _ =>
          if isNilVal v then .unsup "default of a scalar alias" else ofOpt "constant literal" (valToPy v)
        | .array .. => .ok (.list [])        -- `Name()` where `Name: TypeAlias = list[…]`
        | .map .. => .ok (.dict [])
        | _ => .unsup "default of a reference to this kind"
    | .enum (v0 :: _) _ => ofOpt "enum member literal" (valToPy v0.value)
    | .enum [] _ => .unsup "empty enum"
    | .map .. => .ok (.dict [])
    | .array .. => .ok (.list [])
    | .scalar kind v _ _ => scalarDefault kind v
    | _ => .ok (.str "unknown")

/-- one field of `X.from_json(data)` + `cls(**args)` for `data` a dict with these members -/
def pyFieldWith (ss : Schemas) (dec : Ty → Json → DRes PyVal) (dfl : Ty → DRes PyVal)
    (members : List (String × Json)) (f : Field) : DRes (String × Bool × PyVal) :=
  (match (if isConstField f then none else Json.lookup f.name members) with
   | some v => (dec f.ty v).bind fun pv => initFieldWith ss dfl f (some pv)
   | none => initFieldWith ss dfl f none).map fun v => (f.name, f.required, v)

/-- `X.from_json(data)` -/
def classFromJsonWith (ss : Schemas) (dec : Ty → Json → DRes PyVal) (dfl : Ty → DRes PyVal)
    (fields : List Field) (j : Json) : DRes PyVal :=
  match j with
  | .obj members => (mapRes (pyFieldWith ss dec dfl members) fields).map .obj
  | .null | .bool _ | .num _ =>
    -- `"k" in data` raises TypeError on None / bool / number — if there is any such test
    if fields.all isConstField then (mapRes (pyFieldWith ss dec dfl []) fields).map .obj else .err
  | _ => .unsup "from_json on a str/list"

def catchAll : String := "cog_discriminator_catch_all"

/-- package of the union branch that is a reference to `name` -/
def branchPkg (bs : List Ty) (name : String) : Option String :=
  match bs.find? (fun b => match b with | .ref _ n _ => n == name | _ => false) with
  | some (.ref p _ _) => some p
  | _ => none

/- Maps nested in maps: since /repo 60e31f6 every nesting level of dict comprehensions has its own
   loop variable (`key`, `key1`, `key2`, … = number of "_map" in the hint), so the value expression
   `E[key][key1]…` denotes the entry being visited at every level: decoding is entry-wise.  (Before
   that commit every level used `key` and the inner body read `E[inner][inner]`.) -/
def pyFromJson : Nat → Schemas → Ty → Json → DRes PyVal
  | 0, _, _, _ => .fuel
  | fuel + 1, ss, t, j =>
    match t with
    | .ref pkg name _ =>
      match Schemas.locateObject ss pkg name with
      | none => .unsup "dangling reference"
      | some o =>
        match o.ty with
        | .struct fields _ _ _ =>
          classFromJsonWith ss (pyFromJson fuel ss) (fun t' => pyDefault fuel ss t' (overridesOf t')) fields j
        | other => pyFromJson fuel ss other j
    | .array e _ =>
      if e.isScalar then .ok (PyVal.ofJson j)
      else match j with
        | .arr xs => (mapRes (pyFromJson fuel ss e) xs).map .list
        | .null | .bool _ | .num _ => .err            -- not iterable
        | _ => .unsup "iteration over a str/dict"
    | .map _ v _ =>
      if v.isScalar then .ok (PyVal.ofJson j)
      else match j with
        | .obj kvs =>
          (mapRes (fun (kv : String × Json) => (pyFromJson fuel ss v kv.2).map fun x => (kv.1, x)) kvs).map .dict
        | _ => .err                                   -- no attribute 'keys'
    | .disj bs info _ =>
      if info.discriminator == "" || info.mapping.isEmpty then .ok (PyVal.ofJson j)
      else match j with
        | .obj members =>
          match Json.lookup info.discriminator members with
          | none => .err                              -- KeyError
          | some (.arr _) | some (.obj _) => .err     -- unhashable
          | some d =>
            let direct : Option String :=
              match d with
              | .str tag => if tag == catchAll then none
                            else (info.mapping.find? fun kv => kv.1 == tag).map (·.2)
              | _ => none
            let target : Option String :=
              match direct with
              | some tn => some tn
              | none => (info.mapping.find? fun kv => kv.1 == catchAll).map (·.2)
            match target with
            | none => .err                            -- KeyError
            | some tn =>
              match branchPkg bs tn with
              | none => .unsup "mapping target is not a branch"
              | some p => pyFromJson fuel ss (.ref p tn {}) j
        | _ => .err                                   -- not subscriptable / indices must be integers
    | .scalar .. => .ok (PyVal.ofJson j)
    | .enum .. => .ok (PyVal.ofJson j)
    | _ => .unsup ("type kind " ++ t.kind)

/-- what the lab driver's `roundtrip` does: `dumps(X.from_json(loads(doc)), cls=JSONEncoder)` -/
def pyRoundTrip (fuel : Nat) (ss : Schemas) (pkg name : String) (j : Json) : DRes Json :=
  if wfJson j then (pyFromJson fuel ss (.ref pkg name {}) j).map pyToJson
  else .unsup "duplicate keys"

end Cog.Sem
