/-
  C01 (c) pass widening — composition along a pass list for the fragment with `T | null` pairs
  (`PlainN`).  `nullChainOK ps`: the chain reads  pre ++ NotRequiredFieldAsNullableType :: mid ++
  DisjunctionWithNullToOptional :: post  with `pre`, `mid` made of passes proved to be the identity
  on `PlainN`, and `post` of passes that are the identity on `Plain` or PrefixEnumValues.  Discharged by
  `decide` on the regenerated `Cog.Gen.Chains.goChain` in Props/C01.lean.
-/
import Cog.Sem.WidenChain
import Cog.Sem.WidenNull
namespace Cog.Sem.Src
open Cog.IR Cog.Passes

/-- passes proved to be the identity on `PlainN` schema sets -/
def idOnPlainN : PassId → Bool
  | .anonymousStructsToNamed => true
  | _ => false

theorem idOnPlainN_sound (p : PassId) (hp : idOnPlainN p = true) (S : Schemas) (h : PlainN S = true) :
    p.run S = .ok S := by
  cases p <;> simp [idOnPlainN] at hp
  exact AnonymousStructsToNamed_plainN S h

theorem runChain_idN : ∀ (ps : List PassId), ps.all idOnPlainN = true → ∀ S S', PlainN S = true →
    runChain ps S = .ok S' → S' = S
  | [], _, S, S', _, h => by simp [runChain] at h; exact h.symm
  | p :: ps, hps, S, S', hP, h => by
    simp only [List.all_cons, Bool.and_eq_true] at hps
    simp only [runChain, idOnPlainN_sound p hps.1 S hP] at h
    exact runChain_idN ps hps.2 S S' hP h

def splitAtPass (p : PassId) : List PassId → Option (List PassId × List PassId)
  | [] => none
  | x :: xs => if x = p then some ([], xs) else (splitAtPass p xs).map fun ab => (x :: ab.1, ab.2)

theorem splitAtPass_eq {p : PassId} : ∀ {ps pre post : List PassId}, splitAtPass p ps = some (pre, post) →
    ps = pre ++ p :: post
  | [], _, _, h => by simp [splitAtPass] at h
  | x :: xs, pre, post, h => by
    simp only [splitAtPass] at h
    split at h
    · rename_i hx; simp at h; obtain ⟨rfl, rfl⟩ := h; simp [hx]
    · cases hs : splitAtPass p xs with
      | none => simp [hs] at h
      | some ab =>
        simp [hs] at h
        obtain ⟨rfl, rfl⟩ := h
        simp [splitAtPass_eq (ps := xs) (pre := ab.1) (post := ab.2) (by rw [hs])]

/-- the decidable shape check on a concrete chain -/
def nullChainOK (ps : List PassId) : Bool :=
  match splitAtPass .notRequiredFieldAsNullableType ps with
  | some (pre, rest) =>
    pre.all idOnPlainN &&
    (match splitAtPass .disjunctionWithNullToOptional rest with
     | some (mid, post) => mid.all idOnPlainN && post.all denKeeping
     | none => false)
  | none => false

/-- pass widening along every chain of the checked shape, for pre-chain IR with `T | null` pairs:
    a document of the source-side language belongs to `den` of the post-chain IR for the image
    `nullOpt t` of the type (`t` itself when it has no pair, e.g. a reference to an object), with one
    more unit of fuel; the post-chain IR is plain -/
theorem widen_chainN (ps : List PassId) (hok : nullChainOK ps = true) (S S' : Schemas)
    (hP : PlainN S = true) (hrun : runChain ps S = .ok S') :
    Plain S' = true ∧
    ∀ n t j, nrTy t = true → srcDen n S t j = true → den (n + 1) S' (nullOpt t) j = true := by
  simp only [nullChainOK] at hok
  cases hs : splitAtPass .notRequiredFieldAsNullableType ps with
  | none => simp [hs] at hok
  | some ab =>
    obtain ⟨pre, rest⟩ := ab
    simp only [hs, Bool.and_eq_true] at hok
    cases hs2 : splitAtPass .disjunctionWithNullToOptional rest with
    | none => simp [hs2] at hok
    | some cd =>
      obtain ⟨mid, post⟩ := cd
      simp only [hs2, Bool.and_eq_true] at hok
      rw [splitAtPass_eq hs, splitAtPass_eq hs2] at hrun
      obtain ⟨S1, h1, h2⟩ := runChain_append' pre _ S S' hrun
      have e1 : S1 = S := runChain_idN pre hok.1 S S1 hP h1
      subst e1
      simp only [runChain, PassId.run, NotRequired_run_plainN S1 hP] at h2
      have hP2 := nrS_PlainN S1 hP
      obtain ⟨S2, h3, h4⟩ := runChain_append' mid _ (nrS S1) S' h2
      have e2 : S2 = nrS S1 := runChain_idN mid hok.2.1 _ S2 hP2 h3
      subst e2
      simp only [runChain, PassId.run, DisjunctionWithNullToOptional_run _ hP2] at h4
      have hP3 := nullOptS_Plain _ hP2
      obtain ⟨hP', hden⟩ := runChain_den post hok.2.2 _ S' hP3 h4
      refine ⟨hP', fun n t j ht hsrc => ?_⟩
      apply hden
      apply xdenF_den _ hP3 _ _ _ (nullOpt_nr_plain t ht)
      exact null_widen _ hP2 n t j ht (nr_widenN S1 hP n t j ht hsrc)

end Cog.Sem.Src
