/-
  C01 (c) pass widening — composition along a pass list for the extended fragment (`PlainX`: `T | null`
  pairs and anonymous enums with fresh generated names).  `extChainOK ps`: the chain reads
  pre ++ NotRequiredFieldAsNullableType :: mid ++ DisjunctionWithNullToOptional :: mid2 ++
  AnonymousEnumToExplicitType :: post  with `pre`, `mid` made of passes proved to be the identity on
  `PlainN`, `mid2` of passes that are the identity on `PlainE`, and `post` of passes that are the
  identity on `Plain` or PrefixEnumValues.  Discharged by `decide` on the regenerated
  `Cog.Gen.Chains.goChain` in Props/C01.lean.
-/
import Cog.Sem.WidenChain
import Cog.Sem.WidenNull
import Cog.Sem.WidenAnonEnum
namespace Cog.Sem.Src
open Cog.IR Cog.Passes

/-- passes proved to be the identity on `PlainN` schema sets -/
def idOnPlainN : PassId → Bool
  | .anonymousStructsToNamed => true
  | _ => false

theorem idOnPlainN_sound (p : PassId) (hp : idOnPlainN p = true) (S : Schemas) (h : PlainN S = true) :
    p.run S = .ok S := by
  cases p <;> simp [idOnPlainN] at hp
  exact AnonymousStructsToNamed_plainN S h

theorem runChain_idN : ∀ (ps : List PassId), ps.all idOnPlainN = true → ∀ S S', PlainN S = true →
    runChain ps S = .ok S' → S' = S
  | [], _, S, S', _, h => by simp [runChain] at h; exact h.symm
  | p :: ps, hps, S, S', hP, h => by
    simp only [List.all_cons, Bool.and_eq_true] at hps
    simp only [runChain, idOnPlainN_sound p hps.1 S hP] at h
    exact runChain_idN ps hps.2 S S' hP h

def splitAtPass (p : PassId) : List PassId → Option (List PassId × List PassId)
  | [] => none
  | x :: xs => if x = p then some ([], xs) else (splitAtPass p xs).map fun ab => (x :: ab.1, ab.2)

theorem splitAtPass_eq {p : PassId} : ∀ {ps pre post : List PassId}, splitAtPass p ps = some (pre, post) →
    ps = pre ++ p :: post
  | [], _, _, h => by simp [splitAtPass] at h
  | x :: xs, pre, post, h => by
    simp only [splitAtPass] at h
    split at h
    · rename_i hx; simp at h; obtain ⟨rfl, rfl⟩ := h; simp [hx]
    · cases hs : splitAtPass p xs with
      | none => simp [hs] at h
      | some ab =>
        simp [hs] at h
        obtain ⟨rfl, rfl⟩ := h
        simp [splitAtPass_eq (ps := xs) (pre := ab.1) (post := ab.2) (by rw [hs])]

/-- passes proved to be the identity on `PlainE` schema sets (no disjunction left) -/
def idOnPlainE : PassId → Bool
  | .disjunctionOfConstantsToEnum => true
  | .flattenDisjunctions => true
  | .disjunctionInferMapping => true
  | .undiscriminatedDisjunctionToAny => true
  | _ => false

theorem idOnPlainE_sound (p : PassId) (hp : idOnPlainE p = true) (S : Schemas) (h : PlainE S = true) :
    p.run S = .ok S := by
  cases p <;> simp [idOnPlainE] at hp
  · exact runDisjPass_plainE _ S h
  · exact runDisjPass_plainE _ S h
  · exact runDisjPass_plainE _ S h
  · exact runDisjPass_plainE _ S h

theorem runChain_idE : ∀ (ps : List PassId), ps.all idOnPlainE = true → ∀ S S', PlainE S = true →
    runChain ps S = .ok S' → S' = S
  | [], _, S, S', _, h => by simp [runChain] at h; exact h.symm
  | p :: ps, hps, S, S', hP, h => by
    simp only [List.all_cons, Bool.and_eq_true] at hps
    simp only [runChain, idOnPlainE_sound p hps.1 S hP] at h
    exact runChain_idE ps hps.2 S S' hP h

/-- the decidable shape check on a concrete chain:
    pre ++ NotRequiredFieldAsNullableType :: mid ++ DisjunctionWithNullToOptional :: mid2 ++
    AnonymousEnumToExplicitType :: post -/
def extChainOK (ps : List PassId) : Bool :=
  match splitAtPass .notRequiredFieldAsNullableType ps with
  | some (pre, rest) =>
    pre.all idOnPlainN &&
    (match splitAtPass .disjunctionWithNullToOptional rest with
     | some (mid, rest2) =>
       mid.all idOnPlainN &&
       (match splitAtPass .anonymousEnumToExplicitType rest2 with
        | some (mid2, post) => mid2.all idOnPlainE && post.all denKeeping
        | none => false)
     | none => false)
  | none => false

/-- the extended fragment: plain types, two-branch `T | null` pairs, anonymous enums whose generated
    object names are fresh (evaluated on the IR AnonymousEnumToExplicitType receives, which on this
    fragment is `nullOptS (nrS S)`; object and field names are those of `S`) -/
def PlainX (S : Schemas) : Bool := PlainN S && enumFresh (nullOptS (nrS S))

/-- pass widening along every chain of the checked shape, for pre-chain IR in `PlainX`: a document of
    the source-side language of a type `t` without anonymous enum (`plainTy (nullOpt t)`: a plain
    type, a `T | null` pair, in particular every reference to a named object) belongs to `den` of the
    post-chain IR for the image `nullOpt t`, with one more unit of fuel; the post-chain IR is plain -/
theorem widen_chainX (ps : List PassId) (hok : extChainOK ps = true) (S S' : Schemas)
    (hX : PlainX S = true) (hrun : runChain ps S = .ok S') :
    Plain S' = true ∧
    ∀ n t j, nrTy t = true → plainTy (nullOpt t) = true → srcDen n S t j = true →
      den (n + 1) S' (nullOpt t) j = true := by
  simp only [PlainX, Bool.and_eq_true] at hX
  obtain ⟨hP, hF⟩ := hX
  simp only [extChainOK] at hok
  cases hs : splitAtPass .notRequiredFieldAsNullableType ps with
  | none => simp [hs] at hok
  | some ab =>
    obtain ⟨pre, rest⟩ := ab
    simp only [hs, Bool.and_eq_true] at hok
    cases hs2 : splitAtPass .disjunctionWithNullToOptional rest with
    | none => simp [hs2] at hok
    | some cd =>
      obtain ⟨mid, rest2⟩ := cd
      simp only [hs2, Bool.and_eq_true] at hok
      cases hs3 : splitAtPass .anonymousEnumToExplicitType rest2 with
      | none => simp [hs3] at hok
      | some ef =>
        obtain ⟨mid2, post⟩ := ef
        simp only [hs3, Bool.and_eq_true] at hok
        rw [splitAtPass_eq hs, splitAtPass_eq hs2, splitAtPass_eq hs3] at hrun
        obtain ⟨S1, h1, h2⟩ := runChain_append' pre _ S S' hrun
        have e1 : S1 = S := runChain_idN pre hok.1 S S1 hP h1
        subst e1
        simp only [runChain, PassId.run, NotRequired_run_plainN S1 hP] at h2
        have hP2 := nrS_PlainN S1 hP
        obtain ⟨S2, h3, h4⟩ := runChain_append' mid _ (nrS S1) S' h2
        have e2 : S2 = nrS S1 := runChain_idN mid hok.2.1 _ S2 hP2 h3
        subst e2
        simp only [runChain, PassId.run, DisjunctionWithNullToOptional_run _ hP2] at h4
        have hP3 := nullOptS_PlainE _ hP2
        obtain ⟨S3, h5, h6⟩ := runChain_append' mid2 _ _ S' h4
        have e3 : S3 = nullOptS (nrS S1) := runChain_idE mid2 hok.2.2.1 _ S3 hP3 h5
        subst e3
        simp only [runChain, PassId.run, AnonymousEnumToExplicitType_run _ hP3] at h6
        have hP4 := aeS_Plain _ hP3 hF
        obtain ⟨hP', hden⟩ := runChain_den post hok.2.2.2 _ S' hP4 h6
        refine ⟨hP', fun n t j ht hpt hsrc => ?_⟩
        apply hden
        apply xdenF_den _ hP4 _ _ _ hpt
        have h7 := null_widen _ hP2 n t j ht (nr_widenN S1 hP n t j ht hsrc)
        have h8 := ae_widen _ hP3 hF (n + 1) (nullOpt t) j "" "" "" (nullOpt_nr_pe t ht)
          (by rw [eNew_plain _ _ _ hpt]; intro o ho; cases ho) h7
        rw [eImg_plain _ _ _ hpt] at h8
        exact h8

end Cog.Sem.Src
