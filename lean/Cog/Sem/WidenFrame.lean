/-
  C01 (c) pass widening — frame lemmas: EXACT results of the traversal frames of the pass models
  (`visitSchemas`, `visitSchemaPure`, `visitSchemaSt`, `addObjects`) on well-formed object maps, and
  object lookup through a schema-wise / object-wise map.  No semantics here.
-/
import Cog.Sem.SrcDen
import Cog.Passes.Visitor
import Cog.OMap.Lemmas
namespace Cog.Sem.Src
open Cog.IR Cog.Passes
open Cog.OMap (rget rset)

/-! ### object-wise maps over schemas -/

def mapObjects' (g : Obj → Obj) (m : Objects) : Objects := m.map fun ko => (ko.1, g ko.2)

/-- `ge` on entry point types, `g` on objects -/
def mapSchema (ge : Ty → Ty) (g : Obj → Obj) (s : Schema) : Schema :=
  { s with entryPointType := ge s.entryPointType, objects := mapObjects' g s.objects }

def mapSchemas (ge : Ty → Ty) (g : Obj → Obj) (S : Schemas) : Schemas := S.map (mapSchema ge g)

def setTy (g : Ty → Ty) (o : Obj) : Obj := { o with ty := g o.ty }

@[simp] theorem setTy_name (g : Ty → Ty) (o : Obj) : (setTy g o).name = o.name := rfl
@[simp] theorem setTy_ty (g : Ty → Ty) (o : Obj) : (setTy g o).ty = g o.ty := rfl

theorem rget_mapObjects' (g : Obj → Obj) (k : String) : ∀ m : Objects,
    rget k (mapObjects' g m) = (rget k m).map g
  | [] => rfl
  | (k', o) :: rest => by
    simp only [mapObjects', List.map, rget]
    split
    · rfl
    · exact rget_mapObjects' g k rest

theorem locate_mapSchemas (ge : Ty → Ty) (g : Obj → Obj) (pkg : String) : ∀ S : Schemas,
    Schemas.locate (mapSchemas ge g S) pkg = (Schemas.locate S pkg).map (mapSchema ge g)
  | [] => rfl
  | s :: rest => by
    simp only [mapSchemas, List.map, Schemas.locate]
    have : (mapSchema ge g s).pkg = s.pkg := rfl
    rw [this]
    split
    · rfl
    · exact locate_mapSchemas ge g pkg rest

theorem locateObject_mapSchemas (ge : Ty → Ty) (g : Obj → Obj) (S : Schemas) (pkg name : String) :
    Schemas.locateObject (mapSchemas ge g S) pkg name = (Schemas.locateObject S pkg name).map g := by
  simp only [Schemas.locateObject, locate_mapSchemas]
  cases Schemas.locate S pkg with
  | none => rfl
  | some s => simp [Schema.locateObject, mapSchema, rget_mapObjects']

theorem mapObjects'_id (m : Objects) : mapObjects' (fun o => o) m = m := by
  induction m with
  | nil => rfl
  | cons ko rest ih => simp only [mapObjects', List.map] at ih ⊢; rw [ih]

theorem mapSchemas_id (S : Schemas) : mapSchemas (fun t => t) (fun o => o) S = S := by
  induction S with
  | nil => rfl
  | cons s rest ih =>
    simp only [mapSchemas, List.map] at ih ⊢
    rw [ih]
    simp [mapSchema, mapObjects'_id]

theorem mapObjects'_congr {g g' : Obj → Obj} : ∀ {m : Objects}, (∀ ko ∈ m, g ko.2 = g' ko.2) →
    mapObjects' g m = mapObjects' g' m
  | [], _ => rfl
  | ko :: rest, h => by
    simp only [mapObjects', List.map]
    rw [h ko (List.mem_cons_self ..)]
    have := mapObjects'_congr (g := g) (g' := g') (m := rest) (fun x hx => h x (List.mem_cons_of_mem _ hx))
    simp only [mapObjects'] at this
    rw [this]

/-! ### where located objects come from -/

theorem mem_of_rget' {k : String} {o : Obj} : ∀ {m : Objects}, rget k m = some o → (k, o) ∈ m
  | [], h => by simp [rget] at h
  | (k', o') :: rest, h => by
    simp only [rget] at h
    split at h
    · rename_i hk; cases h; subst hk; exact List.mem_cons_self ..
    · exact List.mem_cons_of_mem _ (mem_of_rget' h)

theorem locate_mem' : ∀ {S : Schemas} {pkg : String} {s : Schema}, Schemas.locate S pkg = some s → s ∈ S
  | [], _, _, h => by simp [Schemas.locate] at h
  | s0 :: rest, pkg, s, h => by
    simp only [Schemas.locate] at h
    split at h
    · cases h; exact List.mem_cons_self ..
    · exact List.mem_cons_of_mem _ (locate_mem' h)

theorem locateObject_mem {S : Schemas} {pkg name : String} {o : Obj}
    (h : Schemas.locateObject S pkg name = some o) : ∃ s ∈ S, (name, o) ∈ s.objects := by
  simp only [Schemas.locateObject] at h
  cases hs : Schemas.locate S pkg with
  | none => simp [hs] at h
  | some s =>
    simp only [hs, Schema.locateObject] at h
    exact ⟨s, locate_mem' hs, mem_of_rget' h⟩

/-! ### `rset` on a fresh key appends -/

def keyFresh (k : String) (m : Objects) : Bool := !(m.any fun ko => ko.1 == k)

theorem rset_fresh (k : String) (o : Obj) : ∀ m : Objects, keyFresh k m = true → rset k o m = m ++ [(k, o)]
  | [], _ => rfl
  | (k', o') :: rest, h => by
    simp only [keyFresh, List.any_cons, Bool.not_or, Bool.and_eq_true, Bool.not_eq_true',
      beq_eq_false_iff_ne, ne_eq] at h
    simp only [rset]
    rw [if_neg h.1]
    have : keyFresh k rest = true := by simp [keyFresh, h.2]
    rw [rset_fresh k o rest this]
    rfl

/-! ### `visitObjectsPure` / `visitSchemaPure` / `visitSchemas` with a total type map -/

/-- the keys still to come are not in the accumulator and not repeated -/
def freshAgainst : Objects → Objects → Bool
  | [], _ => true
  | (k, o) :: rest, acc => (k == o.name) && keyFresh k acc && keyFresh k rest && freshAgainst rest (acc ++ [(k, o)])

theorem keyFresh_append_map (k : String) (acc : Objects) (k' : String) (o o' : Obj)
    (h : keyFresh k (acc ++ [(k', o)]) = true) : keyFresh k (acc ++ [(k', o')]) = true := by
  simp only [keyFresh, List.any_append, List.any_cons, List.any_nil, Bool.or_false] at h ⊢
  exact h

theorem freshAgainst_acc_congr : ∀ (rest acc acc' : Objects), acc.map (·.1) = acc'.map (·.1) →
    freshAgainst rest acc = true → freshAgainst rest acc' = true
  | [], _, _, _, _ => rfl
  | (k, o) :: rest, acc, acc', hk, h => by
    simp only [freshAgainst, Bool.and_eq_true] at h ⊢
    have hf : ∀ a : Objects, keyFresh k a = !((a.map (·.1)).any (· == k)) := by
      intro a; simp [keyFresh, List.any_map, Function.comp_def]
    refine ⟨⟨⟨h.1.1.1, ?_⟩, h.1.2⟩, ?_⟩
    · rw [hf, ← hk, ← hf]; exact h.1.1.2
    · exact freshAgainst_acc_congr rest _ _ (by simp [hk]) h.2

theorem wfObjects_freshAgainst : ∀ m : Objects, wfObjects m = true → freshAgainst m [] = true := by
  suffices h : ∀ (m acc : Objects), wfObjects m = true → (∀ ko ∈ m, keyFresh ko.1 acc = true) →
      freshAgainst m acc = true from fun m hm => h m [] hm (fun _ _ => rfl)
  intro m
  induction m with
  | nil => intros; rfl
  | cons ko rest ih =>
    intro acc hm hacc
    obtain ⟨k, o⟩ := ko
    simp only [wfObjects, Bool.and_eq_true] at hm
    simp only [freshAgainst, Bool.and_eq_true]
    refine ⟨⟨⟨hm.1.1, hacc _ (List.mem_cons_self ..)⟩, by simpa [keyFresh] using hm.1.2⟩, ?_⟩
    apply ih _ hm.2
    intro ko' hko'
    have h1 := hacc ko' (List.mem_cons_of_mem _ hko')
    have h2 : (ko'.1 == k) = false := by
      have := hm.1.2
      simp only [Bool.not_eq_true', List.any_eq_false] at this
      have := this ko' hko'
      simpa using this
    simp only [keyFresh, List.any_append, List.any_cons, List.any_nil, Bool.or_false, Bool.not_or,
      Bool.and_eq_true, Bool.not_eq_true'] at h1 ⊢
    refine ⟨h1, ?_⟩
    rw [beq_eq_false_iff_ne] at h2 ⊢
    exact fun h => h2 h.symm

theorem visitObjectsPure_map (v : Ty → Outcome Ty) (g : Ty → Ty) : ∀ (m acc : Objects),
    freshAgainst m acc = true → (∀ ko ∈ m, v ko.2.ty = .ok (g ko.2.ty)) →
    visitObjectsPure v m acc = .ok (acc ++ mapObjects' (setTy g) m)
  | [], acc, _, _ => by simp [visitObjectsPure, mapObjects']
  | (k, o) :: rest, acc, hf, hv => by
    simp only [freshAgainst, Bool.and_eq_true, beq_iff_eq] at hf
    obtain ⟨⟨⟨hk, hfa⟩, _⟩, hrest⟩ := hf
    have h1 := hv (k, o) (List.mem_cons_self ..)
    simp only at h1
    simp only [visitObjectsPure, h1]
    subst hk
    rw [rset_fresh _ _ acc hfa]
    have hrest' : freshAgainst rest (acc ++ [(o.name, ({ o with ty := g o.ty } : Obj))]) = true :=
      freshAgainst_acc_congr rest _ _ (by simp) hrest
    rw [visitObjectsPure_map v g rest _ hrest' (fun x hx => hv x (List.mem_cons_of_mem _ hx))]
    simp [mapObjects', setTy]

theorem visitSchemaPure_map (v : Ty → Outcome Ty) (g : Ty → Ty) (s : Schema)
    (hw : wfObjects s.objects = true) (he : v s.entryPointType = .ok (g s.entryPointType))
    (hv : ∀ ko ∈ s.objects, v ko.2.ty = .ok (g ko.2.ty)) :
    visitSchemaPure v s = .ok (mapSchema g (setTy g) s) := by
  simp only [visitSchemaPure, he]
  rw [visitObjectsPure_map v g s.objects [] (wfObjects_freshAgainst _ hw) hv]
  simp [mapSchema]

theorem visitSchemasFrom_map (f : Schemas → Schema → Outcome Schema) (g : Schema → Schema) :
    ∀ (rest done : Schemas), (∀ cur, ∀ s ∈ rest, f cur s = .ok (g s)) →
    visitSchemasFrom f done rest = .ok (done ++ rest.map g)
  | [], done, _ => by simp [visitSchemasFrom]
  | s :: rest, done, h => by
    simp only [visitSchemasFrom, h _ s (List.mem_cons_self ..)]
    rw [visitSchemasFrom_map f g rest _ (fun cur x hx => h cur x (List.mem_cons_of_mem _ hx))]
    simp

theorem visitSchemas_map (f : Schemas → Schema → Outcome Schema) (g : Schema → Schema) (S : Schemas)
    (h : ∀ cur, ∀ s ∈ S, f cur s = .ok (g s)) : visitSchemas f S = .ok (S.map g) := by
  simp [visitSchemas, visitSchemasFrom_map f g S [] h]

/-! ### the stateful frame when the visitor changes nothing -/

theorem visitObjectsSt_id (v : Ty → NewObjs → Outcome (Ty × NewObjs)) (n : NewObjs) : ∀ (m acc : Objects),
    freshAgainst m acc = true → (∀ ko ∈ m, v ko.2.ty n = .ok (ko.2.ty, n)) →
    visitObjectsSt v m acc n = .ok (acc ++ m, n)
  | [], acc, _, _ => by simp [visitObjectsSt]
  | (k, o) :: rest, acc, hf, hv => by
    simp only [freshAgainst, Bool.and_eq_true, beq_iff_eq] at hf
    obtain ⟨⟨⟨hk, hfa⟩, _⟩, hrest⟩ := hf
    have h1 := hv (k, o) (List.mem_cons_self ..)
    simp only at h1
    simp only [visitObjectsSt, h1]
    subst hk
    rw [rset_fresh _ _ acc hfa]
    rw [visitObjectsSt_id v n rest _ hrest (fun x hx => hv x (List.mem_cons_of_mem _ hx))]
    simp

theorem visitSchemaSt_id (v : Ty → NewObjs → Outcome (Ty × NewObjs)) (s : Schema)
    (hw : wfObjects s.objects = true) (he : v s.entryPointType [] = .ok (s.entryPointType, []))
    (hv : ∀ ko ∈ s.objects, v ko.2.ty [] = .ok (ko.2.ty, [])) :
    visitSchemaSt v s = .ok s := by
  simp only [visitSchemaSt, he]
  rw [visitObjectsSt_id v [] s.objects [] (wfObjects_freshAgainst _ hw) hv]
  simp [flushNew, addObjects]

end Cog.Sem.Src
