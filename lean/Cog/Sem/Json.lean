/-
  JSON values for the semantics of generated code.  Numbers are exact: `num q` denotes q/4
  (the document generators only draw integers and multiples of 0.25, which every Go numeric
  type of sufficient width represents exactly; other numbers are outside the model and are
  rejected by the driver as `bad-request`).
-/
import Cog.Basic.Sexp
namespace Cog.Sem

inductive Json where
  | null
  | bool (b : Bool)
  | num (q : Int)                      -- value = q / 4
  | str (s : String)
  | arr (xs : List Json)
  | obj (kvs : List (String × Json))   -- members in document order
  deriving Inhabited

namespace Json

def isNull : Json → Bool | null => true | _ => false

mutual
def beq : Json → Json → Bool
  | null, null => true
  | bool a, bool b => a == b
  | num a, num b => a == b
  | str a, str b => a == b
  | arr a, arr b => beqList a b
  | obj a, obj b => beqMembers a b
  | _, _ => false
def beqList : List Json → List Json → Bool
  | [], [] => true
  | x :: xs, y :: ys => beq x y && beqList xs ys
  | _, _ => false
def beqMembers : List (String × Json) → List (String × Json) → Bool
  | [], [] => true
  | (k, x) :: xs, (k', y) :: ys => k == k' && beq x y && beqMembers xs ys
  | _, _ => false
end

instance : BEq Json := ⟨beq⟩

/-- member lookup: first member with that key -/
def lookup (k : String) : List (String × Json) → Option Json
  | [] => none
  | (k', v) :: t => if k' = k then some v else lookup k t

/-- insertion of a member into a key-sorted member list (used to canonicalise) -/
def insertSorted (k : String) (v : Json) : List (String × Json) → List (String × Json)
  | [] => [(k, v)]
  | (k', v') :: t => if k < k' then (k, v) :: (k', v') :: t
                     else if k = k' then (k, v) :: t
                     else (k', v') :: insertSorted k v t

/- `norm`: the canonical form used for "JSON-equal up to omission of null members": object
   members are sorted by key (later duplicates win) and members whose value is null are dropped. -/
mutual
def norm : Json → Json
  | null => null
  | bool b => bool b
  | num q => num q
  | str s => str s
  | arr xs => arr (normList xs)
  | obj kvs => obj (normMembers kvs)
def normList : List Json → List Json
  | [] => []
  | x :: xs => norm x :: normList xs
def normMembers : List (String × Json) → List (String × Json)
  | [] => []
  | (k, v) :: t =>
    let rest := normMembers t
    match lookup k rest with
    | some _ => rest                       -- a later duplicate wins
    | none => if isNull v then rest else insertSorted k (norm v) rest
end

/-- canonical-form comparison (used for printing/diffing) -/
def eqvNorm (a b : Json) : Bool := norm a == norm b

/- `sub a b`: every non-null member of `a` (at every depth) occurs in `b` with a value that
   contains it in the same sense; arrays are compared index-wise, atoms by equality. -/
mutual
def sub : Json → Json → Bool
  | null, null => true
  | bool a, bool b => a == b
  | num a, num b => a == b
  | str a, str b => a == b
  | arr xs, arr ys => subList xs ys
  | obj ms, obj ms' => subMembers ms ms'
  | _, _ => false
def subList : List Json → List Json → Bool
  | [], [] => true
  | x :: xs, y :: ys => sub x y && subList xs ys
  | _, _ => false
def subMembers : List (String × Json) → List (String × Json) → Bool
  | [], _ => true
  | (k, v) :: t, ms' =>
    (isNull v || (match lookup k ms' with
                  | some v' => sub v v'
                  | none => false)) && subMembers t ms'
end

/-- `a ≃ b`: JSON-equal (object member order irrelevant), except that members given as explicit
    null may be omitted: mutual containment. -/
def eqv (a b : Json) : Bool := sub a b && sub b a

/-! ### text (driver side) -/

def numText (q : Int) : String :=
  let neg := q < 0
  let a := q.natAbs
  let whole := a / 4
  let frac := match a % 4 with | 1 => ".25" | 2 => ".5" | 3 => ".75" | _ => ""
  (if neg then "-" else "") ++ toString whole ++ frac

partial def render : Json → String
  | null => "null"
  | bool true => "true"
  | bool false => "false"
  | num q => numText q
  | str s => Sexp.quote s
  | arr xs => "[" ++ ",".intercalate (xs.map render) ++ "]"
  | obj kvs => "{" ++ ",".intercalate (kvs.map fun (k, v) => Sexp.quote k ++ ":" ++ render v) ++ "}"

/-- decimal text → quarters; only integers and .0/.25/.5/.75 fractions (any number of trailing zeros) -/
def parseNum (s : String) : Option Int :=
  let (neg, body) := if s.startsWith "-" then (true, (s.drop 1).toString) else (false, s)
  match body.splitOn "." with
  | [w] => w.toNat?.map fun n => (if neg then -(Int.ofNat (n * 4)) else Int.ofNat (n * 4))
  | [w, f] =>
    let f' := (f.toList.reverse.dropWhile (· == '0')).reverse
    let fq : Option Nat := match String.ofList f' with
      | "" => some 0 | "25" => some 1 | "5" => some 2 | "75" => some 3 | _ => none
    match w.toNat?, fq with
    | some n, some k => some (if neg then -(Int.ofNat (n * 4 + k)) else Int.ofNat (n * 4 + k))
    | _, _ => none
  | _ => none

partial def ofSexp : Sexp → Option Json
  | .atom "null" => some null
  | .atom "true" => some (bool true)
  | .atom "false" => some (bool false)
  | .list [.atom "n", .str t] => (parseNum t).map num
  | .list [.atom "s", .str s] => some (str s)
  | .list (.atom "a" :: xs) => (xs.mapM ofSexp).map arr
  | .list (.atom "o" :: kvs) => (kvs.mapM fun (x : Sexp) => match x with
      | .list [.str k, v] => (ofSexp v).map fun v' => (k, v')
      | _ => none).map obj
  | _ => none

end Json
end Cog.Sem
