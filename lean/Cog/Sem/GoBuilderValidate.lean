/-
  Helper lemmas for the reporting part of C09: what storing one member of a struct value does to
  the list of violated constraints (`violations`, C08's specification; `Build()` returns
  `Validate()`, which C08 proves equal to `violations` under `noConstrainedAlias`).
-/
import Cog.Sem.GoBuilderLemmas
import Cog.Sem.GoValidateLemmas
namespace Cog.Sem.GB
open Cog.IR Cog.Builder Cog.Sem.C08

/-- the named member values of a struct value, as `fieldVals` lists them -/
def proj (fs : Fields) : List (String × GoVal) := fs.map fun x => (x.1, x.2.2)

/-- `violations` of a struct value at a reference to a struct object: the members, in order -/
theorem violations_struct_obj (ss : Schemas) (fuel : Nat) (pkg name : String) (o : Obj)
    (fs : List Field) (g : List Ty) (gi : Option (String × DisjInfo)) (m : Meta) (vals : Fields)
    (hl : Schemas.locateObject ss pkg name = some o) (hty : o.ty = .struct fs g gi m) :
    violations (fuel + 1) ss (.ref pkg name {}) (.struct vals) =
      specFields (violations fuel ss) fs (proj vals) := by
  have hres : resolveRefs ss (.ref pkg name {}) = some (.struct fs g gi m) := by
    rw [resolveRefs_ref_located ss _ hl, hty, resolveToType_struct ss _ (by simp [Ty.isStruct])]
  simp [violations, GoVal.isNil, GoVal.unptr, hres, specAt, fieldVals, proj]

/-- storing `x` at the first member named `m` -/
def setVal (m : String) (x : GoVal) : List (String × GoVal) → List (String × GoVal)
  | [] => []
  | (k, v) :: t => if k = m then (k, x) :: t else (k, v) :: setVal m x t

theorem proj_updFld {m : String} {x : GoVal} : ∀ {fs fs' : Fields},
    updFld m (fun _ => .ok x) fs = .ok fs' → proj fs' = setVal m x (proj fs)
  | [], fs', h => by simp [updFld] at h
  | (k, om, v) :: t, fs', h => by
    unfold updFld at h
    by_cases hk : k = m
    · simp only [hk, if_true] at h
      obtain ⟨v', hv, rfl⟩ := BRes.map_eq_ok.mp h
      simp at hv; subst hv
      simp [proj, setVal, hk]
    · simp only [hk, if_false] at h
      obtain ⟨t', ht, rfl⟩ := BRes.map_eq_ok.mp h
      have := proj_updFld ht
      simp only [proj] at this ⊢
      simp [setVal, hk, this]

/-- **valid never adds**: replacing one member by a value that violates nothing can only remove
    violations -/
theorem specFields_setVal_valid {F : Ty → GoVal → DRes (List Viol)} {m : String} {x : GoVal} :
    ∀ {fs : List Field} {fvs : List (String × GoVal)} {l : List Viol},
      specFields F fs fvs = .ok l → (∀ fd ∈ fs, fd.name = m → F fd.ty x = .ok []) →
      ∃ l', specFields F fs (setVal m x fvs) = .ok l' ∧ ∀ e ∈ l', e ∈ l
  | [], [], l, h, _ => ⟨l, by simpa [setVal] using h, fun _ h => h⟩
  | [], _ :: _, l, h, _ => by simp [specFields] at h
  | _ :: _, [], l, h, _ => by simp [specFields] at h
  | fd :: fds, (n, v) :: vs, l, h, hx => by
    unfold specFields at h
    split at h
    · simp at h
    · rename_i hn
      simp only [ne_eq, Decidable.not_not] at hn
      obtain ⟨l1, h1, h2⟩ := C08.DRes.bind_eq_ok.mp h
      obtain ⟨l2, h3, h4⟩ := C08.DRes.bind_eq_ok.mp h2
      simp at h4; subst h4
      by_cases hk : n = m
      · -- this member is replaced
        have hv := hx fd (by simp) (hn.trans hk)
        refine ⟨preAll (.fld fd.name) [] ++ l2, ?_, ?_⟩
        · simp [setVal, hk, specFields, hn ▸ hk, hv, DRes.bind, h3]
        · intro e he; simp [preAll] at he; exact List.mem_append_right _ he
      · obtain ⟨l2', h5, h6⟩ := specFields_setVal_valid h3 (fun fd' hfd => hx fd' (by simp [hfd]))
        refine ⟨preAll (.fld fd.name) l1 ++ l2', ?_, ?_⟩
        · simp only [setVal, hk, if_false]
          unfold specFields
          simp [hn, h1, DRes.bind, h5]
        · intro e he
          rcases List.mem_append.mp he with h' | h'
          · exact List.mem_append_left _ h'
          · exact List.mem_append_right _ (h6 e h')

/-- **invalid is seen**: the violations of a member are among the violations of the struct -/
theorem specFields_member {F : Ty → GoVal → DRes (List Viol)} {m : String} {x : GoVal} {lx : List Viol} :
    ∀ {fs : List Field} {fvs : List (String × GoVal)} {l : List Viol},
      specFields F fs fvs = .ok l → getBr m fvs = some x →
      (∀ fd ∈ fs, fd.name = m → F fd.ty x = .ok lx) →
      ∀ e ∈ lx, Viol.pre (.fld m) e ∈ l
  | [], [], _, _, hg, _ => by simp [getBr] at hg
  | [], _ :: _, _, h, _, _ => by simp [specFields] at h
  | _ :: _, [], _, h, _, _ => by simp [specFields] at h
  | fd :: fds, (n, v) :: vs, l, h, hg, hx => by
    unfold specFields at h
    split at h
    · simp at h
    · rename_i hn
      simp only [ne_eq, Decidable.not_not] at hn
      obtain ⟨l1, h1, h2⟩ := C08.DRes.bind_eq_ok.mp h
      obtain ⟨l2, h3, h4⟩ := C08.DRes.bind_eq_ok.mp h2
      simp at h4; subst h4
      intro e he
      by_cases hk : n = m
      · simp [getBr, hk] at hg
        subst hg
        have hv := hx fd (by simp) (hn.trans hk)
        rw [hv] at h1
        simp at h1; subst h1
        apply List.mem_append_left
        simp only [preAll, List.mem_map]
        exact ⟨e, he, by rw [hn, hk]⟩
      · simp [getBr, hk] at hg
        exact List.mem_append_right _
          (specFields_member h3 hg (fun fd' hfd => hx fd' (by simp [hfd])) e he)

theorem getBr_proj (m : String) : ∀ (fs : Fields), getBr m (proj fs) = getFld m fs
  | [] => rfl
  | (k, om, v) :: t => by
    simp only [proj, List.map_cons, getBr, getFld]
    by_cases hk : k = m
    · simp [hk]
    · simp [hk]; exact getBr_proj m t

end Cog.Sem.GB
