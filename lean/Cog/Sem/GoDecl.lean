/-
  C02 — abstract syntax of what cog's Go jenny prints FROM GO CODE (not from templates), and a literal
  transcription of the printing functions.  Core Lean only (linked into `drv`).

  Transcribed from /repo/internal/jennies/golang:
    types.go     formatTypeDeclaration, formatEnumDef, doFormatType, formatStructBody, formatField,
                 formatArray, formatMap, formatRef, formatConstantRef, formatIntersection
    rawtypes.go  generateConstructor, defaultsForStruct, maybeValueAsPointer
    tools.go     formatPackageName, formatObjectName/formatFieldName (= tools.UpperCamelCase),
                 formatScalar, anyToDisjunctionBranchName
    internal/tools/strings.go  UpperCamelCase, CleanupNames   (modelled in Cog.Passes.Str: `ucc`, `cleanupNames`)

  NOT modelled here (rendered by text/template, decided by the labs only): every method
  (MarshalJSON, UnmarshalJSON, UnmarshalJSONStrict, Equals, Validate, Implements…Variant), builders,
  converters, the runtime, the import block, comments, and all other target languages.

  A Go nil-pointer dereference / index out of range / unbounded recursion of the printer is a `crash`
  node of the syntax (the run panics: that is C04's business, the C02 checker rejects such output).
-/
import Cog.IR.Basic
import Cog.Passes.Str
import Cog.Builder.TyEq
namespace Cog.Sem.GoDecl
open Cog.IR
open Cog.Passes (ucc cleanupNames)
open Cog.Builder (valBeq)

/-- the Go output options (golang.Config).  Only `anyAsInterface` reaches the declaration printers;
    the others select which template-rendered methods are appended (not modelled). -/
structure Cfg where
  jsonMarshaller : Bool := true
  strictUnmarshaller : Bool := true
  equal : Bool := true
  validate : Bool := true
  anyAsInterface : Bool := false
  skipRuntime : Bool := false
  deriving Inhabited, DecidableEq

/-! ## abstract syntax -/

structure GoFieldOf (α : Type) where
  name : String            -- Go identifier (after formatFieldName); for an embedded field: ""
  ty : α
  jsonName : String := ""  -- text inside `json:"…"` before the omitempty marker
  omitEmpty : Bool := false
  embedded : Bool := false
  deriving Inhabited

inductive GoTy where
  | prim (name : String)                 -- bool string int8 … float64 any interface{} time.Time []byte, or whatever ScalarKind text was printed
  | named (pkg name : String)            -- pkg = formatPackageName of the package the Go compiler resolves the name in
  | ptr (t : GoTy)
  | slice (t : GoTy)
  | map (k v : GoTy)
  | struct (fields : List (GoFieldOf GoTy))
  | placeholder (text : String)          -- `unknown`
  | crash (site : String)
  deriving Inhabited

abbrev GoField := GoFieldOf GoTy

inductive GoExpr where
  | nil
  | bool (b : Bool)
  | int (n : Int) (hex : Bool)           -- %#v of a signed (decimal) / unsigned (0x…) integer
  | float (repr : String)                -- %#v of a float: strconv 'g' -1 text
  | str (s : String)                     -- %#v of a string / json.Number: a quoted Go string literal
  | sliceLit (elem : GoTy) (xs : List GoExpr)
  | mapLit (k v : GoTy) (kvs : List (String × GoExpr))
  | ident (pkg name : String)
  | call (pkg fn : String)               -- `pkg.fn()`
  | deref (e : GoExpr)
  | addr (e : GoExpr)
  | toPtr (t : GoTy) (e : GoExpr)        -- `(func (input T) *T { return &input })(e)`
  | composite (t : GoTy) (fields : List (String × GoExpr))
  | raw (text : String)                  -- text the model does not analyse (`%#v` of a value of unknown dynamic type, an empty default)
  | placeholder (text : String)          -- `"unsupported default value case: …"` (a quoted string)
  | crash (site : String)
  deriving Inhabited

inductive GoDecl where
  | typeDef (name : String) (ty : GoTy)                  -- `type N T`
  | alias (name : String) (ty : GoTy)                    -- `type N = T`
  | const (name : String) (val : GoExpr)                 -- `const N = v`
  | enumDef (name : String) (under : GoTy) (members : List (String × GoExpr))
  | ctor (name ret : String) (body : GoExpr)             -- `func N() *R { return body }`
  | placeholder (text : String)                          -- `unhandled type def kind: …`
  | crash (site : String)
  deriving Inhabited

/-- formatted package name ↦ declarations of `<pkg>/types_gen.go`, in emission order -/
abbrev Env := List (String × List GoDecl)

def phUnknown : String := "unknown"
def phUnhandled (kind : String) : String := "unhandled type def kind: " ++ kind
def phUnsupportedDefault : String := "unsupported default value case: this is likely a bug in cog"

/-! ## tools.go -/

def isPkgChar (c : Char) : Bool := c.isAlphanum || c == '_'

/-- the characters after the last `/` (the whole text when there is none) -/
def afterLastSlash : List Char → List Char → List Char
  | [], acc => acc.reverse
  | c :: cs, acc => if c == '/' then afterLastSlash cs [] else afterLastSlash cs (c :: acc)

/-- `formatPackageName`: last path segment (when there are several), `[^a-zA-Z0-9_]+` removed, lower-cased -/
def fmtPkg (pkg : String) : String :=
  String.ofList (((afterLastSlash pkg.toList []).filter isPkgChar).map Char.toLower)

/-- `%#v` of a dynamic value (fmt's Go-syntax printer) -/
def sharpVIface : GoTy := .prim "interface{}"

mutual
def sharpV : Val → GoExpr
  | .nil => .nil                                   -- `interface {}(nil)` inside containers; never reached at top level
  | .bool b => .bool b
  | .int tag n => .int n (tag.startsWith "u")
  | .float _ r => .float r
  | .jnum s => .str s
  | .str s => .str s
  | .list xs => .sliceLit sharpVIface (sharpVList xs)
  | .map kvs => .mapLit (.prim "string") sharpVIface (sharpVMap kvs)
  | .other t r => .raw (t ++ ":" ++ r)
def sharpVList : List Val → List GoExpr
  | [] => []
  | v :: vs => sharpV v :: sharpVList vs
def sharpVMap : List (String × Val) → List (String × GoExpr)
  | [] => []
  | (k, v) :: kvs => (k, sharpV v) :: sharpVMap kvs
end

mutual
/-- `formatScalar` -/
def formatScalar : Val → GoExpr
  | .nil => .nil
  | .list xs => .sliceLit (.prim "string") (formatScalarList xs)   -- "FIXME: this is wrong, we can't just assume a list of strings."
  | v => sharpV v
def formatScalarList : List Val → List GoExpr
  | [] => []
  | v :: vs => formatScalar v :: formatScalarList vs
end

/-- `reflect.Kind.String()` of the dynamic value, upper-camel-cased; slices: `ArrayOf` + first element -/
def branchNameOf : Val → String
  | .nil => "Invalid"
  | .bool _ => "Bool"
  | .int tag _ =>
    match tag with
    | "i64" => "Int64" | "i" => "Int" | "i32" => "Int32" | "i16" => "Int16" | "i8" => "Int8"
    | "u64" => "Uint64" | "u" => "Uint" | "u32" => "Uint32" | "u16" => "Uint16" | "u8" => "Uint8"
    | _ => "Int64"
  | .float tag _ => if tag == "f32" then "Float32" else "Float64"
  | .jnum _ => "String"
  | .str _ => "String"
  | .list [] => "Slice"
  | .list (x :: _) =>
    "ArrayOf" ++ (match x with
      | .nil => "Invalid" | .bool _ => "Bool"
      | .int tag _ => (match tag with
        | "i64" => "Int64" | "i" => "Int" | "i32" => "Int32" | "i16" => "Int16" | "i8" => "Int8"
        | "u64" => "Uint64" | "u" => "Uint" | "u32" => "Uint32" | "u16" => "Uint16" | "u8" => "Uint8"
        | _ => "Int64")
      | .float tag _ => if tag == "f32" then "Float32" else "Float64"
      | .jnum _ => "String" | .str _ => "String"
      | .list [] => "Slice" | .list _ => "ArrayOfNested" | .map _ => "Map" | .other .. => "Other")
  | .map _ => "Map"
  | .other .. => "Other"

/-! ## types.go -/

def hasHint (m : Meta) (k : String) : Bool := m.hints.any (·.1 == k)

def isConcreteScalar : Ty → Bool
  | .scalar _ v _ _ => !Cog.Passes.Val.isNil v
  | _ => false

def isAny : Ty → Bool
  | .scalar k _ _ _ => k == "any"
  | _ => false

def isCref : Ty → Bool | .cref .. => true | _ => false
def isBad : Ty → Bool | .bad .. => true | _ => false
/-- `Kind == KindRef` (also when the kind pointer is nil) -/
def isRefKind (t : Ty) : Bool := t.kind == "ref"

def setNullable (b : Bool) (t : Ty) : Ty := t.setMeta { t.getMeta with nullable := b }

/-- kinds on which a nil kind pointer is dereferenced by `doFormatType` (every `Is…()` test it makes) -/
def derefKinds : List String := ["scalar", "composable_slot", "array", "map", "ref", "constant_ref", "struct", "intersection"]

/-- the printers' view of the IR: the schemas (for `context.ResolveRefs`) and the options -/
structure Ctx where
  cfg : Cfg
  ss : Schemas

def Ctx.fuel (c : Ctx) : Nat := c.ss.objectCount + 2

/-- `packageMapper`: it answers "" when `IsIdentical(pkg, schema.Package)` (equal FORMATTED names) and the
    formatted alias otherwise.  Either way the Go compiler resolves the name in the package whose
    formatted name is `fmtPkg pkg`, which is what the syntax records (the renderer decides whether a
    qualifier is printed). -/
def Ctx.mapPkg (_c : Ctx) (pkg : String) : String := fmtPkg pkg

/-- `context.ResolveRefs` (none: alias cycle, Go overflows its stack) -/
def Ctx.resolve (c : Ctx) (t : Ty) : Option Ty := c.ss.resolveToType c.fuel t

def fmtScalarTy (cfg : Cfg) (kind : String) (m : Meta) : GoTy :=
  if kind == "any" then (if cfg.anyAsInterface then .prim "interface{}" else .prim "any")
  else if kind == "bytes" then .prim "[]byte"
  else
    let base : GoTy := if hasHint m "string_format_datetime" then .prim "time.Time" else .prim kind
    if m.nullable then .ptr base else base

/-- `formatField`'s choice of the printed type: `plain` = `doFormatType(fieldType)`, except that a
    reference which resolves to a constant is printed with the constant's scalar type -/
def fieldGoTy (c : Ctx) (t : Ty) (plain : GoTy) : GoTy :=
  match t with
  | .ref .. =>
    (match c.resolve t with
      | none => .crash "formatField:ResolveRefs-cycle"
      | some (.scalar k v _ m) => if !Cog.Passes.Val.isNil v then fmtScalarTy c.cfg k m else plain
      | some _ => plain)
  | _ => plain

mutual
/-- `doFormatType(def, false)` -/
def fmtTy (c : Ctx) : Ty → GoTy
  | .scalar k _ _ m => fmtScalarTy c.cfg k m
  | .slot v _ => .named "variants" (ucc v)
  | .array e _ => .slice (fmtTy c e)
  | .map i v _ => .map (fmtTy c i) (fmtTy c v)
  | .ref p n m => if m.nullable then .ptr (.named (c.mapPkg p) (ucc n)) else .named (c.mapPkg p) (ucc n)
  | .cref p n _ _ => .named (c.mapPkg p) (ucc n)
  | .struct fs _ _ m => if m.nullable then .ptr (.struct (fmtFields c fs)) else .struct (fmtFields c fs)
  | .inter bs _ => .struct (fmtInterRefs c bs ++ fmtInterRest c bs)
  | .enum .. => .placeholder phUnknown
  | .disj .. => .placeholder phUnknown
  | .bad k _ => if derefKinds.contains k then .crash ("doFormatType:nil-" ++ k) else .placeholder phUnknown
/-- `formatStructBody` / `formatField` -/
def fmtFields (c : Ctx) : List Field → List GoField
  | [] => []
  | f :: fs =>
    let plain := fmtTy c f.ty
    { name := ucc f.name,
      -- a reference to a constant is printed with the constant's type
      ty := fieldGoTy c f.ty plain,
      jsonName := f.name, omitEmpty := !f.required } :: fmtFields c fs
/-- `formatIntersection`, first loop: references are embedded -/
def fmtInterRefs (c : Ctx) : List Ty → List GoField
  | [] => []
  | b :: bs =>
    (if isRefKind b then [{ name := "", ty := fmtTy c b, embedded := true }] else []) ++ fmtInterRefs c bs
/-- `formatIntersection`, second loop: struct branches contribute their fields, anything else is embedded -/
def fmtInterRest (c : Ctx) : List Ty → List GoField
  | [] => []
  | b :: bs =>
    let g := fmtTy c b
    (match b with
      | .struct fs _ _ _ => fmtFields c fs
      | _ => if isRefKind b then [] else [{ name := "", ty := g, embedded := true }]) ++ fmtInterRest c bs
end

/-- the Go type of an enum's first member (`formatType(enumType.Values[0].Type)`); the VIR keeps the
    member's scalar kind only (`?…` = not a scalar: not modelled) -/
def fmtEnumUnder (c : Ctx) (kind : String) : GoTy :=
  if kind.toList.head? == some '?' then .crash ("enum-member-type-not-modelled:" ++ kind) else fmtScalarTy c.cfg kind {}

def enumMembers (enumName : String) : List EnumVal → List (String × GoExpr)
  | [] => []
  | v :: vs => (cleanupNames (ucc v.name), sharpV v.value) :: enumMembers enumName vs

/-- `formatTypeDeclaration` -/
def emitTypeDecl (c : Ctx) (o : Obj) : GoDecl :=
  let name := ucc o.name
  match o.ty with
  | .enum vs _ =>
    (match vs with
      | [] => .crash "formatEnumDef:Values[0]"
      | v :: _ => .enumDef name (fmtEnumUnder c v.kind) (enumMembers name vs))
  | .scalar k v _ _ =>
    if !Cog.Passes.Val.isNil v then .const name (formatScalar v)
    else if k == "bytes" then .typeDef name (.prim "[]byte")
    else .typeDef name (fmtTy c o.ty)
  | .ref .. => .alias name (fmtTy c o.ty)
  | .map .. | .array .. | .struct .. | .inter .. => .typeDef name (fmtTy c o.ty)
  | .cref .. => .placeholder (phUnhandled "constant_ref")
  | .disj .. => .placeholder (phUnhandled "disjunction")
  | .slot .. => .placeholder (phUnhandled "composable_slot")
  | .bad k _ =>
    if ["enum", "scalar", "ref", "map", "array", "struct", "intersection"].contains k then .crash ("formatTypeDeclaration:nil-" ++ k)
    else .placeholder (phUnhandled k)

/-! ## rawtypes.go -/

/-- `maybeValueAsPointer` -/
def maybePtr (c : Ctx) (value : GoExpr) (nullable : Bool) (typeDef : Ty) : GoExpr :=
  if !nullable then value
  else if typeDef.isArray || typeDef.isMap then value
  else .toPtr (fmtTy c (setNullable false typeDef)) value

def lookupKV (k : String) : List (String × Val) → Option Val
  | [] => none
  | (k', v) :: rest => if k' == k then some v else lookupKV k rest

def fieldByName (n : String) : List Field → Option Field
  | [] => none
  | f :: fs => if f.name == n then some f else fieldByName n fs

def isGenStruct : Ty → Bool
  | .struct _ _ gi m => gi.isSome ||
      (m.hints.any fun (k, v) => (k == "disjunction_of_scalars" || k == "disjunction_of_refs") && !Cog.Passes.Val.isNil v)
  | _ => false

def enumMemberFor (dflt : Val) : List EnumVal → Option String
  | [] => none
  | v :: vs => if valBeq v.value dflt then some v.name else enumMemberFor dflt vs

def extrasOf : Val → List (String × Val)
  | .map kvs => kvs
  | _ => []

/-- what one field contributes to the literal: `skip` (no explicit default), `emit`, or `stop`
    (the `break` in the constant-reference case leaves the loop over the fields) -/
inductive FieldLit where
  | skip
  | emit (e : GoExpr)
  | stop

/-- `needsExplicitDefault` -/
def needsDefault (f : Field) (resolved : Ty) (extras : List (String × Val)) : Bool :=
  let extraNonNil := match lookupKV f.name extras with | some v => !Cog.Passes.Val.isNil v | none => false
  !Cog.Passes.Val.isNil f.ty.getMeta.dflt || extraNonNil
    || (f.required && f.ty.isRef && resolved.isStruct) || (f.required && f.ty.isArray) || (f.required && f.ty.isMap)
    || isConcreteScalar f.ty || isCref f.ty

/-- the value printed for a field that carries an override from the enclosing struct default
    (`if extraDefault, ok := extraDefaults[field.Name]; ok`) -/
def extraLit (c : Ctx) (f : Field) (resolved : Ty) (ev : Val) : GoExpr :=
  let m := f.ty.getMeta
  let dv := formatScalar ev
  if f.ty.isRef && isGenStruct resolved then
    (match resolved, f.ty with
      | .struct rfs _ _ _, .ref p n _ =>
        let bn := ucc (branchNameOf ev)
        let (bn, bty) := match fieldByName bn rfs with
          | some bf => (bn, bf.ty)
          | none => ("Any", match fieldByName "Any" rfs with | some bf => bf.ty | none => Ty.bad "" {})
        let actual := maybePtr c dv true bty
        let lit := GoExpr.composite (.named (c.mapPkg p) (ucc n)) [(ucc bn, actual)]
        if m.nullable then .addr lit else lit
      | _, _ => .crash "unreachable")
  else maybePtr c dv m.nullable resolved

/-- the `else if` chain of `defaultsForStruct` for a field without override; `nested` prints the
    literal of a referenced struct that carries its own default (the recursive call) -/
def ownLit (c : Ctx) (f : Field) (resolved : Ty) (nested : String → String → List Field → Val → GoExpr) : FieldLit :=
  let m := f.ty.getMeta
  match f.ty with
  | .scalar _ v _ _ =>
    if !Cog.Passes.Val.isNil v then .emit (maybePtr c (formatScalar v) m.nullable resolved)
    else if !Cog.Passes.Val.isNil m.dflt then .emit (maybePtr c (formatScalar m.dflt) m.nullable resolved)
    else .emit (.placeholder phUnsupportedDefault)
  | .ref p n _ =>
    (match resolved with
      | .scalar .. | .map .. | .array .. =>
        if !Cog.Passes.Val.isNil m.dflt then .emit (maybePtr c (formatScalar m.dflt) m.nullable resolved)
        else .emit (.placeholder phUnsupportedDefault)
      | .struct rfs _ _ _ =>
        if !Cog.Passes.Val.isNil m.dflt then
          let lit := nested p n rfs m.dflt
          .emit (if m.nullable then .addr lit else lit)
        else
          let call := GoExpr.call (c.mapPkg p) ("New" ++ ucc n)
          .emit (if m.nullable then call else .deref call)
      | .enum vs _ =>
        (match vs with
          | [] => .emit (.crash "defaultsForStruct:Enum.Values[0]")
          | v0 :: _ =>
            let member := match enumMemberFor m.dflt vs with | some x => x | none => v0.name
            .emit (maybePtr c (.ident (c.mapPkg p) member) m.nullable f.ty))
      | _ => .emit (.placeholder phUnsupportedDefault))
  | .cref p n v _ =>
    (match c.resolve (.ref p n {}) with
      | none => .emit (.crash "defaultsForStruct:ResolveRefs-cycle")
      | some (.enum vs _) =>
        (match enumMemberFor v vs with
          | some member => .emit (.ident (c.mapPkg p) member)
          | none => .emit (.ident (c.mapPkg p) ""))     -- no member matches: the text is empty (or `pkg.`)
      | some _ => .stop)                                 -- `break`: leaves the loop over the fields
  | .array e _ =>
    if !Cog.Passes.Val.isNil m.dflt then .emit (maybePtr c (formatScalar m.dflt) m.nullable resolved)
    else .emit (.sliceLit (fmtTy c e) [])
  | .map i v _ =>
    if !Cog.Passes.Val.isNil m.dflt then .emit (maybePtr c (formatScalar m.dflt) m.nullable resolved)
    else .emit (.mapLit (fmtTy c i) (fmtTy c v) [])
  | _ => .emit (.placeholder phUnsupportedDefault)

/-- one iteration of the loop over the fields, given the resolved field type -/
def fieldLit (c : Ctx) (f : Field) (resolved : Ty) (extras : List (String × Val))
    (nested : String → String → List Field → Val → GoExpr) : FieldLit :=
  if !needsDefault f resolved extras then .skip else
  match lookupKV f.name extras with
  | some ev => .emit (extraLit c f resolved ev)
  | none => ownLit c f resolved nested

/-- the loop over the fields, given what one field contributes -/
def defaultsFieldsWith (g : Field → FieldLit) : List Field → List (String × GoExpr)
  | [] => []
  | f :: fs =>
    match g f with
    | .skip => defaultsFieldsWith g fs
    | .emit e => (ucc f.name, e) :: defaultsFieldsWith g fs
    | .stop => []

/-- one iteration, before the field type is resolved -/
def defaultsFieldAt (c : Ctx) (f : Field) (extras : List (String × Val))
    (nested : String → String → List Field → Val → GoExpr) : FieldLit :=
  if isBad f.ty then .emit (.crash "defaultsForStruct:malformed-field-type") else
  match c.resolve f.ty with
  | none => .emit (.crash "defaultsForStruct:ResolveRefs-cycle")
  | some resolved => fieldLit c f resolved extras nested

/-- `defaultsForStruct(context, objectRef, objectType, maybeExtraDefaults)`; fuel counts the nesting of
    struct defaults (unbounded for a default on a reference that closes a cycle) -/
def defaultsForStruct (c : Ctx) : Nat → String → String → List Field → Val → GoExpr
  | 0, _, _, _, _ => .crash "defaultsForStruct:unbounded-recursion"
  | fuel + 1, refPkg, refName, fields, extra =>
    .composite (.named (c.mapPkg refPkg) (ucc refName))
      (defaultsFieldsWith (fun f => defaultsFieldAt c f (extrasOf extra) (fun p n rfs d => defaultsForStruct c fuel p n rfs d)) fields)

/-- the literal of one field at nesting budget `fuel` -/
def defaultsField (c : Ctx) (fuel : Nat) (f : Field) (extras : List (String × Val)) : FieldLit :=
  defaultsFieldAt c f extras (fun p n rfs d => defaultsForStruct c fuel p n rfs d)

def defaultsFields (c : Ctx) (fuel : Nat) (fs : List Field) (extras : List (String × Val)) : List (String × GoExpr) :=
  defaultsFieldsWith (fun f => defaultsField c fuel f extras) fs

theorem defaultsForStruct_zero (c : Ctx) (p n : String) (fs : List Field) (extra : Val) :
    defaultsForStruct c 0 p n fs extra = .crash "defaultsForStruct:unbounded-recursion" := rfl

theorem defaultsForStruct_succ (c : Ctx) (fuel : Nat) (p n : String) (fs : List Field) (extra : Val) :
    defaultsForStruct c (fuel + 1) p n fs extra
      = .composite (.named (c.mapPkg p) (ucc n)) (defaultsFields c fuel fs (extrasOf extra)) := rfl

theorem defaultsFields_nil (c : Ctx) (fuel : Nat) (extras : List (String × Val)) : defaultsFields c fuel [] extras = [] := rfl

theorem defaultsFields_cons (c : Ctx) (fuel : Nat) (f : Field) (fs : List Field) (extras : List (String × Val)) :
    defaultsFields c fuel (f :: fs) extras =
      (match defaultsField c fuel f extras with
        | .skip => defaultsFields c fuel fs extras
        | .emit e => (ucc f.name, e) :: defaultsFields c fuel fs extras
        | .stop => []) := rfl

theorem defaultsField_eq (c : Ctx) (fuel : Nat) (f : Field) (extras : List (String × Val)) :
    defaultsField c fuel f extras =
      (if isBad f.ty then .emit (.crash "defaultsForStruct:malformed-field-type") else
        match c.resolve f.ty with
        | none => .emit (.crash "defaultsForStruct:ResolveRefs-cycle")
        | some resolved => fieldLit c f resolved extras (fun p n rfs d => defaultsForStruct c fuel p n rfs d)) := rfl

/-- `generateConstructor` -/
def emitCtor (c : Ctx) (o : Obj) : List GoDecl :=
  let name := ucc o.name
  match o.ty with
  | .ref p n _ =>
    (match c.ss.locateObject p n with
      | some ro =>
        if ro.ty.isStruct then [.ctor ("New" ++ name) name (.call (c.mapPkg ro.selfPkg) ("New" ++ ucc ro.name))] else []
      | none => [])
  | .struct fs _ _ _ => [.ctor ("New" ++ name) name (.addr (defaultsForStruct c c.fuel o.selfPkg o.selfName fs .nil))]
  | _ => []

def emitObj (c : Ctx) (o : Obj) : List GoDecl := emitTypeDecl c o :: emitCtor c o

def emitObjs (c : Ctx) : List (String × Obj) → List GoDecl
  | [] => []
  | (_, o) :: rest => emitObj c o ++ emitObjs c rest

def emitSchema (cfg : Cfg) (ss : Schemas) (s : Schema) : String × List GoDecl :=
  (fmtPkg s.pkg, emitObjs { cfg := cfg, ss := ss } s.objects)

def emitSchemasAux (cfg : Cfg) (ss : Schemas) : List Schema → Env
  | [] => []
  | s :: rest => emitSchema cfg ss s :: emitSchemasAux cfg ss rest

/-- every `<pkg>/types_gen.go` of a run, declarations only -/
def emitEnv (cfg : Cfg) (ss : Schemas) : Env := emitSchemasAux cfg ss ss

/-! ## crash / placeholder scans -/

mutual
def tyCrash : GoTy → Option String
  | .crash s => some s
  | .ptr t | .slice t => tyCrash t
  | .map k v => (tyCrash k).orElse fun _ => tyCrash v
  | .struct fs => fieldsCrash fs
  | _ => none
def fieldsCrash : List GoField → Option String
  | [] => none
  | f :: fs => (tyCrash f.ty).orElse fun _ => fieldsCrash fs
end

mutual
def tyPlaceholders : GoTy → List String
  | .placeholder t => [t]
  | .ptr t | .slice t => tyPlaceholders t
  | .map k v => tyPlaceholders k ++ tyPlaceholders v
  | .struct fs => fieldsPlaceholders fs
  | _ => []
def fieldsPlaceholders : List GoField → List String
  | [] => []
  | f :: fs => tyPlaceholders f.ty ++ fieldsPlaceholders fs
end

mutual
def exprCrash : GoExpr → Option String
  | .crash s => some s
  | .sliceLit t xs => (tyCrash t).orElse fun _ => exprsCrash xs
  | .mapLit k v kvs => ((tyCrash k).orElse fun _ => tyCrash v).orElse fun _ => kvsCrash kvs
  | .deref e | .addr e => exprCrash e
  | .toPtr t e => (tyCrash t).orElse fun _ => exprCrash e
  | .composite t fs => (tyCrash t).orElse fun _ => kvsCrash fs
  | _ => none
def exprsCrash : List GoExpr → Option String
  | [] => none
  | e :: es => (exprCrash e).orElse fun _ => exprsCrash es
def kvsCrash : List (String × GoExpr) → Option String
  | [] => none
  | (_, e) :: es => (exprCrash e).orElse fun _ => kvsCrash es
end

mutual
def exprPlaceholders : GoExpr → List String
  | .placeholder t => [t]
  | .sliceLit t xs => tyPlaceholders t ++ exprsPlaceholders xs
  | .mapLit k v kvs => tyPlaceholders k ++ tyPlaceholders v ++ kvsPlaceholders kvs
  | .deref e | .addr e => exprPlaceholders e
  | .toPtr t e => tyPlaceholders t ++ exprPlaceholders e
  | .composite t fs => tyPlaceholders t ++ kvsPlaceholders fs
  | _ => []
def exprsPlaceholders : List GoExpr → List String
  | [] => []
  | e :: es => exprPlaceholders e ++ exprsPlaceholders es
def kvsPlaceholders : List (String × GoExpr) → List String
  | [] => []
  | (_, e) :: es => exprPlaceholders e ++ kvsPlaceholders es
end

def declCrash : GoDecl → Option String
  | .crash s => some s
  | .typeDef _ t | .alias _ t => tyCrash t
  | .const _ v => exprCrash v
  | .enumDef _ u ms => (tyCrash u).orElse fun _ => kvsCrash ms
  | .ctor _ _ b => exprCrash b
  | .placeholder _ => none

def declPlaceholders : GoDecl → List String
  | .placeholder t => [t]
  | .typeDef _ t | .alias _ t => tyPlaceholders t
  | .const _ v => exprPlaceholders v
  | .enumDef _ u ms => tyPlaceholders u ++ kvsPlaceholders ms
  | .ctor _ _ b => exprPlaceholders b
  | .crash _ => []

def declsPlaceholders : List GoDecl → List String
  | [] => []
  | d :: ds => declPlaceholders d ++ declsPlaceholders ds

def envPlaceholders : Env → List String
  | [] => []
  | (_, ds) :: rest => declsPlaceholders ds ++ envPlaceholders rest

def declsCrash : List GoDecl → Option String
  | [] => none
  | d :: ds => (declCrash d).orElse fun _ => declsCrash ds

def envCrash : Env → Option String
  | [] => none
  | (_, ds) :: rest => (declsCrash ds).orElse fun _ => envCrash rest

/-- `emitDecls`: the declarations of a run, or the panic of the printer -/
def emitDecls (cfg : Cfg) (ss : Schemas) : Outcome Env :=
  match envCrash (emitEnv cfg ss) with
  | some site => .panic site
  | none => .ok (emitEnv cfg ss)

end Cog.Sem.GoDecl
