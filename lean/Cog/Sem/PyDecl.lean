/-
  C02, Python declaration fragment: a transcription of what internal/jennies/python/{rawtypes,types,tools,
  imports}.go print FROM GO CODE (not templates) for one schema when `generate_json_marshaller` is off:
  the import block, `class X:` / `class X(enum.StrEnum):`, docstrings and comments, annotated members,
  enum members, module-level aliases / constants, and `__init__` (signature + assignments).
  (With the marshaller on, the same text is printed with `to_json` / `from_json` between the objects.)

  Core Lean only.  `xstrings.ToSnakeCase` (third-party, ~200 lines of word splitting) is a PARAMETER of the
  model (`Cfg.snake`): theorems hold for every such function; the driver instantiates it with an ASCII
  transcription and refuses other names.

  Not modelled (the renderer answers `.err "unmodelled: …"`, counted by the tie): struct objects that
  implement a variant, constant-reference FIELDS, reference fields whose default is a non-empty map
  (`extraDefaults`), custom template blocks (`object_<pkg>_<name>_custom_methods`, variants).
-/
import Cog.IR.Basic
import Cog.Passes.Str
import Cog.Builder.TyEq
import Cog.Sem.GoDeclRender
namespace Cog.Sem.PyDecl
open Cog Cog.IR Cog.OMap

structure Cfg where
  snake : String → String

/-- expression fragment: annotations and values -/
inductive PyE where
  | name (n : String)                        -- bare name (`int`, `None`, `unknown`, …)
  | attr (q n : String)                      -- `q.n`
  | attr2 (q o n : String)                   -- `q.o.n`, or `o.n` when q is empty (a class of the same module)
  | quoted (n : String)                      -- `'Foo'` (forward reference)
  | sub (head : PyE) (args : List PyE)       -- `head[a, b]`
  | lit (text : String) (ok : Bool)          -- `%#v` text; ok = it is a Python literal
  | listLit (xs : List PyE)
  | call (f : PyE)                           -- `f()`
  | raw (text : String)                      -- `{}` / `[]`
  | crefTy (text : String) (nullable : Bool) -- type of a constant reference: `str` / `int` / `unknown` (imports typing when nullable)
  | crash (site : String)
  deriving Inhabited

structure PyParam where
  name : String
  ann : PyE
  dflt : PyE                                  -- cog prints `= <default>` for EVERY parameter
  deriving Inhabited

inductive PyStmt where
  | assign (n : String) (e : PyE)            -- `self.n = e`
  | assignParam (n : String)                 -- `self.n = n`
  | assignOr (n : String) (e : PyE)          -- `self.n = n if n is not None else e`
  deriving Inhabited

structure PyField where
  comments : List String
  name : String
  ann : PyE
  deriving Inhabited

inductive PyDecl where
  | const (comments : List String) (name : String) (ann val : PyE)
  | alias (comments : List String) (name tyq : String) (ty : PyE)
  | enumCls (name enumq base : String) (comments : List String) (members : List (String × PyE))
  | cls (name : String) (comments : List String) (fields : List PyField) (params : List PyParam) (body : List PyStmt)
  | crash (site : String)
  deriving Inhabited

structure PyImport where
  pkg : String
  module : String
  deriving Inhabited

structure PyModule where
  pkg : String
  imports : List (String × PyImport)          -- alias ↦ statement, first-insertion order (orderedmap)
  decls : List PyDecl
  deriving Inhabited

/-! ## tools.go -/

def pyKeywords : List String :=
  ["False", "await", "else", "import", "pass", "None", "break", "except", "in", "raise",
   "True", "class", "finally", "is", "return", "and", "continue", "for", "lambda", "try",
   "as", "def", "from", "nonlocal", "while", "assert", "del", "global", "not", "with",
   "async", "elif", "if", "or", "yield"]

def pyBuiltinFns : List String :=
  ["abs", "aiter", "all", "anext", "any", "ascii", "bin", "bool", "breakpoint", "bytearray",
   "bytes", "callable", "chr", "classmethod", "compile", "complex", "delattr", "dict", "dir",
   "divmod", "enumerate", "eval", "exec", "filter", "float", "format", "frozenset", "getattr",
   "globals", "hasattr", "hash", "help", "hex", "id", "input", "int", "isinstance",
   "issubclass", "iter", "len", "list", "locals", "map", "max", "memoryview", "min", "next",
   "object", "oct", "open", "ord", "pow", "print", "property", "range", "repr", "reversed",
   "round", "set", "setattr", "slice", "sorted", "staticmethod", "str", "sum", "super",
   "tuple", "type", "vars", "zip", "__import__"]

/-- `strings.TrimLeft(name, "$_")` -/
def trimLeftDU (s : String) : String := String.ofList (s.toList.dropWhile (fun c => c == '$' || c == '_'))

def escapeIdent (n : String) : String :=
  if pyKeywords.contains n || pyBuiltinFns.contains n then n ++ "_val" else n

/-- `formatIdentifier` -/
def fmtIdent (cfg : Cfg) (n : String) : String := cfg.snake (escapeIdent (trimLeftDU n))

/-- `tools.UpperSnakeCase` (ASCII upper-casing) -/
def upperSnake (cfg : Cfg) (s : String) : String := String.ofList ((cfg.snake s).toList.map Char.toUpper)

/-- `formatObjectName` -/
def fmtObjName (n : String) : String := Passes.ucc n

/-- alias sanitizer of the import map -/
def noSlash (s : String) : String := String.ofList (s.toList.filter (· != '/'))

/-- what `importModule(alias = pkg, "..models", pkg)` returns inside schema `cur` -/
def modAlias (cur pkg : String) : String := if pkg == cur then "" else noSlash pkg
/-- what `importPkg(x, x)` returns inside schema `cur` (x = typing / enum) -/
def pkgAlias (cur x : String) : String := if x == cur then "" else x

def floatTextOk (r : String) : Bool :=
  !r.isEmpty && r.toList.all (fun c => c.isDigit || c == '.' || c == 'e' || c == 'E' || c == '+' || c == '-')
    && r.toList.any Char.isDigit && r != "+Inf" && r != "-Inf"

def asciiStr (s : String) : Bool := s.toList.all (fun c => c.toNat < 128)

/-- is the `%#v` text of this value a Python literal? -/
def sharpOk : Val → Bool
  | .int .. => true
  | .float _ r => floatTextOk r
  | .jnum s => asciiStr s
  | .str s => asciiStr s
  | _ => false

/-- `fmt.Sprintf("%#v", v)` -/
def sharpLit (v : Val) : PyE := .lit (GoDecl.renderExpr "" (GoDecl.sharpV v)) (sharpOk v)

mutual
/-- `formatValue` -/
def fmtValue : Val → PyE
  | .nil => .name "None"
  | .bool b => .name (if b then "True" else "False")
  | .list xs => .listLit (fmtValues xs)
  | v => sharpLit v
def fmtValues : List Val → List PyE
  | [] => []
  | v :: vs => fmtValue v :: fmtValues vs
end

/-! ## types.go -/

def scalarKindName (k : String) : String :=
  if k == "null" then "None" else if k == "any" then "object" else if k == "bytes" then "bytes"
  else if k == "string" then "str" else if k == "float32" || k == "float64" then "float"
  else if ["uint8", "uint16", "uint32", "uint64", "int8", "int16", "int32", "int64"].contains k then "int"
  else if k == "bool" then "bool" else k

def Val.isNil : Val → Bool | .nil => true | _ => false

def optWrap (cur : String) (m : Meta) (e : PyE) : PyE :=
  if m.nullable then .sub (.attr (pkgAlias cur "typing") "Optional") [e] else e

def fmtScalar (cur k : String) (v : Val) : PyE :=
  if Val.isNil v then .name (scalarKindName k)
  else .sub (.attr (pkgAlias cur "typing") "Literal") [fmtValue v]

def enumLits : List EnumVal → List PyE
  | [] => []
  | v :: vs => fmtValue v.value :: enumLits vs

/-- `formatConstantReference(def, false)` -/
def crefTypeText (ss : Schemas) (p n : String) : String :=
  match Schemas.locateObject ss p n with
  | some o => (match o.ty with
    | .enum (v :: _) _ => if v.kind == "string" then "str" else "int"
    | .enum [] _ => "<crash>"
    | _ => "unknown")
  | none => "unknown"

/-- `formatFullyQualifiedRef(def, true)` -/
def fmtRef (ss : Schemas) (cur p n : String) : PyE :=
  match Schemas.locateObject ss p n with
  | some { ty := .scalar k v _ m, .. } =>
    if !Val.isNil v then optWrap cur m (fmtScalar cur k v) else
      if modAlias cur p != "" then .attr (modAlias cur p) (fmtObjName n) else .quoted (fmtObjName n)
  | _ => if modAlias cur p != "" then .attr (modAlias cur p) (fmtObjName n) else .quoted (fmtObjName n)

mutual
/-- `formatType` (forBuilder = false) -/
def fmtTy (ss : Schemas) (cur : String) : Ty → PyE
  | .scalar k v _ m => optWrap cur m (fmtScalar cur k v)
  | .ref p n m => optWrap cur m (fmtRef ss cur p n)
  | .cref p n _ m => .crefTy (crefTypeText ss p n) m.nullable
  | .array e m => optWrap cur m (.sub (.name "list") [fmtTy ss cur e])
  | .map i v m => optWrap cur m (.sub (.name "dict") [fmtTy ss cur i, fmtTy ss cur v])
  | .struct _ _ _ m => optWrap cur m (.name "unknown")
  | .enum vs m => optWrap cur m (.sub (.attr (pkgAlias cur "typing") "Literal") (enumLits vs))
  | .disj bs _ m => optWrap cur m (.sub (.attr (pkgAlias cur "typing") "Union") (fmtTys ss cur bs))
  | .inter _ _ => .crash "formatting intersection type is not implemented for python"
  | .slot v m => optWrap cur m (.attr (if cur == "variants" then "" else "cogvariants") (Passes.ucc v))
  | .bad _ m => optWrap cur m (.name "unknown")
def fmtTys (ss : Schemas) (cur : String) : List Ty → List PyE
  | [] => []
  | t :: ts => fmtTy ss cur t :: fmtTys ss cur ts
end

/-! ## defaults (tools.go: defaultValueForType) -/

def hasNullBranch : List Ty → Bool
  | [] => false
  | .scalar k _ _ _ :: ts => k == "null" || hasNullBranch ts
  | _ :: ts => hasNullBranch ts

def scalarDefault (k : String) (v : Val) : Option PyE :=
  if !Val.isNil v then some (fmtValue v)
  else if k == "null" || k == "any" then none
  else if k == "bytes" || k == "string" then some (.lit "\"\"" true)
  else if k == "float32" || k == "float64" then some (.lit "0" true)
  else if ["uint8", "uint16", "uint32", "uint64", "int8", "int16", "int32", "int64"].contains k then some (.lit "0" true)
  else if k == "bool" then some (.name "False")
  else some (.lit "\"unknown\"" true)

def enumMemberFor (cfg : Cfg) (dflt : Val) : List EnumVal → Option String
  | [] => none
  | v :: vs => if Builder.valBeq v.value dflt && !Val.isNil dflt then some (upperSnake cfg v.name) else enumMemberFor cfg dflt vs

def qualified (q : String) (n : String) : PyE := if q == "" then .name n else .attr q n

/-- `defaultValueForType(schemas, t, importModule, nil)`; `none` = Go nil.  Fuel: a reference to a
    disjunction object continues with that object's type. -/
def dfltFor (cfg : Cfg) (ss : Schemas) (cur : String) : Nat → Ty → Option PyE
  | 0, _ => some (.crash "default: reference cycle")
  | fuel + 1, t =>
    match t with
    | .ref p n m =>
      (match Schemas.locateObject ss p n with
        | some { name := on, ty := .enum vs _, .. } =>
          (match vs with
            | [] => some (.crash "default: enum without values")
            | v0 :: _ =>
              let member := (enumMemberFor cfg m.dflt vs).getD (upperSnake cfg v0.name)
              some (.attr2 (modAlias cur p) (Passes.ucc on) member))
        | some { ty := .disj bs i dm, .. } => dfltFor cfg ss cur fuel (.disj bs i dm)
        | some { ty := .scalar _ v _ _, .. } =>
          if !Val.isNil v then some (qualified (modAlias cur p) (Passes.ucc n)) else some (.call (qualified (modAlias cur p) (Passes.ucc n)))
        | _ => some (.call (qualified (modAlias cur p) (Passes.ucc n))))
    | .disj bs _ m =>
      if !Val.isNil m.dflt then some (fmtValue m.dflt)
      else if hasNullBranch bs then none
      else (match bs with
        | [] => some (.crash "default: disjunction without branches")
        | b :: _ => dfltFor cfg ss cur fuel b)
    | .enum vs m =>
      if !Val.isNil m.dflt then some (fmtValue m.dflt)
      else (match vs with | [] => some (.crash "default: enum without values") | v :: _ => if Val.isNil v.value then none else some (fmtValue v.value))
    | .map _ _ m => if !Val.isNil m.dflt then some (fmtValue m.dflt) else some (.raw "{}")
    | .array _ m => if !Val.isNil m.dflt then some (fmtValue m.dflt) else some (.raw "[]")
    | .scalar k v _ m => if !Val.isNil m.dflt then some (fmtValue m.dflt) else scalarDefault k v
    | t => if !Val.isNil t.getMeta.dflt then some (fmtValue t.getMeta.dflt) else some (.lit "\"unknown\"" true)

def dfltFuel (ss : Schemas) : Nat := Schemas.objectCount ss + 2

/-! ## rawtypes.go -/

def enumMembers (cfg : Cfg) : List EnumVal → List (String × PyE)
  | [] => []
  | v :: vs => (upperSnake cfg v.name, sharpLit v.value) :: enumMembers cfg vs

def structFields (cfg : Cfg) (ss : Schemas) (cur : String) : List Field → List PyField
  | [] => []
  | f :: fs => { comments := f.comments, name := fmtIdent cfg f.name, ann := fmtTy ss cur f.ty } :: structFields cfg ss cur fs

def isConcrete : Ty → Bool
  | .scalar _ v _ _ => !Val.isNil v
  | _ => false

def isArgOptionalKind : Ty → Bool
  | .struct .. | .ref .. | .enum .. | .map .. | .array .. | .disj .. => true
  | _ => false

def isMapVal : Val → Bool | .map (_ :: _) => true | _ => false

/-- `self.n = n` when there is no default, else `self.n = n if n is not None else <default>` -/
def orStmt (n : String) : Option PyE → PyStmt
  | none => .assignParam n
  | some e => .assignOr n e

/-- one field of `generateInitMethod`: parameter (if any) and assignment -/
def initField (cfg : Cfg) (ss : Schemas) (cur : String) (f : Field) : Option PyParam × PyStmt :=
  let n := fmtIdent cfg f.name
  let t := fmtTy ss cur f.ty
  let m := f.ty.getMeta
  let d : Option PyE := if !m.nullable || !Val.isNil m.dflt then dfltFor cfg ss cur (dfltFuel ss) f.ty else none
  match f.ty with
  | .scalar _ v _ _ =>
    if !Val.isNil v then (none, .assign n (fmtValue v))
    else (some { name := n, ann := t, dflt := d.getD (.name "None") }, .assignParam n)
  | ty =>
    if isArgOptionalKind ty then
      (some { name := n, ann := if m.nullable then t else .sub (.attr (pkgAlias cur "typing") "Optional") [t], dflt := .name "None" },
       orStmt n d)
    else (some { name := n, ann := t, dflt := d.getD (.name "None") }, .assignParam n)

def initParams (cfg : Cfg) (ss : Schemas) (cur : String) : List Field → List PyParam
  | [] => []
  | f :: fs => (match (initField cfg ss cur f).1 with | some p => [p] | none => []) ++ initParams cfg ss cur fs

def initBody (cfg : Cfg) (ss : Schemas) (cur : String) : List Field → List PyStmt
  | [] => []
  | f :: fs => (initField cfg ss cur f).2 :: initBody cfg ss cur fs

def hasHint (m : Meta) (h : String) : Bool := m.hints.any (·.1 == h)

def unmodelledField (f : Field) : Option String :=
  match f.ty with
  | .cref .. => some "unmodelled: constant-reference field"
  | .ref _ _ m => if isMapVal m.dflt then some "unmodelled: reference field with a map default (extraDefaults)" else none
  | _ => none

def unmodelledFields : List Field → Option String
  | [] => none
  | f :: fs => (unmodelledField f).orElse fun _ => unmodelledFields fs

/-- `formatObject` + `generateInitMethod` -/
def objDecl (cfg : Cfg) (ss : Schemas) (cur : String) (o : Obj) : Outcome PyDecl :=
  let name := fmtObjName o.name
  match o.ty with
  | .scalar k v c m =>
    if !Val.isNil v then .ok (.const o.comments name (fmtTy ss cur (.scalar k v c m)) (fmtValue v))
    else .ok (.alias o.comments name (pkgAlias cur "typing") (fmtTy ss cur o.ty))
  | .enum vs _ =>
    (match vs with
      | [] => .panic "formatEnum: index out of range [0]"
      | v :: _ => .ok (.enumCls name (pkgAlias cur "enum") (if v.kind == "string" then "StrEnum" else "IntEnum") o.comments (enumMembers cfg vs)))
  | .struct fs _ _ m =>
    if hasHint m "implements_variant" then .err "unmodelled: struct implementing a variant"
    else match unmodelledFields fs with
      | some w => .err w
      | none => .ok (.cls name o.comments (structFields cfg ss cur fs) (initParams cfg ss cur fs) (initBody cfg ss cur fs))
  | t => .ok (.alias o.comments name (pkgAlias cur "typing") (fmtTy ss cur t))

def objDecls (cfg : Cfg) (ss : Schemas) (cur : String) : List (String × Obj) → Outcome (List PyDecl)
  | [] => .ok []
  | (_, o) :: os =>
    match objDecl cfg ss cur o with
    | .ok d => (match objDecls cfg ss cur os with | .ok ds => .ok (d :: ds) | .err e => .err e | .panic s => .panic s)
    | .err e => .err e
    | .panic s => .panic s

/-! ## crashes inside expressions -/

mutual
def exprCrash : PyE → Option String
  | .crash s => some s
  | .crefTy t _ => if t == "<crash>" then some "formatConstantReference: index out of range [0]" else none
  | .sub h as => (exprCrash h).orElse fun _ => exprsCrash as
  | .listLit xs => exprsCrash xs
  | .call f => exprCrash f
  | _ => none
def exprsCrash : List PyE → Option String
  | [] => none
  | e :: es => (exprCrash e).orElse fun _ => exprsCrash es
end

def stmtExpr : PyStmt → List PyE
  | .assign _ e | .assignOr _ e => [e]
  | .assignParam _ => []

def declExprs : PyDecl → List PyE
  | .const _ _ a v => [a, v]
  | .alias _ _ _ t => [t]
  | .enumCls _ _ _ _ ms => ms.map (·.2)
  | .cls _ _ fs ps b => fs.map (·.ann) ++ ps.flatMap (fun p => [p.ann, p.dflt]) ++ b.flatMap stmtExpr
  | .crash _ => []

def declsCrash : List PyDecl → Option String
  | [] => none
  | .crash s :: _ => some s
  | d :: ds => (exprsCrash (declExprs d)).orElse fun _ => declsCrash ds

/-! ## imports.go: the import map, in the order the printers register aliases -/

def importFor (a : String) : PyImport :=
  if a == "typing" || a == "enum" then { pkg := a, module := "" }
  else if a == "cogvariants" then { pkg := "..cog", module := "variants" }
  else { pkg := "..models", module := a }

mutual
/-- aliases in registration order (arguments are formatted before the wrapper asks for `typing`) -/
def exprAliases : PyE → List String
  | .name _ => []
  | .attr q _ => [q]
  | .attr2 q _ _ => if q == "" then [] else [q]
  | .quoted _ => []
  | .sub h as => exprsAliases as ++ exprAliases h
  | .lit .. => []
  | .listLit _ => []
  | .call f => exprAliases f
  | .raw _ => []
  | .crefTy _ n => if n then ["typing"] else []
  | .crash _ => []
def exprsAliases : List PyE → List String
  | [] => []
  | e :: es => exprAliases e ++ exprsAliases es
end

def fieldsAliases : List PyField → List String
  | [] => []
  | f :: fs => exprAliases f.ann ++ fieldsAliases fs

def stmtAliases : PyStmt → List String
  | .assign _ e | .assignOr _ e => exprAliases e
  | .assignParam _ => []

/-- per field of `__init__`: the default first, then the `Optional[…]` wrapper -/
def initAliases : List PyParam → List PyStmt → List String
  | ps, b => (b.flatMap stmtAliases) ++ (ps.flatMap fun p => exprAliases p.ann ++ exprAliases p.dflt)

def declAliases : PyDecl → List String
  | .const _ _ a v => exprAliases a ++ exprAliases v
  | .alias _ _ q t => [q] ++ exprAliases t
  | .enumCls _ q _ _ _ => [q]
  | .cls _ _ fs ps b => fieldsAliases fs ++ initAliases ps b
  | .crash _ => []

def declsAliases : List PyDecl → List String
  | [] => []
  | d :: ds => declAliases d ++ declsAliases ds

/-- `Imports.Set(alias, stmt)` for each registration (the empty alias = nothing registered) -/
def importsOf : List String → List (String × PyImport) → List (String × PyImport)
  | [], acc => acc
  | a :: as, acc => importsOf as (if a == "" then acc else rset a (importFor a) acc)

/-- `generateSchema` (marshaller off, no custom template blocks) -/
def pyDeclRender (cfg : Cfg) (ss : Schemas) (s : Schema) : Outcome PyModule :=
  match objDecls cfg ss s.pkg s.objects with
  | .err e => .err e
  | .panic p => .panic p
  | .ok ds =>
    match declsCrash ds with
    | some site => .panic site
    | none => .ok { pkg := s.pkg, imports := importsOf (declsAliases ds) [], decls := ds }

end Cog.Sem.PyDecl
