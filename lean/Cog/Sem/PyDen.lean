/-
  `pyDen n S t j`: documents on which the round trip of the generated Python is PROVED
  (Cog/Props/C11.lean).  Decidable and executable; same recursion scheme (fuel)
  as `pyFromJson`, so that the theorem is a direct induction.  Pass-through positions (scalars,
  enums, `any`, arrays/maps of scalars, unions without discriminator+mapping) admit every
  duplicate-free JSON value: the generated code does not look at them.

  Deliberately excluded (each a recorded finding or outside the model, see Props/C11.lean):
    * explicit `null` where `from_json` calls a decoder (struct, discriminated union, array / map
      of non-scalars): raises;
    * a member left out although `__init__` has a default for it (optional with default, constant):
      the default is emitted;
    * explicit `null` for a struct/ref/enum/map/array/union-kind field whose `__init__` replaces
      `None` by a default;
    * unknown / non-string / catch-all discriminators; composable slots;
    * a member pinned to an enum member (constant reference) whose document value is not the value of
      the member `MemberForValue` finds.

  `accepts` is the document language J⟦S,t⟧ of an IR type (closed structs, required members
  present, `null` only where nullable, constants equal, enum members, any branch of a union):
  what "a document the schema accepts" means in the full statement `C11_full`.
-/
import Cog.Sem.PyCodec
namespace Cog.Sem
open Cog.IR

def pyFieldOK (ss : Schemas) (d : Ty → Json → Bool) (members : List (String × Json)) (f : Field) : Bool :=
  match fixedValue ss f.ty with
  | some r =>
    -- a constant / a member pinned to an enum member is assigned by `__init__` and always emitted:
    -- the document must carry exactly that value
    match r, Json.lookup f.name members with
    | .ok pv, some v => !pv.isNone && Json.sub (pyToJson pv) v && Json.sub v (pyToJson pv)
    | _, _ => false
  | none =>
    !isSlot f.ty &&
    match Json.lookup f.name members with
    | some v => d f.ty v && (!v.isNull || !isRefLike f.ty || !needsDefault f.ty)
    | none => !f.required && !needsDefault f.ty

def pyDen : Nat → Schemas → Ty → Json → Bool
  | 0, _, _, _ => false
  | fuel + 1, ss, t, j =>
    match t with
    | .ref pkg name _ =>
      match Schemas.locateObject ss pkg name with
      | none => false
      | some o =>
        match o.ty with
        | .struct fields _ _ _ =>
          match j with
          | .obj members =>
            keysNodup members && namesNodup (fields.map (·.name)) &&
            members.all (fun kv => (fields.map (·.name)).contains kv.1) &&
            fields.all (pyFieldOK ss (pyDen fuel ss) members)
          | _ => false
        | other => pyDen fuel ss other j
    | .array e _ =>
      if e.isScalar then wfJson j
      else match j with
        | .arr xs => xs.all (pyDen fuel ss e)
        | _ => false
    | .map _ v _ =>
      if v.isScalar then wfJson j
      else match j with
        | .obj kvs => keysNodup kvs && kvs.all (fun kv => pyDen fuel ss v kv.2)
        | _ => false
    | .disj bs info _ =>
      if info.discriminator == "" || info.mapping.isEmpty then wfJson j
      else match j with
        | .obj members =>
          match Json.lookup info.discriminator members with
          | some (.str tag) =>
            tag != catchAll &&
            (match info.mapping.find? (fun kv => kv.1 == tag) with
             | some kv =>
               match branchPkg bs kv.2 with
               | some p => pyDen fuel ss (.ref p kv.2 {}) j
               | none => false
             | none => false)
          | _ => false
        | _ => false
    | .scalar .. => wfJson j
    | .enum .. => wfJson j
    | _ => false

/-! ### the document language of an IR type (for the full statement) -/

def valJsonEq (c : Val) (j : Json) : Bool :=
  match valToPy c with
  | some pv => Json.sub (pyToJson pv) j && Json.sub j (pyToJson pv)
  | none => false

def accepts : Nat → Schemas → Ty → Json → Bool
  | 0, _, _, _ => false
  | fuel + 1, ss, t, j =>
    (t.getMeta.nullable && j.isNull) ||
    match t with
    | .scalar kind v _ _ =>
      if !isNilVal v then valJsonEq v j
      else if kind = "any" then wfJson j
      else if kind = "null" then j.isNull
      else denScalar kind j
    | .ref pkg name _ =>
      match Schemas.locateObject ss pkg name with
      | none => false
      | some o =>
        match o.ty with
        | .struct fields _ _ _ =>
          match j with
          | .obj members =>
            keysNodup members && members.all (fun kv => (fields.map (·.name)).contains kv.1) &&
            fields.all (fun f => match Json.lookup f.name members with
              | some v => accepts fuel ss f.ty v
              | none => !f.required)
          | _ => false
        | other => accepts fuel ss other j
    | .array e _ =>
      match j with
      | .arr xs => xs.all (accepts fuel ss e)
      | _ => false
    | .map _ v _ =>
      match j with
      | .obj kvs => keysNodup kvs && kvs.all (fun kv => accepts fuel ss v kv.2)
      | _ => false
    | .enum vals _ => vals.any (fun ev => valJsonEq ev.value j)
    | .cref _ _ v _ => valJsonEq v j            -- pinned to one enum member: exactly that value
    | .disj bs _ _ => bs.any (fun b => accepts fuel ss b j)
    | _ => false

end Cog.Sem
