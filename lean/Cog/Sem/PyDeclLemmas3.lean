/-
  C02, Python declaration fragment — lemmas, part 3: what `declOk` implies (no crash marker, importable aliases),
  fields / parameters / body of a class by induction over the field list.
-/
import Cog.Sem.PyDeclLemmas2
namespace Cog.Sem.PyDecl
open Cog Cog.IR Cog.OMap

theorem exprsCrash_none : ∀ es : List PyE, (∀ e ∈ es, exprCrash e = none) → exprsCrash es = none
  | [], _ => by simp [exprsCrash]
  | e :: es, h => by
    simp [exprsCrash, h e (List.mem_cons_self ..), exprsCrash_none es (fun x hx => h x (List.mem_cons_of_mem _ hx))]

theorem lit_noCrash (e : PyE) (b : Bool) (h : (if b then isStrLit e else isIntLike e) = true) : exprCrash e = none := by
  cases e <;> cases b <;> simp_all [isStrLit, isIntLike, exprCrash]

def bodyOf : PyDecl → List PyStmt
  | .cls _ _ _ _ b => b
  | _ => []

theorem stmtOk_noCrash (st : PyStmt) (h : stmtOk st = true) : ∀ e ∈ stmtExpr st, exprCrash e = none := by
  cases st with
  | assign n e => simp only [stmtOk, Bool.and_eq_true] at h; simp [stmtExpr, synOk_noCrash e h.2]
  | assignOr n e => simp only [stmtOk, Bool.and_eq_true] at h; simp [stmtExpr, synOk_noCrash e h.2]
  | assignParam n => simp [stmtExpr]

/-- a declaration the checker accepts carries no crash marker -/
theorem declOk_noCrash (ss : Schemas) (d : PyDecl) (h : declOk ss d = true) :
    exprsCrash (declExprs d) = none ∧ (∀ s, d ≠ .crash s) := by
  cases d with
  | const cs n a v =>
    simp only [declOk, Bool.and_eq_true] at h
    refine ⟨exprsCrash_none _ ?_, by simp⟩
    intro e he; simp only [declExprs, List.mem_cons, List.not_mem_nil, or_false] at he
    rcases he with he | he <;> subst he
    · exact evalOk_noCrash ss _ h.1.2
    · exact evalOk_noCrash ss _ h.2
  | alias cs n q t =>
    simp only [declOk, Bool.and_eq_true] at h
    refine ⟨exprsCrash_none _ ?_, by simp⟩
    intro e he; simp only [declExprs, List.mem_singleton] at he; subst he
    exact evalOk_noCrash ss _ h.2
  | enumCls n q b cs ms =>
    simp only [declOk, Bool.and_eq_true, List.all_eq_true] at h
    refine ⟨exprsCrash_none _ ?_, by simp⟩
    intro e he; simp only [declExprs, List.mem_map] at he
    obtain ⟨kv, hkv, rfl⟩ := he
    have := h.2 kv hkv
    exact lit_noCrash kv.2 (b == "StrEnum") (by simpa using this)
  | cls n cs fs ps b =>
    simp only [declOk, Bool.and_eq_true, List.all_eq_true] at h
    refine ⟨exprsCrash_none _ ?_, by simp⟩
    intro e he
    simp only [declExprs, List.mem_append, List.mem_map, List.mem_flatMap, List.mem_cons, List.not_mem_nil, or_false] at he
    rcases he with (⟨f, hf, rfl⟩ | ⟨p, hp, he⟩) | ⟨st, hst, he⟩
    · have := h.1.1.1.1.2 f hf
      simp only [fieldOk, Bool.and_eq_true] at this
      exact evalOk_noCrash ss _ this.2
    · have := h.1.1.1.2 p hp
      simp only [paramOk, Bool.and_eq_true] at this
      rcases he with he | he <;> subst he
      · exact evalOk_noCrash ss _ this.1.2
      · exact evalOk_noCrash ss _ this.2
    · exact stmtOk_noCrash st (h.2 st hst) e he
  | crash s => simp [declOk] at h

theorem fieldsAliases_mem : ∀ (fs : List PyField) (a : String), a ∈ fieldsAliases fs → ∃ f ∈ fs, a ∈ exprAliases f.ann
  | [], a, h => by simp [fieldsAliases] at h
  | f :: fs, a, h => by
    simp only [fieldsAliases, List.mem_append] at h
    rcases h with h | h
    · exact ⟨f, List.mem_cons_self .., h⟩
    · obtain ⟨g, hg, hag⟩ := fieldsAliases_mem fs a h
      exact ⟨g, List.mem_cons_of_mem _ hg, hag⟩

/-- the aliases of an accepted declaration are importable, provided those of the (lazily evaluated) body are -/
theorem declOk_aliases (ss : Schemas) (d : PyDecl) (h : declOk ss d = true)
    (hb : ∀ st ∈ bodyOf d, ∀ a ∈ stmtAliases st, aliasOk ss a = true) :
    ∀ a ∈ declAliases d, aliasOk ss a = true := by
  cases d with
  | const cs n a v =>
    simp only [declOk, Bool.and_eq_true] at h
    intro x hx; simp only [declAliases, List.mem_append] at hx
    rcases hx with hx | hx
    · exact evalOk_aliases ss _ h.1.2 x hx
    · exact evalOk_aliases ss _ h.2 x hx
  | alias cs n q t =>
    simp only [declOk, Bool.and_eq_true, beq_iff_eq] at h
    intro x hx; simp only [declAliases, List.mem_append, List.mem_singleton] at hx
    rcases hx with hx | hx
    · rw [hx, h.1.2]; exact aliasOk_typing ss
    · exact evalOk_aliases ss _ h.2 x hx
  | enumCls n q b cs ms =>
    simp only [declOk, Bool.and_eq_true, beq_iff_eq] at h
    intro x hx; simp only [declAliases, List.mem_singleton] at hx
    rw [hx, h.1.1.1.1.1.1.2]; exact aliasOk_enum ss
  | cls n cs fs ps b =>
    simp only [declOk, Bool.and_eq_true, List.all_eq_true] at h
    intro x hx
    simp only [declAliases, initAliases, List.mem_append, List.mem_flatMap] at hx
    rcases hx with hx | ⟨st, hst, hx⟩ | ⟨p, hp, hx⟩
    · obtain ⟨f, hf, hxf⟩ := fieldsAliases_mem fs x hx
      have := h.1.1.1.1.2 f hf
      simp only [fieldOk, Bool.and_eq_true] at this
      exact evalOk_aliases ss _ this.2 x hxf
    · exact hb st hst x hx
    · have := h.1.1.1.2 p hp
      simp only [paramOk, Bool.and_eq_true] at this
      rcases hx with hx | hx
      · exact evalOk_aliases ss _ this.1.2 x hx
      · exact evalOk_aliases ss _ this.2 x hx
  | crash s => simp [declOk] at h

/-! ### the field list of a struct -/

def fieldNameOk (cfg : Cfg) (f : Field) : Bool := pyIdent (fmtIdent cfg f.name) && fmtIdent cfg f.name != "self"

theorem structFields_ok (cfg : Cfg) (ss : Schemas) (cur : String) (hc : cur ≠ "typing") :
    ∀ fs : List Field, fieldsPrintable cfg ss cur fs = true → fs.all (fieldNameOk cfg) = true →
      (structFields cfg ss cur fs).all (fieldOk ss) = true
  | [], _, _ => by simp [structFields]
  | f :: fs, h, hn => by
    simp only [fieldsPrintable, fieldPrintable, Bool.and_eq_true] at h
    simp only [List.all_cons, Bool.and_eq_true, fieldNameOk] at hn
    simp only [structFields, List.all_cons, Bool.and_eq_true, fieldOk]
    exact ⟨⟨⟨h.1.1.1.1, hn.1.1⟩, evalOk_fmtTy ss cur hc f.ty h.1.1.1.2⟩, structFields_ok cfg ss cur hc fs h.2 hn.2⟩

theorem fieldInit_stmtExprOk (cfg : Cfg) (ss : Schemas) (cur : String) (f : Field) (h : fieldInitOk cfg ss cur f = true) :
    stmtExprOk ss (initField cfg ss cur f).2 = true := by
  simp only [fieldInitOk, Bool.and_eq_true] at h
  have h2 := h.2
  cases hst : (initField cfg ss cur f).2 <;> simp_all [stmtExprOk]

theorem initBody_ok (cfg : Cfg) (ss : Schemas) (cur : String) :
    ∀ fs : List Field, fieldsPrintable cfg ss cur fs = true → fs.all (fieldNameOk cfg) = true →
      (initBody cfg ss cur fs).all stmtOk = true ∧
      (∀ st ∈ initBody cfg ss cur fs, ∀ a ∈ stmtAliases st, aliasOk ss a = true)
  | [], _, _ => by simp [initBody]
  | f :: fs, h, hn => by
    simp only [fieldsPrintable, fieldPrintable, Bool.and_eq_true] at h
    simp only [List.all_cons, Bool.and_eq_true, fieldNameOk] at hn
    have ih := initBody_ok cfg ss cur fs h.2 hn.2
    have he := fieldInit_stmtExprOk cfg ss cur f h.1.2
    have hname : pyIdent (stmtName (initField cfg ss cur f).2) = true := by
      rw [initField_stmtName]; exact hn.1.1
    refine ⟨?_, ?_⟩
    · simp only [initBody, List.all_cons, Bool.and_eq_true]
      exact ⟨stmtOk_of ss _ hname he, ih.1⟩
    · intro st hst
      simp only [initBody, List.mem_cons] at hst
      rcases hst with hst | hst
      · subst hst; exact stmt_aliases ss _ he
      · exact ih.2 st hst

theorem initParams_ok (cfg : Cfg) (ss : Schemas) (cur : String) (hc : cur ≠ "typing") :
    ∀ fs : List Field, fieldsPrintable cfg ss cur fs = true → fs.all (fieldNameOk cfg) = true →
      (initParams cfg ss cur fs).all (paramOk ss) = true ∧
      (initParams cfg ss cur fs).map (·.name) = paramNames cfg fs
  | [], _, _ => by simp [initParams, paramNames]
  | f :: fs, h, hn => by
    simp only [fieldsPrintable, fieldPrintable, Bool.and_eq_true] at h
    simp only [List.all_cons, Bool.and_eq_true, fieldNameOk] at hn
    have ih := initParams_ok cfg ss cur hc fs h.2 hn.2
    have ht := evalOk_fmtTy ss cur hc f.ty h.1.1.1.2
    have hnone := initField_none cfg ss cur f
    have hd := h.1.2
    simp only [fieldInitOk, Bool.and_eq_true] at hd
    cases hp : (initField cfg ss cur f).1 with
    | none =>
      have hcnc : isConcrete f.ty = true := by rw [← hnone, hp]; rfl
      simp only [initParams, hp, paramNames, hcnc, if_true, List.nil_append]
      exact ih
    | some p =>
      have hcnc : isConcrete f.ty = false := by rw [← hnone, hp]; rfl
      obtain ⟨hpn, hpa⟩ := initField_param cfg ss cur hc f ht p hp
      have hpd : evalOk ss p.dflt = true := by have := hd.1; rw [hp] at this; exact this
      simp only [initParams, hp, paramNames, hcnc, List.cons_append, List.nil_append, List.all_cons, List.map_cons,
        Bool.and_eq_true, paramOk, Bool.false_eq_true, if_false]
      refine ⟨⟨⟨⟨⟨by rw [hpn]; exact hn.1.1, by rw [hpn]; exact hn.1.2⟩, hpa⟩, hpd⟩, ih.1⟩, ?_⟩
      rw [hpn, ih.2]

end Cog.Sem.PyDecl
